(* Semantics of the two rewrites of ngo/unused.py that CHANGE atoms (the deletion of unused rules is Link/UnusedSem.v):

     project_unused        p/n ~> q/k : argument positions of p that no body ever reads are dropped
     remove_single_copies  a(X1..Xn) :- b(X1..Xn).  is deleted and a is replaced by b

   ------------------------------------------------------------------------------------------------------------
   A. PROJECTION (sections 0-7, 9-12, 14).   pn/|m| is the predicate, the mask m says which positions are kept,
      qn/(kcount m) is the new predicate (ngo: same name, smaller arity, or a fresh name), tr_prog = what `transform`
      does to every SymbolicAtom.  [prj T] = T with every p-atom replaced by its projection.

      THE STATEMENT THAT IS TRUE.  The projection is a BIJECTION between answer sets (project_position_sound):
          (A) stable P I T            ->  stable (tr_prog P) I (prj T)                         proj_fwd
          (B) stable (tr_prog P) I T' ->  exists T, stable P I T /\ same (prj T) T'            proj_bwd  (T = lift P T')
          (C) stable P I T1, T2, same (prj T1) (prj T2)  ->  same T1 T2                         proj_inj
      hence project_position_equiv_out (Sat.equiv_out for every OUT without p-, q-atoms: property C09) and
      project_position_equiv_cost (Cost.equiv_cost: the tuples of #minimize / weak constraints that read p are kept,
      proj_cost).  One-to-one holds BECAUSE p is defined by plain rules only: its dropped arguments are then
      determined by the rest of the answer set (supportedness, hlit_supported).  It FAILS for a predicate defined by a
      choice:  {p(X,Y)} :- d(X,Y).  q(X) :- p(X,Z).  has two answer sets that differ only in the unread argument and
      collapse under prj (ChoiceExample.choice_projection_many_to_one) -- and ngo does NOT project such predicates: the
      atoms of choice and disjunction heads count as uses of all their positions (ChoiceExample.exC_model: the model
      returns the program unchanged; clingo agrees).  So for the real pass the correspondence is one-to-one.

      HYPOTHESES (ok_prog, a decidable check, plus the instance I over predicates other than p, q, plus q <> p):
        * every occurrence of p outside heads is a POSITIVE literal -- a top-level body literal, or in the condition of
          a body-aggregate element / of a conditional literal / of an element of an unbounded choice head, or in the body
          of a #minimize / weak constraint -- whose dropped positions hold pairwise distinct VARIABLES that occur nowhere
          else in their scope (readable + the disj-tests of ok_cond / ok_body; scope = the whole rule for a top-level
          literal; the condition + the global variables + the tuple / guarded literal for a local one).  This is implied
          by "the variable occurs exactly once in the statement", the criterion of _anonymize_variables; the NAME of the
          variable is irrelevant, so a statement with ONE `_` is covered as it stands, and a statement with several `_`
          is covered after giving them distinct fresh names (which is gringo's reading; Sem/Sat.v reads TVar "_" as one
          ordinary variable).  Needed: read_position_refuted -- a dropped position whose variable occurs a second time:
          p(X,Y) :- d(X,Y). q(X) :- p(X,Y), e(Y).  gains q(1) on d(1,1). e(2).
        * p occurs in heads only as a plain head p(t1..tn) (HLit NoSign) whose dropped terms always evaluate (head_def:
          variables, constants, function terms; ngo's exline_arithmetic moves arithmetic into the body first).  All other
          heads do not mention p, q at all, except that conditions of unbounded choices may read p.
          Needed: Findings.negated_head_refuted (a head `not p(X,Y)` reads p; ngo projects it nevertheless -- a DEFECT
          of the real pass, see D below); an interval at a dropped head position (D below).
        * the last conjunct of ok_rule / ok_min (a global variable that survives in the projected rule is still global
          there) holds for every safe rule.
      Not covered: p under negation is covered in its gringo reading only (next paragraph); `p(X,_) : c(X)` as the
      HEAD of a conditional literal (gringo projects the `_`; Sat.v would read it universally); old-style aggregates
      (no meaning in Sem/Sat.v; tr_atom leaves them alone); bounded choices / disjunctions / head aggregates whose
      CONDITIONS read p (satisfaction transfers, core_head would go through, but supportedness of p through such a
      head fails in Sat.v's reading of conditions).

      NEGATED occurrences `not p(t,_)`, `not not p(t,_)` (section 14, project_negated_sound).  gringo reads them as
      `not r(t)` with the projection rule  r(Xkept) :- p(X1..Xn).  Sat.v cannot express that with a variable (a
      singleton variable under `not` is universally quantified over the whole rule), so the source is written with r.
      Then A turns the projection rule into the copy rule  r(Xkept) :- q(Xkept)  and B below removes it: the result is
      exactly what ngo prints (`not q(t)`).  So `not not p(X,_)` is NOT a read of the dropped position.

   B. COPY RULES (section 13).  copy_rule_shortcut_sound: for D = a(xs) :- b(xs) (xs distinct variables), D the only rule
      with a/n in a head, a/n not in the instance: replacing a by b in every body atom and deleting D is a conservative
      extension (Sat.cons_ext: the answer sets correspond one-to-one, forgetting the a-atoms), PROVIDED a occurs only
      under negation (at any depth) or as a positive top-level body literal (mstmt).  Without that restriction one
      direction is proved (copy_rule_shortcut_fwd: no answer set is lost); the other direction needs a model H that
      is "exact" on a, and shrinking H is not sound inside aggregates / conditions.
      Refutations of the recorded defects: Findings.copy_chain_refuted (chains a :- b. b :- c. short-circuited in one pass),
      InlineSem.Refutations.repeated_head_variable_refuted (a(X,X) :- b(X,Y)), Findings.copy_rule_double_negation_refuted
      (`memo :- not not ok.` is not a copy rule: the seeded change C09-m2).

   C. THE MODEL (Model/UnusedExecute.v, by vm_compute): ModelExamples.exA_pass_sound, exR_pass_sound (reads in an
      aggregate, a conditional literal, a choice condition), exM_pass_sound (weak constraint, equiv_cost),
      CopyExample.exCp_pass_sound (copy rule with a negated use), NegatedExample.negated_instance.  The model's output
      differs from tr_prog only by a later round of the loop that anonymises a variable (d(X,Y) ~> d(X,_)): simple_rule_ren.

   D. DEFECTS of the real pass found here (replayed with clingo, vlib/asp_oracle.semantic_check mode out+in):
        not p(X,Y) :- d(X,Y). p(X,Y) :- e(X,Y). q(X) :- p(X,_).     in d/2 e/2, out q/1, instance d(1,2). e(1,1).
            -> not p(X) :- d(X,_). p(X) :- e(X,_). q(X) :- p(X).     1 answer set before, 0 after   (negated_head_refuted)
        p(X,1..Y) :- e(X,Y). q(X) :- p(X,_).                         in e/2, out q/1, instance e(1,0).
            -> p(X) :- e(X,_). q(X) :- p(X).                          {e(1,0)} before, {e(1,0), q(1)} after
            (the empty interval derives no p-atom; not expressible in Sem/Sym.v, which gives intervals no value)

   Only assumption: Classical_Prop.classic, in project_position_sound and its corollaries (supportedness, the enumeration of a choice),
   in copy_rule_shortcut_sound (through InlineSem.stable_defd) and in ChoiceExample; the refutations of sections 10, 11
   are axiom-free. *)
From Coq Require Import List String ZArith Bool Classical Arith Lia.
From NGO Require Import Syntax.Ast Sem.Sym Sem.Sat Link.Equiv Link.AggSem Link.NormalizeSpec Link.SubstSpec Link.InlineSem.
From NGO Require Link.MinMaxSem Link.ChainSem Link.CleanupSpec Link.TraverseSpec Link.SymmetrySem Link.ProjectionSem Link.DuplicationSem Model.Normalize
     Model.Unused Model.UnusedExecute.
Import ListNotations.
Open Scope string_scope. Open Scope list_scope.

(* ================================================================================================ *)
(* 0. Selecting positions; small list facts                                                         *)
(* ================================================================================================ *)
Section Sel.
Context {A: Type}.
(* keep the positions whose mask bit is true *)
Fixpoint sel (m: list bool) (l: list A) : list A :=
  match m, l with
  | b :: m', x :: l' => if b then x :: sel m' l' else sel m' l'
  | _, _ => []
  end.
Lemma sel_nil_l l : sel [] l = []. Proof. reflexivity. Qed.
Lemma sel_nil_r m : sel m [] = []. Proof. destruct m; reflexivity. Qed.
Lemma sel_in m : forall l x, In x (sel m l) -> In x l.
Proof.
  induction m as [|b m IH]; intros l x Hx; [destruct Hx|]. destruct l as [|y l]; [destruct Hx|].
  simpl in Hx. destruct b; [destruct Hx as [->|Hx]; [left; reflexivity|]|]; right; apply IH; exact Hx.
Qed.
End Sel.

Definition kcount (m: list bool) : nat := List.length (filter (fun b: bool => b) m).
Lemma sel_length {A} m : forall (l: list A), List.length l = List.length m -> List.length (sel m l) = kcount m.
Proof.
  induction m as [|b m IH]; intros l E; [reflexivity|]. destruct l as [|x l]; [discriminate|].
  injection E as E. unfold kcount. simpl. destruct b; simpl; rewrite (IH l E); reflexivity.
Qed.
Lemma sel_map {A B} (f: A -> B) m : forall l, sel m (map f l) = map f (sel m l).
Proof.
  induction m as [|b m IH]; intros l; [reflexivity|]. destruct l as [|x l]; [reflexivity|].
  simpl. destruct b; simpl; rewrite IH; reflexivity.
Qed.

Definition sin (x: string) (l: list string) : bool := existsb (String.eqb x) l.
Lemma sin_true x l : sin x l = true <-> In x l.
Proof.
  unfold sin. rewrite existsb_exists. split.
  - intros [y [Hy E]]. apply String.eqb_eq in E. subst. exact Hy.
  - intro H. exists x. split; [exact H | apply String.eqb_refl].
Qed.
Lemma sin_false x l : sin x l = false <-> ~ In x l.
Proof. rewrite <- sin_true. destruct (sin x l); split; intro; congruence. Qed.
(* no member of a is a member of b *)
Definition disj (a b: list string) : bool := forallb (fun x => negb (sin x b)) a.
Lemma disj_spec a b : disj a b = true <-> forall x, In x a -> ~ In x b.
Proof.
  unfold disj. rewrite forallb_forall. split; intros H x Hx.
  - apply sin_false. apply negb_true_iff. apply H. exact Hx.
  - apply negb_true_iff. apply sin_false. apply H. exact Hx.
Qed.

Lemma eval_list_sel s m : forall args vs, eval_list s args = Some vs -> eval_list s (sel m args) = Some (sel m vs).
Proof.
  induction m as [|b m IH]; intros args vs E; [reflexivity|].
  destruct args as [|a args]; simpl in E.
  - injection E as <-. reflexivity.
  - destruct (eval s a) as [v|] eqn:Ea; [|discriminate]. destruct (eval_list s args) as [ws|] eqn:El; [|discriminate].
    injection E as <-. simpl. destruct b; simpl; rewrite ?Ea, (IH _ _ El); reflexivity.
Qed.
Lemma vars_sel m : forall (args: list term) x, In x (flat_map vars_term (sel m args)) -> In x (flat_map vars_term args).
Proof.
  intros args x Hx. apply in_flat_map in Hx. destruct Hx as [t [Ht Hx]]. apply in_flat_map. exists t.
  split; [exact (sel_in m args t Ht) | exact Hx].
Qed.

(* ================================================================================================ *)
(* 1. Reading an atom whose dropped positions hold distinct variables that occur nowhere else       *)
(* ================================================================================================ *)
(* the variables at the dropped positions *)
Fixpoint dvars (m: list bool) (args: list term) : list string :=
  match m, args with
  | b :: m', a :: args' => (if b then [] else vars_term a) ++ dvars m' args'
  | _, _ => []
  end.
(* same length; every dropped position holds a variable that occurs at no other position *)
Fixpoint readable (m: list bool) (args: list term) : bool :=
  match m, args with
  | [], [] => true
  | true :: m', a :: args' => disj (dvars m' args') (vars_term a) && readable m' args'
  | false :: m', TVar y :: args' => negb (sin y (flat_map vars_term args')) && readable m' args'
  | _, _ => false
  end.
(* bind the dropped variables to the values found at their positions *)
Fixpoint updm (s: subst) (m: list bool) (args: list term) (v: list sym) : subst :=
  match m, args, v with
  | b :: m', a :: args', w :: v' =>
      if b then updm s m' args' v'
      else match a with TVar y => upd (updm s m' args' v') y w | _ => updm s m' args' v' end
  | _, _, _ => s
  end.

Lemma readable_length m : forall args, readable m args = true -> List.length args = List.length m.
Proof.
  induction m as [|b m IH]; intros args R.
  - destruct args; [reflexivity|discriminate].
  - destruct args as [|a args]; [destruct b; discriminate|]. simpl. f_equal. apply IH.
    destruct b; simpl in R.
    + apply andb_true_iff in R. exact (proj2 R).
    + destruct a; try discriminate R. apply andb_true_iff in R. exact (proj2 R).
Qed.
Lemma dvars_in_args m : forall args x, In x (dvars m args) -> In x (flat_map vars_term args).
Proof.
  induction m as [|b m IH]; intros args x Hx; [destruct Hx|]. destruct args as [|a args]; [destruct Hx|].
  simpl in Hx. simpl. apply in_app_iff in Hx. apply in_app_iff. destruct Hx as [Hx|Hx].
  - destruct b; [destruct Hx | left; exact Hx].
  - right. apply IH. exact Hx.
Qed.
(* a dropped variable is not a variable of a kept argument *)
Lemma dvars_not_sel m : forall args x, readable m args = true -> In x (dvars m args) -> ~ In x (flat_map vars_term (sel m args)).
Proof.
  induction m as [|b m IH]; intros args x R Hx; [destruct Hx|]. destruct args as [|a args]; [destruct Hx|].
  simpl in Hx. destruct b; simpl in R |- *.
  - apply andb_true_iff in R. destruct R as [D R]. simpl in Hx. intro Hin. apply in_app_iff in Hin. destruct Hin as [Hin|Hin].
    + exact (proj1 (disj_spec _ _) D x Hx Hin).
    + exact (IH args x R Hx Hin).
  - destruct a as [y| | | | | |]; try discriminate R. apply andb_true_iff in R. destruct R as [N R].
    apply negb_true_iff in N. apply sin_false in N. simpl in Hx. destruct Hx as [<-|Hx].
    + intro Hin. apply N. apply (vars_sel m). exact Hin.
    + apply IH; assumption.
Qed.

Lemma updm_other s m : forall args v x, ~ In x (dvars m args) -> updm s m args v x = s x.
Proof.
  induction m as [|b m IH]; intros args v x N; [reflexivity|].
  destruct args as [|a args]; [reflexivity|]. destruct v as [|w v]; [reflexivity|].
  simpl in N. simpl. destruct b.
  - apply IH. exact N.
  - assert (N2: ~ In x (dvars m args)) by (intro Hx; apply N; apply in_app_iff; right; exact Hx).
    destruct a as [y| | | | | |]; try (apply IH; exact N2).
    rewrite upd_other; [apply IH; exact N2|]. intros ->. apply N. left. reflexivity.
Qed.

Lemma updm_eval s m : forall args v, readable m args = true -> List.length v = List.length m ->
  eval_list s (sel m args) = Some (sel m v) -> eval_list (updm s m args v) args = Some v.
Proof.
  induction m as [|b m IH]; intros args v R L E.
  - destruct args; [|discriminate]. destruct v; [reflexivity|discriminate].
  - destruct args as [|a args]; [destruct b; discriminate|]. destruct v as [|w v]; [discriminate|].
    injection L as L. destruct b; simpl in R.
    + apply andb_true_iff in R. destruct R as [D R]. simpl in E.
      destruct (eval s a) as [w0|] eqn:Ea; [|discriminate]. destruct (eval_list s (sel m args)) as [ws|] eqn:El; [|discriminate].
      injection E as -> ->. simpl.
      assert (Ea': eval (updm s m args v) a = Some w).
      { rewrite <- Ea. apply eval_coincide. intros x Hx. apply updm_other. intro Hd.
        exact (proj1 (disj_spec _ _) D x Hd Hx). }
      rewrite Ea', (IH args v R L El). reflexivity.
    + destruct a as [y| | | | | |]; try discriminate R. apply andb_true_iff in R. destruct R as [N R].
      apply negb_true_iff in N. apply sin_false in N. simpl in E. simpl. rewrite upd_same.
      assert (El: eval_list (upd (updm s m args v) y w) args = Some v).
      { rewrite <- (IH args v R L E). apply eval_list_coincide. intros x Hx. apply upd_other. intros ->. exact (N Hx). }
      rewrite El. reflexivity.
Qed.

(* ================================================================================================ *)
(* 1b. Monotonicity of "mentions only predicates of K"; supportedness for a predicate defined by    *)
(*     plain rules                                                                                  *)
(* ================================================================================================ *)
Section Mono.
Variables K1 K2 : pred -> bool.
Hypothesis K12 : forall r, K1 r = true -> K2 r = true.
Lemma term_in_mono : forall t, term_in K1 t = true -> term_in K2 t = true.
Proof.
  induction t as [x|c|o t IHt|o l IHl r IHr|l IHl r IHr|f args e|alts]; simpl; intro A; try reflexivity; try discriminate A.
  - destruct c; try reflexivity. apply K12. exact A.
  - destruct o; try reflexivity. apply IHt. exact A.
  - apply K12. exact A.
Qed.
Lemma lit_in_mono : forall l, lit_in K1 l = true -> lit_in K2 l = true.
Proof.
  apply (TraverseSpec.lit_ind' (fun l => lit_in K1 l = true -> lit_in K2 l = true)); try (intros; reflexivity).
  - intros sg t A. exact (term_in_mono t A).
  - intros sg lg f es rg IH A.
    change (forallb (fun e: list term * list lit => forallb (lit_in K1) (snd e)) es = true) in A.
    change (forallb (fun e: list term * list lit => forallb (lit_in K2) (snd e)) es = true).
    rewrite forallb_forall in *. rewrite Forall_forall in IH. intros e He. specialize (A e He). specialize (IH e He).
    rewrite forallb_forall in *. rewrite Forall_forall in IH. intros c Hc. exact (IH c Hc (A c Hc)).
Qed.
Lemma lits_in_mono cs : lits_in K1 cs = true -> lits_in K2 cs = true.
Proof. unfold lits_in. rewrite !forallb_forall. intros A c Hc. exact (lit_in_mono c (A c Hc)). Qed.
Lemma condlit_in_mono c : condlit_in K1 c = true -> condlit_in K2 c = true.
Proof. unfold condlit_in. rewrite !andb_true_iff. intros [A B]. split; [exact (lit_in_mono _ A) | exact (lits_in_mono _ B)]. Qed.
Lemma head_in_mono h : head_in K1 h = true -> head_in K2 h = true.
Proof.
  destruct h as [l|es|lg es rg|lg f es rg|tx]; simpl; try reflexivity.
  - apply lit_in_mono.
  - rewrite !forallb_forall. intros A c Hc. exact (condlit_in_mono c (A c Hc)).
  - rewrite !forallb_forall. intros A c Hc. exact (condlit_in_mono c (A c Hc)).
  - rewrite !forallb_forall. intros A c Hc. exact (condlit_in_mono _ (A c Hc)).
Qed.
End Mono.

Section Support.
Variable sym_lt : sym -> sym -> Prop.
Notation lit_sat := (Sat.lit_sat sym_lt).
Notation lits_sat := (Sat.lits_sat sym_lt).
Notation body_sat := (Sat.body_sat sym_lt).
Notation head_sat := (Sat.head_sat sym_lt).
Notation stmt_sat := (Sat.stmt_sat sym_lt).
Notation prog_sat := (Sat.prog_sat sym_lt).
Notation stable := (Sat.stable sym_lt).

(* a sub-set of an enumerated set can be enumerated (classically) *)
Lemma enum_sub (S S': tupset) l : enumerates S l -> (forall tv, S' tv -> S tv) -> exists l', enumerates S' l'.
Proof.
  intros [ND E] Sub.
  assert (F: forall l0: list (list sym), NoDup l0 -> exists l', NoDup l' /\ forall tv, In tv l' <-> (In tv l0 /\ S' tv)).
  { induction l0 as [|x l0 IH]; intro N.
    - exists []. split; [constructor|]. intro tv. simpl. tauto.
    - inversion N as [|x0 l1 Nx N0]; subst. destruct (IH N0) as [l' [N' E']].
      destruct (classic (S' x)) as [Sx|Sx].
      + exists (x :: l'). split.
        * constructor; [|exact N']. intro Hx. apply Nx. exact (proj1 (proj1 (E' x) Hx)).
        * intro tv. simpl. rewrite (E' tv). split; [intros [<-|[A B]]; auto | intros [[<-|A] B]; auto].
      + exists l'. split; [exact N'|]. intro tv. simpl. rewrite (E' tv). split; [intros [A B]; auto|].
        intros [[<-|A] B]; [contradiction | auto]. }
  destruct (F l ND) as [l' [N' E']]. exists l'. split; [exact N'|]. intro tv. rewrite (E' tv). rewrite (E tv).
  split; [tauto|]. intro A. split; [exact (Sub tv A) | exact A].
Qed.

Variables (f: string) (ar: nat).
Notation fa := (f, ar).
Definition defines (st: stmt) : Prop :=
  exists line ts e B, st = SRule line (HLit (Lit NoSign (ASym (TFun f ts e)))) B /\ List.length ts = ar.
Definition free_choice (st: stmt) : Prop :=
  exists line es B, st = SRule line (HAgg None es None) B /\ forall c, In c es -> lit_in (notp fa) (fst c) = true.

(* SUPPORTEDNESS for f/ar when every statement either is a plain rule with head f(ts), or has a head that does not
   mention f/ar, or is an unbounded choice whose element atoms are not f/ar-atoms (its conditions may mention f/ar) *)
Theorem hlit_supported P I T :
  stable P I T ->
  (forall st, In st P -> defines st \/ stmt_head_in (notp fa) st = true \/ free_choice st) ->
  facts_over (fun r => r <> fa) I ->
  forall vs, List.length vs = ar -> T (f, vs) ->
  exists line ts e B s, In (SRule line (HLit (Lit NoSign (ASym (TFun f ts e)))) B) P /\ eval_list s ts = Some vs /\
     body_sat (gvars_rule (HLit (Lit NoSign (ASym (TFun f ts e)))) B) T T s B.
Proof.
  intros [[PT FT] Min] Shape FO vs Len Tv. apply NNPP. intro Hno.
  set (H := fun b : gatom => T b /\ b <> (f, vs)).
  assert (S: subi H T) by (intros b [Tb _]; exact Tb).
  assert (AK: agreeK (notp fa) T H).
  { intros a Ka. apply notp_true in Ka. unfold H. split; [|tauto]. intro Ta. split; [exact Ta|].
    intros ->. apply Ka. unfold gpred. simpl. rewrite Len. reflexivity. }
  assert (PS: prog_sat H T P).
  { intros st Hin. pose proof (PT _ Hin) as M. destruct (Shape st Hin) as [Df|[Hd|Fc]].
    - destruct Df as (line & ts & e & B & -> & Lts). simpl in M |- *. intro s. destruct (M s) as [_ MT]. split; [|exact MT].
      intro Bs. pose proof (ChainSem.body_sat_persist sym_lt _ H T s B S Bs) as BT. specialize (MT BT).
      set (G := gvars_rule (HLit (Lit NoSign (ASym (TFun f ts e)))) B) in *.
      destruct (proj1 (ChainSem.lit_sat_fun sym_lt G T T s NoSign f ts e) MT) as [ws [E Tw]]. simpl in Tw.
      apply (proj2 (ChainSem.lit_sat_fun sym_lt G H T s NoSign f ts e)). exists ws. split; [exact E|]. simpl. split; [exact Tw|].
      intro Eq. injection Eq as ->. apply Hno. exists line, ts, e, B, s. split; [exact Hin|]. split; [exact E | exact BT].
    - exact (head_in_sat_lift sym_lt (notp fa) H T st Hd S AK M).
    - destruct Fc as (line & es & B & -> & Fl). simpl in M |- *. intro s. destruct (M s) as [_ MT]. split; [|exact MT].
      intro Bs. pose proof (ChainSem.body_sat_persist sym_lt _ H T s B S Bs) as BT. destruct (MT BT) as (Ce & CT).
      set (G := vars_oguard None ++ vars_oguard None ++ flat_map gvars_bodyelem B) in *.
      split; [|exact CT].
      + intros c th Hc Ag Cs. destruct (classic (lit_sat G T T th (fst c))) as [Y|N]; [left|right; exact N].
        apply (lit_sat_in sym_lt (notp fa) G T H T T th (fst c) (Fl c Hc) AK (agreeK_refl _ T)). exact Y. }
  assert (FH: facts_sat H I).
  { intros x Hx. split; [apply FT; exact Hx|]. intros ->. apply (FO _ Hx). simpl. rewrite Len. reflexivity. }
  destruct (Min H S PS FH (f, vs) Tv) as [_ Ne]. apply Ne. reflexivity.
Qed.
End Support.

(* ================================================================================================ *)
(* 2. The translation p/n ~> q/k and the relation between interpretations                           *)
(* ================================================================================================ *)
Section Project.
Variable sym_lt : sym -> sym -> Prop.
Variables (pn: string) (m: list bool) (qn: string).     (* p = pn/|m|, mask m: true = kept;  q = qn/(number of kept) *)
Notation n := (List.length m).
Notation k := (kcount m).
Notation lit_sat := (Sat.lit_sat sym_lt).
Notation atom_sat := (Sat.atom_sat sym_lt).
Notation lits_sat := (Sat.lits_sat sym_lt).
Notation bodyelem_sat := (Sat.bodyelem_sat sym_lt).
Notation body_sat := (Sat.body_sat sym_lt).
Notation head_sat := (Sat.head_sat sym_lt).
Notation rule_sat := (Sat.rule_sat sym_lt).
Notation stmt_sat := (Sat.stmt_sat sym_lt).
Notation prog_sat := (Sat.prog_sat sym_lt).
Notation stable := (Sat.stable sym_lt).
Notation agg_holds := (Sat.agg_holds sym_lt).
Notation elems_tuples := (AggSem.elems_tuples sym_lt).

(* every predicate except p and q *)
Definition K : pred -> bool := fun r => negb (pred_eqb r (pn, n)) && negb (pred_eqb r (qn, k)).

Definition is_pfun (f: string) (args: list term) : bool := String.eqb f pn && Nat.eqb (List.length args) n.
Definition tr_term (t: term) : term :=
  match t with TFun f args e => if is_pfun f args then TFun qn (sel m args) e else t | _ => t end.
(* what ngo's `transform` does to every SymbolicAtom of the statement *)
Fixpoint tr_atom (a: atom) : atom :=
  match a with
  | ASym t => ASym (tr_term t)
  | ABodyAgg lg f es rg => ABodyAgg lg f (map (fun e => (fst e, map tr_lit (snd e))) es) rg
  | _ => a      (* old-style aggregates have no meaning in Sem/Sat.v (they are read through their #sum form): left alone *)
  end
with tr_lit (l: lit) : lit := match l with Lit sg a => Lit sg (tr_atom a) end.
Definition tr_condlit (c: condlit) : condlit := (tr_lit (fst c), map tr_lit (snd c)).
Definition tr_be (e: bodyelem) : bodyelem :=
  match e with BLit l => BLit (tr_lit l) | BCond l c => BCond (tr_lit l) (map tr_lit c) end.
Definition tr_head (h: head) : head :=
  match h with
  | HLit l => HLit (tr_lit l)
  | HDisj es => HDisj (map tr_condlit es)
  | HAgg lg es rg => HAgg lg (map tr_condlit es) rg
  | HHeadAgg lg f es rg => HHeadAgg lg f (map (fun e: helem => (fst e, tr_condlit (snd e))) es) rg
  | HTheory t => HTheory t
  end.
Definition tr_stmt (st: stmt) : stmt :=
  match st with
  | SRule line h b => SRule line (tr_head h) (map tr_be b)
  | SMin line w pr ts b => SMin line w pr ts (map tr_be b)
  | SShowTerm t b => SShowTerm t (map tr_be b)
  | _ => st
  end.

Lemma pred_eqb_refl (r: pred) : pred_eqb r r = true.
Proof. unfold pred_eqb. rewrite String.eqb_refl, Nat.eqb_refl. reflexivity. Qed.
Lemma pred_eqb_eq (a b: pred) : pred_eqb a b = true <-> a = b.
Proof.
  destruct a as [a1 a2], b as [b1 b2]. unfold pred_eqb. simpl. rewrite andb_true_iff, String.eqb_eq, Nat.eqb_eq.
  split; [intros [-> ->]; reflexivity | intro E; injection E as -> ->; split; reflexivity].
Qed.
Lemma K_p : K (pn, n) = false. Proof. unfold K. rewrite pred_eqb_refl. reflexivity. Qed.
Lemma K_q : K (qn, k) = false. Proof. unfold K. rewrite (pred_eqb_refl (qn, k)). apply andb_false_r. Qed.
Lemma K_true r : K r = true <-> r <> (pn, n) /\ r <> (qn, k).
Proof.
  unfold K. rewrite andb_true_iff, !negb_true_iff. split; intros [A B]; split.
  - intros ->. rewrite pred_eqb_refl in A. discriminate.
  - intros ->. rewrite pred_eqb_refl in B. discriminate.
  - destruct (pred_eqb r (pn, n)) eqn:E; [|reflexivity]. apply pred_eqb_eq in E. contradiction.
  - destruct (pred_eqb r (qn, k)) eqn:E; [|reflexivity]. apply pred_eqb_eq in E. contradiction.
Qed.
Lemma is_pfun_true f args : is_pfun f args = true <-> f = pn /\ List.length args = n.
Proof. unfold is_pfun. rewrite andb_true_iff, String.eqb_eq, Nat.eqb_eq. tauto. Qed.

(* X' = X with every p-atom replaced by its projection *)
Definition rel (X X': interp) : Prop :=
  agreeK K X X' /\
  forall us, List.length us = k -> (X' (qn, us) <-> exists v, List.length v = n /\ X (pn, v) /\ sel m v = us).

(* ---- literals that do not mention p or q are not changed ---- *)
Lemma tr_term_in t : term_in K t = true -> tr_term t = t.
Proof.
  destruct t as [| | | | |f args e|]; try reflexivity. simpl. intro A.
  destruct (is_pfun f args) eqn:E; [|reflexivity]. apply is_pfun_true in E. destruct E as [-> E]. rewrite E, K_p in A. discriminate.
Qed.
Lemma tr_lit_in : forall l, lit_in K l = true -> tr_lit l = l.
Proof.
  apply (TraverseSpec.lit_ind' (fun l => lit_in K l = true -> tr_lit l = l)); try reflexivity.
  - intros sg t A. simpl in *. rewrite (tr_term_in t A). reflexivity.
  - intros sg lg f es rg IH A. simpl. f_equal. f_equal.
    change (forallb (fun e: list term * list lit => forallb (lit_in K) (snd e)) es = true) in A.
    rewrite forallb_forall in A. rewrite Forall_forall in IH.
    rewrite <- (map_id es) at 2. apply map_ext_in. intros [tup cs] He. specialize (IH _ He). specialize (A _ He).
    simpl in *. rewrite forallb_forall in A. rewrite Forall_forall in IH. f_equal.
    rewrite <- (map_id cs) at 2. apply map_ext_in. intros c Hc. exact (IH c Hc (A c Hc)).
Qed.

(* ---- a positive p-literal ---- *)
Definition is_read (l: lit) : option (list term) :=
  match l with
  | Lit NoSign (ASym (TFun f args _)) => if is_pfun f args then Some args else None
  | _ => None
  end.
Lemma is_read_inv l args : is_read l = Some args ->
  exists e, l = Lit NoSign (ASym (TFun pn args e)) /\ List.length args = n.
Proof.
  destruct l as [[| |] [t| | | | |]]; try discriminate. destruct t as [| | | | |f a e|]; try discriminate. simpl.
  destruct (is_pfun f a) eqn:E; [|discriminate]. intro X. injection X as <-. apply is_pfun_true in E. destruct E as [-> E].
  exists e. split; [reflexivity | exact E].
Qed.
Lemma tr_read args e : List.length args = n ->
  tr_lit (Lit NoSign (ASym (TFun pn args e))) = Lit NoSign (ASym (TFun qn (sel m args) e)).
Proof. intro L. simpl. assert (E: is_pfun pn args = true) by (apply is_pfun_true; split; [reflexivity|exact L]). rewrite E. reflexivity. Qed.

Lemma read_bwd G G' X X' T T' s args e : rel X X' -> List.length args = n ->
  lit_sat G X T s (Lit NoSign (ASym (TFun pn args e))) -> lit_sat G' X' T' s (Lit NoSign (ASym (TFun qn (sel m args) e))).
Proof.
  intros [_ R] L A. apply ChainSem.lit_sat_fun in A. destruct A as [vs [E A]]. simpl in A.
  apply ChainSem.lit_sat_fun. exists (sel m vs). split; [apply eval_list_sel; exact E|]. simpl.
  assert (Lv: List.length vs = n) by (rewrite (ChainSem.eval_list_length _ _ _ E); exact L).
  apply R; [apply sel_length; exact Lv|]. exists vs. repeat split; assumption.
Qed.

Lemma read_fwd G G' X X' T T' s args e : rel X X' -> readable m args = true ->
  lit_sat G' X' T' s (Lit NoSign (ASym (TFun qn (sel m args) e))) ->
  exists v, lit_sat G X T (updm s m args v) (Lit NoSign (ASym (TFun pn args e))).
Proof.
  intros [_ R] Rd A. apply ChainSem.lit_sat_fun in A. destruct A as [us [E A]]. simpl in A.
  pose proof (readable_length m args Rd) as L.
  assert (Lu: List.length us = k).
  { rewrite (ChainSem.eval_list_length _ _ _ E). apply sel_length. exact L. }
  apply (R us Lu) in A. destruct A as [v [Lv [Xv Sv]]]. exists v.
  apply ChainSem.lit_sat_fun. exists v. split; [|exact Xv].
  apply updm_eval; [exact Rd | exact Lv | rewrite Sv; exact E].
Qed.

(* ================================================================================================ *)
(* 3. Conditions (of aggregate elements, conditional literals, head elements)                       *)
(* ================================================================================================ *)
(* a literal of a condition: a positive p-literal that can be read, or a simple literal without p, q *)
Definition ok_clit (l: lit) : bool :=
  match is_read l with
  | Some args => readable m args
  | None => Normalize.simple_lit_b l && lit_in K l
  end.
Definition dv_lit (l: lit) : list string := match is_read l with Some args => dvars m args | None => [] end.
Definition dv_lits (cs: list lit) : list string := flat_map dv_lit cs.
(* the dropped variables of every literal occur nowhere else in the condition and not in `avoid` *)
Fixpoint ok_cond (avoid: list string) (cs: list lit) : bool :=
  match cs with
  | [] => true
  | c :: cs' => ok_clit c && disj (dv_lit c) (avoid ++ flat_map vars_lit cs') && disj (dv_lits cs') (vars_lit c)
                && ok_cond avoid cs'
  end.

Lemma dv_lit_vars c x : In x (dv_lit c) -> In x (vars_lit c).
Proof.
  unfold dv_lit. destruct (is_read c) as [args|] eqn:E; [|intros []]. destruct (is_read_inv c args E) as [e [-> _]].
  simpl. apply dvars_in_args.
Qed.
Lemma ok_cond_avoid avoid cs : ok_cond avoid cs = true -> forall x, In x (dv_lits cs) -> ~ In x avoid.
Proof.
  induction cs as [|c cs IH]; intros A x Hx; [destruct Hx|]. simpl in A. rewrite !andb_true_iff in A.
  destruct A as [[[_ D1] _] A]. simpl in Hx. apply in_app_iff in Hx. destruct Hx as [Hx|Hx].
  - intro Ha. apply (proj1 (disj_spec _ _) D1 x Hx). apply in_app_iff. left. exact Ha.
  - exact (IH A x Hx).
Qed.

Lemma clit_bwd G G' X X' T T' th c : rel X X' -> rel T T' -> ok_clit c = true ->
  lit_sat G X T th c -> lit_sat G' X' T' th (tr_lit c).
Proof.
  intros RX RT Ok A. unfold ok_clit in Ok. destruct (is_read c) as [args|] eqn:E.
  - destruct (is_read_inv c args E) as [e [-> L]]. rewrite (tr_read args e L). exact (read_bwd G G' X X' T T' th args e RX L A).
  - apply andb_true_iff in Ok. destruct Ok as [S I]. rewrite (tr_lit_in c I).
    apply (lit_sat_simple_G sym_lt G G' X' T' th c S). apply (lit_sat_in sym_lt K G X X' T T' th c I (proj1 RX) (proj1 RT)). exact A.
Qed.
Lemma cond_bwd G G' X X' T T' th avoid cs : rel X X' -> rel T T' -> ok_cond avoid cs = true ->
  lits_sat G X T th cs -> lits_sat G' X' T' th (map tr_lit cs).
Proof.
  intros RX RT. induction cs as [|c cs IH]; intros Ok A; [constructor|].
  simpl in Ok. rewrite !andb_true_iff in Ok. destruct Ok as [[[Oc _] _] Ok].
  apply lits_sat_cons in A. destruct A as [Ac A]. simpl. apply lits_sat_cons. split.
  - exact (clit_bwd G G' X X' T T' th c RX RT Oc Ac).
  - exact (IH Ok A).
Qed.

Lemma cond_fwd G G' X X' T T' th avoid cs : rel X X' -> rel T T' -> ok_cond avoid cs = true ->
  lits_sat G' X' T' th (map tr_lit cs) ->
  exists th2, (forall x, ~ In x (dv_lits cs) -> th2 x = th x) /\ lits_sat G X T th2 cs.
Proof.
  intros RX RT. induction cs as [|c cs IH]; intros Ok A.
  - exists th. split; [reflexivity | constructor].
  - simpl in Ok. rewrite !andb_true_iff in Ok. destruct Ok as [[[Oc D1] D2] Ok].
    simpl in A. apply lits_sat_cons in A. destruct A as [Ac A].
    destruct (IH Ok A) as [th1 [Eq1 A1]].
    pose proof (proj1 (disj_spec _ _) D1) as N1. pose proof (proj1 (disj_spec _ _) D2) as N2.
    unfold ok_clit in Oc. destruct (is_read c) as [args|] eqn:E.
    + destruct (is_read_inv c args E) as [e [-> L]]. rewrite (tr_read args e L) in Ac.
      assert (DV: dv_lit (Lit NoSign (ASym (TFun pn args e))) = dvars m args) by (unfold dv_lit; rewrite E; reflexivity).
      assert (Ac1: lit_sat G' X' T' th1 (Lit NoSign (ASym (TFun qn (sel m args) e)))).
      { apply (lit_sat_coincide sym_lt G' X' T' th th1); [|exact Ac]. intros x Hx. symmetry. apply Eq1.
        intro Hd. apply (N2 x Hd). simpl. simpl in Hx. apply (vars_sel m). exact Hx. }
      destruct (read_fwd G G' X X' T T' th1 args e RX Oc Ac1) as [v Av].
      exists (updm th1 m args v). split.
      * intros x Hx. rewrite updm_other; [apply Eq1|]; intro Hd; apply Hx; simpl; apply in_app_iff;
          [right; exact Hd | left; rewrite DV; exact Hd].
      * apply lits_sat_cons. split; [exact Av|].
        apply (lits_sat_coincide sym_lt G X T th1 (updm th1 m args v) cs); [|exact A1].
        intros x Hx. symmetry. apply updm_other. intro Hd. rewrite DV in N1. apply (N1 x Hd). apply in_app_iff. right. exact Hx.
    + apply andb_true_iff in Oc. destruct Oc as [S I]. rewrite (tr_lit_in c I) in Ac.
      exists th1. split.
      * intros x Hx. apply Eq1. intro Hd. apply Hx. simpl. apply in_app_iff. right. exact Hd.
      * apply lits_sat_cons. split; [|exact A1].
        apply (lit_sat_coincide sym_lt G X T th th1); [intros x Hx; symmetry; apply Eq1; intro Hd; exact (N2 x Hd Hx)|].
        apply (lit_sat_simple_G sym_lt G' G X T th c S).
        apply (lit_sat_in sym_lt K G' X X' T T' th c I (proj1 RX) (proj1 RT)). exact Ac.
Qed.

(* the two ways conditions are used: existentially (tuples, disjunctions) and universally (conditional literals) *)
Lemma ex_cond G X X' T T' s avoid cs (Q: subst -> Prop) : rel X X' -> rel T T' -> ok_cond avoid cs = true ->
  incl G avoid -> (forall th th2, (forall x, In x avoid -> th2 x = th x) -> Q th -> Q th2) ->
  ((exists th, agree_on G s th /\ lits_sat G X T th cs /\ Q th) <->
   (exists th, agree_on G s th /\ lits_sat G X' T' th (map tr_lit cs) /\ Q th)).
Proof.
  intros RX RT Ok Inc Inv. split.
  - intros [th [Ag [C Qt]]]. exists th. split; [exact Ag|]. split; [|exact Qt].
    exact (cond_bwd G G X X' T T' th avoid cs RX RT Ok C).
  - intros [th [Ag [C Qt]]]. destruct (cond_fwd G G X X' T T' th avoid cs RX RT Ok C) as [th2 [Eq C2]].
    assert (Eav: forall x, In x avoid -> th2 x = th x).
    { intros x Hx. apply Eq. intro Hd. exact (ok_cond_avoid avoid cs Ok x Hd Hx). }
    exists th2. split; [|split; [exact C2 | exact (Inv th th2 Eav Qt)]].
    intros x Hx. rewrite (Eav x (Inc x Hx)). apply Ag. exact Hx.
Qed.
Lemma all_cond G X X' T T' s avoid cs (Q: subst -> Prop) : rel X X' -> rel T T' -> ok_cond avoid cs = true ->
  incl G avoid -> (forall th th2, (forall x, In x avoid -> th2 x = th x) -> Q th2 -> Q th) ->
  ((forall th, agree_on G s th -> lits_sat G X T th cs -> Q th) <->
   (forall th, agree_on G s th -> lits_sat G X' T' th (map tr_lit cs) -> Q th)).
Proof.
  intros RX RT Ok Inc Inv. split.
  - intros A th Ag C. destruct (cond_fwd G G X X' T T' th avoid cs RX RT Ok C) as [th2 [Eq C2]].
    assert (Eav: forall x, In x avoid -> th2 x = th x).
    { intros x Hx. apply Eq. intro Hd. exact (ok_cond_avoid avoid cs Ok x Hd Hx). }
    apply (Inv th th2 Eav). apply A; [|exact C2]. intros x Hx. rewrite (Eav x (Inc x Hx)). apply Ag. exact Hx.
  - intros A th Ag C. apply A; [exact Ag|]. exact (cond_bwd G G X X' T T' th avoid cs RX RT Ok C).
Qed.

(* ================================================================================================ *)
(* 4. Body literals, body elements, bodies                                                          *)
(* ================================================================================================ *)
Definition tr_elem (e: belem) : belem := (fst e, map tr_lit (snd e)).
Definition ok_elem (G: list string) (e: belem) : bool := ok_cond (G ++ flat_map vars_term (fst e)) (snd e).
(* a body literal that is not a top-level read: an aggregate whose conditions can be read, or anything without p, q *)
Definition ok_lit (G: list string) (l: lit) : bool :=
  match l with
  | Lit _ (ABodyAgg _ _ es _) => forallb (ok_elem G) es
  | _ => lit_in K l
  end.

Lemma tr_bodyagg sg lg f es rg : tr_lit (Lit sg (ABodyAgg lg f es rg)) = Lit sg (ABodyAgg lg f (map tr_elem es) rg).
Proof. reflexivity. Qed.

Lemma tuples_tr G X X' T T' s es : rel X X' -> rel T T' -> forallb (ok_elem G) es = true ->
  tup_eq (elems_tuples G X T s es) (elems_tuples G X' T' s (map tr_elem es)).
Proof.
  intros RX RT Ok tv. rewrite !elems_tuples_iff. rewrite forallb_forall in Ok.
  assert (E: forall e, In e es ->
    ((exists th, agree_on G s th /\ eval_list th (fst e) = Some tv /\ lits_sat G X T th (snd e)) <->
     (exists th, agree_on G s th /\ eval_list th (fst (tr_elem e)) = Some tv /\ lits_sat G X' T' th (snd (tr_elem e))))).
  { intros e He. pose proof (Ok e He) as Oe. unfold ok_elem in Oe. simpl.
    pose proof (ex_cond G X X' T T' s (G ++ flat_map vars_term (fst e)) (snd e) (fun th => eval_list th (fst e) = Some tv)
                  RX RT Oe (fun x Hx => proj2 (in_app_iff _ _ _) (or_introl Hx))) as EC.
    assert (Inv: forall th th2, (forall x, In x (G ++ flat_map vars_term (fst e)) -> th2 x = th x) ->
                 eval_list th (fst e) = Some tv -> eval_list th2 (fst e) = Some tv).
    { intros th th2 Eq Et. rewrite <- Et. apply eval_list_coincide. intros x Hx. apply Eq. apply in_app_iff. right. exact Hx. }
    specialize (EC Inv). split.
    - intros [th [Ag [Et C]]]. destruct (proj1 EC) as [th' [Ag' [C' Et']]]; [exists th; auto|]. exists th'; auto.
    - intros [th [Ag [Et C]]]. destruct (proj2 EC) as [th' [Ag' [C' Et']]]; [exists th; auto|]. exists th'; auto. }
  split.
  - intros [e [He A]]. exists (tr_elem e). split; [apply in_map; exact He | exact (proj1 (E e He) A)].
  - intros [e' [He' A]]. apply in_map_iff in He'. destruct He' as [e [<- He]]. exists e. split; [exact He | exact (proj2 (E e He) A)].
Qed.

Lemma core_lit G H H' T T' s l : rel H H' -> rel T T' -> ok_lit G l = true ->
  (lit_sat G H T s l <-> lit_sat G H' T' s (tr_lit l)).
Proof.
  intros RH RT Ok. destruct l as [sg a].
  destruct a as [t|t gs|b|lg f es rg|lg es rg|tx];
    try (rewrite (tr_lit_in _ Ok); exact (lit_sat_in sym_lt K G H H' T T' s _ Ok (proj1 RH) (proj1 RT))).
  rewrite tr_bodyagg. simpl in Ok.
  change (atom_sat G H T s sg (ABodyAgg lg f es rg) <-> atom_sat G H' T' s sg (ABodyAgg lg f (map tr_elem es) rg)).
  rewrite !atom_sat_bodyagg.
  pose proof (agg_holds_ext sym_lt s lg f rg _ _ (tuples_tr G H H' T T' s es RH RT Ok)) as EH.
  pose proof (agg_holds_ext sym_lt s lg f rg _ _ (tuples_tr G T T' T T' s es RT RT Ok)) as ET.
  destruct sg; simpl; tauto.
Qed.

Definition ok_be (G: list string) (e: bodyelem) : bool :=
  match e with
  | BLit l => match is_read l with Some args => readable m args | None => ok_lit G l end
  | BCond l c => Normalize.simple_lit_b l && lit_in K l && ok_cond (G ++ vars_lit l) c
  end.
(* the variables at the dropped positions of a top-level read *)
Definition dv_be (e: bodyelem) : list string := match e with BLit l => dv_lit l | BCond _ _ => [] end.
Definition dv_body (B: list bodyelem) : list string := flat_map dv_be B.
Definition not_read (e: bodyelem) : Prop := match e with BLit l => is_read l = None | BCond _ _ => True end.

Lemma core_be G H H' T T' s e : rel H H' -> rel T T' -> ok_be G e = true -> not_read e ->
  (bodyelem_sat G H T s e <-> bodyelem_sat G H' T' s (tr_be e)).
Proof.
  intros RH RT Ok NR. destruct e as [l|l c]; simpl in *.
  - rewrite NR in Ok. exact (core_lit G H H' T T' s l RH RT Ok).
  - rewrite !andb_true_iff in Ok. destruct Ok as [[S I] Oc]. rewrite (tr_lit_in l I).
    assert (Inv: forall X Y th th2, (forall x, In x (G ++ vars_lit l) -> th2 x = th x) -> lit_sat G X Y th2 l -> lit_sat G X Y th l).
    { intros X Y th th2 Eq. apply (lit_sat_coincide sym_lt G X Y th2 th l). intros x Hx. apply Eq. apply in_app_iff. right. exact Hx. }
    assert (Inc: incl G (G ++ vars_lit l)) by (intros x Hx; apply in_app_iff; left; exact Hx).
    pose proof (all_cond G H H' T T' s _ c (fun th => lit_sat G H T th l) RH RT Oc Inc (Inv H T)) as A1.
    pose proof (all_cond G T T' T T' s _ c (fun th => lit_sat G T T th l) RT RT Oc Inc (Inv T T)) as A2.
    assert (L1: forall th, lit_sat G H T th l <-> lit_sat G H' T' th l)
      by (intro th; exact (lit_sat_in sym_lt K G H H' T T' th l I (proj1 RH) (proj1 RT))).
    assert (L2: forall th, lit_sat G T T th l <-> lit_sat G T' T' th l)
      by (intro th; exact (lit_sat_in sym_lt K G T T' T T' th l I (proj1 RT) (proj1 RT))).
    split.
    + intros A th Ag. split; intro C.
      * apply L1. apply (proj1 A1); [|exact Ag|exact C]. intros th0 Ag0 C0. exact (proj1 (A th0 Ag0) C0).
      * apply L2. apply (proj1 A2); [|exact Ag|exact C]. intros th0 Ag0 C0. exact (proj2 (A th0 Ag0) C0).
    + intros A th Ag. split; intro C.
      * apply (proj2 A1); [|exact Ag|exact C]. intros th0 Ag0 C0. apply L1. exact (proj1 (A th0 Ag0) C0).
      * apply (proj2 A2); [|exact Ag|exact C]. intros th0 Ag0 C0. apply L2. exact (proj2 (A th0 Ag0) C0).
Qed.

(* W = the variables of the head: the dropped variables of the top-level reads occur nowhere else in the rule *)
Fixpoint ok_body (G W: list string) (B: list bodyelem) : bool :=
  match B with
  | [] => true
  | e :: B' => ok_be G e && disj (dv_be e) (W ++ flat_map vars_bodyelem B') && disj (dv_body B') (vars_bodyelem e)
               && ok_body G W B'
  end.

Lemma ok_body_avoid G W B : ok_body G W B = true -> forall x, In x (dv_body B) -> ~ In x W.
Proof.
  induction B as [|e B IH]; intros A x Hx; [destruct Hx|]. simpl in A. rewrite !andb_true_iff in A.
  destruct A as [[[_ D1] _] A]. simpl in Hx. apply in_app_iff in Hx. destruct Hx as [Hx|Hx].
  - intro Ha. apply (proj1 (disj_spec _ _) D1 x Hx). apply in_app_iff. left. exact Ha.
  - exact (IH A x Hx).
Qed.

Lemma tr_be_lit l : tr_be (BLit l) = BLit (tr_lit l). Proof. reflexivity. Qed.
Lemma bodyelem_sat_lit G H T s l : bodyelem_sat G H T s (BLit l) = lit_sat G H T s l. Proof. reflexivity. Qed.

Lemma be_bwd G H H' T T' s e : rel H H' -> rel T T' -> ok_be G e = true ->
  bodyelem_sat G H T s e -> bodyelem_sat G H' T' s (tr_be e).
Proof.
  intros RH RT Ok A. destruct e as [l|l c].
  - simpl in Ok. destruct (is_read l) as [args|] eqn:E.
    + destruct (is_read_inv l args E) as [e [-> L]]. rewrite tr_be_lit, (tr_read args e L).
      exact (read_bwd G G H H' T T' s args e RH L A).
    + apply (core_be G H H' T T' s (BLit l) RH RT); [simpl; rewrite E; exact Ok | exact E | exact A].
  - apply (core_be G H H' T T' s (BCond l c) RH RT Ok Logic.I). exact A.
Qed.
Lemma body_bwd G W H H' T T' s B : rel H H' -> rel T T' -> ok_body G W B = true ->
  body_sat G H T s B -> body_sat G H' T' s (map tr_be B).
Proof.
  intros RH RT. induction B as [|e B IH]; intros Ok A; [constructor|].
  simpl in Ok. rewrite !andb_true_iff in Ok. destruct Ok as [[[Oe _] _] Ok].
  apply body_sat_cons in A. destruct A as [Ae A]. simpl. apply body_sat_cons. split.
  - exact (be_bwd G H H' T T' s e RH RT Oe Ae).
  - exact (IH Ok A).
Qed.

Lemma body_fwd G W H H' T T' s B : rel H H' -> rel T T' -> ok_body G W B = true ->
  body_sat G H' T' s (map tr_be B) ->
  exists s2, (forall x, ~ In x (dv_body B) -> s2 x = s x) /\ body_sat G H T s2 B.
Proof.
  intros RH RT. induction B as [|e B IH]; intros Ok A.
  - exists s. split; [reflexivity | constructor].
  - simpl in Ok. rewrite !andb_true_iff in Ok. destruct Ok as [[[Oe D1] D2] Ok].
    simpl in A. apply body_sat_cons in A. destruct A as [Ae A].
    destruct (IH Ok A) as [s1 [Eq1 A1]].
    pose proof (proj1 (disj_spec _ _) D1) as N1. pose proof (proj1 (disj_spec _ _) D2) as N2.
    assert (Generic: not_read e -> exists s2, (forall x, ~ In x (dv_body (e :: B)) -> s2 x = s x) /\ body_sat G H T s2 (e :: B)).
    { intro NR. exists s1. split.
      - intros x Hx. apply Eq1. intro Hd. apply Hx. simpl. apply in_app_iff. right. exact Hd.
      - apply body_sat_cons. split; [|exact A1].
        apply (bodyelem_sat_coincide sym_lt G H T s s1 e).
        + intros x Hx. symmetry. apply Eq1. intro Hd. apply (N2 x Hd).
          destruct e as [l|l c]; simpl in *; [exact (gvars_sub_vars l x Hx) | destruct Hx].
        + intros x Hx _. symmetry. apply Eq1. intro Hd. exact (N2 x Hd Hx).
        + apply (core_be G H H' T T' s e RH RT Oe NR). exact Ae. }
    destruct e as [l|l c]; [|exact (Generic Logic.I)].
    destruct (is_read l) as [args|] eqn:E; [|exact (Generic E)]. clear Generic.
    destruct (is_read_inv l args E) as [e [-> L]]. unfold ok_be in Oe. rewrite E in Oe.
    rewrite tr_be_lit, (tr_read args e L), bodyelem_sat_lit in Ae.
    assert (DV: dv_lit (Lit NoSign (ASym (TFun pn args e))) = dvars m args) by (unfold dv_lit; rewrite E; reflexivity).
    assert (Ae1: lit_sat G H' T' s1 (Lit NoSign (ASym (TFun qn (sel m args) e)))).
    { apply (lit_sat_coincide sym_lt G H' T' s s1); [|exact Ae]. intros x Hx. symmetry. apply Eq1.
      intro Hd. apply (N2 x Hd). simpl. simpl in Hx. apply (vars_sel m). exact Hx. }
    destruct (read_fwd G G H H' T T' s1 args e RH Oe Ae1) as [v Av].
    exists (updm s1 m args v). split.
    + intros x Hx. rewrite updm_other; [apply Eq1|]; intro Hd; apply Hx; simpl; apply in_app_iff;
        [right; exact Hd | left; rewrite DV; exact Hd].
    + apply body_sat_cons. split; [exact Av|].
      assert (NB: forall x, In x (flat_map vars_bodyelem B) -> s1 x = updm s1 m args v x).
      { intros x Hx. symmetry. apply updm_other. intro Hd. simpl in N1. rewrite DV in N1. apply (N1 x Hd). apply in_app_iff. right. exact Hx. }
      apply (body_sat_coincide sym_lt G H T s1 (updm s1 m args v) B); [| |exact A1].
      * intros x Hx. apply NB. apply in_flat_map in Hx. destruct Hx as [b [Hb Hx]]. apply in_flat_map. exists b. split; [exact Hb|].
        destruct b as [l|l c]; simpl in *; [exact (gvars_sub_vars l x Hx) | destruct Hx].
      * intros x Hx _. exact (NB x Hx).
Qed.

(* ================================================================================================ *)
(* 5. Heads that do not define p                                                                    *)
(* ================================================================================================ *)
Definition ok_celem (G: list string) (c: condlit) : bool :=
  Normalize.simple_lit_b (fst c) && lit_in K (fst c) && ok_cond (G ++ vars_lit (fst c)) (snd c).
(* an unbounded choice whose conditions may read p, or any head that does not mention p, q at all *)
Definition ok_head (G: list string) (h: head) : bool :=
  match h with
  | HAgg None es None => forallb (ok_celem G) es
  | _ => head_in K h
  end.

Lemma tr_lits_in cs : lits_in K cs = true -> map tr_lit cs = cs.
Proof.
  unfold lits_in. rewrite forallb_forall. intro A. rewrite <- (map_id cs) at 2. apply map_ext_in.
  intros c Hc. exact (tr_lit_in c (A c Hc)).
Qed.
Lemma tr_condlit_in c : condlit_in K c = true -> tr_condlit c = c.
Proof.
  unfold condlit_in, tr_condlit. rewrite andb_true_iff. intros [A B]. rewrite (tr_lit_in _ A), (tr_lits_in _ B).
  destruct c; reflexivity.
Qed.
Lemma map_id_in {A} (f: A -> A) l : (forall x, In x l -> f x = x) -> map f l = l.
Proof. intro E. rewrite <- (map_id l) at 2. apply map_ext_in. exact E. Qed.
Lemma tr_head_in h : head_in K h = true -> tr_head h = h.
Proof.
  destruct h as [l|es|lg es rg|lg f es rg|tx]; simpl; intro A.
  - rewrite (tr_lit_in l A). reflexivity.
  - rewrite forallb_forall in A. rewrite (map_id_in tr_condlit es); [reflexivity|]. intros c Hc. exact (tr_condlit_in c (A c Hc)).
  - rewrite forallb_forall in A. rewrite (map_id_in tr_condlit es); [reflexivity|]. intros c Hc. exact (tr_condlit_in c (A c Hc)).
  - rewrite forallb_forall in A. rewrite (map_id_in _ es); [reflexivity|]. intros [tup c] Hc. simpl.
    rewrite (tr_condlit_in c (A _ Hc)). reflexivity.
  - reflexivity.
Qed.

Lemma celems_tr G H H' T T' s es : rel H H' -> rel T T' -> forallb (ok_celem G) es = true ->
  (Sat.choice_elems_ok sym_lt G H T s es <-> Sat.choice_elems_ok sym_lt G H' T' s (map tr_condlit es)).
Proof.
  intros RH RT Ok. rewrite forallb_forall in Ok. unfold Sat.choice_elems_ok.
  assert (E: forall e, In e es ->
     ((forall th, agree_on G s th -> lits_sat G H T th (snd e) -> lit_sat G H T th (fst e) \/ ~ lit_sat G T T th (fst e)) <->
      (forall th, agree_on G s th -> lits_sat G H' T' th (map tr_lit (snd e)) -> lit_sat G H' T' th (fst e) \/ ~ lit_sat G T' T' th (fst e)))).
  { intros e He. pose proof (Ok e He) as Oe. unfold ok_celem in Oe. rewrite !andb_true_iff in Oe. destruct Oe as [[S I] Oc].
    assert (Inc: incl G (G ++ vars_lit (fst e))) by (intros x Hx; apply in_app_iff; left; exact Hx).
    assert (Inv: forall th th2, (forall x, In x (G ++ vars_lit (fst e)) -> th2 x = th x) ->
              lit_sat G H T th2 (fst e) \/ ~ lit_sat G T T th2 (fst e) -> lit_sat G H T th (fst e) \/ ~ lit_sat G T T th (fst e)).
    { intros th th2 Eq.
      assert (V: forall x, In x (vars_lit (fst e)) -> th2 x = th x) by (intros x Hx; apply Eq; apply in_app_iff; right; exact Hx).
      rewrite (lit_sat_coincide sym_lt G H T th2 th (fst e) V), (lit_sat_coincide sym_lt G T T th2 th (fst e) V). tauto. }
    rewrite (all_cond G H H' T T' s _ (snd e) _ RH RT Oc Inc Inv).
    split; intros A th Ag C; specialize (A th Ag C);
      rewrite (lit_sat_in sym_lt K G H H' T T' th (fst e) I (proj1 RH) (proj1 RT)),
              (lit_sat_in sym_lt K G T T' T T' th (fst e) I (proj1 RT) (proj1 RT)) in *; exact A. }
  split.
  - intros A e' th He' Ag C. apply in_map_iff in He'. destruct He' as [e [<- He]].
    pose proof (Ok e He) as Oe. unfold ok_celem in Oe. rewrite !andb_true_iff in Oe. destruct Oe as [[S I] Oc].
    unfold tr_condlit in *. simpl in *. rewrite (tr_lit_in _ I).
    apply (proj1 (E e He)); [|exact Ag|exact C]. intros th0 Ag0 C0. exact (A e th0 He Ag0 C0).
  - intros A e th He Ag C.
    pose proof (Ok e He) as Oe. unfold ok_celem in Oe. rewrite !andb_true_iff in Oe. destruct Oe as [[S I] Oc].
    apply (proj2 (E e He)); [|exact Ag|exact C]. intros th0 Ag0 C0.
    specialize (A (tr_condlit e) th0 (in_map tr_condlit es e He) Ag0). unfold tr_condlit in A. simpl in A.
    rewrite (tr_lit_in _ I) in A. exact (A C0).
Qed.

Lemma ctuples_tr G X X' T T' s es : rel X X' -> rel T T' -> forallb (ok_celem G) es = true ->
  tup_eq (Sat.choice_tuples sym_lt G X T s es) (Sat.choice_tuples sym_lt G X' T' s (map tr_condlit es)).
Proof.
  intros RX RT Ok tv. rewrite forallb_forall in Ok. unfold Sat.choice_tuples.
  assert (E: forall e f args ext vs, In e es -> fst e = Lit NoSign (ASym (TFun f args ext)) ->
     ((exists th, agree_on G s th /\ lits_sat G X T th (snd e) /\ eval_list th args = Some vs) <->
      (exists th, agree_on G s th /\ lits_sat G X' T' th (map tr_lit (snd e)) /\ eval_list th args = Some vs)) /\
     (List.length vs = List.length args -> (X (f, vs) <-> X' (f, vs)))).
  { intros e f args ext vs He E1. pose proof (Ok e He) as Oe. unfold ok_celem in Oe. rewrite !andb_true_iff in Oe. destruct Oe as [[S I] Oc].
    split.
    - apply (ex_cond G X X' T T' s (G ++ vars_lit (fst e)) (snd e) (fun th => eval_list th args = Some vs) RX RT Oc).
      + intros x Hx. apply in_app_iff. left. exact Hx.
      + intros th th2 Eq Et. rewrite <- Et. apply eval_list_coincide. intros x Hx. apply Eq. apply in_app_iff. right.
        rewrite E1. simpl. exact Hx.
    - intro L. apply (proj1 RX). rewrite E1 in I. change (K (f, List.length args) = true) in I.
      unfold gpred. simpl. rewrite L. exact I. }
  split.
  - intros (e & th & f & args & ext & vs & He & Ag & E1 & E2 & E3 & C & XA).
    destruct (E e f args ext vs He E1) as [EC EX].
    destruct (proj1 EC) as [th' [Ag' [C' E2']]]; [exists th; auto|].
    pose proof (Ok e He) as Oe. unfold ok_celem in Oe. rewrite !andb_true_iff in Oe. destruct Oe as [[S I] Oc].
    exists (tr_condlit e), th', f, args, ext, vs. split; [apply in_map; exact He|]. split; [exact Ag'|].
    split; [unfold tr_condlit; simpl; rewrite (tr_lit_in _ I); exact E1|]. split; [exact E2'|]. split; [exact E3|].
    split; [exact C'|]. apply EX; [exact (ChainSem.eval_list_length _ _ _ E2) | exact XA].
  - intros (e' & th & f & args & ext & vs & He' & Ag & E1 & E2 & E3 & C & XA).
    apply in_map_iff in He'. destruct He' as [e [<- He]].
    pose proof (Ok e He) as Oe. unfold ok_celem in Oe. rewrite !andb_true_iff in Oe. destruct Oe as [[S I] Oc].
    unfold tr_condlit in E1, C. simpl in E1, C. rewrite (tr_lit_in _ I) in E1.
    destruct (E e f args ext vs He E1) as [EC EX].
    destruct (proj2 EC) as [th' [Ag' [C' E2']]]; [exists th; auto|].
    exists e, th', f, args, ext, vs. repeat split; try assumption.
    apply EX; [exact (ChainSem.eval_list_length _ _ _ E2) | exact XA].
Qed.

Lemma core_head G H H' T T' s h : rel H H' -> rel T T' -> ok_head G h = true ->
  (head_sat G H T s h <-> head_sat G H' T' s (tr_head h)).
Proof.
  intros RH RT Ok.
  assert (Gen: head_in K h = true -> (head_sat G H T s h <-> head_sat G H' T' s (tr_head h))).
  { intro A. rewrite (tr_head_in h A). exact (head_sat_in sym_lt K G H H' T T' s h A (proj1 RH) (proj1 RT)). }
  destruct h as [l|es|lg es rg|lg f es rg|tx]; try exact (Gen Ok).
  destruct lg as [g|]; [exact (Gen Ok)|]. destruct rg as [g|]; [exact (Gen Ok)|]. clear Gen.
  simpl in Ok. simpl.
  rewrite (celems_tr G H H' T T' s es RH RT Ok).
  rewrite (agg_holds_ext sym_lt s None FCount None _ _ (ctuples_tr G T T' T T' s es RT RT Ok)).
  tauto.
Qed.

(* ================================================================================================ *)
(* 6. Rules                                                                                         *)
(* ================================================================================================ *)
Hypothesis PQ : (qn, k) <> (pn, n).          (* q is a different predicate (ngo: a fresh name/arity) *)

(* a rule that DEFINES p: plain head p(args) *)
Definition def_head (h: head) : option (list term) := match h with HLit l => is_read l | _ => None end.
(* the terms at the dropped positions of a defining head always evaluate (no arithmetic, interval, pool) *)
Definition head_def (args: list term) : bool := forallb always_defined (sel (map negb m) args).

Lemma head_def_eval s : forall m0 args us, List.length args = List.length m0 ->
  forallb always_defined (sel (map negb m0) args) = true -> eval_list s (sel m0 args) = Some us ->
  exists v, eval_list s args = Some v.
Proof.
  induction m0 as [|b m0 IH]; intros args us L D E.
  - destruct args; [|discriminate]. exists []. reflexivity.
  - destruct args as [|a args]; [discriminate|]. injection L as L. destruct b; simpl in D, E.
    + destruct (eval s a) as [w|] eqn:Ea; [|discriminate]. destruct (eval_list s (sel m0 args)) as [ws|] eqn:El; [|discriminate].
      destruct (IH args ws L D El) as [v Ev]. exists (w :: v). simpl. rewrite Ea, Ev. reflexivity.
    + apply andb_true_iff in D. destruct D as [Da D]. destruct (always_defined_eval s a Da) as [w Ea].
      destruct (IH args us L D E) as [v Ev]. exists (w :: v). simpl. rewrite Ea, Ev. reflexivity.
Qed.

Lemma vars_tr_term t x : In x (vars_term (tr_term t)) -> In x (vars_term t).
Proof.
  destruct t as [| | | | |f args e|]; simpl; try tauto. destruct (is_pfun f args); simpl; [apply vars_sel | tauto].
Qed.
Lemma gvars_tr_lit l x : In x (gvars_lit (tr_lit l)) -> In x (gvars_lit l).
Proof. destruct l as [sg a]. destruct a as [t|t gs|b|lg f es rg|lg es rg|tx]; simpl; try tauto. apply vars_tr_term. Qed.
Lemma gvars_tr_be e x : In x (gvars_bodyelem (tr_be e)) -> In x (gvars_bodyelem e).
Proof. destruct e as [l|l c]; simpl; [apply gvars_tr_lit | tauto]. Qed.
Lemma gvars_tr_head h x : In x (gvars_head (tr_head h)) -> In x (gvars_head h).
Proof. destruct h as [l|es|lg es rg|lg f es rg|tx]; simpl; try tauto. apply gvars_tr_lit. Qed.
Lemma gvars_tr_rule h B x : In x (gvars_rule (tr_head h) (map tr_be B)) -> In x (gvars_rule h B).
Proof.
  unfold gvars_rule. rewrite !in_app_iff. intros [A|A]; [left; exact (gvars_tr_head h x A)|right].
  apply in_flat_map in A. destruct A as [e' [He' A]]. apply in_map_iff in He'. destruct He' as [e [<- He]].
  apply in_flat_map. exists e. split; [exact He | exact (gvars_tr_be e x A)].
Qed.
Lemma gvars_head_sub h x : In x (gvars_head h) -> In x (vars_head h).
Proof.
  destruct h as [l|es|lg es rg|lg f es rg|tx]; simpl; try tauto.
  - apply gvars_sub_vars.
  - rewrite !in_app_iff. tauto.
  - rewrite !in_app_iff. tauto.
Qed.

Notation Gs := gvars_rule.
Definition Gt (h: head) (B: list bodyelem) := gvars_rule (tr_head h) (map tr_be B).
Definition Vt (h: head) (B: list bodyelem) := vars_head (tr_head h) ++ flat_map vars_bodyelem (map tr_be B).
(* last conjunct: a global variable of the rule that still occurs in the projected rule is still global there
   (true for every safe rule; it only excludes head variables bound nowhere) *)
Definition ok_rule (h: head) (B: list bodyelem) : bool :=
  (match def_head h with Some args => head_def args | None => ok_head (Gs h B) h end)
  && ok_body (Gs h B) (vars_head h) B
  && forallb (fun x => sin x (Gt h B) || negb (sin x (Vt h B))) (Gs h B).

Lemma rule_gweak h B H T : ok_rule h B = true ->
  (rule_sat (Gt h B) H T (tr_head h) (map tr_be B) <-> rule_sat (Gs h B) H T (tr_head h) (map tr_be B)).
Proof.
  unfold ok_rule. rewrite !andb_true_iff. intros [_ Fr]. rewrite forallb_forall in Fr.
  assert (Inc: incl (Gt h B) (Gs h B)) by (intros x Hx; exact (gvars_tr_rule h B x Hx)).
  assert (GF: MinMaxSem.gfresh (Gt h B) (Gs h B) (Vt h B)).
  { intros x Hx Nx Hv. specialize (Fr x Hx). apply orb_true_iff in Fr. destruct Fr as [A|A].
    - apply sin_true in A. contradiction.
    - apply negb_true_iff in A. apply sin_false in A. contradiction. }
  unfold Vt in GF. apply MinMaxSem.gfresh_app in GF. destruct GF as [GFh GFb].
  unfold Sat.rule_sat. split; intros A s; specialize (A s);
    rewrite ?(MinMaxSem.body_sat_gweak sym_lt _ _ _ Inc GFb), ?(MinMaxSem.head_sat_gweak sym_lt _ _ _ Inc GFh) in *; exact A.
Qed.

Lemma all_and2 {A} (P Q: A -> Prop) : (forall s, P s /\ Q s) <-> (forall s, P s) /\ (forall s, Q s).
Proof. split; [intro H; split; intro s; apply H | intros [H1 H2] s; split; [apply H1 | apply H2]]. Qed.

Lemma half_generic h B X X' T T' : def_head h = None -> ok_rule h B = true -> rel X X' -> rel T T' ->
  ((forall s, body_sat (Gs h B) X T s B -> head_sat (Gs h B) X T s h) <->
   (forall s, body_sat (Gs h B) X' T' s (map tr_be B) -> head_sat (Gs h B) X' T' s (tr_head h))).
Proof.
  intros Dh Ok RX RT. unfold ok_rule in Ok. rewrite Dh in Ok. rewrite !andb_true_iff in Ok. destruct Ok as [[Oh Ob] _].
  split.
  - intros A s Bs. destruct (body_fwd (Gs h B) (vars_head h) X X' T T' s B RX RT Ob Bs) as [s2 [Eq Bs2]].
    apply (core_head (Gs h B) X X' T T' s h RX RT Oh).
    assert (V: forall x, In x (vars_head h) -> s2 x = s x).
    { intros x Hx. apply Eq. intro Hd. exact (ok_body_avoid _ _ _ Ob x Hd Hx). }
    apply (head_sat_coincide sym_lt (Gs h B) X T s2 s h); [intros x Hx; apply V; exact (gvars_head_sub h x Hx) | intros x Hx _; exact (V x Hx) |].
    exact (A s2 Bs2).
  - intros A s Bs. apply (core_head (Gs h B) X X' T T' s h RX RT Oh). apply A.
    exact (body_bwd (Gs h B) (vars_head h) X X' T T' s B RX RT Ob Bs).
Qed.

Lemma rule_generic h B H H' T T' : def_head h = None -> ok_rule h B = true -> rel H H' -> rel T T' ->
  (rule_sat (Gs h B) H T h B <-> rule_sat (Gs h B) H' T' (tr_head h) (map tr_be B)).
Proof.
  intros Dh Ok RH RT. unfold Sat.rule_sat. rewrite !all_and2.
  rewrite (half_generic h B H H' T T' Dh Ok RH RT), (half_generic h B T T' T T' Dh Ok RT RT). tauto.
Qed.

Lemma def_head_inv h args : def_head h = Some args ->
  exists e, h = HLit (Lit NoSign (ASym (TFun pn args e))) /\ List.length args = n.
Proof.
  destruct h as [l| | | |]; try discriminate. simpl. intro E. destruct (is_read_inv l args E) as [e [-> L]].
  exists e. split; [reflexivity | exact L].
Qed.
Lemma tr_def_head args e : List.length args = n ->
  tr_head (HLit (Lit NoSign (ASym (TFun pn args e)))) = HLit (Lit NoSign (ASym (TFun qn (sel m args) e))).
Proof. intro L. unfold tr_head. rewrite (tr_read args e L). reflexivity. Qed.

Lemma half_def_fwd h B args X X' T T' : def_head h = Some args -> ok_rule h B = true -> rel X X' -> rel T T' ->
  (forall s, body_sat (Gs h B) X T s B -> head_sat (Gs h B) X T s h) ->
  (forall s, body_sat (Gs h B) X' T' s (map tr_be B) -> head_sat (Gs h B) X' T' s (tr_head h)).
Proof.
  intros Dh Ok RX RT A s Bs. unfold ok_rule in Ok. rewrite Dh in Ok. rewrite !andb_true_iff in Ok. destruct Ok as [[_ Ob] _].
  destruct (def_head_inv h args Dh) as [e [-> L]]. rewrite (tr_def_head args e L).
  destruct (body_fwd _ _ X X' T T' s B RX RT Ob Bs) as [s2 [Eq Bs2]].
  specialize (A s2 Bs2).
  set (G := Gs (HLit (Lit NoSign (ASym (TFun pn args e)))) B) in *.
  change (lit_sat G X' T' s (Lit NoSign (ASym (TFun qn (sel m args) e)))).
  change (lit_sat G X T s2 (Lit NoSign (ASym (TFun pn args e)))) in A.
  apply (read_bwd G G X X' T T' s args e RX L).
  apply (lit_sat_coincide sym_lt G X T s2 s); [|exact A].
  intros x Hx. apply Eq. intro Hd. exact (ok_body_avoid _ _ _ Ob x Hd Hx).
Qed.

Lemma rule_def_fwd h B args H H' T T' : def_head h = Some args -> ok_rule h B = true -> rel H H' -> rel T T' ->
  rule_sat (Gs h B) H T h B -> rule_sat (Gs h B) H' T' (tr_head h) (map tr_be B).
Proof.
  intros Dh Ok RH RT. unfold Sat.rule_sat. intro A. apply all_and2 in A. destruct A as [A1 A2]. apply all_and2. split.
  - exact (half_def_fwd h B args H H' T T' Dh Ok RH RT A1).
  - exact (half_def_fwd h B args T T' T T' Dh Ok RT RT A2).
Qed.

(* back: H must contain every p-atom of T whose projection is in H' *)
Lemma rule_def_bwd h B args H H' T T' : def_head h = Some args -> ok_rule h B = true -> rel H H' -> rel T T' -> subi H T ->
  (forall v, List.length v = n -> T (pn, v) -> H' (qn, sel m v) -> H (pn, v)) ->
  rule_sat (Gs h B) T T h B -> rule_sat (Gs h B) H' T' (tr_head h) (map tr_be B) -> rule_sat (Gs h B) H T h B.
Proof.
  intros Dh Ok RH RT S Lift MT M' s. destruct (MT s) as [_ MTs]. split; [|exact MTs]. intro Bs.
  pose proof Ok as Ok2. unfold ok_rule in Ok2. rewrite Dh in Ok2. rewrite !andb_true_iff in Ok2. destruct Ok2 as [[_ Ob] _].
  destruct (def_head_inv h args Dh) as [e [-> L]]. rewrite (tr_def_head args e L) in M'.
  set (G := Gs (HLit (Lit NoSign (ASym (TFun pn args e)))) B) in *.
  pose proof (ChainSem.body_sat_persist sym_lt G H T s B S Bs) as BT. specialize (MTs BT).
  destruct (proj1 (ChainSem.lit_sat_fun sym_lt G T T s NoSign pn args e) MTs) as [vs [E Tv]]. simpl in Tv.
  pose proof (proj1 (M' s) (body_bwd G _ H H' T T' s B RH RT Ob Bs)) as Hq.
  destruct (proj1 (ChainSem.lit_sat_fun sym_lt G H' T' s NoSign qn (sel m args) e) Hq) as [us [Eu Hu]]. simpl in Hu.
  rewrite (eval_list_sel s m args vs E) in Eu. injection Eu as <-.
  apply (proj2 (ChainSem.lit_sat_fun sym_lt G H T s NoSign pn args e)). exists vs. split; [exact E|]. simpl.
  apply Lift; [rewrite (ChainSem.eval_list_length _ _ _ E); exact L | exact Tv | exact Hu].
Qed.

(* ================================================================================================ *)
(* 7. Programs                                                                                      *)
(* ================================================================================================ *)
(* #minimize / weak constraints: the global variables are those of the weight, priority and terms and of the body *)
Definition Wm (w pr: term) (ts: list term) : list string := vars_term w ++ vars_term pr ++ flat_map vars_term ts.
Definition Gm (w pr: term) (ts: list term) (B: list bodyelem) : list string :=
  vars_term w ++ vars_term pr ++ flat_map vars_term ts ++ flat_map gvars_bodyelem B.
Definition ok_min (w pr: term) (ts: list term) (B: list bodyelem) : bool :=
  ok_body (Gm w pr ts B) (Wm w pr ts) B
  && forallb (fun x => sin x (Gm w pr ts (map tr_be B)) || negb (sin x (flat_map vars_bodyelem (map tr_be B)))) (Gm w pr ts B).
Definition ok_stmt (st: stmt) : bool :=
  match st with SRule _ h B => ok_rule h B | SMin _ w pr ts B => ok_min w pr ts B | _ => true end.
Definition ok_prog (P: program) : bool := forallb ok_stmt P.
Definition tr_prog (P: program) : program := map tr_stmt P.

Lemma ok_prog_stmt P st : ok_prog P = true -> In st P -> ok_stmt st = true.
Proof. unfold ok_prog. rewrite forallb_forall. intros A Hin. exact (A st Hin). Qed.

Lemma stmt_tr_rule line h B H T : ok_rule h B = true ->
  (stmt_sat H T (tr_stmt (SRule line h B)) <-> rule_sat (Gs h B) H T (tr_head h) (map tr_be B)).
Proof. intro Ok. exact (rule_gweak h B H T Ok). Qed.
Lemma body_gweak h B H T s : ok_rule h B = true ->
  (body_sat (Gt h B) H T s (map tr_be B) <-> body_sat (Gs h B) H T s (map tr_be B)).
Proof.
  unfold ok_rule. rewrite !andb_true_iff. intros [_ Fr]. rewrite forallb_forall in Fr.
  apply MinMaxSem.body_sat_gweak; [intros x Hx; exact (gvars_tr_rule h B x Hx)|].
  intros x Hx Nx Hv. specialize (Fr x Hx). apply orb_true_iff in Fr. destruct Fr as [A|A].
  - apply sin_true in A. contradiction.
  - apply negb_true_iff in A. apply sin_false in A. apply A. unfold Vt. apply in_app_iff. right. exact Hv.
Qed.

Definition isP (a: gatom) : Prop := fst a = pn /\ List.length (snd a) = n.
Definition isQ (a: gatom) : Prop := fst a = qn /\ List.length (snd a) = k.
Lemma K_cases a : K (gpred a) = true \/ isP a \/ isQ a.
Proof.
  destruct (K (gpred a)) eqn:E; [left; reflexivity|right]. unfold K in E. apply andb_false_iff in E.
  destruct E as [E|E]; apply negb_false_iff in E; apply pred_eqb_eq in E; unfold gpred in E; injection E as E1 E2;
    [left|right]; split; assumption.
Qed.
Lemma K_notP a : K (gpred a) = true -> ~ isP a.
Proof. intros Ka [E1 E2]. unfold gpred in Ka. rewrite E1, E2, K_p in Ka. discriminate. Qed.
Lemma K_notQ a : K (gpred a) = true -> ~ isQ a.
Proof. intros Ka [E1 E2]. unfold gpred in Ka. rewrite E1, E2, K_q in Ka. discriminate. Qed.
Lemma P_notQ a : isP a -> ~ isQ a.
Proof. intros [E1 E2] [F1 F2]. apply PQ. rewrite <- E1, <- F1, <- E2, <- F2. reflexivity. Qed.
Lemma K_notp r : K r = true -> notp (pn, n) r = true.
Proof. intro A. apply notp_true. exact (proj1 (proj1 (K_true r) A)). Qed.
Lemma K_notq r : K r = true -> notp (qn, k) r = true.
Proof. intro A. apply notp_true. exact (proj2 (proj1 (K_true r) A)). Qed.

(* THE PROJECTION of an interpretation: p-atoms are replaced by their projections *)
Definition prj (T: interp) : interp := fun a =>
  (K (gpred a) = true /\ T a) \/ (isQ a /\ exists v, List.length v = n /\ T (pn, v) /\ sel m v = snd a).

Lemma rel_prj T : rel T (prj T).
Proof.
  split.
  - intros a Ka. unfold prj. split; [intro Ta; left; split; assumption|].
    intros [[_ Ta]|[Qa _]]; [exact Ta | exfalso; exact (K_notQ a Ka Qa)].
  - intros us Lu. unfold prj. split.
    + intros [[Kq _]|[_ Ex]]; [|exact Ex]. unfold gpred in Kq. simpl in Kq. rewrite Lu, K_q in Kq. discriminate.
    + intro Ex. right. split; [split; [reflexivity | exact Lu] | exact Ex].
Qed.
Lemma rel_same X X1 X2 : rel X X1 -> same X1 X2 -> rel X X2.
Proof.
  intros [A B] S. split.
  - intros a Ka. rewrite (A a Ka). apply S.
  - intros us Lu. rewrite <- (S (qn, us)). exact (B us Lu).
Qed.

(* ---- the shape of the statements, for supportedness ---- *)
Lemma shape_src st : ok_stmt st = true ->
  defines pn n st \/ stmt_head_in (notp (pn, n)) st = true \/ free_choice pn n st.
Proof.
  destruct st as [line h B| | | |]; try (intros _; right; left; reflexivity). simpl. intro Ok.
  unfold ok_rule in Ok. rewrite !andb_true_iff in Ok. destruct Ok as [[Oh _] _].
  destruct (def_head h) as [args|] eqn:Dh.
  - left. destruct (def_head_inv h args Dh) as [e [-> L]]. exists line, args, e, B. split; [reflexivity | exact L].
  - assert (Gen: head_in K h = true -> stmt_head_in (notp (pn, n)) (SRule line h B) = true)
      by (intro A; exact (head_in_mono K _ K_notp h A)).
    destruct h as [l|es|lg es rg|lg f es rg|tx]; try (right; left; exact (Gen Oh)).
    destruct lg as [g|]; [right; left; exact (Gen Oh)|]. destruct rg as [g|]; [right; left; exact (Gen Oh)|].
    right. right. exists line, es, B. split; [reflexivity|]. intros c Hc. simpl in Oh. rewrite forallb_forall in Oh.
    specialize (Oh c Hc). unfold ok_celem in Oh. rewrite !andb_true_iff in Oh. exact (lit_in_mono K _ K_notp _ (proj2 (proj1 Oh))).
Qed.

Lemma shape_tgt st : ok_stmt st = true ->
  defines qn k (tr_stmt st) \/ stmt_head_in (notp (qn, k)) (tr_stmt st) = true \/ free_choice qn k (tr_stmt st).
Proof.
  destruct st as [line h B| | | |]; try (intros _; right; left; reflexivity). simpl. intro Ok.
  unfold ok_rule in Ok. rewrite !andb_true_iff in Ok. destruct Ok as [[Oh _] _].
  destruct (def_head h) as [args|] eqn:Dh.
  - left. destruct (def_head_inv h args Dh) as [e [-> L]]. rewrite (tr_def_head args e L).
    exists line, (sel m args), e, (map tr_be B). split; [reflexivity | apply sel_length; exact L].
  - assert (Gen: head_in K h = true -> stmt_head_in (notp (qn, k)) (SRule line (tr_head h) (map tr_be B)) = true)
      by (intro A; rewrite (tr_head_in h A); exact (head_in_mono K _ K_notq h A)).
    destruct h as [l|es|lg es rg|lg f es rg|tx]; try (right; left; exact (Gen Oh)).
    destruct lg as [g|]; [right; left; exact (Gen Oh)|]. destruct rg as [g|]; [right; left; exact (Gen Oh)|].
    right. right. exists line, (map tr_condlit es), (map tr_be B). split; [reflexivity|]. intros c' Hc'.
    apply in_map_iff in Hc'. destruct Hc' as [c [<- Hc]]. simpl in Oh. rewrite forallb_forall in Oh.
    specialize (Oh c Hc). unfold ok_celem in Oh. rewrite !andb_true_iff in Oh. destruct Oh as [[_ I] _].
    unfold tr_condlit. simpl. rewrite (tr_lit_in _ I). exact (lit_in_mono K _ K_notq _ I).
Qed.

(* no atoms of a predicate that no head can derive *)
Lemma no_atoms f ar P I T : stable P I T ->
  (forall st, In st P -> stmt_head_in (notp (f, ar)) st = true \/ free_choice f ar st) ->
  facts_over (fun r => r <> (f, ar)) I -> forall vs, List.length vs = ar -> ~ T (f, vs).
Proof.
  intros St Shape FO vs L Tv.
  destruct (hlit_supported sym_lt f ar P I T St (fun st Hin => or_intror (Shape st Hin)) FO vs L Tv)
    as (line & ts & e & B & s & Hin & E & _).
  destruct (Shape _ Hin) as [A|(l0 & es & B0 & Eq & _)]; [|discriminate Eq].
  change (notp (f, ar) (f, List.length ts) = true) in A. apply notp_true in A. apply A.
  rewrite <- (ChainSem.eval_list_length _ _ _ E), L. reflexivity.
Qed.

Lemma facts_K_notp I : facts_over (fun r => K r = true) I -> facts_over (fun r => r <> (pn, n)) I.
Proof. intros FO a Ha. exact (proj1 (proj1 (K_true _) (FO a Ha))). Qed.
Lemma facts_K_notq I : facts_over (fun r => K r = true) I -> facts_over (fun r => r <> (qn, k)) I.
Proof. intros FO a Ha. exact (proj2 (proj1 (K_true _) (FO a Ha))). Qed.

(* answer sets of the source have no q-atoms *)
Lemma src_no_q P I T : ok_prog P = true -> facts_over (fun r => K r = true) I -> stable P I T ->
  forall us, List.length us = k -> ~ T (qn, us).
Proof.
  intros Ok FO St. apply (no_atoms qn k P I T St); [|exact (facts_K_notq I FO)].
  intros st Hin. pose proof (ok_prog_stmt P st Ok Hin) as Os.
  destruct st as [line h B| | | |]; try (left; reflexivity). simpl in Os.
  unfold ok_rule in Os. rewrite !andb_true_iff in Os. destruct Os as [[Oh _] _].
  destruct (def_head h) as [args|] eqn:Dh.
  - left. destruct (def_head_inv h args Dh) as [e [-> L]]. change (notp (qn, k) (pn, List.length args) = true).
    rewrite L. apply notp_true. intro E. apply PQ. symmetry. exact E.
  - assert (Gen: head_in K h = true -> stmt_head_in (notp (qn, k)) (SRule line h B) = true)
      by (intro A; exact (head_in_mono K _ K_notq h A)).
    destruct h as [l|es|lg es rg|lg f es rg|tx]; try (left; exact (Gen Oh)).
    destruct lg as [g|]; [left; exact (Gen Oh)|]. destruct rg as [g|]; [left; exact (Gen Oh)|].
    right. exists line, es, B. split; [reflexivity|]. intros c Hc. simpl in Oh. rewrite forallb_forall in Oh.
    specialize (Oh c Hc). unfold ok_celem in Oh. rewrite !andb_true_iff in Oh. exact (lit_in_mono K _ K_notq _ (proj2 (proj1 Oh))).
Qed.

(* answer sets of the result have no p-atoms *)
Lemma tgt_no_p P I T' : ok_prog P = true -> facts_over (fun r => K r = true) I -> stable (tr_prog P) I T' ->
  forall v, List.length v = n -> ~ T' (pn, v).
Proof.
  intros Ok FO St. apply (no_atoms pn n (tr_prog P) I T' St); [|exact (facts_K_notp I FO)].
  intros st' Hin'. apply in_map_iff in Hin'. destruct Hin' as [st [<- Hin]]. pose proof (ok_prog_stmt P st Ok Hin) as Os.
  destruct st as [line h B| | | |]; try (left; reflexivity). simpl in Os.
  unfold ok_rule in Os. rewrite !andb_true_iff in Os. destruct Os as [[Oh _] _]. simpl tr_stmt.
  destruct (def_head h) as [args|] eqn:Dh.
  - left. destruct (def_head_inv h args Dh) as [e [-> L]]. rewrite (tr_def_head args e L).
    change (notp (pn, n) (qn, List.length (sel m args)) = true). rewrite (sel_length m args L). apply notp_true. exact PQ.
  - assert (Gen: head_in K h = true -> stmt_head_in (notp (pn, n)) (SRule line (tr_head h) (map tr_be B)) = true)
      by (intro A; rewrite (tr_head_in h A); exact (head_in_mono K _ K_notp h A)).
    destruct h as [l|es|lg es rg|lg f es rg|tx]; try (left; exact (Gen Oh)).
    destruct lg as [g|]; [left; exact (Gen Oh)|]. destruct rg as [g|]; [left; exact (Gen Oh)|].
    right. exists line, (map tr_condlit es), (map tr_be B). split; [reflexivity|]. intros c' Hc'.
    apply in_map_iff in Hc'. destruct Hc' as [c [<- Hc]]. simpl in Oh. rewrite forallb_forall in Oh.
    specialize (Oh c Hc). unfold ok_celem in Oh. rewrite !andb_true_iff in Oh. destruct Oh as [[_ I0] _].
    unfold tr_condlit. simpl. rewrite (tr_lit_in _ I0). exact (lit_in_mono K _ K_notp _ I0).
Qed.

(* ---- (A) every answer set of the source projects to an answer set of the result ---- *)
Theorem proj_fwd P I T : ok_prog P = true -> facts_over (fun r => K r = true) I ->
  stable P I T -> stable (tr_prog P) I (prj T).
Proof.
  intros Ok FO [[PT FT] Min]. pose proof (rel_prj T) as RT. split; [split|].
  - intros st' Hin'. apply in_map_iff in Hin'. destruct Hin' as [st [<- Hin]].
    pose proof (ok_prog_stmt P st Ok Hin) as Os. pose proof (PT st Hin) as M.
    destruct st as [line h B| | | |]; try exact Logic.I.
    apply (stmt_tr_rule line h B _ _ Os). simpl in M, Os. destruct (def_head h) as [args|] eqn:Dh.
    + exact (rule_def_fwd h B args T (prj T) T (prj T) Dh Os RT RT M).
    + exact (proj1 (rule_generic h B T (prj T) T (prj T) Dh Os RT RT) M).
  - intros a Ha. left. split; [exact (FO a Ha) | exact (FT a Ha)].
  - intros H' S' PS' FH'.
    set (H := fun a : gatom => T a /\ (isP a -> H' (qn, sel m (snd a))) /\ (K (gpred a) = true -> H' a)).
    assert (S: subi H T) by (intros a [Ta _]; exact Ta).
    assert (RH: rel H H').
    { split.
      - intros a Ka. unfold H. split; [intros [_ [_ A]]; exact (A Ka)|]. intro Ha. split; [|split].
        + destruct (S' a Ha) as [[_ Ta]|[Qa _]]; [exact Ta | exfalso; exact (K_notQ a Ka Qa)].
        + intro Pa. exfalso. exact (K_notP a Ka Pa).
        + intros _. exact Ha.
      - intros us Lu. split.
        + intro Hq. destruct (S' _ Hq) as [[Kq _]|[_ [v [Lv [Tv Sv]]]]].
          * unfold gpred in Kq. simpl in Kq. rewrite Lu, K_q in Kq. discriminate.
          * simpl in Sv. exists v. split; [exact Lv|]. split; [|exact Sv]. unfold H. split; [exact Tv|]. split.
            -- intros _. simpl. rewrite Sv. exact Hq.
            -- intro Kp. unfold gpred in Kp. simpl in Kp. rewrite Lv, K_p in Kp. discriminate.
        + intros [v [Lv [[_ [Hp _]] Sv]]]. rewrite <- Sv. apply Hp. split; [reflexivity | exact Lv]. }
    assert (PS: prog_sat H T P).
    { intros st Hin. pose proof (ok_prog_stmt P st Ok Hin) as Os. pose proof (PT st Hin) as M.
      pose proof (PS' (tr_stmt st) (in_map tr_stmt P st Hin)) as M'.
      destruct st as [line h B| | | |]; try exact Logic.I.
      apply (stmt_tr_rule line h B _ _ Os) in M'. simpl in M, Os |- *. destruct (def_head h) as [args|] eqn:Dh.
      - apply (rule_def_bwd h B args H H' T (prj T) Dh Os RH RT S); [|exact M|exact M'].
        intros v Lv Tv Hv. unfold H. split; [exact Tv|]. split; [intros _; exact Hv|].
        intro Kp. unfold gpred in Kp. simpl in Kp. rewrite Lv, K_p in Kp. discriminate.
      - exact (proj2 (rule_generic h B H H' T (prj T) Dh Os RH RT) M'). }
    assert (FH: facts_sat H I).
    { intros a Ha. unfold H. split; [exact (FT a Ha)|]. split.
      - intro Pa. exfalso. exact (K_notP a (FO a Ha) Pa).
      - intros _. exact (FH' a Ha). }
    pose proof (Min H S PS FH) as TH.
    intros a [[Ka Ta]|[Qa [v [Lv [Tv Sv]]]]].
    + exact (proj2 (proj2 (TH a Ta)) Ka).
    + destruct (TH _ Tv) as [_ [Hp _]]. specialize (Hp (conj eq_refl Lv)). simpl in Hp. rewrite Sv in Hp.
      destruct a as [f us]. destruct Qa as [Ef _]. simpl in *. subst f. exact Hp.
Qed.

(* ---- (B) every answer set of the result is the projection of an answer set of the source ---- *)
(* the p-atoms that the defining rules derive, their bodies evaluated in the result *)
Definition derivable (P: program) (T': interp) (v: list sym) : Prop :=
  exists line args e B s, In (SRule line (HLit (Lit NoSign (ASym (TFun pn args e)))) B) P /\ eval_list s args = Some v /\
    body_sat (Gs (HLit (Lit NoSign (ASym (TFun pn args e)))) B) T' T' s (map tr_be B).
Definition lift (P: program) (T': interp) : interp := fun a =>
  (K (gpred a) = true /\ T' a) \/ (isP a /\ derivable P T' (snd a)).

Lemma rel_lift P I T' : ok_prog P = true -> facts_over (fun r => K r = true) I -> stable (tr_prog P) I T' ->
  rel (lift P T') T'.
Proof.
  intros Ok FO St. split.
  - intros a Ka. unfold lift. split; [|intro Ta; left; split; assumption].
    intros [[_ Ta]|[Pa _]]; [exact Ta | exfalso; exact (K_notP a Ka Pa)].
  - intros us Lu. split.
    + intro Tq.
      destruct (hlit_supported sym_lt qn k (tr_prog P) I T' St) with (vs := us) as (line & ts' & e & B' & s & Hin' & E & Bs); try assumption.
      { intros st' Hin'. apply in_map_iff in Hin'. destruct Hin' as [st [<- Hin]]. exact (shape_tgt st (ok_prog_stmt P st Ok Hin)). }
      { exact (facts_K_notq I FO). }
      apply in_map_iff in Hin'. destruct Hin' as [st [Eq Hin]]. pose proof (ok_prog_stmt P st Ok Hin) as Os.
      destruct st as [line0 h B| | | |]; try discriminate Eq. simpl in Eq, Os. injection Eq as -> Eh <-.
      destruct (def_head h) as [args|] eqn:Dh.
      * destruct (def_head_inv h args Dh) as [e0 [-> L]]. rewrite (tr_def_head args e0 L) in Eh. injection Eh as <- <-.
        pose proof Os as Os2. unfold ok_rule in Os2. rewrite Dh in Os2. rewrite !andb_true_iff in Os2. destruct Os2 as [[Hd _] _].
        destruct (head_def_eval s m args us L Hd E) as [v Ev].
        pose proof (eval_list_sel s m args v Ev) as Es. rewrite E in Es. injection Es as Es.
        assert (Lv: List.length v = n) by (rewrite (ChainSem.eval_list_length _ _ _ Ev); exact L).
        exists v. split; [exact Lv|]. split; [|symmetry; exact Es].
        right. split; [split; [reflexivity | exact Lv]|]. exists line, args, e0, B, s. split; [exact Hin|]. split; [exact Ev|].
        apply (body_gweak _ B T' T' s Os). unfold Gt. rewrite (tr_def_head args e0 L). exact Bs.
      * exfalso. unfold ok_rule in Os. rewrite Dh in Os. rewrite !andb_true_iff in Os. destruct Os as [[Oh _] _].
        destruct h as [l|es|lg es rg|lg f es rg|tx]; try discriminate Eh.
        change (lit_in K l = true) in Oh. simpl in Eh. rewrite (tr_lit_in l Oh) in Eh. injection Eh as ->.
        change (K (qn, List.length ts') = true) in Oh.
        rewrite <- (ChainSem.eval_list_length _ _ _ E), Lu, K_q in Oh. discriminate.
    + intros [v [Lv [Tv Sv]]]. destruct Tv as [[Kp _]|[_ Dv]].
      * unfold gpred in Kp. simpl in Kp. rewrite Lv, K_p in Kp. discriminate.
      * destruct Dv as (line & args & e & B & s & Hin & Ev & Bs). simpl in Ev.
        pose proof (ok_prog_stmt P _ Ok Hin) as Os. simpl in Os.
        destruct St as [[PT' _] _]. pose proof (PT' _ (in_map tr_stmt P _ Hin)) as M'.
        apply (stmt_tr_rule line _ B _ _ Os) in M'.
        assert (L: List.length args = n) by (rewrite <- (ChainSem.eval_list_length _ _ _ Ev); exact Lv).
        rewrite (tr_def_head args e L) in M'.
        set (G := Gs (HLit (Lit NoSign (ASym (TFun pn args e)))) B) in *.
        pose proof (proj2 (M' s) Bs) as Hq.
        destruct (proj1 (ChainSem.lit_sat_fun sym_lt G T' T' s NoSign qn (sel m args) e) Hq) as [us' [Eu Tu]]. simpl in Tu.
        rewrite (eval_list_sel s m args v Ev) in Eu. injection Eu as <-. rewrite <- Sv. exact Tu.
Qed.

Theorem proj_bwd P I T' : ok_prog P = true -> facts_over (fun r => K r = true) I ->
  stable (tr_prog P) I T' -> stable P I (lift P T') /\ rel (lift P T') T'.
Proof.
  intros Ok FO St. pose proof (rel_lift P I T' Ok FO St) as RT. split; [|exact RT].
  destruct St as [[PT' FT'] Min']. set (T := lift P T') in *.
  assert (PT: prog_sat T T P).
  { intros st Hin. pose proof (ok_prog_stmt P st Ok Hin) as Os.
    pose proof (PT' (tr_stmt st) (in_map tr_stmt P st Hin)) as M'.
    destruct st as [line h B| | | |]; try exact Logic.I.
    apply (stmt_tr_rule line h B _ _ Os) in M'. simpl in Os |- *. destruct (def_head h) as [args|] eqn:Dh.
    - pose proof Os as Os2. unfold ok_rule in Os2. rewrite Dh in Os2. rewrite !andb_true_iff in Os2. destruct Os2 as [[Hd Ob] _].
      destruct (def_head_inv h args Dh) as [e [-> L]]. rewrite (tr_def_head args e L) in M'.
      set (G := Gs (HLit (Lit NoSign (ASym (TFun pn args e)))) B) in *.
      assert (A: forall s, body_sat G T T s B -> head_sat G T T s (HLit (Lit NoSign (ASym (TFun pn args e))))).
      { intros s Bs. pose proof (body_bwd G _ T T' T T' s B RT RT Ob Bs) as Bs'.
        pose proof (proj2 (M' s) Bs') as Hq.
        destruct (proj1 (ChainSem.lit_sat_fun sym_lt G T' T' s NoSign qn (sel m args) e) Hq) as [us [Eu _]].
        destruct (head_def_eval s m args us L Hd Eu) as [v Ev].
        apply (proj2 (ChainSem.lit_sat_fun sym_lt G T T s NoSign pn args e)). exists v. split; [exact Ev|]. simpl.
        assert (Lv: List.length v = n) by (rewrite (ChainSem.eval_list_length _ _ _ Ev); exact L).
        right. split; [split; [reflexivity | exact Lv]|]. exists line, args, e, B, s. split; [exact Hin|]. split; [exact Ev | exact Bs']. }
      intro s. split; exact (A s).
    - exact (proj2 (rule_generic h B T T' T T' Dh Os RT RT) M'). }
  assert (FT: facts_sat T I) by (intros a Ha; left; split; [exact (FO a Ha) | exact (FT' a Ha)]).
  split; [split; assumption|].
  intros H S PS FH.
  set (H' := fun a : gatom => (K (gpred a) = true /\ H a) \/
                              (isQ a /\ exists v, List.length v = n /\ H (pn, v) /\ sel m v = snd a) \/ (isP a /\ T' a)).
  assert (S': subi H' T').
  { intros a [[Ka Ha]|[[Qa [v [Lv [Hv Sv]]]]|[_ Ta]]]; [| |exact Ta].
    - apply (proj1 RT a Ka). exact (S a Ha).
    - destruct a as [f us]. destruct Qa as [Ef Lu]. simpl in *. subst f. apply (proj2 RT us Lu). exists v. split; [exact Lv|]. split; [exact (S _ Hv) | exact Sv]. }
  assert (RH: rel H H').
  { split.
    - intros a Ka. unfold H'. split; [intro Ha; left; split; assumption|].
      intros [[_ Ha]|[[Qa _]|[Pa _]]]; [exact Ha | exfalso; exact (K_notQ a Ka Qa) | exfalso; exact (K_notP a Ka Pa)].
    - intros us Lu. unfold H'. split.
      + intros [[Kq _]|[[_ Ex]|[Pa _]]]; [|exact Ex|].
        * unfold gpred in Kq. simpl in Kq. rewrite Lu, K_q in Kq. discriminate.
        * exfalso. apply (P_notQ _ Pa). split; [reflexivity | exact Lu].
      + intro Ex. right. left. split; [split; [reflexivity | exact Lu] | exact Ex]. }
  assert (PS': prog_sat H' T' (tr_prog P)).
  { intros st' Hin'. apply in_map_iff in Hin'. destruct Hin' as [st [<- Hin]].
    pose proof (ok_prog_stmt P st Ok Hin) as Os. pose proof (PS st Hin) as M.
    destruct st as [line h B| | | |]; try exact Logic.I.
    apply (stmt_tr_rule line h B _ _ Os). simpl in M, Os. destruct (def_head h) as [args|] eqn:Dh.
    - exact (rule_def_fwd h B args H H' T T' Dh Os RH RT M).
    - exact (proj1 (rule_generic h B H H' T T' Dh Os RH RT) M). }
  assert (FH': facts_sat H' I) by (intros a Ha; left; split; [exact (FO a Ha) | exact (FH a Ha)]).
  pose proof (Min' H' S' PS' FH') as TH'.
  assert (RH2: rel H T').
  { apply (rel_same H H' T' RH). intro a. split; [apply S' | apply TH']. }
  intros a [[Ka Ta]|[Pa Dv]].
  - destruct (TH' a Ta) as [[_ Ha]|[[Qa _]|[Pa _]]]; [exact Ha | exfalso; exact (K_notQ a Ka Qa) | exfalso; exact (K_notP a Ka Pa)].
  - destruct Dv as (line & args & e & B & s & Hin & Ev & Bs').
    pose proof (ok_prog_stmt P _ Ok Hin) as Os. simpl in Os.
    pose proof Os as Os2. unfold ok_rule in Os2. rewrite !andb_true_iff in Os2. destruct Os2 as [[_ Ob] _].
    pose proof (PS _ Hin) as M. simpl in M.
    set (G := Gs (HLit (Lit NoSign (ASym (TFun pn args e)))) B) in *.
    destruct (body_fwd G _ H T' T T' s B RH2 RT Ob Bs') as [s2 [Eq Bs2]].
    pose proof (proj1 (M s2) Bs2) as Hp.
    destruct (proj1 (ChainSem.lit_sat_fun sym_lt G H T s2 NoSign pn args e) Hp) as [ws [E2 Hw]]. simpl in Hw.
    assert (E3: eval_list s2 args = eval_list s args).
    { apply eval_list_coincide. intros x Hx. apply Eq. intro Hd. exact (ok_body_avoid _ _ _ Ob x Hd Hx). }
    rewrite E3, Ev in E2. injection E2 as <-.
    destruct a as [f v]. destruct Pa as [Ef _]. simpl in *. subst f. exact Hw.
Qed.

(* ---- (C) the projection is injective on answer sets: the dropped arguments are determined ---- *)
Theorem proj_inj P I T1 T2 T' : ok_prog P = true -> facts_over (fun r => K r = true) I ->
  stable P I T1 -> stable P I T2 -> rel T1 T' -> rel T2 T' -> same T1 T2.
Proof.
  intros Ok FO St1 St2 R1 R2.
  assert (Half: forall Ta Tb, stable P I Ta -> stable P I Tb -> rel Ta T' -> rel Tb T' -> forall v, List.length v = n -> Ta (pn, v) -> Tb (pn, v)).
  { intros Ta Tb Sa Sb Ra Rb v Lv Tv.
    destruct (hlit_supported sym_lt pn n P I Ta Sa) with (vs := v) as (line & args & e & B & s & Hin & Ev & Bs); try assumption.
    { intros st Hin. exact (shape_src st (ok_prog_stmt P st Ok Hin)). }
    { exact (facts_K_notp I FO). }
    pose proof (ok_prog_stmt P _ Ok Hin) as Os. simpl in Os.
    pose proof Os as Os2. unfold ok_rule in Os2. rewrite !andb_true_iff in Os2. destruct Os2 as [[_ Ob] _].
    set (G := Gs (HLit (Lit NoSign (ASym (TFun pn args e)))) B) in *.
    pose proof (body_bwd G _ Ta T' Ta T' s B Ra Ra Ob Bs) as Bs'.
    destruct (body_fwd G _ Tb T' Tb T' s B Rb Rb Ob Bs') as [s2 [Eq Bs2]].
    destruct Sb as [[PTb _] _]. pose proof (PTb _ Hin) as M. simpl in M. fold G in M.
    pose proof (proj2 (M s2) Bs2) as Hp.
    destruct (proj1 (ChainSem.lit_sat_fun sym_lt G Tb Tb s2 NoSign pn args e) Hp) as [ws [E2 Hw]]. simpl in Hw.
    assert (E3: eval_list s2 args = eval_list s args).
    { apply eval_list_coincide. intros x Hx. apply Eq. intro Hd. exact (ok_body_avoid _ _ _ Ob x Hd Hx). }
    rewrite E3, Ev in E2. injection E2 as <-. exact Hw. }
  intro a. destruct (K_cases a) as [Ka|[Pa|Qa]].
  - rewrite (proj1 R1 a Ka), (proj1 R2 a Ka). tauto.
  - destruct a as [f v]. destruct Pa as [Ef Lv]. simpl in *. subst f. split; apply Half; assumption.
  - destruct a as [f us]. destruct Qa as [Ef Lu]. simpl in *. subst f.
    split; intro X; exfalso; [exact (src_no_q P I T1 Ok FO St1 us Lu X) | exact (src_no_q P I T2 Ok FO St2 us Lu X)].
Qed.

(* ---- the three together: T |-> prj T is a BIJECTION  AS(P + I) -> AS(tr_prog P + I) ---- *)
Lemma prj_of_rel T T' : rel T T' -> (forall v, List.length v = n -> ~ T' (pn, v)) -> same (prj T) T'.
Proof.
  intros [RA RB] NoP a. destruct (K_cases a) as [Ka|[Pa|Qa]].
  - unfold prj. split.
    + intros [[_ Ta]|[Qa _]]; [exact (proj1 (RA a Ka) Ta) | exfalso; exact (K_notQ a Ka Qa)].
    + intro Ta. left. split; [exact Ka | exact (proj2 (RA a Ka) Ta)].
  - split.
    + intros [[Ka _]|[Qa _]]; exfalso; [exact (K_notP a Ka Pa) | exact (P_notQ a Pa Qa)].
    + intro Ta. exfalso. destruct a as [f v]. destruct Pa as [Ef Lv]. simpl in *. subst f. exact (NoP v Lv Ta).
  - destruct a as [f us]. pose proof Qa as Qa'. destruct Qa as [Ef Lu]. simpl in *. subst f. unfold prj. split.
    + intros [[Ka _]|[_ Ex]]; [exfalso; exact (K_notQ _ Ka Qa') | exact (proj2 (RB us Lu) Ex)].
    + intro Tq. right. split; [exact Qa' | exact (proj1 (RB us Lu) Tq)].
Qed.

Theorem project_position_sound P : ok_prog P = true ->
  forall I, facts_over (fun r => K r = true) I ->
    (forall T, stable P I T -> stable (tr_prog P) I (prj T)) /\
    (forall T', stable (tr_prog P) I T' -> exists T, stable P I T /\ same (prj T) T') /\
    (forall T1 T2, stable P I T1 -> stable P I T2 -> same (prj T1) (prj T2) -> same T1 T2).
Proof.
  intros Ok I FO. split; [|split].
  - intros T St. exact (proj_fwd P I T Ok FO St).
  - intros T' St. destruct (proj_bwd P I T' Ok FO St) as [St0 R]. exists (lift P T'). split; [exact St0|].
    exact (prj_of_rel _ _ R (tgt_no_p P I T' Ok FO St)).
  - intros T1 T2 S1 S2 Sa. apply (proj_inj P I T1 T2 (prj T1) Ok FO S1 S2 (rel_prj T1)).
    apply (rel_same T2 (prj T2) (prj T1) (rel_prj T2)). intro a. symmetry. apply Sa.
Qed.

(* ... hence the same answer sets on every vocabulary OUT that contains neither p- nor q-atoms (property C09) *)
Corollary project_position_equiv_out P (IN: pred -> Prop) (OUT: gatom -> Prop) : ok_prog P = true ->
  (forall r, IN r -> K r = true) -> (forall a, OUT a -> K (gpred a) = true) ->
  Sat.equiv_out sym_lt IN OUT P (tr_prog P).
Proof.
  intros Ok HIN HOUT I FI S.
  assert (FO: facts_over (fun r => K r = true) I) by (intros a Ha; exact (HIN _ (FI a Ha))).
  assert (Re: forall T T', rel T T' -> same (restr OUT T) (restr OUT T')).
  { intros T T' [RA _] a. unfold restr. split; intros [Oa Ta]; (split; [exact Oa|]); apply (RA a (HOUT a Oa)); exact Ta. }
  split.
  - intros [T [St Sa]]. exists (prj T). split; [exact (proj_fwd P I T Ok FO St)|].
    intro a. rewrite <- (Sa a). symmetry. apply (Re T (prj T) (rel_prj T)).
  - intros [T' [St Sa]]. destruct (proj_bwd P I T' Ok FO St) as [St0 R]. exists (lift P T'). split; [exact St0|].
    intro a. rewrite <- (Sa a). apply (Re _ _ R).
Qed.

(* ---- objectives: the cost tuples of #minimize / weak constraints are those of the projection ---- *)
Lemma min_gweak w pr ts B X T s : ok_min w pr ts B = true ->
  (body_sat (Gm w pr ts (map tr_be B)) X T s (map tr_be B) <-> body_sat (Gm w pr ts B) X T s (map tr_be B)).
Proof.
  unfold ok_min. rewrite andb_true_iff. intros [_ Fr]. rewrite forallb_forall in Fr.
  apply MinMaxSem.body_sat_gweak.
  - intros x Hx. unfold Gm in *. rewrite !in_app_iff in *. destruct Hx as [A|[A|[A|A]]]; auto. right. right. right.
    apply in_flat_map in A. destruct A as [e' [He' A]]. apply in_map_iff in He'. destruct He' as [e [<- He]].
    apply in_flat_map. exists e. split; [exact He | exact (gvars_tr_be e x A)].
  - intros x Hx Nx Hv. specialize (Fr x Hx). apply orb_true_iff in Fr. destruct Fr as [A|A].
    + apply sin_true in A. contradiction.
    + apply negb_true_iff in A. apply sin_false in A. contradiction.
Qed.

Theorem proj_cost P T T' : ok_prog P = true -> rel T T' ->
  forall p, tup_eq (Cost.cost_tuples sym_lt P T p) (Cost.cost_tuples sym_lt (tr_prog P) T' p).
Proof.
  intros Ok RT p tv. unfold Cost.cost_tuples. split.
  - intros (line & w & pr & ts & b & s & wz & vs & Hin & Bs & Ew & Ep & Et & ->).
    pose proof (ok_prog_stmt P _ Ok Hin) as Os. simpl in Os. pose proof Os as Os2. unfold ok_min in Os2. apply andb_true_iff in Os2. destruct Os2 as [Ob _].
    exists line, w, pr, ts, (map tr_be b), s, wz, vs. split; [exact (in_map tr_stmt P _ Hin)|].
    split; [|repeat split; assumption].
    apply (min_gweak w pr ts b T' T' s Os). exact (body_bwd _ _ T T' T T' s b RT RT Ob Bs).
  - intros (line & w & pr & ts & b' & s & wz & vs & Hin' & Bs & Ew & Ep & Et & ->).
    apply in_map_iff in Hin'. destruct Hin' as [st [Eq Hin]]. pose proof (ok_prog_stmt P _ Ok Hin) as Os.
    destruct st as [|line0 w0 pr0 ts0 b| | |]; try discriminate Eq. simpl in Eq. injection Eq as -> -> -> -> <-.
    simpl in Os. pose proof Os as Os2. unfold ok_min in Os2. apply andb_true_iff in Os2. destruct Os2 as [Ob _].
    apply (min_gweak w pr ts b T' T' s Os) in Bs.
    destruct (body_fwd _ _ T T' T T' s b RT RT Ob Bs) as [s2 [Eq2 Bs2]].
    assert (V: forall x, In x (Wm w pr ts) -> s2 x = s x).
    { intros x Hx. apply Eq2. intro Hd. exact (ok_body_avoid _ _ _ Ob x Hd Hx). }
    exists line, w, pr, ts, b, s2, wz, vs. split; [exact Hin|]. split; [exact Bs2|].
    split; [rewrite <- Ew; apply eval_coincide; intros x Hx; apply V; unfold Wm; rewrite !in_app_iff; auto|].
    split; [rewrite <- Ep; apply eval_coincide; intros x Hx; apply V; unfold Wm; rewrite !in_app_iff; auto|].
    split; [rewrite <- Et; apply eval_list_coincide; intros x Hx; apply V; unfold Wm; rewrite !in_app_iff; auto | reflexivity].
Qed.

Corollary proj_same_cost P T T' : ok_prog P = true -> rel T T' -> Cost.same_cost sym_lt P (tr_prog P) T T'.
Proof.
  intros Ok RT p c. unfold Cost.cost_at.
  split; intros [l [En Ec]]; exists l; (split; [|exact Ec]);
    [apply (enumerates_ext _ _ l (proj_cost P T T' Ok RT p)) | apply (enumerates_ext _ _ l (proj_cost P T T' Ok RT p))]; exact En.
Qed.

(* same output answer sets WITH the same cost at every priority level (properties C09 / C02) *)
Corollary project_position_equiv_cost P (IN: pred -> Prop) (OUT: gatom -> Prop) : ok_prog P = true ->
  (forall r, IN r -> K r = true) -> (forall a, OUT a -> K (gpred a) = true) ->
  Cost.equiv_cost sym_lt IN OUT P (tr_prog P).
Proof.
  intros Ok HIN HOUT I FI S kk.
  assert (FO: facts_over (fun r => K r = true) I) by (intros a Ha; exact (HIN _ (FI a Ha))).
  assert (Re: forall T T', rel T T' -> same (restr OUT T) (restr OUT T')).
  { intros T T' [RA _] a. unfold restr. split; intros [Oa Ta]; (split; [exact Oa|]); apply (RA a (HOUT a Oa)); exact Ta. }
  split.
  - intros [T [St [Sa Co]]]. exists (prj T). split; [exact (proj_fwd P I T Ok FO St)|]. split.
    + intro a. rewrite <- (Sa a). symmetry. apply (Re T (prj T) (rel_prj T)).
    + intros p c. rewrite <- (Co p c). symmetry. apply (proj_same_cost P T (prj T) Ok (rel_prj T)).
  - intros [T' [St [Sa Co]]]. destruct (proj_bwd P I T' Ok FO St) as [St0 R]. exists (lift P T'). split; [exact St0|]. split.
    + intro a. rewrite <- (Sa a). apply (Re _ _ R).
    + intros p c. rewrite <- (Co p c). apply (proj_same_cost P _ T' Ok R).
Qed.
End Project.


(* ================================================================================================ *)
(* 8. Renaming the variables of a simple rule (ngo writes `_` for the variables it anonymises)      *)
(* ================================================================================================ *)
Section Alpha.
Variable sym_lt : sym -> sym -> Prop.
Lemma simple_rule_ren G G' H T (r: string -> string) hl B :
  Normalize.simple_lit_b hl = true -> forallb simple_bodyelem_b B = true -> (forall x, r (r x) = x) ->
  (Sat.rule_sat sym_lt G H T (HLit (SymmetrySem.ren_lit r hl)) (map (SymmetrySem.ren_bodyelem r) B) <->
   Sat.rule_sat sym_lt G' H T (HLit hl) B).
Proof.
  intros Sh SB Inv. unfold Sat.rule_sat, Sat.head_sat.
  assert (Bd: forall X s, Sat.body_sat sym_lt G X T s (map (SymmetrySem.ren_bodyelem r) B) <-> Sat.body_sat sym_lt G' X T (SymmetrySem.comp s r) B)
    by (intros; apply SymmetrySem.body_sat_ren; exact SB).
  assert (Hd: forall X s, Sat.lit_sat sym_lt G X T s (SymmetrySem.ren_lit r hl) <-> Sat.lit_sat sym_lt G' X T (SymmetrySem.comp s r) hl)
    by (intros; apply SymmetrySem.lit_sat_ren; exact Sh).
  assert (CC: forall s x, SymmetrySem.comp (SymmetrySem.comp s r) r x = s x) by (intros; unfold SymmetrySem.comp; rewrite Inv; reflexivity).
  assert (Bc: forall X s, Sat.body_sat sym_lt G' X T (SymmetrySem.comp (SymmetrySem.comp s r) r) B <-> Sat.body_sat sym_lt G' X T s B)
    by (intros; apply body_sat_coincide; intros; apply CC).
  assert (Hc: forall X s, Sat.lit_sat sym_lt G' X T (SymmetrySem.comp (SymmetrySem.comp s r) r) hl <-> Sat.lit_sat sym_lt G' X T s hl)
    by (intros; apply lit_sat_coincide; intros; apply CC).
  split; intros A s.
  - specialize (A (SymmetrySem.comp s r)). rewrite !Bd, !Hd, !Bc, !Hc in A. exact A.
  - specialize (A (SymmetrySem.comp s r)). rewrite !Bd, !Hd. exact A.
Qed.
End Alpha.

(* ================================================================================================ *)
(* 9. The model of the pass (Model/UnusedExecute.v) on concrete programs                            *)
(* ================================================================================================ *)
Module ModelExamples.
(* ---- A:  p(X,Y) :- d(X,Y).  q(X) :- p(X,_).      inputs d/2, outputs q/1 ---- *)
Definition exA : program := [(SOther "ASTType.Program" "#program base."); (SRule 1 (HLit (Lit NoSign (ASym (TFun "p" [(TVar "X"); (TVar "Y")] false)))) [(BLit (Lit NoSign (ASym (TFun "d" [(TVar "X"); (TVar "Y")] false))))]); (SRule 1 (HLit (Lit NoSign (ASym (TFun "q" [(TVar "X")] false)))) [(BLit (Lit NoSign (ASym (TFun "p" [(TVar "X"); (TVar "_")] false))))])].
(* python: #program base. p(X) :- d(X,_). q(X) :- p(X). *)
Definition exA_res : program := [(SOther "ASTType.Program" "#program base."); (SRule 1 (HLit (Lit NoSign (ASym (TFun "p" [(TVar "X")] false)))) [(BLit (Lit NoSign (ASym (TFun "d" [(TVar "X"); (TVar "_")] false))))]); (SRule 1 (HLit (Lit NoSign (ASym (TFun "q" [(TVar "X")] false)))) [(BLit (Lit NoSign (ASym (TFun "p" [(TVar "X")] false))))])].

Lemma exA_model : UnusedExecute.execute exA [("d", 2)] [("q", 1)] exA = Ok exA_res.
Proof. vm_compute. reflexivity. Qed.
Lemma exA_ok : ok_prog "p" [true; false] "p" exA = true.
Proof. vm_compute. reflexivity. Qed.

(* the projection of section 2 applied to exA: it differs from ngo's output only in the NAME of the variable that a
   later round of the loop anonymises (d(X,Y) vs d(X,_)) *)
Definition exA_tr : program := [(SOther "ASTType.Program" "#program base."); (SRule 1 (HLit (Lit NoSign (ASym (TFun "p" [(TVar "X")] false)))) [(BLit (Lit NoSign (ASym (TFun "d" [(TVar "X"); (TVar "Y")] false))))]); (SRule 1 (HLit (Lit NoSign (ASym (TFun "q" [(TVar "X")] false)))) [(BLit (Lit NoSign (ASym (TFun "p" [(TVar "X")] false))))])].
Lemma exA_tr_eq : tr_prog "p" [true; false] "p" exA = exA_tr.
Proof. vm_compute. reflexivity. Qed.

Lemma exA_alpha sym_lt : equiv_all sym_lt exA_tr exA_res.
Proof.
  apply stmts_equiv_equiv_all. intros H T _.
  set (r1 := SRule 1 (HLit (Lit NoSign (ASym (TFun "p" [(TVar "X")] false)))) [(BLit (Lit NoSign (ASym (TFun "d" [(TVar "X"); (TVar "Y")] false))))]).
  set (r1' := SRule 1 (HLit (Lit NoSign (ASym (TFun "p" [(TVar "X")] false)))) [(BLit (Lit NoSign (ASym (TFun "d" [(TVar "X"); (TVar "_")] false))))]).
  assert (E: Sat.stmt_sat sym_lt H T r1' <-> Sat.stmt_sat sym_lt H T r1).
  { unfold r1, r1'. simpl Sat.stmt_sat.
    apply (simple_rule_ren sym_lt _ _ H T (SymmetrySem.sw "Y" "_") (Lit NoSign (ASym (TFun "p" [(TVar "X")] false)))
             [(BLit (Lit NoSign (ASym (TFun "d" [(TVar "X"); (TVar "Y")] false))))]); try reflexivity.
    intro x. apply SymmetrySem.sw_invol. }
  unfold exA_tr, exA_res. fold r1 r1'. split; intros A st [<-|[<-|[<-|[]]]];
    try (apply A; simpl; tauto); [apply E|apply E]; apply A; simpl; tauto.
Qed.

Definition KA : pred -> bool := K "p" [true; false] "p".
Definition prjA : interp -> interp := prj "p" [true; false] "p".

(* THE INSTANCE: ngo's output on exA has, for every instance without p-atoms, exactly the projected answer sets of
   exA, one for one *)
Theorem exA_pass_sound sym_lt :
  UnusedExecute.execute exA [("d", 2)] [("q", 1)] exA = Ok exA_res /\
  forall I, facts_over (fun r => KA r = true) I ->
    (forall T, Sat.stable sym_lt exA I T -> Sat.stable sym_lt exA_res I (prjA T)) /\
    (forall T', Sat.stable sym_lt exA_res I T' -> exists T, Sat.stable sym_lt exA I T /\ same (prjA T) T') /\
    (forall T1 T2, Sat.stable sym_lt exA I T1 -> Sat.stable sym_lt exA I T2 -> same (prjA T1) (prjA T2) -> same T1 T2).
Proof.
  split; [exact exA_model|]. intros I FO.
  assert (PQ: ("p", kcount [true; false]) <> ("p", List.length [true; false])) by (vm_compute; discriminate).
  destruct (project_position_sound sym_lt "p" [true; false] "p" PQ exA exA_ok I FO) as [A [B C]].
  rewrite exA_tr_eq in A, B. pose proof (exA_alpha sym_lt) as E. split; [|split].
  - intros T St. apply (E I). exact (A T St).
  - intros T' St. apply B. apply (E I). exact St.
  - exact C.
Qed.

Corollary exA_pass_equiv_out sym_lt :
  Sat.equiv_out sym_lt (fun r => r = ("d", 2)) (fun a => gpred a = ("q", 1)) exA exA_res.
Proof.
  assert (PQ: ("p", kcount [true; false]) <> ("p", List.length [true; false])) by (vm_compute; discriminate).
  apply (equiv_out_trans sym_lt _ _ exA exA_tr exA_res).
  - rewrite <- exA_tr_eq. apply (project_position_equiv_out sym_lt "p" [true; false] "p" PQ exA _ _ exA_ok).
    + intros r ->. reflexivity.
    + intros a ->. reflexivity.
  - apply equiv_all_out. apply exA_alpha.
Qed.

(* ---- R: reads inside an aggregate, a conditional literal, the condition of a choice element; next to a negated literal
        of another predicate.  inputs d/1 e/2 t/1, outputs q/1 s/1 u/1 v/1 ---- *)
Definition exR : program := [(SOther "ASTType.Program" "#program base."); (SRule 1 (HLit (Lit NoSign (ASym (TFun "p" [(TVar "X"); (TVar "Y")] false)))) [(BLit (Lit NoSign (ASym (TFun "e" [(TVar "X"); (TVar "Y")] false))))]); (SRule 1 (HLit (Lit NoSign (ASym (TFun "q" [(TVar "X")] false)))) [(BLit (Lit NoSign (ASym (TFun "d" [(TVar "X")] false)))); (BLit (Lit NoSign (ABodyAgg (Some (CLt, (TSym (SNum 0%Z)))) FCount [([(TSym (SNum 1%Z))], [(Lit NoSign (ASym (TFun "p" [(TVar "X"); (TVar "_")] false)))])] None)))]); (SRule 1 (HLit (Lit NoSign (ASym (TFun "s" [(TVar "X")] false)))) [(BLit (Lit NoSign (ASym (TFun "d" [(TVar "X")] false)))); (BCond (Lit NoSign (ASym (TFun "t" [(TVar "X")] false))) [(Lit NoSign (ASym (TFun "p" [(TVar "X"); (TVar "_")] false)))])]); (SRule 1 (HAgg None [((Lit NoSign (ASym (TFun "u" [(TVar "X")] false))), [(Lit NoSign (ASym (TFun "p" [(TVar "X"); (TVar "_")] false)))])] None) [(BLit (Lit NoSign (ASym (TFun "d" [(TVar "X")] false))))]); (SRule 1 (HLit (Lit NoSign (ASym (TFun "v" [(TVar "X")] false)))) [(BLit (Lit NoSign (ASym (TFun "p" [(TVar "X"); (TVar "_")] false)))); (BLit (Lit Neg (ASym (TFun "t" [(TVar "X")] false))))])].
(* python: #program base. p(X) :- e(X,_). q(X) :- d(X); 0 < #count { 1: p(X) }. s(X) :- d(X); t(X): p(X). { u(X): p(X) } :- d(X). v(X) :- p(X); not t(X). *)
Definition exR_res : program := [(SOther "ASTType.Program" "#program base."); (SRule 1 (HLit (Lit NoSign (ASym (TFun "p" [(TVar "X")] false)))) [(BLit (Lit NoSign (ASym (TFun "e" [(TVar "X"); (TVar "_")] false))))]); (SRule 1 (HLit (Lit NoSign (ASym (TFun "q" [(TVar "X")] false)))) [(BLit (Lit NoSign (ASym (TFun "d" [(TVar "X")] false)))); (BLit (Lit NoSign (ABodyAgg (Some (CLt, (TSym (SNum 0%Z)))) FCount [([(TSym (SNum 1%Z))], [(Lit NoSign (ASym (TFun "p" [(TVar "X")] false)))])] None)))]); (SRule 1 (HLit (Lit NoSign (ASym (TFun "s" [(TVar "X")] false)))) [(BLit (Lit NoSign (ASym (TFun "d" [(TVar "X")] false)))); (BCond (Lit NoSign (ASym (TFun "t" [(TVar "X")] false))) [(Lit NoSign (ASym (TFun "p" [(TVar "X")] false)))])]); (SRule 1 (HAgg None [((Lit NoSign (ASym (TFun "u" [(TVar "X")] false))), [(Lit NoSign (ASym (TFun "p" [(TVar "X")] false)))])] None) [(BLit (Lit NoSign (ASym (TFun "d" [(TVar "X")] false))))]); (SRule 1 (HLit (Lit NoSign (ASym (TFun "v" [(TVar "X")] false)))) [(BLit (Lit NoSign (ASym (TFun "p" [(TVar "X")] false)))); (BLit (Lit Neg (ASym (TFun "t" [(TVar "X")] false))))])].

Lemma exR_model : UnusedExecute.execute exR [("d", 1); ("e", 2); ("t", 1)] [("q", 1); ("s", 1); ("u", 1); ("v", 1)] exR = Ok exR_res.
Proof. vm_compute. reflexivity. Qed.
Lemma exR_ok : ok_prog "p" [true; false] "p" exR = true.
Proof. vm_compute. reflexivity. Qed.
(* the projection of section 2 = ngo's output, up to the name of the variable anonymised in the first rule *)
Lemma exR_tr_tail : tl (tl (tr_prog "p" [true; false] "p" exR)) = tl (tl exR_res).
Proof. vm_compute. reflexivity. Qed.

Lemma alpha_second sym_lt (o r1 r1': stmt) rest :
  (forall H T, Sat.stmt_sat sym_lt H T r1' <-> Sat.stmt_sat sym_lt H T r1) ->
  equiv_all sym_lt (o :: r1 :: rest) (o :: r1' :: rest).
Proof.
  intro E. apply stmts_equiv_equiv_all. intros H T _. split; intros A st [<-|[<-|Hin]];
    try (apply A; simpl; tauto); apply E; apply A; simpl; tauto.
Qed.

Theorem exR_pass_sound sym_lt :
  UnusedExecute.execute exR [("d", 1); ("e", 2); ("t", 1)] [("q", 1); ("s", 1); ("u", 1); ("v", 1)] exR = Ok exR_res /\
  forall I, facts_over (fun r => KA r = true) I ->
    (forall T, Sat.stable sym_lt exR I T -> Sat.stable sym_lt exR_res I (prjA T)) /\
    (forall T', Sat.stable sym_lt exR_res I T' -> exists T, Sat.stable sym_lt exR I T /\ same (prjA T) T') /\
    (forall T1 T2, Sat.stable sym_lt exR I T1 -> Sat.stable sym_lt exR I T2 -> same (prjA T1) (prjA T2) -> same T1 T2).
Proof.
  split; [exact exR_model|]. intros I FO.
  assert (PQ: ("p", kcount [true; false]) <> ("p", List.length [true; false])) by (vm_compute; discriminate).
  destruct (project_position_sound sym_lt "p" [true; false] "p" PQ exR exR_ok I FO) as [A [B C]].
  assert (E: equiv_all sym_lt (tr_prog "p" [true; false] "p" exR) exR_res).
  { assert (Sh: tr_prog "p" [true; false] "p" exR =
                SOther "ASTType.Program" "#program base." ::
                SRule 1 (HLit (Lit NoSign (ASym (TFun "p" [(TVar "X")] false)))) [(BLit (Lit NoSign (ASym (TFun "e" [(TVar "X"); (TVar "Y")] false))))] ::
                tl (tl exR_res)) by (vm_compute; reflexivity).
    rewrite Sh. apply alpha_second. intros H T. simpl Sat.stmt_sat.
    apply (simple_rule_ren sym_lt _ _ H T (SymmetrySem.sw "Y" "_") (Lit NoSign (ASym (TFun "p" [(TVar "X")] false)))
             [(BLit (Lit NoSign (ASym (TFun "e" [(TVar "X"); (TVar "Y")] false))))]); try reflexivity.
    intro x. apply SymmetrySem.sw_invol. }
  split; [|split].
  - intros T St. apply (E I). exact (A T St).
  - intros T' St. apply B. apply (E I). exact St.
  - exact C.
Qed.

(* ---- M: a weak constraint reads p.   p(X,Y) :- e(X,Y), f(Y).  :~ p(X,_). [1@0,X]     inputs e/2 f/1, no outputs ---- *)
Definition exM : program := [(SOther "ASTType.Program" "#program base."); (SRule 1 (HLit (Lit NoSign (ASym (TFun "p" [(TVar "X"); (TVar "Y")] false)))) [(BLit (Lit NoSign (ASym (TFun "e" [(TVar "X"); (TVar "Y")] false)))); (BLit (Lit NoSign (ASym (TFun "f" [(TVar "Y")] false))))]); (SMin 1 (TSym (SNum 1%Z)) (TSym (SNum 0%Z)) [(TVar "X")] [(BLit (Lit NoSign (ASym (TFun "p" [(TVar "X"); (TVar "_")] false))))])].
(* python: #program base. p(X) :- e(X,Y); f(Y). :~ p(X). [1@0,X] *)
Definition exM_res : program := [(SOther "ASTType.Program" "#program base."); (SRule 1 (HLit (Lit NoSign (ASym (TFun "p" [(TVar "X")] false)))) [(BLit (Lit NoSign (ASym (TFun "e" [(TVar "X"); (TVar "Y")] false)))); (BLit (Lit NoSign (ASym (TFun "f" [(TVar "Y")] false))))]); (SMin 1 (TSym (SNum 1%Z)) (TSym (SNum 0%Z)) [(TVar "X")] [(BLit (Lit NoSign (ASym (TFun "p" [(TVar "X")] false))))])].

Lemma exM_model : UnusedExecute.execute exM [("e", 2); ("f", 1)] [] exM = Ok exM_res.
Proof. vm_compute. reflexivity. Qed.
Lemma exM_ok : ok_prog "p" [true; false] "p" exM = true.
Proof. vm_compute. reflexivity. Qed.
Lemma exM_tr : tr_prog "p" [true; false] "p" exM = exM_res.
Proof. vm_compute. reflexivity. Qed.
(* same answer sets on the inputs, with the same cost at every level *)
Theorem exM_pass_sound sym_lt :
  UnusedExecute.execute exM [("e", 2); ("f", 1)] [] exM = Ok exM_res /\
  Cost.equiv_cost sym_lt (fun r => r = ("e", 2) \/ r = ("f", 1)) (fun a => gpred a = ("e", 2) \/ gpred a = ("f", 1)) exM exM_res.
Proof.
  split; [exact exM_model|].
  assert (PQ: ("p", kcount [true; false]) <> ("p", List.length [true; false])) by (vm_compute; discriminate).
  rewrite <- exM_tr. apply (project_position_equiv_cost sym_lt "p" [true; false] "p" PQ exM _ _ exM_ok).
  - intros r [-> | ->]; reflexivity.
  - intros a [-> | ->]; reflexivity.
Qed.
End ModelExamples.

(* ================================================================================================ *)
(* 10. Refutations                                                                                  *)
(* ================================================================================================ *)
Module Refutations.
Section Witnesses.
Variable sym_lt : sym -> sym -> Prop.
Notation stmt_sat := (Sat.stmt_sat sym_lt).
Notation prog_sat := (Sat.prog_sat sym_lt).
Notation stable := (Sat.stable sym_lt).
Notation prule := InlineSem.Refutations.prule.
Notation prule_sat := (InlineSem.Refutations.prule_sat sym_lt).
Ltac inl H := simpl in H; repeat (destruct H as [H|H]); try discriminate H; try contradiction.

Definition c1 : sym := SNum 1.
Definition c2 : sym := SNum 2.
Definition fin (l: list gatom) : interp := fun a => In a l.

(* atoms listed in an order in which the positive rules derive them from the facts *)
Inductive Derivs (P: program) (I: list gatom) : list gatom -> Prop :=
| D_nil : Derivs P I []
| D_fact a l : Derivs P I l -> In a I -> Derivs P I (a :: l)
| D_rule line hn hxs bs s l : Derivs P I l -> In (prule line hn hxs bs) P ->
    (forall p, In p bs -> In (fst p, map s (snd p)) l) -> Derivs P I ((hn, map s hxs) :: l).

Lemma definite_min P I (H T: interp) l : prog_sat H T P -> facts_sat H I -> Derivs P I l -> forall a, In a l -> H a.
Proof.
  intros PS FS D. induction D as [|a l D IH Ha|line hn hxs bs s l D IH Hin Hb]; intros x Hx.
  - destruct Hx.
  - destruct Hx as [<-|Hx]; [exact (FS a Ha) | exact (IH x Hx)].
  - destruct Hx as [<-|Hx]; [|exact (IH x Hx)].
    apply (proj1 (proj1 (prule_sat H T line hn hxs bs) (PS _ Hin) s)). intros p Hp. apply IH. exact (Hb p Hp).
Qed.
Lemma derivs_facts P I : forall l, incl l I -> Derivs P I l.
Proof. induction l as [|a l IH]; intro Inc; [constructor|]. apply D_fact; [apply IH; intros x Hx; apply Inc; right; exact Hx | apply Inc; left; reflexivity]. Qed.
Lemma derivs_stable P I l : prog_sat (fin l) (fin l) P -> (forall a, In a I -> In a l) -> Derivs P I l -> stable P I (fin l).
Proof.
  intros PS FS D. split; [split; [exact PS | exact FS]|]. intros H _ PH FH a Ha. exact (definite_min P I H (fin l) l PH FH D a Ha).
Qed.

(* ---- (a) A DROPPED POSITION THAT IS READ (item 2): the variable at the dropped position occurs a second time.
          p(X,Y) :- d(X,Y).   q(X) :- p(X,Y), e(Y).     ~~>     p'(X) :- d(X,Y).   q(X) :- p'(X), e(Y).
        Facts d(1,1). e(2).: no q-atom before, q(1) after. ---- *)
Definition P1 : program := [prule 1 "p" ["X"; "Y"] [("d", ["X"; "Y"])]; prule 2 "q" ["X"] [("p", ["X"; "Y"]); ("e", ["Y"])]].
Definition P1' : program := [prule 1 "p'" ["X"] [("d", ["X"; "Y"])]; prule 2 "q" ["X"] [("p'", ["X"]); ("e", ["Y"])]].
Definition I1 : list gatom := [("d", [c1; c1]); ("e", [c2])].
Definition l1 : list gatom := ("p", [c1; c1]) :: I1.

Lemma P1_tr : tr_prog "p" [true; false] "p'" P1 = P1'.
Proof. reflexivity. Qed.

Lemma P1_stable : stable P1 I1 (fin l1).
Proof.
  apply derivs_stable.
  - intros st [<-|[<-|[]]]; apply prule_sat; intro s.
    + assert (X: (forall p, In p [("d", ["X"; "Y"])] -> fin l1 (fst p, map s (snd p))) -> fin l1 ("p", map s ["X"; "Y"])).
      { intro F. pose proof (F _ (or_introl eq_refl)) as Y. unfold fin in Y. inl Y. injection Y as Y1 Y2.
        simpl. rewrite <- Y1, <- Y2. unfold fin, l1. simpl. tauto. }
      split; exact X.
    + assert (X: (forall p, In p [("p", ["X"; "Y"]); ("e", ["Y"])] -> fin l1 (fst p, map s (snd p))) -> fin l1 ("q", map s ["X"])).
      { intro F. pose proof (F _ (or_introl eq_refl)) as Y. pose proof (F _ (or_intror (or_introl eq_refl))) as Z.
        unfold fin in Y, Z. inl Y. injection Y as _ Y2. inl Z. injection Z as Z. rewrite <- Y2 in Z. discriminate Z. }
      split; exact X.
  - intros a Ha. right. exact Ha.
  - change (Derivs P1 I1 (("p", map (fun _ : string => c1) ["X"; "Y"]) :: I1)).
    apply D_rule with (line := 1) (bs := [("d", ["X"; "Y"])]);
      [apply derivs_facts; intros x Hx; exact Hx | left; reflexivity | intros p [<-|[]]; simpl; tauto].
Qed.

Lemma P1'_derives_q T' : stable P1' I1 T' -> T' ("q", [c1]).
Proof.
  intros [[PS FS] _].
  pose proof (proj2 (proj1 (prule_sat T' T' _ _ _ _) (PS _ (or_introl eq_refl)) (fun _ => c1))) as A.
  assert (Tp: T' ("p'", [c1])).
  { apply A. intros p [<-|[]]. apply FS. simpl. tauto. }
  pose proof (proj2 (proj1 (prule_sat T' T' _ _ _ _) (PS _ (or_intror (or_introl eq_refl))) (fun x => if String.eqb x "X" then c1 else c2))) as B.
  apply B. intros p [<-|[<-|[]]]; [exact Tp | apply FS; simpl; tauto].
Qed.

Theorem read_position_refuted :
  let OUT : gatom -> Prop := fun a => gpred a = ("q", 1) in
  ok_prog "p" [true; false] "p'" P1 = false /\                                  (* the hypothesis that fails *)
  stable P1 I1 (fin l1) /\ ~ stable (tr_prog "p" [true; false] "p'" P1) I1 (prj "p" [true; false] "p'" (fin l1)) /\
  ~ Sat.equiv_out sym_lt (fun r => K "p" [true; false] "p'" r = true) OUT P1 (tr_prog "p" [true; false] "p'" P1).
Proof.
  intro OUT. rewrite P1_tr. split; [reflexivity|]. split; [exact P1_stable|]. split.
  - intro St. pose proof (P1'_derives_q _ St) as Q. destruct Q as [[_ Q]|[[E _] _]]; [|discriminate E].
    unfold fin in Q. inl Q.
  - intro E.
    assert (FO: facts_over (fun r => K "p" [true; false] "p'" r = true) I1) by (intros a [<-|[<-|[]]]; reflexivity).
    destruct (proj1 (E I1 FO (restr OUT (fin l1)))) as [T' [St Sa]].
    { exists (fin l1). split; [exact P1_stable | intro a; tauto]. }
    pose proof (proj1 (Sa ("q", [c1])) (conj eq_refl (P1'_derives_q T' St))) as [_ Q]. unfold fin in Q. inl Q.
Qed.
End Witnesses.
End Refutations.

(* ================================================================================================ *)
(* 11. Programs on which the real pass is wrong (model output by vm_compute, replayed with clingo)  *)
(* ================================================================================================ *)
Module Findings.
Section Witnesses.
Variable sym_lt : sym -> sym -> Prop.
Notation stmt_sat := (Sat.stmt_sat sym_lt).
Notation prog_sat := (Sat.prog_sat sym_lt).
Notation stable := (Sat.stable sym_lt).
Notation prule := InlineSem.Refutations.prule.
Notation pbody := InlineSem.Refutations.pbody.
Notation prule_sat := (InlineSem.Refutations.prule_sat sym_lt).
Notation fin := Refutations.fin.
Notation c1 := Refutations.c1.
Notation c2 := Refutations.c2.
Ltac inl H := simpl in H; repeat (destruct H as [H|H]); try discriminate H; try contradiction.

(* not n(xs) :- bs. *)
Definition nhrule (line: nat) (n: string) (xs: list string) (bs: list (string * list string)) : stmt :=
  SRule line (HLit (InlineSem.Refutations.nat_ n xs)) (pbody bs).
Lemma nhrule_sat X T line n xs bs : stmt_sat X T (nhrule line n xs bs) <->
  forall s, ((forall p, In p bs -> X (fst p, map s (snd p))) -> ~ T (n, map s xs)) /\
            ((forall p, In p bs -> T (fst p, map s (snd p))) -> ~ T (n, map s xs)).
Proof.
  unfold nhrule. simpl. unfold Sat.rule_sat, Sat.head_sat. split; intros F s; specialize (F s);
    rewrite !(InlineSem.Refutations.pbody_sat sym_lt), !(InlineSem.Refutations.nat_sat sym_lt) in *; exact F.
Qed.
(* hn(hxs) :- not not n(xs). *)
Definition nnrule (line: nat) (hn: string) (hxs: list string) (n: string) (xs: list string) : stmt :=
  SRule line (HLit (at_ hn hxs)) [BLit (Lit NegNeg (ASym (TFun n (map TVar xs) false)))].
Lemma nnrule_sat X T line hn hxs n xs : stmt_sat X T (nnrule line hn hxs n xs) <->
  forall s, (T (n, map s xs) -> X (hn, map s hxs)) /\ (T (n, map s xs) -> T (hn, map s hxs)).
Proof.
  unfold nnrule. simpl. unfold Sat.rule_sat, Sat.head_sat.
  assert (E: forall G Y s, Sat.body_sat sym_lt G Y T s [BLit (Lit NegNeg (ASym (TFun n (map TVar xs) false)))] <-> T (n, map s xs)).
  { intros G Y s. unfold Sat.body_sat. rewrite Forall_cons_iff. simpl Sat.bodyelem_sat.
    rewrite (ChainSem.lit_sat_fun sym_lt G Y T s NegNeg n (map TVar xs) false), ProjectionSem.eval_list_vars. simpl. split.
    - intros [[vs [Ev A]] _]. injection Ev as <-. exact A.
    - intro A. split; [exists (map s xs); split; [reflexivity | exact A] | constructor]. }
  split; intros F s; specialize (F s); rewrite !E, !at_sat in *; exact F.
Qed.

(* ---- (N) a NEGATIVE HEAD LITERAL reads all positions of p, but analyze_usage looks at bodies and at the elements of
        choices/disjunctions only:
          not p(X,Y) :- d(X,Y).  p(X,Y) :- e(X,Y).  q(X) :- p(X,_).      (in d/2 e/2, out q/1)
        ~~>  not p(X) :- d(X,_).  p(X) :- e(X,_).  q(X) :- p(X).
        Facts d(1,2). e(1,1).: one answer set {.., p(1,1), q(1)} before, none after. ---- *)
Definition exN : program := [(SOther "ASTType.Program" "#program base."); (SRule 1 (HLit (Lit Neg (ASym (TFun "p" [(TVar "X"); (TVar "Y")] false)))) [(BLit (Lit NoSign (ASym (TFun "d" [(TVar "X"); (TVar "Y")] false))))]); (SRule 1 (HLit (Lit NoSign (ASym (TFun "p" [(TVar "X"); (TVar "Y")] false)))) [(BLit (Lit NoSign (ASym (TFun "e" [(TVar "X"); (TVar "Y")] false))))]); (SRule 1 (HLit (Lit NoSign (ASym (TFun "q" [(TVar "X")] false)))) [(BLit (Lit NoSign (ASym (TFun "p" [(TVar "X"); (TVar "_")] false))))])].
Definition exN_res : program := [(SOther "ASTType.Program" "#program base."); (SRule 1 (HLit (Lit Neg (ASym (TFun "p" [(TVar "X")] false)))) [(BLit (Lit NoSign (ASym (TFun "d" [(TVar "X"); (TVar "_")] false))))]); (SRule 1 (HLit (Lit NoSign (ASym (TFun "p" [(TVar "X")] false)))) [(BLit (Lit NoSign (ASym (TFun "e" [(TVar "X"); (TVar "_")] false))))]); (SRule 1 (HLit (Lit NoSign (ASym (TFun "q" [(TVar "X")] false)))) [(BLit (Lit NoSign (ASym (TFun "p" [(TVar "X")] false))))])].
Lemma exN_model : UnusedExecute.execute exN [("d", 2); ("e", 2)] [("q", 1)] exN = Ok exN_res.
Proof. vm_compute. reflexivity. Qed.

Lemma exN_eq : exN = [SOther "ASTType.Program" "#program base."; nhrule 1 "p" ["X"; "Y"] [("d", ["X"; "Y"])];
                      prule 1 "p" ["X"; "Y"] [("e", ["X"; "Y"])]; prule 1 "q" ["X"] [("p", ["X"; "_"])]].
Proof. reflexivity. Qed.
Lemma exN_res_eq : exN_res = [SOther "ASTType.Program" "#program base."; nhrule 1 "p" ["X"] [("d", ["X"; "_"])];
                      prule 1 "p" ["X"] [("e", ["X"; "_"])]; prule 1 "q" ["X"] [("p", ["X"])]].
Proof. reflexivity. Qed.
Definition IN_ : list gatom := [("d", [c1; c2]); ("e", [c1; c1])].
Definition lN : list gatom := ("q", [c1]) :: ("p", [c1; c1]) :: IN_.

Lemma exN_stable : stable exN IN_ (fin lN).
Proof.
  rewrite exN_eq. apply Refutations.derivs_stable.
  - intros st [<-|[<-|[<-|[<-|[]]]]]; [exact Logic.I | apply nhrule_sat | apply prule_sat | apply prule_sat]; intro s.
    + assert (X: (forall p, In p [("d", ["X"; "Y"])] -> fin lN (fst p, map s (snd p))) -> ~ fin lN ("p", map s ["X"; "Y"])).
      { intros F Q. pose proof (F _ (or_introl eq_refl)) as Y. unfold Refutations.fin in Y, Q. inl Y. injection Y as Y1 Y2.
        simpl in Q. rewrite <- Y1, <- Y2 in Q. inl Q. }
      split; exact X.
    + assert (X: (forall p, In p [("e", ["X"; "Y"])] -> fin lN (fst p, map s (snd p))) -> fin lN ("p", map s ["X"; "Y"])).
      { intro F. pose proof (F _ (or_introl eq_refl)) as Y. unfold Refutations.fin in Y. inl Y. injection Y as Y1 Y2.
        simpl. rewrite <- Y1, <- Y2. unfold Refutations.fin, lN. simpl. tauto. }
      split; exact X.
    + assert (X: (forall p, In p [("p", ["X"; "_"])] -> fin lN (fst p, map s (snd p))) -> fin lN ("q", map s ["X"])).
      { intro F. pose proof (F _ (or_introl eq_refl)) as Y. unfold Refutations.fin in Y. inl Y. injection Y as Y1 _.
        simpl. rewrite <- Y1. unfold Refutations.fin, lN. simpl. tauto. }
      split; exact X.
  - intros a Ha. right. right. exact Ha.
  - change (Refutations.Derivs (SOther "ASTType.Program" "#program base." :: nhrule 1 "p" ["X"; "Y"] [("d", ["X"; "Y"])] ::
              prule 1 "p" ["X"; "Y"] [("e", ["X"; "Y"])] :: prule 1 "q" ["X"] [("p", ["X"; "_"])] :: []) IN_
              (("q", map (fun _ : string => c1) ["X"]) :: ("p", map (fun _ : string => c1) ["X"; "Y"]) :: IN_)).
    apply Refutations.D_rule with (line := 1) (bs := [("p", ["X"; "_"])]);
      [| right; right; right; left; reflexivity | intros p [<-|[]]; simpl; tauto].
    apply Refutations.D_rule with (line := 1) (bs := [("e", ["X"; "Y"])]);
      [apply Refutations.derivs_facts; intros x Hx; exact Hx | right; right; left; reflexivity | intros p [<-|[]]; simpl; tauto].
Qed.

Lemma exN_res_unsat T' : ~ stable exN_res IN_ T'.
Proof.
  rewrite exN_res_eq. intros [[PS FS] _].
  pose proof (proj2 (proj1 (prule_sat T' T' _ _ _ _) (PS _ (or_intror (or_intror (or_introl eq_refl)))) (fun _ => c1))) as A.
  assert (Tp: T' ("p", [c1])) by (apply A; intros p [<-|[]]; apply FS; simpl; tauto).
  pose proof (proj2 (proj1 (nhrule_sat T' T' _ _ _ _) (PS _ (or_intror (or_introl eq_refl)))
                      (fun x => if String.eqb x "X" then c1 else c2))) as B.
  apply B; [|exact Tp]. intros p [<-|[]]. apply FS. simpl. tauto.
Qed.

Theorem negated_head_refuted :
  UnusedExecute.execute exN [("d", 2); ("e", 2)] [("q", 1)] exN = Ok exN_res /\
  facts_over (fun r => r = ("d", 2) \/ r = ("e", 2)) IN_ /\
  stable exN IN_ (fin lN) /\ (forall T', ~ stable exN_res IN_ T') /\
  ~ Sat.equiv_out sym_lt (fun r => r = ("d", 2) \/ r = ("e", 2)) (fun a => gpred a = ("q", 1)) exN exN_res.
Proof.
  assert (FO: facts_over (fun r => r = ("d", 2) \/ r = ("e", 2)) IN_) by (intros a [<-|[<-|[]]]; simpl; tauto).
  split; [exact exN_model|]. split; [exact FO|]. split; [exact exN_stable|]. split; [exact exN_res_unsat|].
  intro E. destruct (proj1 (E IN_ FO (restr (fun a => gpred a = ("q", 1)) (fin lN)))) as [T' [St _]].
  - exists (fin lN). split; [exact exN_stable | intro a; tauto].
  - exact (exN_res_unsat T' St).
Qed.

(* ---- (C) CHAINS OF COPY RULES are short-circuited in one pass (remove_single_copies): the definition of b is lost.
          a(X) :- b(X).  b(X) :- c(X).  d(X) :- a(X), e(X).      (in c/1 e/1, out d/1)     ~~>     d(X) :- b(X), e(X).
        Facts c(1). e(1).: d(1) before, not after. ---- *)
Definition exCh : program := [(SOther "ASTType.Program" "#program base."); (SRule 1 (HLit (Lit NoSign (ASym (TFun "a" [(TVar "X")] false)))) [(BLit (Lit NoSign (ASym (TFun "b" [(TVar "X")] false))))]); (SRule 1 (HLit (Lit NoSign (ASym (TFun "b" [(TVar "X")] false)))) [(BLit (Lit NoSign (ASym (TFun "c" [(TVar "X")] false))))]); (SRule 1 (HLit (Lit NoSign (ASym (TFun "d" [(TVar "X")] false)))) [(BLit (Lit NoSign (ASym (TFun "a" [(TVar "X")] false)))); (BLit (Lit NoSign (ASym (TFun "e" [(TVar "X")] false))))])].
Definition exCh_res : program := [(SOther "ASTType.Program" "#program base."); (SRule 1 (HLit (Lit NoSign (ASym (TFun "d" [(TVar "X")] false)))) [(BLit (Lit NoSign (ASym (TFun "b" [(TVar "X")] false)))); (BLit (Lit NoSign (ASym (TFun "e" [(TVar "X")] false))))])].
Lemma exCh_model : UnusedExecute.execute exCh [("c", 1); ("e", 1)] [("d", 1)] exCh = Ok exCh_res.
Proof. vm_compute. reflexivity. Qed.
Lemma exCh_eq : exCh = [SOther "ASTType.Program" "#program base."; prule 1 "a" ["X"] [("b", ["X"])]; prule 1 "b" ["X"] [("c", ["X"])];
                        prule 1 "d" ["X"] [("a", ["X"]); ("e", ["X"])]].
Proof. reflexivity. Qed.
Lemma exCh_res_eq : exCh_res = [SOther "ASTType.Program" "#program base."; prule 1 "d" ["X"] [("b", ["X"]); ("e", ["X"])]].
Proof. reflexivity. Qed.
Definition ICh : list gatom := [("c", [c1]); ("e", [c1])].
Definition lCh : list gatom := ("d", [c1]) :: ("a", [c1]) :: ("b", [c1]) :: ICh.

Lemma exCh_stable : stable exCh ICh (fin lCh).
Proof.
  rewrite exCh_eq. apply Refutations.derivs_stable.
  - intros st [<-|[<-|[<-|[<-|[]]]]]; [exact Logic.I | apply prule_sat | apply prule_sat | apply prule_sat]; intro s.
    + assert (X: (forall p, In p [("b", ["X"])] -> fin lCh (fst p, map s (snd p))) -> fin lCh ("a", map s ["X"])).
      { intro F. pose proof (F _ (or_introl eq_refl)) as Y. unfold Refutations.fin in Y. inl Y. injection Y as Y1.
        simpl. rewrite <- Y1. unfold Refutations.fin, lCh. simpl. tauto. }
      split; exact X.
    + assert (X: (forall p, In p [("c", ["X"])] -> fin lCh (fst p, map s (snd p))) -> fin lCh ("b", map s ["X"])).
      { intro F. pose proof (F _ (or_introl eq_refl)) as Y. unfold Refutations.fin in Y. inl Y. injection Y as Y1.
        simpl. rewrite <- Y1. unfold Refutations.fin, lCh. simpl. tauto. }
      split; exact X.
    + assert (X: (forall p, In p [("a", ["X"]); ("e", ["X"])] -> fin lCh (fst p, map s (snd p))) -> fin lCh ("d", map s ["X"])).
      { intro F. pose proof (F _ (or_introl eq_refl)) as Y. unfold Refutations.fin in Y. inl Y. injection Y as Y1.
        simpl. rewrite <- Y1. unfold Refutations.fin, lCh. simpl. tauto. }
      split; exact X.
  - intros a Ha. right. right. right. exact Ha.
  - change (Refutations.Derivs (SOther "ASTType.Program" "#program base." :: prule 1 "a" ["X"] [("b", ["X"])] :: prule 1 "b" ["X"] [("c", ["X"])] ::
              prule 1 "d" ["X"] [("a", ["X"]); ("e", ["X"])] :: []) ICh
              (("d", map (fun _ : string => c1) ["X"]) :: ("a", map (fun _ : string => c1) ["X"]) :: ("b", map (fun _ : string => c1) ["X"]) :: ICh)).
    apply Refutations.D_rule with (line := 1) (bs := [("a", ["X"]); ("e", ["X"])]);
      [| right; right; right; left; reflexivity | intros p [<-|[<-|[]]]; simpl; tauto].
    apply Refutations.D_rule with (line := 1) (bs := [("b", ["X"])]);
      [| right; left; reflexivity | intros p [<-|[]]; simpl; tauto].
    apply Refutations.D_rule with (line := 1) (bs := [("c", ["X"])]);
      [apply Refutations.derivs_facts; intros x Hx; exact Hx | right; right; left; reflexivity | intros p [<-|[]]; simpl; tauto].
Qed.

Lemma exCh_res_no_d T' : stable exCh_res ICh T' -> ~ T' ("d", [c1]).
Proof.
  rewrite exCh_res_eq. intros [[PS FS] Min] Td.
  assert (S: subi (fin ICh) T') by (intros a Ha; exact (FS a Ha)).
  assert (PH: prog_sat (fin ICh) T' [SOther "ASTType.Program" "#program base."; prule 1 "d" ["X"] [("b", ["X"]); ("e", ["X"])]]).
  { intros st [<-|[<-|[]]]; [exact Logic.I|]. apply prule_sat. intro s. split.
    - intro F. pose proof (F _ (or_introl eq_refl)) as Y. unfold Refutations.fin in Y. inl Y.
    - exact (proj2 (proj1 (prule_sat T' T' _ _ _ _) (PS _ (or_intror (or_introl eq_refl))) s)). }
  pose proof (Min (fin ICh) S PH (fun a Ha => Ha) _ Td) as Y. unfold Refutations.fin in Y. inl Y.
Qed.

Theorem copy_chain_refuted :
  UnusedExecute.execute exCh [("c", 1); ("e", 1)] [("d", 1)] exCh = Ok exCh_res /\
  stable exCh ICh (fin lCh) /\ (forall T', stable exCh_res ICh T' -> ~ T' ("d", [c1])) /\
  ~ Sat.equiv_out sym_lt (fun r => r = ("c", 1) \/ r = ("e", 1)) (fun a => gpred a = ("d", 1)) exCh exCh_res.
Proof.
  split; [exact exCh_model|]. split; [exact exCh_stable|]. split; [exact exCh_res_no_d|].
  intro E. assert (FO: facts_over (fun r => r = ("c", 1) \/ r = ("e", 1)) ICh) by (intros a [<-|[<-|[]]]; simpl; tauto).
  destruct (proj1 (E ICh FO (restr (fun a => gpred a = ("d", 1)) (fin lCh)))) as [T' [St Sa]].
  - exists (fin lCh). split; [exact exCh_stable | intro a; tauto].
  - apply (exCh_res_no_d T' St). apply (proj2 (Sa ("d", [c1]))). split; [reflexivity|]. left. reflexivity.
Qed.

(* ---- (D) A DOUBLY NEGATED BODY IS NOT A COPY (the seeded change C09-m2 treats `memo :- not not ok.` as a copy rule):
          ok :- given.  ok :- memo.  memo :- not not ok.       ~~>      ok :- given.  ok :- ok.
        No facts: {ok, memo} is an answer set before (ok supports itself through the double negation); afterwards no
        answer set contains ok.  The unchanged pass requires sign NoSign and leaves the program alone. ---- *)
Definition Pdn : program := [prule 1 "ok" [] [("given", [])]; prule 2 "ok" [] [("memo", [])]; nnrule 3 "memo" [] "ok" []].
Definition Pdn' : program := [prule 1 "ok" [] [("given", [])]; prule 2 "ok" [] [("ok", [])]].
Definition ldn : list gatom := [("ok", []); ("memo", [])].

Lemma Pdn_stable : stable Pdn [] (fin ldn).
Proof.
  split; [split|].
  - intros st [<-|[<-|[<-|[]]]]; [apply prule_sat | apply prule_sat | apply nnrule_sat]; intro s.
    + split; intros _; unfold Refutations.fin, ldn; simpl; tauto.
    + split; intros _; unfold Refutations.fin, ldn; simpl; tauto.
    + split; intros _; unfold Refutations.fin, ldn; simpl; tauto.
  - intros a [].
  - intros H _ PS _ a Ha.
    assert (Hm: H ("memo", [])).
    { apply (proj1 (proj1 (nnrule_sat H (fin ldn) _ _ _ _ _) (PS _ (or_intror (or_intror (or_introl eq_refl)))) (fun _ => c1))).
      unfold Refutations.fin, ldn. simpl. tauto. }
    assert (Ho: H ("ok", [])).
    { apply (proj1 (proj1 (prule_sat H (fin ldn) _ _ _ _) (PS _ (or_intror (or_introl eq_refl))) (fun _ => c1))).
      intros p [<-|[]]. exact Hm. }
    unfold Refutations.fin in Ha. inl Ha; subst a; assumption.
Qed.

Lemma Pdn'_no_ok T' : stable Pdn' [] T' -> ~ T' ("ok", []).
Proof.
  intros [[PS _] Min] To.
  set (H := fun a : gatom => T' a /\ a <> ("ok", [])).
  assert (S: subi H T') by (intros a [Ta _]; exact Ta).
  assert (PH: prog_sat H T' Pdn').
  { intros st [<-|[<-|[]]]; apply prule_sat; intro s.
    - split; [|exact (proj2 (proj1 (prule_sat T' T' _ _ _ _) (PS _ (or_introl eq_refl)) s))].
      intro F. exfalso. destruct (F _ (or_introl eq_refl)) as [Tg _].
      (* given/0 is in no head and not a fact: T' \ {given} is a smaller model -- simpler: use minimality with H itself *)
      assert (PG: prog_sat (fun a => T' a /\ a <> ("given", [])) T' Pdn').
      { intros st [<-|[<-|[]]]; apply prule_sat; intro s0.
        - split; [|exact (proj2 (proj1 (prule_sat T' T' _ _ _ _) (PS _ (or_introl eq_refl)) s0))].
          intro F0. destruct (F0 _ (or_introl eq_refl)) as [_ Ne]. exfalso. apply Ne. reflexivity.
        - split; [|exact (proj2 (proj1 (prule_sat T' T' _ _ _ _) (PS _ (or_intror (or_introl eq_refl))) s0))].
          intro F0. exact (F0 _ (or_introl eq_refl)). }
      destruct (Min _ (fun a X => proj1 X) PG (fun a (Ha: In a []) => match Ha with end) _ Tg) as [_ Ne]. apply Ne. reflexivity.
    - split; [|exact (proj2 (proj1 (prule_sat T' T' _ _ _ _) (PS _ (or_intror (or_introl eq_refl))) s))].
      intro F. exact (F _ (or_introl eq_refl)). }
  destruct (Min H S PH (fun a (Ha: In a []) => match Ha with end) _ To) as [_ Ne]. apply Ne. reflexivity.
Qed.

Theorem copy_rule_double_negation_refuted :
  stable Pdn [] (fin ldn) /\ fin ldn ("ok", []) /\ (forall T', stable Pdn' [] T' -> ~ T' ("ok", [])) /\
  ~ Sat.equiv_out sym_lt (fun r => r = ("given", 0)) (fun a => gpred a = ("ok", 0)) Pdn Pdn'.
Proof.
  split; [exact Pdn_stable|]. split; [left; reflexivity|]. split; [exact Pdn'_no_ok|].
  intro E. destruct (proj1 (E [] (fun a (Ha: In a []) => match Ha with end) (restr (fun a => gpred a = ("ok", 0)) (fin ldn)))) as [T' [St Sa]].
  - exists (fin ldn). split; [exact Pdn_stable | intro a; tauto].
  - apply (Pdn'_no_ok T' St). apply (proj2 (Sa ("ok", []))). split; [reflexivity|]. left. reflexivity.
Qed.
End Witnesses.
End Findings.

(* ================================================================================================ *)
(* 12. A predicate defined by a CHOICE: projecting it would be many-to-one (ngo does not do it)      *)
(* ================================================================================================ *)
Module ChoiceExample.
(* ---- the model leaves   {p(X,Y) : d(X,Y)}.  q(X) :- p(X,_).   alone: the atoms of choice (and disjunction) heads count
        as uses of all their positions (analyze_usage, third block) ---- *)
Definition exC : program := [(SOther "ASTType.Program" "#program base."); (SRule 1 (HAgg None [((Lit NoSign (ASym (TFun "p" [(TVar "X"); (TVar "Y")] false))), [(Lit NoSign (ASym (TFun "d" [(TVar "X"); (TVar "Y")] false)))])] None) []); (SRule 1 (HLit (Lit NoSign (ASym (TFun "q" [(TVar "X")] false)))) [(BLit (Lit NoSign (ASym (TFun "p" [(TVar "X"); (TVar "_")] false))))])].
Lemma exC_model : UnusedExecute.execute exC [("d", 2)] [("q", 1)] exC = Ok exC.
Proof. vm_compute. reflexivity. Qed.
Lemma exC_not_ok : ok_prog "p" [true; false] "p" exC = false.
Proof. vm_compute. reflexivity. Qed.

Section Witnesses.
Variable sym_lt : sym -> sym -> Prop.
Notation stmt_sat := (Sat.stmt_sat sym_lt).
Notation prog_sat := (Sat.prog_sat sym_lt).
Notation stable := (Sat.stable sym_lt).
Notation prule := InlineSem.Refutations.prule.
Notation pbody := InlineSem.Refutations.pbody.
Notation prule_sat := (InlineSem.Refutations.prule_sat sym_lt).
Notation fin := Refutations.fin.
Notation c1 := Refutations.c1.
Notation c2 := Refutations.c2.
Ltac inl H := simpl in H; repeat (destruct H as [H|H]); try discriminate H; try contradiction.

(* { n(xs) } :- bs.     (a condition-free choice; safe: the variables xs occur in the body) *)
Definition crule (line: nat) (n: string) (xs: list string) (bs: list (string * list string)) : stmt :=
  SRule line (HAgg None [(at_ n xs, [])] None) (pbody bs).

(* what an HT-model of the choice rule knows *)
Lemma crule_elim X T line n xs bs : stmt_sat X T (crule line n xs bs) ->
  forall s, (forall p, In p bs -> X (fst p, map s (snd p))) -> X (n, map s xs) \/ ~ T (n, map s xs).
Proof.
  intros M s B. simpl in M. destruct (M s) as [MX _].
  destruct (MX (proj2 (InlineSem.Refutations.pbody_sat sym_lt _ X T s bs) B)) as [Ce _].
  specialize (Ce (at_ n xs, []) s (or_introl eq_refl) (fun x _ => eq_refl) (Forall_nil _)). simpl in Ce.
  rewrite !at_sat in Ce. exact Ce.
Qed.
(* every total interpretation satisfies a safe choice rule *)
Lemma crule_total T line n xs bs : incl xs (flat_map snd bs) -> stmt_sat T T (crule line n xs bs).
Proof.
  intro Safe. simpl. intro s.
  assert (A: Sat.body_sat sym_lt (gvars_rule (HAgg None [(at_ n xs, [])] None) (pbody bs)) T T s (pbody bs) ->
             Sat.head_sat sym_lt (gvars_rule (HAgg None [(at_ n xs, [])] None) (pbody bs)) T T s (HAgg None [(at_ n xs, [])] None)).
  { intros _. set (G := gvars_rule (HAgg None [(at_ n xs, [])] None) (pbody bs)).
    assert (GX: forall x, In x xs -> In x G).
    { intros x Hx. unfold G, gvars_rule. simpl. apply Safe in Hx. apply in_flat_map in Hx. destruct Hx as [p [Hp Hx]].
      apply in_flat_map. exists (BLit (at_ (fst p) (snd p))). split; [unfold InlineSem.Refutations.pbody; apply in_map_iff; exists p; auto|].
      simpl. rewrite flat_map_concat_map, map_map. simpl. rewrite <- flat_map_concat_map.
      clear - Hx. induction (snd p) as [|y ys IH]; [destruct Hx|]. simpl. destruct Hx as [->|Hx]; [left; reflexivity | right; exact (IH Hx)]. }
    assert (TS: forall X tv, Sat.choice_tuples sym_lt G X T s [(at_ n xs, [])] tv <-> (tv = [SFun n (map s xs) true] /\ X (n, map s xs))).
    { intros X tv. unfold Sat.choice_tuples. split.
      - intros (e & th & f & args & ext & vs & [<-|[]] & Ag & E1 & E2 & E3 & _ & Xa). simpl in E1. injection E1 as <- <- _.
        rewrite ProjectionSem.eval_list_vars in E2. injection E2 as <-.
        assert (Em: map th xs = map s xs) by (apply map_ext_in; intros x Hx; symmetry; apply Ag; exact (GX x Hx)).
        rewrite Em in *. split; assumption.
      - intros [-> Xa]. exists (at_ n xs, []), s, n, (map TVar xs), false, (map s xs). repeat split; try assumption.
        + left. reflexivity.
        + apply ProjectionSem.eval_list_vars.
        + constructor. }
    assert (En: exists l, enumerates (Sat.choice_tuples sym_lt G T T s [(at_ n xs, [])]) l).
    { destruct (classic (T (n, map s xs))) as [Y|N].
      - exists [[SFun n (map s xs) true]]. split; [repeat constructor; intros []|]. intro tv. rewrite TS. simpl. split.
        + intros [<-|[]]. split; [reflexivity | exact Y].
        + intros [-> _]. left. reflexivity.
      - exists []. split; [constructor|]. intro tv. rewrite TS. simpl. split; [intros [] | intros [_ Y]; exact (N Y)]. }
    split.
    - intros e th [<-|[]] Ag _. simpl. apply classic.
    - destruct En as [l En]. exists (SNum (Z.of_nat (List.length l))). split; [exists l; split; [exact En | reflexivity]|]. split; exact Logic.I. }
  split; exact A.
Qed.

(* ---- {p(X,Y)} :- d(X,Y).   q(X) :- p(X,Z).     with facts d(1,1). d(1,2). ---- *)
Definition Pc : program := [crule 1 "p" ["X"; "Y"] [("d", ["X"; "Y"])]; prule 2 "q" ["X"] [("p", ["X"; "Z"])]].
Definition Ic : list gatom := [("d", [c1; c1]); ("d", [c1; c2])].
Definition lc (y: sym) : list gatom := ("q", [c1]) :: ("p", [c1; y]) :: Ic.

Lemma Pc_stable y : y = c1 \/ y = c2 -> stable Pc Ic (fin (lc y)).
Proof.
  intro Hy. split; [split|].
  - intros st [<-|[<-|[]]].
    + apply crule_total. intros x Hx. exact Hx.
    + apply prule_sat. intro s.
      assert (X: (forall p, In p [("p", ["X"; "Z"])] -> fin (lc y) (fst p, map s (snd p))) -> fin (lc y) ("q", map s ["X"])).
      { intro F. pose proof (F _ (or_introl eq_refl)) as Y. unfold Refutations.fin in Y. inl Y. injection Y as Y1 _.
        simpl. rewrite <- Y1. left. reflexivity. }
      split; exact X.
  - intros a Ha. right. right. exact Ha.
  - intros H S PS FS a Ha.
    assert (Hp: H ("p", [c1; y])).
    { destruct (crule_elim H (fin (lc y)) _ _ _ _ (PS _ (or_introl eq_refl)) (fun x => if String.eqb x "X" then c1 else y)) as [Y|N].
      - intros p [<-|[]]. apply FS. simpl. destruct Hy as [-> | ->]; tauto.
      - exact Y.
      - exfalso. apply N. right. left. reflexivity. }
    unfold Refutations.fin in Ha. destruct Ha as [<-|[<-|Ha]]; [|exact Hp|exact (FS a Ha)].
    apply (proj1 (proj1 (prule_sat H (fin (lc y)) _ _ _ _) (PS _ (or_intror (or_introl eq_refl))) (fun x => if String.eqb x "X" then c1 else y))).
    intros p [<-|[]]. exact Hp.
Qed.

(* two answer sets that differ only in the unread argument: their projections coincide *)
Theorem choice_projection_many_to_one :
  stable Pc Ic (fin (lc c1)) /\ stable Pc Ic (fin (lc c2)) /\ ~ same (fin (lc c1)) (fin (lc c2)) /\
  same (prj "p" [true; false] "p'" (fin (lc c1))) (prj "p" [true; false] "p'" (fin (lc c2))) /\
  ok_prog "p" [true; false] "p'" Pc = false.
Proof.
  split; [apply Pc_stable; left; reflexivity|]. split; [apply Pc_stable; right; reflexivity|]. split; [|split; [|reflexivity]].
  - intro E. pose proof (proj1 (E ("p", [c1; c1])) (or_intror (or_introl eq_refl))) as Y. unfold Refutations.fin in Y. inl Y.
  - assert (Half: forall y y', (y = c1 \/ y = c2) -> (y' = c1 \/ y' = c2) -> forall a,
              prj "p" [true; false] "p'" (fin (lc y)) a -> prj "p" [true; false] "p'" (fin (lc y')) a).
    { intros y y' Hy Hy' a [[Ka Ta]|[Qa [v [Lv [Tv Sv]]]]].
      - left. split; [exact Ka|]. unfold Refutations.fin in *. destruct Ta as [<-|[<-|Ta]].
        + left. reflexivity.
        + exfalso. destruct Hy as [-> | ->]; vm_compute in Ka; discriminate Ka.
        + right. right. exact Ta.
      - right. split; [exact Qa|]. unfold Refutations.fin in Tv. destruct Tv as [E|[E|Tv]]; [discriminate E| |inl Tv].
        injection E as <-. exists [c1; y']. split; [reflexivity|]. split; [right; left; reflexivity | exact Sv]. }
    intro a. split; apply Half; auto.
Qed.
End Witnesses.
End ChoiceExample.

(* ================================================================================================ *)
(* 13. Short-circuiting a copy rule   a(X1..Xn) :- b(X1..Xn).   (remove_single_copies)               *)
(* ================================================================================================ *)
Lemma nodup_map_subst (xs: list string) : NoDup xs -> forall vs: list sym, List.length vs = List.length xs ->
  exists s: subst, map s xs = vs.
Proof.
  induction 1 as [|x xs Nx ND IH]; intros vs L.
  - destruct vs; [|discriminate]. exists (fun _ => SInf). reflexivity.
  - destruct vs as [|v vs]; [discriminate|]. injection L as L. destruct (IH vs L) as [s Es].
    exists (upd s x v). simpl. rewrite upd_same. f_equal. rewrite <- Es. apply map_ext_in. intros y Hy.
    apply upd_other. intros ->. exact (Nx Hy).
Qed.

Section Copy.
Variable sym_lt : sym -> sym -> Prop.
Variables (an bn: string) (xs: list string) (l0: nat).
Notation n := (List.length xs).
Notation ap := (an, n).
Hypothesis AB : an <> bn.
Hypothesis ND : NoDup xs.
Notation lit_sat := (Sat.lit_sat sym_lt).
Notation atom_sat := (Sat.atom_sat sym_lt).
Notation lits_sat := (Sat.lits_sat sym_lt).
Notation bodyelem_sat := (Sat.bodyelem_sat sym_lt).
Notation body_sat := (Sat.body_sat sym_lt).
Notation rule_sat := (Sat.rule_sat sym_lt).
Notation stmt_sat := (Sat.stmt_sat sym_lt).
Notation prog_sat := (Sat.prog_sat sym_lt).
Notation stable := (Sat.stable sym_lt).
Notation elems_tuples := (AggSem.elems_tuples sym_lt).

Definition Dcopy : stmt := def_stmt an xs [at_ bn xs] l0.          (* a(xs) :- b(xs). *)
(* a-atoms and b-atoms go together *)
Definition exact (X: interp) : Prop := forall vs, List.length vs = n -> (X (an, vs) <-> X (bn, vs)).

Lemma defd_exact X T : defd sym_lt an xs [at_ bn xs] X T -> exact X.
Proof.
  intros Df vs L. rewrite (Df vs L). split.
  - intros [s [<- B]]. inversion B as [|? ? B1 _]; subst. rewrite at_sat in B1. exact B1.
  - intro Xb. destruct (nodup_map_subst xs ND vs L) as [s Es]. exists s. split; [exact Es|].
    constructor; [|constructor]. rewrite at_sat, Es. exact Xb.
Qed.
Lemma exact_Dcopy X T : exact X -> exact T -> stmt_sat X T Dcopy.
Proof.
  intros EX ET. unfold Dcopy, def_stmt. simpl. intro s. unfold Sat.head_sat.
  assert (A: forall Y, exact Y -> Sat.body_sat sym_lt (gvars_rule (HLit (at_ an xs)) [BLit (at_ bn xs)]) Y T s [BLit (at_ bn xs)] ->
             lit_sat (gvars_rule (HLit (at_ an xs)) [BLit (at_ bn xs)]) Y T s (at_ an xs)).
  { intros Y EY B. inversion B as [|? ? B1 _]; subst. simpl in B1. rewrite at_sat in *. apply (EY (map s xs) (map_length s xs)). exact B1. }
  split; [exact (A X EX) | exact (A T ET)].
Qed.

(* ---- renaming a/n to b/n in every body atom ---- *)
Definition is_a (f: string) (args: list term) : bool := String.eqb f an && Nat.eqb (List.length args) n.
Definition rn_term (t: term) : term :=
  match t with TFun f args e => if is_a f args then TFun bn args e else t | _ => t end.
Fixpoint rn_atom (a: atom) : atom :=
  match a with
  | ASym t => ASym (rn_term t)
  | ABodyAgg lg f es rg => ABodyAgg lg f (map (fun e => (fst e, map rn_lit (snd e))) es) rg
  | _ => a
  end
with rn_lit (l: lit) : lit := match l with Lit sg a => Lit sg (rn_atom a) end.
Definition rn_elem (e: belem) : belem := (fst e, map rn_lit (snd e)).
Definition rn_be (e: bodyelem) : bodyelem :=
  match e with BLit l => BLit (rn_lit l) | BCond l c => BCond (rn_lit l) (map rn_lit c) end.
Definition rn_stmt (st: stmt) : stmt :=
  match st with
  | SRule line h b => SRule line h (map rn_be b)
  | SMin line w pr ts b => SMin line w pr ts (map rn_be b)
  | SShowTerm t b => SShowTerm t (map rn_be b)
  | _ => st
  end.

Lemma is_a_true f args : is_a f args = true <-> f = an /\ List.length args = n.
Proof. unfold is_a. rewrite andb_true_iff, String.eqb_eq, Nat.eqb_eq. tauto. Qed.
Lemma vars_rn_term t : vars_term (rn_term t) = vars_term t.
Proof. destruct t as [| | | | |f args e|]; try reflexivity. simpl. destruct (is_a f args); reflexivity. Qed.
Lemma gvars_rn_lit l : gvars_lit (rn_lit l) = gvars_lit l.
Proof. destruct l as [sg a]. destruct a as [t|t gs|b|lg f es rg|lg es rg|tx]; try reflexivity. simpl. apply vars_rn_term. Qed.
Lemma gvars_rn_be e : gvars_bodyelem (rn_be e) = gvars_bodyelem e.
Proof. destruct e as [l|l c]; [apply gvars_rn_lit | reflexivity]. Qed.
Lemma gvars_rn_body B : flat_map gvars_bodyelem (map rn_be B) = flat_map gvars_bodyelem B.
Proof. induction B as [|e B IH]; [reflexivity|]. simpl. rewrite gvars_rn_be, IH. reflexivity. Qed.

Lemma rn_lit_sat : forall l G X T s, exact X -> exact T -> (lit_sat G X T s l <-> lit_sat G X T s (rn_lit l)).
Proof.
  apply (TraverseSpec.lit_ind' (fun l => forall G X T s, exact X -> exact T -> (lit_sat G X T s l <-> lit_sat G X T s (rn_lit l))));
    try (intros; reflexivity).
  - intros sg t G X T s EX ET. change (rn_lit (Lit sg (ASym t))) with (Lit sg (ASym (rn_term t))).
    destruct t as [| | | | |f args e|]; try reflexivity. simpl rn_term. destruct (is_a f args) eqn:E; [|reflexivity].
    apply is_a_true in E. destruct E as [-> L]. rewrite !(ChainSem.lit_sat_fun sym_lt).
    split; intros [vs [Ev A]]; exists vs; (split; [exact Ev|]);
      assert (Lv: List.length vs = n) by (rewrite (ChainSem.eval_list_length _ _ _ Ev); exact L);
      pose proof (EX vs Lv) as E1; pose proof (ET vs Lv) as E2; destruct sg; simpl in *; tauto.
  - intros sg lg f es rg IH G X T s EX ET.
    change (rn_lit (Lit sg (ABodyAgg lg f es rg))) with (Lit sg (ABodyAgg lg f (map rn_elem es) rg)).
    change (atom_sat G X T s sg (ABodyAgg lg f es rg) <-> atom_sat G X T s sg (ABodyAgg lg f (map rn_elem es) rg)).
    rewrite !atom_sat_bodyagg.
    assert (TE: forall Y, exact Y -> tup_eq (elems_tuples G Y T s es) (elems_tuples G Y T s (map rn_elem es))).
    { intros Y EY tv. rewrite !elems_tuples_iff. rewrite Forall_forall in IH.
      assert (EC: forall e th, In e es -> (lits_sat G Y T th (snd e) <-> lits_sat G Y T th (map rn_lit (snd e)))).
      { intros e th He. specialize (IH e He). rewrite Forall_forall in IH. unfold Sat.lits_sat. rewrite Forall_map, !Forall_forall.
        split; intros F c Hc; [apply (IH c Hc G Y T th EY ET) | apply (IH c Hc G Y T th EY ET)]; apply F; exact Hc. }
      split.
      - intros [e [He [th [Ag [Et C]]]]]. exists (rn_elem e). split; [apply in_map; exact He|]. exists th. split; [exact Ag|].
        split; [exact Et | apply (EC e th He); exact C].
      - intros [e' [He' [th [Ag [Et C]]]]]. apply in_map_iff in He'. destruct He' as [e [<- He]]. exists e. split; [exact He|].
        exists th. split; [exact Ag|]. split; [exact Et | apply (EC e th He); exact C]. }
    pose proof (agg_holds_ext sym_lt s lg f rg _ _ (TE X EX)) as KX.
    pose proof (agg_holds_ext sym_lt s lg f rg _ _ (TE T ET)) as KT.
    destruct sg; simpl; tauto.
Qed.
Lemma rn_lits_sat cs G X T s : exact X -> exact T -> (lits_sat G X T s cs <-> lits_sat G X T s (map rn_lit cs)).
Proof.
  intros EX ET. unfold Sat.lits_sat. rewrite Forall_map, !Forall_forall.
  split; intros F c Hc; [apply (rn_lit_sat c G X T s EX ET) | apply (rn_lit_sat c G X T s EX ET)]; apply F; exact Hc.
Qed.
Lemma rn_be_sat e G X T s : exact X -> exact T -> (bodyelem_sat G X T s e <-> bodyelem_sat G X T s (rn_be e)).
Proof.
  intros EX ET. destruct e as [l|l c]; simpl.
  - exact (rn_lit_sat l G X T s EX ET).
  - split; intros A th Ag; specialize (A th Ag);
      rewrite ?(rn_lit_sat l G X T th EX ET), ?(rn_lit_sat l G T T th ET ET), ?(rn_lits_sat c G X T th EX ET), ?(rn_lits_sat c G T T th ET ET) in *;
      exact A.
Qed.
Lemma rn_body_sat B G X T s : exact X -> exact T -> (body_sat G X T s B <-> body_sat G X T s (map rn_be B)).
Proof.
  intros EX ET. unfold Sat.body_sat. rewrite Forall_map, !Forall_forall.
  split; intros F e He; [apply (rn_be_sat e G X T s EX ET) | apply (rn_be_sat e G X T s EX ET)]; apply F; exact He.
Qed.
Lemma rn_stmt_sat st X T : exact X -> exact T -> (stmt_sat X T st <-> stmt_sat X T (rn_stmt st)).
Proof.
  intros EX ET. destruct st as [line h B| | | |]; simpl; try tauto.
  unfold gvars_rule. rewrite gvars_rn_body. unfold Sat.rule_sat.
  split; intros A s; specialize (A s);
    rewrite ?(rn_body_sat B _ X T s EX ET), ?(rn_body_sat B _ T T s ET ET) in *; exact A.
Qed.

(* ---- statements in which SHRINKING the a-atoms of the "here" world keeps satisfaction: a occurs only under negation
        (at any depth) or as a positive top-level body literal; not in heads ---- *)
Fixpoint matom (sg: sign) (a: atom) : bool :=
  match a with
  | ASym t => match sg with NoSign => term_in (notp ap) t | _ => true end
  | ABodyAgg _ _ es _ => forallb (fun e => forallb mlit (snd e)) es
  | _ => true
  end
with mlit (l: lit) : bool := match l with Lit sg a => matom sg a end.
Definition mbe (e: bodyelem) : bool :=
  match e with
  | BLit (Lit NoSign (ASym _)) => true
  | BLit l => mlit l
  | BCond l c => mlit l && forallb mlit c
  end.
Definition mstmt (st: stmt) : bool :=
  match st with SRule _ h B => head_in (notp ap) h && forallb mbe B | _ => true end.

Lemma mlit_sat : forall l, mlit l = true ->
  forall G H H1 T s, agreeK (notp ap) H H1 -> (lit_sat G H T s l <-> lit_sat G H1 T s l).
Proof.
  apply (TraverseSpec.lit_ind' (fun l => mlit l = true ->
           forall G H H1 T s, agreeK (notp ap) H H1 -> (lit_sat G H T s l <-> lit_sat G H1 T s l))); try (intros; reflexivity).
  - intros sg t A G H H1 T s AK. rewrite !lit_sat_sym_eq. destruct sg.
    + exact (sym_atom_sat_in (notp ap) H H1 T T s NoSign t A AK (agreeK_refl _ T)).
    + unfold sym_atom_sat. destruct (eval s t) as [[ |z|x|f vs [|]| ]|]; simpl; tauto.
    + unfold sym_atom_sat. destruct (eval s t) as [[ |z|x|f vs [|]| ]|]; simpl; tauto.
  - intros sg lg f es rg IH A G H H1 T s AK.
    change (forallb (fun e: list term * list lit => forallb mlit (snd e)) es = true) in A.
    change (atom_sat G H T s sg (ABodyAgg lg f es rg) <-> atom_sat G H1 T s sg (ABodyAgg lg f es rg)).
    rewrite !atom_sat_bodyagg.
    assert (TE: tup_eq (elems_tuples G H T s es) (elems_tuples G H1 T s es)).
    { intros tv. rewrite !elems_tuples_iff. rewrite forallb_forall in A. rewrite Forall_forall in IH.
      split; intros [e [Ie [th [Ag [E C]]]]]; exists e; (split; [exact Ie|]); exists th; (split; [exact Ag|]); (split; [exact E|]);
        specialize (IH e Ie); specialize (A e Ie); rewrite Forall_forall in IH; rewrite forallb_forall in A;
        unfold Sat.lits_sat in *; rewrite Forall_forall in *; intros c Hc;
        apply (IH c Hc (A c Hc) G H H1 T th AK); apply C; exact Hc. }
    pose proof (agg_holds_ext sym_lt s lg f rg _ _ TE) as KH. destruct sg; simpl; tauto.
Qed.

Lemma mbe_up G H H1 T s e : subi H1 H -> agreeK (notp ap) H H1 -> mbe e = true ->
  bodyelem_sat G H1 T s e -> bodyelem_sat G H T s e.
Proof.
  intros S AK M. destruct e as [[sg a]|l c].
  - assert (Gen: mlit (Lit sg a) = true -> bodyelem_sat G H1 T s (BLit (Lit sg a)) -> bodyelem_sat G H T s (BLit (Lit sg a))).
    { intros Ml B. exact (proj2 (mlit_sat _ Ml G H H1 T s AK) B). }
    destruct sg; destruct a as [t|t gs|b|lg f es rg|lg es rg|tx]; try exact (Gen M).
    simpl. rewrite !lit_sat_sym_eq. unfold sym_atom_sat. destruct (eval s t) as [[ |z|x|f vs [|]| ]|]; simpl; try tauto. apply S.
  - simpl in M. apply andb_true_iff in M. destruct M as [Ml Mc]. rewrite forallb_forall in Mc. simpl. intros A th Ag.
    assert (EL: forall X, agreeK (notp ap) X X -> True) by (intros; exact Logic.I).
    assert (Ec: forall th0, lits_sat G H T th0 c <-> lits_sat G H1 T th0 c).
    { intro th0. unfold Sat.lits_sat. rewrite !Forall_forall.
      split; intros F x Hx; [apply (mlit_sat x (Mc x Hx) G H H1 T th0 AK) | apply (mlit_sat x (Mc x Hx) G H H1 T th0 AK)]; apply F; exact Hx. }
    specialize (A th Ag). rewrite (Ec th), (mlit_sat l Ml G H H1 T th AK). exact A.
Qed.

Lemma mstmt_shrink H H1 T st : subi H1 H -> agreeK (notp ap) H H1 -> mstmt st = true ->
  stmt_sat H T st -> stmt_sat H1 T st.
Proof.
  intros S AK M A. destruct st as [line h B| | | |]; try exact Logic.I. simpl in M. apply andb_true_iff in M. destruct M as [Mh MB].
  rewrite forallb_forall in MB. simpl in A |- *. intro s. destruct (A s) as [A1 A2]. split; [|exact A2].
  intro B1. apply (head_sat_in sym_lt (notp ap) _ H H1 T T s h Mh AK (agreeK_refl _ T)). apply A1.
  unfold Sat.body_sat in *. rewrite Forall_forall in *. intros e He. exact (mbe_up _ H H1 T s e S AK (MB e He) (B1 e He)).
Qed.

(* ---- programs ---- *)
Definition isA (a: gatom) : Prop := fst a = an /\ List.length (snd a) = n.
Lemma simple_b : simple_lits [at_ bn xs] = true. Proof. reflexivity. Qed.

(* from D + Pa to D + Pb, when exact interpretations cannot tell Pa from Pb and Pb tolerates shrinking the a-atoms *)
Lemma copy_half (Pa Pb: program) I T :
  (forall st, In st Pa -> stmt_head_in (notp ap) st = true) ->
  (forall X Y, exact X -> exact Y -> (prog_sat X Y Pa <-> prog_sat X Y Pb)) ->
  (forall H H1 Y, subi H1 H -> agreeK (notp ap) H H1 -> prog_sat H Y Pb -> prog_sat H1 Y Pb) ->
  facts_over (fun p => p <> ap) I ->
  stable (Dcopy :: Pa) I T -> stable (Dcopy :: Pb) I T.
Proof.
  intros Hh Eq Shr FO St.
  assert (ET: exact T).
  { apply (defd_exact T T). apply (stable_defd sym_lt an xs [at_ bn xs] l0 simple_b (Dcopy :: Pa) I T St (or_introl eq_refl)); [|exact FO].
    intros st [<-|Hin]; [left; reflexivity | right; exact (Hh st Hin)]. }
  destruct St as [[PT FT] Min].
  assert (PTa: prog_sat T T Pa) by (intros st Hin; apply PT; right; exact Hin).
  split; [split; [|exact FT]|].
  - intros st [<-|Hin]; [apply PT; left; reflexivity | exact (proj1 (Eq T T ET ET) PTa st Hin)].
  - intros H S PS FH.
    set (H1 := fun a : gatom => H a /\ (isA a -> H (bn, snd a))).
    assert (S1: subi H1 H) by (intros a [Ha _]; exact Ha).
    assert (BA: forall vs, List.length vs = n -> H (bn, vs) -> H (an, vs)).
    { intros vs L Hb. destruct (nodup_map_subst xs ND vs L) as [s Es].
      pose proof (PS Dcopy (or_introl eq_refl)) as MD. unfold Dcopy, def_stmt in MD. simpl in MD. destruct (MD s) as [MD1 _].
      unfold Sat.head_sat in MD1. rewrite at_sat, Es in MD1. apply MD1. constructor; [|constructor]. simpl. rewrite at_sat, Es. exact Hb. }
    assert (E1: exact H1).
    { intros vs L. unfold H1. simpl. split.
      - intros [_ Hb]. split; [exact (Hb (conj eq_refl L))|]. intros [E _]. simpl in E. exfalso. exact (AB (eq_sym E)).
      - intros [Hb _]. split; [exact (BA vs L Hb) | intros _; exact Hb]. }
    assert (AK: agreeK (notp ap) H H1).
    { intros a Ka. apply notp_true in Ka. unfold H1. split; [|tauto]. intro Ha. split; [exact Ha|].
      intros [E1' E2']. exfalso. apply Ka. unfold gpred. rewrite E1', E2'. reflexivity. }
    assert (PSb: prog_sat H T Pb) by (intros st Hin; apply PS; right; exact Hin).
    pose proof (proj2 (Eq H1 T E1 ET) (Shr H H1 T S1 AK PSb)) as PSa.
    assert (PS1: prog_sat H1 T (Dcopy :: Pa)).
    { intros st [<-|Hin]; [exact (exact_Dcopy H1 T E1 ET) | exact (PSa st Hin)]. }
    assert (FH1: facts_sat H1 I).
    { intros a Ha. split; [exact (FH a Ha)|]. intros [Ea La]. exfalso. apply (FO a Ha). rewrite Ea, La. reflexivity. }
    intros a Ta. exact (S1 a (Min H1 (fun x Hx => S x (S1 x Hx)) PS1 FH1 a Ta)).
Qed.

Lemma rn_prog_sat P1 X Y : exact X -> exact Y -> (prog_sat X Y P1 <-> prog_sat X Y (map rn_stmt P1)).
Proof.
  intros EX EY. split.
  - intros A st' Hin'. apply in_map_iff in Hin'. destruct Hin' as [st [<- Hin]]. apply (rn_stmt_sat st X Y EX EY). exact (A st Hin).
  - intros A st Hin. apply (rn_stmt_sat st X Y EX EY). exact (A _ (in_map rn_stmt P1 st Hin)).
Qed.
Lemma rn_head_in st : stmt_head_in (notp ap) (rn_stmt st) = stmt_head_in (notp ap) st.
Proof. destruct st; reflexivity. Qed.

(* same answer sets with the rule D kept ... *)
Theorem copy_equiv_on P1 :
  heads_in (notp ap) P1 = true ->                        (* D is the only rule with a/n in its head *)
  prog_in (notp ap) (map rn_stmt P1) = true ->           (* a/n does not occur in the result *)
  forallb mstmt P1 = true ->                             (* a/n occurs negated, or as a positive top-level body literal *)
  DuplicationSem.equiv_on sym_lt (fun p => p <> ap) (Dcopy :: P1) (Dcopy :: map rn_stmt P1).
Proof.
  intros Hh Av Mo I FO T. unfold heads_in in Hh. rewrite forallb_forall in Hh, Mo. split.
  - apply (copy_half P1 (map rn_stmt P1) I T Hh); [intros X Y; exact (rn_prog_sat P1 X Y) | | exact FO].
    intros H H1 Y S1 AK PS st Hin. apply (stmt_sat_in sym_lt (notp ap) H H1 Y Y st (prog_in_stmt _ _ st Av Hin) AK (agreeK_refl _ Y)).
    exact (PS st Hin).
  - apply (copy_half (map rn_stmt P1) P1 I T); [| | |exact FO].
    + intros st' Hin'. apply in_map_iff in Hin'. destruct Hin' as [st [<- Hin]]. rewrite rn_head_in. exact (Hh st Hin).
    + intros X Y EX EY. symmetry. exact (rn_prog_sat P1 X Y EX EY).
    + intros H H1 Y S1 AK PS st Hin. exact (mstmt_shrink H H1 Y st S1 AK (Mo st Hin) (PS st Hin)).
Qed.

(* ... and then D is deleted: the answer sets of the result are those of the source without their a-atoms, one for one *)
Theorem copy_rule_shortcut_sound P1 :
  heads_in (notp ap) P1 = true -> prog_in (notp ap) (map rn_stmt P1) = true -> forallb mstmt P1 = true ->
  Sat.cons_ext sym_lt (fun p => p <> ap) (nonq an xs) (map rn_stmt P1) (Dcopy :: P1).
Proof.
  intros Hh Av Mo.
  apply (DuplicationSem.cons_ext_equiv_on sym_lt _ _ (map rn_stmt P1) (Dcopy :: map rn_stmt P1) (Dcopy :: P1)).
  - apply (drop_def_cons_ext sym_lt an xs [at_ bn xs] l0 simple_b); [intro st; tauto | exact Av|].
    change (notp ap (bn, List.length (map TVar xs)) && true = true). rewrite map_length, andb_true_r. apply notp_true.
    intro E. injection E as E. exact (AB (eq_sym E)).
  - apply DuplicationSem.equiv_on_sym. exact (copy_equiv_on P1 Hh Av Mo).
Qed.
(* without the restriction on the occurrences, one direction: no answer set is lost *)
Theorem copy_rule_shortcut_fwd P1 :
  heads_in (notp ap) P1 = true -> prog_in (notp ap) (map rn_stmt P1) = true ->
  forall I, facts_over (fun p => p <> ap) I ->
  forall T, stable (Dcopy :: P1) I T -> stable (map rn_stmt P1) I (restr (nonq an xs) T).
Proof.
  intros Hh Av I FO T St. unfold heads_in in Hh. rewrite forallb_forall in Hh.
  assert (St2: stable (Dcopy :: map rn_stmt P1) I T).
  { apply (copy_half P1 (map rn_stmt P1) I T Hh); [intros X Y; exact (rn_prog_sat P1 X Y) | | exact FO | exact St].
    intros H H1 Y S1 AK PS st Hin. apply (stmt_sat_in sym_lt (notp ap) H H1 Y Y st (prog_in_stmt _ _ st Av Hin) AK (agreeK_refl _ Y)).
    exact (PS st Hin). }
  assert (CE: Sat.cons_ext sym_lt (fun p => p <> ap) (nonq an xs) (map rn_stmt P1) (Dcopy :: map rn_stmt P1)).
  { apply (drop_def_cons_ext sym_lt an xs [at_ bn xs] l0 simple_b); [intro st; tauto | exact Av|].
    change (notp ap (bn, List.length (map TVar xs)) && true = true). rewrite map_length, andb_true_r. apply notp_true.
    intro E. injection E as E. exact (AB (eq_sym E)). }
  exact (proj1 (proj2 (CE I FO)) T St2).
Qed.
End Copy.

(* ================================================================================================ *)
(* 14. NEGATED occurrences  `not p(X,_)`, `not not p(X,_)`                                           *)
(* ================================================================================================ *)
(* gringo reads `not p(t,_)` as `not r(t)` with the projection  r(Xkept) :- p(X1..Xn)  (Sem/Sat.v cannot say this with
   a variable: a singleton variable under negation is a global, universally quantified variable).  So the SOURCE is
   written with r:   Ps = [r(Xkept) :- p(X1..Xn)] ++ P,   r occurring in P only under negation (or as a positive top-level
   body literal), p only in readable positive positions.  Section 7 turns Ps into [r(Xkept) :- q(Xkept)] ++ tr_prog P:
   r has become a COPY of q, and section 13 replaces r by q and deletes the copy rule.  The result
   rn_prog (tr_prog P) is what ngo prints (`not q(t)`). *)
Section Negated.
Variable sym_lt : sym -> sym -> Prop.
Variables (pn: string) (m: list bool) (qn: string) (rn_: string) (xs: list string) (l0: nat).
Notation n := (List.length m).
Notation k := (kcount m).
Notation stable := (Sat.stable sym_lt).
Hypothesis PQ : (qn, k) <> (pn, n).
Hypothesis Lxs : List.length xs = n.
Hypothesis NDk : NoDup (sel m xs).
Hypothesis RQ : rn_ <> qn.
Hypothesis RK : K pn m qn (rn_, k) = true.

Definition Dproj : stmt := SRule l0 (HLit (at_ rn_ (sel m xs))) [BLit (at_ pn xs)].        (* r(Xkept) :- p(X1..Xn). *)
Definition rn_prog (P: program) : program := map (rn_stmt rn_ qn (sel m xs)) P.
Definition nonr : gatom -> Prop := nonq rn_ (sel m xs).

Lemma Lk : List.length (sel m xs) = k.
Proof. apply sel_length. exact Lxs. Qed.

Lemma tr_Dproj : tr_stmt pn m qn Dproj = Dcopy rn_ qn (sel m xs) l0.
Proof.
  unfold Dproj, Dcopy, def_stmt, ProjectionSem.Example.at_.
  assert (E1: is_pfun pn m rn_ (map TVar (sel m xs)) = false).
  { destruct (is_pfun pn m rn_ (map TVar (sel m xs))) eqn:E; [|reflexivity]. apply is_pfun_true in E. destruct E as [-> E].
    rewrite map_length, Lk in E. rewrite E in RK. rewrite K_p in RK. discriminate. }
  assert (E2: is_pfun pn m pn (map TVar xs) = true) by (apply is_pfun_true; split; [reflexivity | rewrite map_length; exact Lxs]).
  cbn [tr_stmt tr_head tr_be map tr_lit tr_atom tr_term]. rewrite E1, E2, sel_map. reflexivity.
Qed.

Theorem project_negated_sound P :
  ok_prog pn m qn (Dproj :: P) = true ->
  heads_in (notp (rn_, List.length (sel m xs))) (tr_prog pn m qn P) = true ->
  prog_in (notp (rn_, List.length (sel m xs))) (rn_prog (tr_prog pn m qn P)) = true ->
  forallb (mstmt rn_ (sel m xs)) (tr_prog pn m qn P) = true ->
  forall I, facts_over (fun r => K pn m qn r = true /\ r <> (rn_, k)) I ->
    (forall T, stable (Dproj :: P) I T -> stable (rn_prog (tr_prog pn m qn P)) I (restr nonr (prj pn m qn T))) /\
    (forall T2, stable (rn_prog (tr_prog pn m qn P)) I T2 ->
        exists T, stable (Dproj :: P) I T /\ same (restr nonr (prj pn m qn T)) T2) /\
    (forall T1 T2, stable (Dproj :: P) I T1 -> stable (Dproj :: P) I T2 ->
        same (restr nonr (prj pn m qn T1)) (restr nonr (prj pn m qn T2)) -> same T1 T2).
Proof.
  intros Ok Hh Av Mo I FO.
  assert (FO1: facts_over (fun r => K pn m qn r = true) I) by (intros a Ha; exact (proj1 (FO a Ha))).
  assert (FO2: facts_over (fun r => r <> (rn_, List.length (sel m xs))) I) by (intros a Ha; rewrite Lk; exact (proj2 (FO a Ha))).
  destruct (project_position_sound sym_lt pn m qn PQ (Dproj :: P) Ok I FO1) as [A [B C]].
  assert (Etr: tr_prog pn m qn (Dproj :: P) = Dcopy rn_ qn (sel m xs) l0 :: tr_prog pn m qn P)
    by (unfold tr_prog; rewrite map_cons, tr_Dproj; reflexivity).
  rewrite Etr in A, B.
  destruct (copy_rule_shortcut_sound sym_lt rn_ qn (sel m xs) l0 RQ NDk (tr_prog pn m qn P) Hh Av Mo I FO2) as [A' [B' Inj']].
  split; [|split].
  - intros T St. exact (B' _ (A T St)).
  - intros T2 St2. destruct (A' T2 St2) as [T1 [St1 Sa1]]. destruct (B T1 St1) as [T [St Sa]]. exists T. split; [exact St|].
    apply (same_trans _ (restr nonr T1)); [apply same_restr; exact Sa | exact Sa1].
  - intros T1 T2 S1 S2 Sa. apply (C T1 T2 S1 S2). exact (Inj' _ _ (A T1 S1) (A T2 S2) Sa).
Qed.
End Negated.

Module NegatedExample.
(* gringo's reading of   p(X,Y) :- e(X,Y).  q(X) :- d(X,Z), not p(X,_).   : *)
Definition Pn : program :=
  [ InlineSem.Refutations.prule 1 "p" ["X"; "Y"] [("e", ["X"; "Y"])];
    InlineSem.Refutations.nrule 2 "q" ["X"] [("d", ["X"; "Z"])] "r" ["X"] ].
(* ngo:   p(X) :- e(X,_).  q(X) :- d(X,_), not p(X).     (here with the new predicate called p1) *)
Definition Pn_res : program :=
  [ InlineSem.Refutations.prule 1 "p1" ["X"] [("e", ["X"; "Y"])];
    InlineSem.Refutations.nrule 2 "q" ["X"] [("d", ["X"; "Z"])] "p1" ["X"] ].
Lemma Pn_res_eq : rn_prog [true; false] "p1" "r" ["X"; "Y"] (tr_prog "p" [true; false] "p1" Pn) = Pn_res.
Proof. reflexivity. Qed.

Theorem negated_instance sym_lt : forall I,
  facts_over (fun r => K "p" [true; false] "p1" r = true /\ r <> ("r", 1)) I ->
  (forall T, Sat.stable sym_lt (Dproj "p" [true; false] "r" ["X"; "Y"] 0 :: Pn) I T ->
     Sat.stable sym_lt Pn_res I (restr (nonr [true; false] "r" ["X"; "Y"]) (prj "p" [true; false] "p1" T))) /\
  (forall T2, Sat.stable sym_lt Pn_res I T2 ->
     exists T, Sat.stable sym_lt (Dproj "p" [true; false] "r" ["X"; "Y"] 0 :: Pn) I T /\
               same (restr (nonr [true; false] "r" ["X"; "Y"]) (prj "p" [true; false] "p1" T)) T2).
Proof.
  intros I FO.
  destruct (project_negated_sound sym_lt "p" [true; false] "p1" "r" ["X"; "Y"] 0) with (P := Pn) (I := I) as [A [B _]];
    try reflexivity; try exact FO.
  - vm_compute. discriminate.
  - repeat constructor; simpl; tauto.
  - discriminate.
  - rewrite Pn_res_eq in A, B. split; [exact A | exact B].
Qed.
End NegatedExample.

(* ================================================================================================ *)
(* 15. The model of remove_single_copies on a concrete program                                      *)
(* ================================================================================================ *)
Lemma stable_members sym_lt (P Q: program) I T : (forall st, In st P <-> In st Q) ->
  (Sat.stable sym_lt P I T <-> Sat.stable sym_lt Q I T).
Proof.
  intro M. assert (E: forall H, Sat.prog_sat sym_lt H T P <-> Sat.prog_sat sym_lt H T Q).
  { intro H. unfold Sat.prog_sat. split; intros A st Hin; apply A; apply M; exact Hin. }
  unfold Sat.stable. rewrite (E T). split; intros [A Min]; (split; [exact A|]); intros H S PS FH; apply Min; try assumption; apply E; exact PS.
Qed.

Module CopyExample.
(* a(X) :- b(X).  c(X) :- a(X), d(X).  e(X) :- d(X), not a(X).      inputs b/1 d/1, outputs c/1 e/1 *)
Definition exCp : program := [(SOther "ASTType.Program" "#program base."); (SRule 1 (HLit (Lit NoSign (ASym (TFun "a" [(TVar "X")] false)))) [(BLit (Lit NoSign (ASym (TFun "b" [(TVar "X")] false))))]); (SRule 1 (HLit (Lit NoSign (ASym (TFun "c" [(TVar "X")] false)))) [(BLit (Lit NoSign (ASym (TFun "a" [(TVar "X")] false)))); (BLit (Lit NoSign (ASym (TFun "d" [(TVar "X")] false))))]); (SRule 1 (HLit (Lit NoSign (ASym (TFun "e" [(TVar "X")] false)))) [(BLit (Lit NoSign (ASym (TFun "d" [(TVar "X")] false)))); (BLit (Lit Neg (ASym (TFun "a" [(TVar "X")] false))))])].
(* python: #program base. c(X) :- b(X); d(X). e(X) :- d(X); not b(X). *)
Definition exCp_res : program := [(SOther "ASTType.Program" "#program base."); (SRule 1 (HLit (Lit NoSign (ASym (TFun "c" [(TVar "X")] false)))) [(BLit (Lit NoSign (ASym (TFun "b" [(TVar "X")] false)))); (BLit (Lit NoSign (ASym (TFun "d" [(TVar "X")] false))))]); (SRule 1 (HLit (Lit NoSign (ASym (TFun "e" [(TVar "X")] false)))) [(BLit (Lit NoSign (ASym (TFun "d" [(TVar "X")] false)))); (BLit (Lit Neg (ASym (TFun "b" [(TVar "X")] false))))])].

Lemma exCp_model : UnusedExecute.execute exCp [("b", 1); ("d", 1)] [("c", 1); ("e", 1)] exCp = Ok exCp_res.
Proof. vm_compute. reflexivity. Qed.

Definition P1 : program := SOther "ASTType.Program" "#program base." :: tl (tl exCp).
Lemma exCp_members st : In st exCp <-> In st (Dcopy "a" "b" ["X"] 1 :: P1).
Proof. unfold exCp, P1, Dcopy, def_stmt. simpl. tauto. Qed.
Lemma exCp_res_eq : map (rn_stmt "a" "b" ["X"]) P1 = exCp_res.
Proof. reflexivity. Qed.

(* the answer sets of ngo's output are those of exCp without their a-atoms, one for one *)
Theorem exCp_pass_sound sym_lt :
  UnusedExecute.execute exCp [("b", 1); ("d", 1)] [("c", 1); ("e", 1)] exCp = Ok exCp_res /\
  Sat.cons_ext sym_lt (fun p => p <> ("a", 1)) (nonq "a" ["X"]) exCp_res exCp.
Proof.
  split; [exact exCp_model|].
  assert (CE: Sat.cons_ext sym_lt (fun p => p <> ("a", 1)) (nonq "a" ["X"]) (map (rn_stmt "a" "b" ["X"]) P1) (Dcopy "a" "b" ["X"] 1 :: P1)).
  { apply (copy_rule_shortcut_sound sym_lt "a" "b" ["X"] 1); try reflexivity; [discriminate | repeat constructor; simpl; tauto]. }
  rewrite exCp_res_eq in CE. intros I FO. destruct (CE I FO) as [A [B C]].
  assert (M: forall T, Sat.stable sym_lt exCp I T <-> Sat.stable sym_lt (Dcopy "a" "b" ["X"] 1 :: P1) I T)
    by (intro T; apply stable_members; exact exCp_members).
  split; [|split].
  - intros T0 St0. destruct (A T0 St0) as [T [St Sa]]. exists T. split; [apply M; exact St | exact Sa].
  - intros T St. apply B. apply M. exact St.
  - intros T1 T2 S1 S2. apply C; apply M; assumption.
Qed.
End CopyExample.

Print Assumptions project_position_sound.
Print Assumptions project_position_equiv_out.
Print Assumptions project_position_equiv_cost.
Print Assumptions project_negated_sound.
Print Assumptions copy_rule_shortcut_sound.
Print Assumptions copy_rule_shortcut_fwd.
Print Assumptions ModelExamples.exA_pass_sound.
Print Assumptions ModelExamples.exR_pass_sound.
Print Assumptions ModelExamples.exM_pass_sound.
Print Assumptions CopyExample.exCp_pass_sound.
Print Assumptions NegatedExample.negated_instance.
Print Assumptions ChoiceExample.choice_projection_many_to_one.
Print Assumptions Refutations.read_position_refuted.
Print Assumptions Findings.negated_head_refuted.
Print Assumptions Findings.copy_chain_refuted.
Print Assumptions Findings.copy_rule_double_negation_refuted.
