(* C14: negate_agg (utils/ast.py) touches the aggregate's own guards only. *)
From Coq Require Import List String ZArith Bool.
From NGO Require Import Syntax.Ast Gen.Tables Model.NegateAgg.
Import ListNotations.

Theorem negate_agg_shape_proof : forall lg f es rg,
  negate_agg (ABodyAgg lg f es rg) = Ok (ABodyAgg (neg_guard lg) f es (neg_guard rg)).
Proof. reflexivity. Qed.

(* function, elements (tuples and conditions, including every comparison inside a condition) are untouched *)
Theorem negate_agg_keeps_elements_proof : forall a lg f es rg,
  negate_agg a = Ok (ABodyAgg lg f es rg) -> exists lg0 rg0, a = ABodyAgg lg0 f es rg0.
Proof.
  intros a lg f es rg H. destruct a; simpl in H; try discriminate.
  - injection H as _ <- <- _. eauto.
Qed.

Theorem negate_comparison_involutive_proof : forall c, negate_comparison (negate_comparison c) = c.
Proof. destruct c; reflexivity. Qed.

Theorem negate_agg_involutive_proof : forall a b c, negate_agg a = Ok b -> negate_agg b = Ok c -> c = a.
Proof.
  intros a b c H1 H2. destruct a; simpl in H1; try discriminate; injection H1 as <-; simpl in H2; injection H2 as <-.
  - destruct lg as [[? ?]|], rg as [[? ?]|]; simpl; rewrite ?negate_comparison_involutive_proof; reflexivity.
  - destruct lg as [[? ?]|], rg as [[? ?]|]; simpl; rewrite ?negate_comparison_involutive_proof; reflexivity.
Qed.

Theorem negate_agg_asserts_proof : forall a,
  (exists b, negate_agg a = Ok b) <-> (exists lg f es rg, a = ABodyAgg lg f es rg) \/ (exists lg es rg, a = AAgg lg es rg).
Proof.
  intros a. split.
  - intros [b H]. destruct a; simpl in H; try discriminate; [left|right]; eauto.
  - intros [(lg & f & es & rg & ->)|(lg & es & rg & ->)]; simpl; eauto.
Qed.
