(* Termination (fuel sufficiency) of the loops of Model/Cleanup.v.

   Main results
     transitive_closure_no_outoffuel : forall a, transitive_closure a <> OutOfFuel
     find_superseeded_no_outoffuel   : forall ins sups prg, _find_superseeded ins sups prg <> OutOfFuel
     apply_superseeding_no_outoffuel : forall sups stm, _apply_superseeding sups stm <> OutOfFuel
     execute_core_state_no_outoffuel, execute_core_no_outoffuel

   No well-formedness hypothesis on the mappings is needed: an ill-formed mapping (var_map entry out of
   range) makes `compose_var_map` answer Raise "IndexError", which is not OutOfFuel.

   Proof of the closure bound (the "doubling" argument of the comment in Model/Cleanup.v, made precise).
   Let G = mset a.  A *chain* is a non-empty sequence g1 ... gr of members of G in which every
   g(i+1) can be composed with the value of g1 ... gi (compatible predicates, indices in range); its
   value is the left-nested composition.  Invariant after j passes that did not raise (Inv j C):
     - G <= C, every member of C is the value of a chain,
     - the value of every chain of length <= 2^j is in C.
   (The step uses associativity of the composition and the fact that a pass which does not raise has
   successfully composed EVERY compatible pair of C, in particular (x, g) for g in G.)
   Every chain can be shortened to one whose prefix values are pairwise different without changing its
   value, and all values live in an explicit finite universe U with |U| <= 2^(3n + (n+L)L); so once
   2^j >= |U| the set C contains every chain value, the next pass adds nothing and the loop stops.
   closure_fuel = (n+1)^2 + (L+1)(n+L+1) + 3n + 4 > 3n + (n+L)L + 1. *)
From Coq Require Import List String ZArith Bool Arith Lia.
From NGO Require Import Syntax.Ast Model.Traverse Model.Cleanup Link.CleanupSpec.
Import ListNotations.
Open Scope list_scope.

(* ====================================================================================== *)
(** * 0. Generic facts about [result] *)

Lemma fold_rbind_not_oof {A B} (f: A -> B -> result A) :
  (forall a x, f a x <> OutOfFuel) ->
  forall l init, init <> OutOfFuel ->
  fold_left (fun acc x => rbind acc (fun a => f a x)) l init <> OutOfFuel.
Proof.
  intros Hf. induction l as [|x l IH]; simpl; intros init Hi; [exact Hi|].
  apply IH. apply rbind_not_oof; [exact Hi|]. intros a _. apply Hf.
Qed.

Lemma mapM_upd_not_oof {A} (f: A -> result (A * bool)) :
  (forall x, f x <> OutOfFuel) -> forall l, mapM_upd f l <> OutOfFuel.
Proof.
  intros Hf. induction l as [|x l IH]; simpl; [discriminate|].
  apply rbind_not_oof; [apply Hf|]. intros xu _.
  apply rbind_not_oof; [exact IH|]. intros ru _. discriminate.
Qed.

(* ====================================================================================== *)
(** * 1. Sets of mappings *)

Lemma Mapping_eqb_eq' a b : Mapping_eqb a b = true <-> a = b.
Proof.
  destruct a as [hp bp vm], b as [hp' bp' vm']. unfold Mapping_eqb. simpl.
  rewrite !andb_true_iff, pred_eqb_eq.
  assert (S: spred_eqb bp bp' = true <-> bp = bp').
  { destruct bp as [sg p], bp' as [sg' p']. unfold spred_eqb. simpl.
    rewrite andb_true_iff, sign_eqb_eq, pred_eqb_eq. split; [intros [-> ->]; reflexivity | intros E; inversion E; auto]. }
  rewrite S, (list_eqb_eq Nat.eqb Nat.eqb_eq).
  split; [intros [[-> ->] ->]; reflexivity | intros E; inversion E; auto].
Qed.

Lemma Mapping_eq_dec (a b: Mapping) : {a = b} + {a <> b}.
Proof.
  destruct (Mapping_eqb a b) eqn:E.
  - left. apply Mapping_eqb_eq'. exact E.
  - right. intros H. apply Mapping_eqb_eq' in H. congruence.
Qed.

Lemma mmem_In' m s : mmem m s = true <-> In m s.
Proof.
  unfold mmem. rewrite existsb_exists. split.
  - intros [x [Hx E]]. apply Mapping_eqb_eq' in E. subst. exact Hx.
  - intros Hin. exists m. split; [exact Hin | apply Mapping_eqb_eq'; reflexivity].
Qed.

Lemma madd_In_iff m s x : In x (madd m s) <-> In x s \/ x = m.
Proof.
  unfold madd. destruct (mmem m s) eqn:E.
  - split; [auto|]. intros [H| ->]; [exact H | apply mmem_In'; exact E].
  - rewrite in_app_iff. simpl. split; [intros [H|[H|[]]]; auto | intros [H|H]; auto].
Qed.

Lemma mupdate_In_iff new : forall s x, In x (mupdate s new) <-> In x s \/ In x new.
Proof.
  unfold mupdate. induction new as [|m new IH]; intros s x; simpl.
  - tauto.
  - rewrite IH, madd_In_iff. split; [intros [[H|H]|H] | intros [H|[H|H]]]; auto.
Qed.

Lemma mupdate_id new : forall s, (forall x, In x new -> In x s) -> mupdate s new = s.
Proof.
  unfold mupdate. induction new as [|m new IH]; intros s H; simpl; [reflexivity|].
  assert (E: madd m s = s).
  { unfold madd. replace (mmem m s) with true; [reflexivity|]. symmetry. apply mmem_In'. apply H. left. reflexivity. }
  rewrite E. apply IH. intros x Hx. apply H. right. exact Hx.
Qed.

Lemma mset_In_iff l x : In x (mset l) <-> In x l.
Proof. unfold mset. rewrite mupdate_In_iff. simpl. tauto. Qed.

(* ====================================================================================== *)
(** * 2. compose_var_map *)

Definition cvm (lv rv: list nat) : list nat := map (fun i => nth i lv 0) rv.
Definition inrange (lv rv: list nat) : Prop := Forall (fun i => i < List.length lv) rv.

Lemma compose_ok lv : forall rv vm, compose_var_map lv rv = Ok vm -> vm = cvm lv rv /\ inrange lv rv.
Proof.
  induction rv as [|m r IH]; simpl; intros vm E.
  - inversion E. split; [reflexivity | constructor].
  - destruct (nth_error lv m) as [x|] eqn:En; [|discriminate].
    apply rbind_ok in E. destruct E as [t [Et E]]. inversion E; subst.
    destruct (IH _ Et) as [-> Hr].
    assert (Hm: m < List.length lv) by (apply nth_error_Some; congruence).
    split.
    + unfold cvm. simpl. f_equal. symmetry. apply nth_error_nth. exact En.
    + constructor; assumption.
Qed.

Lemma compose_not_oof lv : forall rv, compose_var_map lv rv <> OutOfFuel.
Proof.
  induction rv as [|m r IH]; simpl; [discriminate|].
  destruct (nth_error lv m); [|discriminate].
  apply rbind_not_oof; [exact IH|]. intros; discriminate.
Qed.

Lemma cvm_length lv rv : List.length (cvm lv rv) = List.length rv.
Proof. apply map_length. Qed.

Lemma cvm_assoc a b c : inrange b c -> cvm (cvm a b) c = cvm a (cvm b c).
Proof.
  unfold cvm, inrange. intros H. rewrite map_map. apply map_ext_in. intros i Hi.
  rewrite Forall_forall in H. specialize (H i Hi).
  rewrite (nth_indep _ 0 ((fun j => nth j a 0) 0)) by (rewrite map_length; exact H).
  apply (map_nth (fun j => nth j a 0)).
Qed.

(* ====================================================================================== *)
(** * 3. One pass of the two nested loops *)

Definition compat (l r: Mapping) : bool :=
  sign_eqb (fst (body_pred l)) NoSign && pred_eqb (snd (body_pred l)) (head_pred r).
Definition comp (l r: Mapping) : Mapping :=
  mkMapping (head_pred l) (body_pred r) (cvm (var_map l) (var_map r)).
Definition inr (l r: Mapping) : Prop := inrange (var_map l) (var_map r).

Definition step (lhs rhs: Mapping) (nr: list Mapping) : result (list Mapping) :=
  if compat lhs rhs
  then rbind (compose_var_map (var_map lhs) (var_map rhs))
             (fun vm => Ok (madd (mkMapping (head_pred lhs) (body_pred rhs) vm) nr))
  else Ok nr.
Definition inner (acc: result (list Mapping)) (lhs: Mapping) (rs: list Mapping) :=
  fold_left (fun acc rhs => rbind acc (step lhs rhs)) rs acc.
Definition outer (acc: result (list Mapping)) (ls rs: list Mapping) :=
  fold_left (fun acc lhs => inner acc lhs rs) ls acc.

Lemma new_relations_outer C : new_relations C = outer (Ok []) C C.
Proof. reflexivity. Qed.

Lemma step_not_oof l r nr : step l r nr <> OutOfFuel.
Proof.
  unfold step. destruct (compat l r); [|discriminate].
  apply rbind_not_oof; [apply compose_not_oof|]. intros; discriminate.
Qed.

Lemma step_ok l r nr0 nr : step l r nr0 = Ok nr ->
  (compat l r = false /\ nr = nr0) \/ (compat l r = true /\ inr l r /\ nr = madd (comp l r) nr0).
Proof.
  unfold step. destruct (compat l r); intros E.
  - right. apply rbind_ok in E. destruct E as [vm [Ev E]]. inversion E; subst.
    destruct (compose_ok _ _ _ Ev) as [-> Hr]. split; [reflexivity|]. split; [exact Hr | reflexivity].
  - left. inversion E. split; reflexivity.
Qed.

Lemma inner_not_oof lhs : forall rs acc, acc <> OutOfFuel -> inner acc lhs rs <> OutOfFuel.
Proof.
  induction rs as [|r rs IH]; simpl; intros acc H; [exact H|].
  apply IH. apply rbind_not_oof; [exact H|]. intros a _. apply step_not_oof.
Qed.

Lemma outer_not_oof rs : forall ls acc, acc <> OutOfFuel -> outer acc ls rs <> OutOfFuel.
Proof.
  induction ls as [|l ls IH]; simpl; intros acc H; [exact H|].
  apply IH. apply inner_not_oof. exact H.
Qed.

Lemma new_relations_not_oof C : new_relations C <> OutOfFuel.
Proof. rewrite new_relations_outer. apply outer_not_oof. discriminate. Qed.

(* what an Ok result of the inner loop contains *)
Lemma inner_ok lhs : forall rs acc nr, inner acc lhs rs = Ok nr ->
  exists nr0, acc = Ok nr0 /\
    (forall x, In x nr0 -> In x nr) /\
    (forall x, In x nr -> In x nr0 \/ exists r, In r rs /\ compat lhs r = true /\ inr lhs r /\ x = comp lhs r) /\
    (forall r, In r rs -> compat lhs r = true -> inr lhs r /\ In (comp lhs r) nr).
Proof.
  induction rs as [|r rs IH]; simpl; intros acc nr E.
  - exists nr. split; [exact E|]. split; [auto|]. split; [auto|]. intros r [].
  - destruct (IH _ _ E) as [nr1 [E1 [Hinc [Hfrom Hall]]]].
    apply rbind_ok in E1. destruct E1 as [nr0 [-> Es]].
    exists nr0. split; [reflexivity|].
    destruct (step_ok _ _ _ _ Es) as [[Hc ->]|[Hc [Hr ->]]].
    + split; [exact Hinc|]. split.
      * intros x Hx. destruct (Hfrom x Hx) as [H|[r' [Hr' H]]]; [left; exact H|].
        right. exists r'. split; [right; exact Hr' | exact H].
      * intros r' [<-|Hr'] Hc'; [congruence | apply Hall; assumption].
    + split; [intros x Hx; apply Hinc; apply madd_In_iff; left; exact Hx|]. split.
      * intros x Hx. destruct (Hfrom x Hx) as [H|[r' [Hr' H]]].
        -- apply madd_In_iff in H. destruct H as [H| ->]; [left; exact H|].
           right. exists r. split; [left; reflexivity|]. split; [exact Hc|]. split; [exact Hr | reflexivity].
        -- right. exists r'. split; [right; exact Hr' | exact H].
      * intros r' [<-|Hr'] Hc'; [|apply Hall; assumption].
        split; [exact Hr|]. apply Hinc. apply madd_In_iff. right. reflexivity.
Qed.

Lemma outer_ok rs : forall ls acc nr, outer acc ls rs = Ok nr ->
  exists nr0, acc = Ok nr0 /\
    (forall x, In x nr0 -> In x nr) /\
    (forall x, In x nr -> In x nr0 \/
       exists l r, In l ls /\ In r rs /\ compat l r = true /\ inr l r /\ x = comp l r) /\
    (forall l r, In l ls -> In r rs -> compat l r = true -> inr l r /\ In (comp l r) nr).
Proof.
  induction ls as [|l ls IH]; simpl; intros acc nr E.
  - exists nr. split; [exact E|]. split; [auto|]. split; [auto|]. intros l r [].
  - destruct (IH _ _ E) as [nr1 [E1 [Hinc [Hfrom Hall]]]].
    destruct (inner_ok _ _ _ _ E1) as [nr0 [-> [Hinc0 [Hfrom0 Hall0]]]].
    exists nr0. split; [reflexivity|]. split; [auto|]. split.
    + intros x Hx. destruct (Hfrom x Hx) as [H|[l' [r' [Hl' H]]]].
      * destruct (Hfrom0 x H) as [H0|[r' [Hr' H0]]]; [left; exact H0|].
        right. exists l, r'. split; [left; reflexivity|]. split; [exact Hr' | exact H0].
      * right. exists l', r'. split; [right; exact Hl' | exact H].
    + intros l' r' [<-|Hl'] Hr' Hc.
      * destruct (Hall0 r' Hr' Hc) as [Hi Hm]. split; [exact Hi | apply Hinc; exact Hm].
      * apply Hall; assumption.
Qed.

Lemma new_relations_ok C nr : new_relations C = Ok nr ->
  (forall x, In x nr -> exists l r, In l C /\ In r C /\ compat l r = true /\ inr l r /\ x = comp l r) /\
  (forall l r, In l C -> In r C -> compat l r = true -> inr l r /\ In (comp l r) nr).
Proof.
  rewrite new_relations_outer. intros E.
  destruct (outer_ok _ _ _ _ E) as [nr0 [E0 [_ [Hfrom Hall]]]]. inversion E0; subst nr0.
  split; [|exact Hall]. intros x Hx. destruct (Hfrom x Hx) as [[]|H]. exact H.
Qed.

(* ====================================================================================== *)
(** * 4. Chains over a fixed set G of given mappings *)

Lemma comp_assoc x y h : inr y h -> comp (comp x y) h = comp x (comp y h).
Proof. intros H. unfold comp. simpl. f_equal. apply cvm_assoc. exact H. Qed.

Section Chains.
Variable G : list Mapping.

(* a chain: first generator g1, then the further generators, MOST RECENT FIRST *)
Definition cval (g1: Mapping) (tl: list Mapping) : Mapping := fold_right (fun g acc => comp acc g) g1 tl.
Definition link (x g: Mapping) : Prop := compat x g = true /\ inr x g.
Fixpoint cvalid (g1: Mapping) (tl: list Mapping) : Prop :=
  match tl with
  | [] => In g1 G
  | g :: tl' => In g G /\ link (cval g1 tl') g /\ cvalid g1 tl'
  end.
Definition clast (g1: Mapping) (tl: list Mapping) : Mapping := match tl with [] => g1 | g :: _ => g end.

Lemma cval_head g1 tl : head_pred (cval g1 tl) = head_pred g1.
Proof. induction tl as [|g tl IH]; simpl; [reflexivity | exact IH]. Qed.
Lemma cval_body g1 tl : body_pred (cval g1 tl) = body_pred (clast g1 tl).
Proof. destruct tl; reflexivity. Qed.
Lemma cval_len g1 tl : List.length (var_map (cval g1 tl)) = List.length (var_map (clast g1 tl)).
Proof. destruct tl; simpl; [reflexivity | apply cvm_length]. Qed.

Lemma link_ext x y g : body_pred x = body_pred y -> List.length (var_map x) = List.length (var_map y) ->
  link x g -> link y g.
Proof.
  unfold link, compat, inr, inrange. intros Eb El [Hc Hr]. rewrite <- Eb, <- El. split; assumption.
Qed.

Lemma clast_app g1 t2 g' t1 : clast g1 (t2 ++ g' :: t1) = clast g' t2.
Proof. destruct t2; reflexivity. Qed.

Lemma cvalid_base g1 tl : cvalid g1 tl -> In g1 G.
Proof. induction tl as [|g tl IH]; simpl; [auto | intros [_ [_ H]]; auto]. Qed.
Lemma cvalid_last g1 tl : cvalid g1 tl -> In (clast g1 tl) G.
Proof. destruct tl; simpl; [auto | intros [H _]; exact H]. Qed.

(* value of a concatenation; the second chain g' t2 must be valid on its own *)
Lemma fr_comp x g' : forall t2, cvalid g' t2 ->
  fold_right (fun g acc => comp acc g) (comp x g') t2 = comp x (cval g' t2).
Proof.
  induction t2 as [|h t2 IH]; simpl; [reflexivity|]. intros [_ [[_ Hr] Hv]].
  rewrite (IH Hv). apply comp_assoc. exact Hr.
Qed.

Lemma cval_app g1 t1 g' t2 : cvalid g' t2 ->
  cval g1 (t2 ++ g' :: t1) = comp (cval g1 t1) (cval g' t2).
Proof. intros Hv. unfold cval at 1. rewrite fold_right_app. simpl. apply fr_comp. exact Hv. Qed.

(* joining two valid chains *)
Lemma cvalid_app a ta b : cvalid a ta -> link (cval a ta) b -> forall tb, cvalid b tb -> cvalid a (tb ++ b :: ta).
Proof.
  intros Ha Hl. induction tb as [|h tb IH]; simpl.
  - intros Hb. split; [exact Hb|]. split; assumption.
  - intros [Hh [Hlk Hv]]. split; [exact Hh|]. split; [|apply IH; exact Hv].
    apply (link_ext (cval b tb)); [| |exact Hlk].
    + rewrite !cval_body, clast_app. reflexivity.
    + rewrite !cval_len, clast_app. reflexivity.
Qed.

(* splitting a valid chain *)
Lemma cvalid_split g1 t1 g' : forall t2, cvalid g1 (t2 ++ g' :: t1) ->
  cvalid g1 t1 /\ link (cval g1 t1) g' /\ cvalid g' t2.
Proof.
  induction t2 as [|h t2 IH]; simpl.
  - intros [Hg [Hl Hv]]. split; [exact Hv|]. split; [exact Hl | exact Hg].
  - intros [Hh [Hl Hv]]. destruct (IH Hv) as [H1 [H2 H3]]. split; [exact H1|]. split; [exact H2|].
    split; [exact Hh|]. split; [|exact H3].
    apply (link_ext (cval g1 (t2 ++ g' :: t1))); [| |exact Hl].
    + rewrite !cval_body, clast_app. reflexivity.
    + rewrite !cval_len, clast_app. reflexivity.
Qed.

Lemma split_at {A} : forall (l: list A) m, m < List.length l ->
  exists t2 x t1, l = t2 ++ x :: t1 /\ List.length t1 = m.
Proof.
  induction l as [|a l IH]; simpl; intros m H; [lia|].
  destruct (Nat.eq_dec m (List.length l)) as [->|Hn].
  - exists [], a, l. split; reflexivity.
  - destruct (IH m) as [t2 [x [t1 [-> Hl]]]]; [lia|]. exists (a :: t2), x, t1. split; [reflexivity | exact Hl].
Qed.

Definition reach (x: Mapping) : Prop := exists g1 tl, cvalid g1 tl /\ cval g1 tl = x.

(* ---------------------------------------------------------------------------------------- *)
(** ** the invariant of the loop *)
Definition Inv (j: nat) (C: list Mapping) : Prop :=
  incl G C /\ (forall x, In x C -> reach x) /\
  (forall g1 tl, cvalid g1 tl -> S (List.length tl) <= 2 ^ j -> In (cval g1 tl) C).

Lemma Inv_0 : Inv 0 G.
Proof.
  split; [apply incl_refl|]. split.
  - intros x Hx. exists x, []. split; [exact Hx | reflexivity].
  - intros g1 tl Hv Hl. simpl in Hl. destruct tl; [|simpl in Hl; lia]. exact Hv.
Qed.

Lemma compat_cval_l a ta b : compat (cval a ta) b = compat (clast a ta) b.
Proof. unfold compat. rewrite cval_body. reflexivity. Qed.
Lemma compat_cval_r x b tb : compat x (cval b tb) = compat x b.
Proof. unfold compat. rewrite cval_head. reflexivity. Qed.

(* every new relation of a pass that did not raise is the value of a chain *)
Lemma nr_reach j C nr : Inv j C -> new_relations C = Ok nr -> forall x, In x nr -> reach x.
Proof.
  intros [HG [Hreach _]] E x Hx. destruct (new_relations_ok _ _ E) as [Hfrom Hall].
  destruct (Hfrom x Hx) as [l [r [Hl [Hr [Hc [_ ->]]]]]].
  destruct (Hreach l Hl) as [a [ta [Hva <-]]]. destruct (Hreach r Hr) as [b [tb [Hvb <-]]].
  assert (Hlk: link (cval a ta) b).
  { assert (Hc': compat (cval a ta) b = true) by (rewrite compat_cval_r in Hc; exact Hc).
    split; [exact Hc'|].
    apply (Hall (cval a ta) b Hl); [|exact Hc']. apply HG. apply (cvalid_base _ _ Hvb). }
  exists a, (tb ++ b :: ta). split.
  - apply cvalid_app; assumption.
  - apply cval_app. exact Hvb.
Qed.

Lemma Inv_step j C nr : Inv j C -> new_relations C = Ok nr -> Inv (S j) (mupdate C nr).
Proof.
  intros HI E. pose proof (nr_reach _ _ _ HI E) as Hnr.
  destruct HI as [HG [Hreach Hall2]]. destruct (new_relations_ok _ _ E) as [_ Hall].
  split; [|split].
  - intros x Hx. apply mupdate_In_iff. left. apply HG. exact Hx.
  - intros x Hx. apply mupdate_In_iff in Hx. destruct Hx as [Hx|Hx]; [apply Hreach | apply Hnr]; exact Hx.
  - intros g1 tl Hv Hl. apply mupdate_In_iff.
    assert (Hp: 1 <= 2 ^ j) by (pose proof (Nat.pow_nonzero 2 j); lia).
    destruct (le_lt_dec (S (List.length tl)) (2 ^ j)) as [Hs|Hb]; [left; apply Hall2; assumption|].
    right. destruct (split_at tl (2 ^ j - 1)) as [t2 [g' [t1 [-> Hl1]]]]; [lia|].
    destruct (cvalid_split _ _ _ _ Hv) as [Hv1 [[Hc Hr] Hv2]].
    rewrite (cval_app _ _ _ _ Hv2).
    rewrite app_length in Hl. simpl in Hl.
    apply (Hall (cval g1 t1) (cval g' t2)).
    + apply Hall2; [exact Hv1 | lia].
    + apply Hall2; [exact Hv2 | lia].
    + rewrite compat_cval_r. exact Hc.
Qed.

(* ---------------------------------------------------------------------------------------- *)
(** ** shortening chains: pairwise different prefix values *)
Fixpoint pvals (g1: Mapping) (tl: list Mapping) : list Mapping :=
  match tl with
  | [] => [g1]
  | g :: tl' => cval g1 (g :: tl') :: pvals g1 tl'
  end.
Lemma pvals_length g1 tl : List.length (pvals g1 tl) = S (List.length tl).
Proof. induction tl as [|g tl IH]; simpl; [reflexivity | rewrite IH; reflexivity]. Qed.

Lemma pvals_reach g1 : forall tl, cvalid g1 tl -> forall v, In v (pvals g1 tl) -> reach v.
Proof.
  induction tl as [|g tl IH]; simpl; intros Hv v Hin.
  - destruct Hin as [<-|[]]. exists g1, []. split; [exact Hv | reflexivity].
  - destruct Hin as [<-|Hin].
    + exists g1, (g :: tl). split; [exact Hv | reflexivity].
    + apply IH; [apply Hv | exact Hin].
Qed.

Lemma pvals_suffix g1 v : forall tl, cvalid g1 tl -> NoDup (pvals g1 tl) -> In v (pvals g1 tl) ->
  exists tl', cvalid g1 tl' /\ cval g1 tl' = v /\ NoDup (pvals g1 tl').
Proof.
  induction tl as [|g tl IH]; simpl; intros Hv Hnd Hin.
  - destruct Hin as [<-|[]]. exists []. split; [exact Hv|]. split; [reflexivity | exact Hnd].
  - destruct Hin as [<-|Hin].
    + exists (g :: tl). split; [exact Hv|]. split; [reflexivity | exact Hnd].
    + apply IH; [apply Hv | inversion Hnd; assumption | exact Hin].
Qed.

Lemma dedup g1 : forall tl, cvalid g1 tl ->
  exists tl', cvalid g1 tl' /\ cval g1 tl' = cval g1 tl /\ NoDup (pvals g1 tl').
Proof.
  induction tl as [|g tl IH]; simpl; intros Hv.
  - exists []. split; [exact Hv|]. split; [reflexivity|]. simpl. constructor; [intros []|constructor].
  - destruct Hv as [Hg [Hl Hv]]. destruct (IH Hv) as [t0 [Hv0 [E0 Hnd0]]].
    destruct (in_dec Mapping_eq_dec (comp (cval g1 t0) g) (pvals g1 t0)) as [Hin|Hnin].
    + destruct (pvals_suffix _ _ _ Hv0 Hnd0 Hin) as [t' [Hv' [E' Hnd']]].
      exists t'. split; [exact Hv'|]. split; [rewrite E', E0; reflexivity | exact Hnd'].
    + exists (g :: t0). split.
      * simpl. split; [exact Hg|]. split; [rewrite E0; exact Hl | exact Hv0].
      * split; [simpl; rewrite E0; reflexivity|]. simpl. constructor; assumption.
Qed.

(* ---------------------------------------------------------------------------------------- *)
(** ** the finite universe of chain values *)
Fixpoint lists_of (E: list nat) (n: nat) : list (list nat) :=
  match n with
  | 0 => [[]]
  | S n' => flat_map (fun e => map (cons e) (lists_of E n')) E
  end.

Lemma lists_of_In E : forall n l, List.length l = n -> Forall (fun e => In e E) l -> In l (lists_of E n).
Proof.
  induction n as [|n IH]; intros l Hl Hf.
  - destruct l; [left; reflexivity | discriminate].
  - destruct l as [|e l]; [discriminate|]. simpl. inversion Hf; subst. apply in_flat_map.
    exists e. split; [assumption|]. apply in_map. apply IH; [simpl in Hl; lia | assumption].
Qed.

Lemma flat_map_length_le {A B} (f: A -> list B) k : forall l,
  (forall x, In x l -> List.length (f x) <= k) -> List.length (flat_map f l) <= List.length l * k.
Proof.
  induction l as [|a l IH]; simpl; intros H; [lia|]. rewrite app_length.
  specialize (H a (or_introl eq_refl)) as Ha. assert (List.length (flat_map f l) <= List.length l * k) by (apply IH; auto). lia.
Qed.

Lemma lists_of_length E : forall n, List.length (lists_of E n) <= List.length E ^ n.
Proof.
  induction n as [|n IH]; simpl; [lia|].
  eapply Nat.le_trans; [apply (flat_map_length_le _ (List.length E ^ n))|lia].
  intros x _. rewrite map_length. exact IH.
Qed.

Definition Ent : list nat := flat_map var_map G.
Definition VMs : list (list nat) := flat_map (fun g => lists_of Ent (List.length (var_map g))) G.
Definition U : list Mapping :=
  flat_map (fun h => flat_map (fun b => map (mkMapping h b) VMs) (map body_pred G)) (map head_pred G).

Lemma cval_entries g1 : forall tl, cvalid g1 tl -> Forall (fun e => In e Ent) (var_map (cval g1 tl)).
Proof.
  induction tl as [|g tl IH]; simpl; intros Hv.
  - apply Forall_forall. intros e He. unfold Ent. apply in_flat_map. exists g1. split; assumption.
  - destruct Hv as [_ [[_ Hr] Hv]]. specialize (IH Hv). rewrite Forall_forall in IH.
    unfold cvm. apply Forall_forall. intros e He. apply in_map_iff in He. destruct He as [i [<- Hi]].
    apply IH. apply nth_In. unfold inr, inrange in Hr. rewrite Forall_forall in Hr. apply Hr. exact Hi.
Qed.

Lemma reach_U x : reach x -> In x U.
Proof.
  intros [g1 [tl [Hv <-]]]. unfold U. apply in_flat_map. exists (head_pred g1). split.
  - apply in_map. apply (cvalid_base _ _ Hv).
  - apply in_flat_map. exists (body_pred (clast g1 tl)). split.
    + apply in_map. apply (cvalid_last _ _ Hv).
    + apply in_map_iff. exists (var_map (cval g1 tl)). split.
      * rewrite <- (cval_head g1 tl), <- (cval_body g1 tl). destruct (cval g1 tl); reflexivity.
      * unfold VMs. apply in_flat_map. exists (clast g1 tl). split; [apply (cvalid_last _ _ Hv)|].
        apply lists_of_In; [apply cval_len | apply cval_entries; exact Hv].
Qed.

(* once 2^j reaches |U| the set contains every chain value *)
Lemma saturated j C : Inv j C -> List.length U <= 2 ^ j -> forall x, reach x -> In x C.
Proof.
  intros [_ [_ Hall2]] HU x [g1 [tl [Hv <-]]].
  destruct (dedup _ _ Hv) as [t' [Hv' [<- Hnd]]].
  apply Hall2; [exact Hv'|]. rewrite <- pvals_length with (g1 := g1).
  eapply Nat.le_trans; [|exact HU]. apply NoDup_incl_length; [exact Hnd|].
  intros v Hin. apply reach_U. apply (pvals_reach _ _ Hv' _ Hin).
Qed.

(* ---------------------------------------------------------------------------------------- *)
(** ** the loop *)
Lemma closure_loop_ok : forall f j C, Inv j C -> List.length U <= 2 ^ (j + f) ->
  closure_loop (S f) C <> OutOfFuel.
Proof.
  induction f as [|f IH]; intros j C HI HU.
  - simpl. destruct (new_relations C) as [nr| | |] eqn:E; simpl; try discriminate.
    + replace (mupdate C nr) with C; [rewrite Nat.eqb_refl; discriminate|].
      symmetry. apply mupdate_id. intros x Hx. rewrite Nat.add_0_r in HU.
      apply (saturated _ _ HI HU). apply (nr_reach _ _ _ HI E _ Hx).
    + exfalso. apply (new_relations_not_oof C). exact E.
  - change (closure_loop (S (S f)) C) with
      (rbind (new_relations C) (fun nr =>
         let cu := mupdate C nr in
         if Nat.eqb (List.length cu) (List.length C) then Ok C else closure_loop (S f) cu)).
    destruct (new_relations C) as [nr| | |] eqn:E; simpl; try discriminate.
    + destruct (Nat.eqb (List.length (mupdate C nr)) (List.length C)); [discriminate|].
      apply (IH (S j)); [apply Inv_step; assumption|]. replace (S j + f) with (j + S f) by lia. exact HU.
    + exfalso. apply (new_relations_not_oof C). exact E.
Qed.

(* ---------------------------------------------------------------------------------------- *)
(** ** the size of the universe against the fuel of the model *)
Definition maxlen (a: list Mapping) : nat :=
  fold_left (fun acc m => Nat.max acc (List.length (var_map m))) a 0.

Lemma maxlen_ge : forall a init m, In m a ->
  List.length (var_map m) <= fold_left (fun acc m => Nat.max acc (List.length (var_map m))) a init.
Proof.
  assert (Hmono: forall a init, init <= fold_left (fun acc m => Nat.max acc (List.length (var_map m))) a init).
  { induction a as [|x a IH]; simpl; intros init; [lia|]. eapply Nat.le_trans; [|apply IH]. lia. }
  induction a as [|x a IH]; simpl; intros init m [].
  - subst. eapply Nat.le_trans; [|apply Hmono]. lia.
  - apply IH. assumption.
Qed.

Lemma lt_pow2 n : S n <= 2 ^ n.
Proof. pose proof (Nat.pow_gt_lin_r 2 n). lia. Qed.

Lemma U_length : List.length U <= 2 ^ (3 * List.length G + (List.length G + maxlen G) * maxlen G).
Proof.
  set (n := List.length G). set (L := maxlen G).
  assert (HL: forall g, In g G -> List.length (var_map g) <= L) by (intros g Hg; apply maxlen_ge; exact Hg).
  assert (HE: List.length Ent <= n * L).
  { unfold Ent. apply flat_map_length_le. intros g Hg. apply HL. exact Hg. }
  assert (HB: S (List.length Ent) <= 2 ^ (n + L)).
  { rewrite Nat.pow_add_r. pose proof (lt_pow2 n). pose proof (lt_pow2 L). nia. }
  assert (HV: List.length VMs <= n * 2 ^ ((n + L) * L)).
  { unfold VMs. apply flat_map_length_le. intros g Hg.
    eapply Nat.le_trans; [apply lists_of_length|].
    eapply Nat.le_trans; [apply (Nat.pow_le_mono_l _ (S (List.length Ent))); lia|].
    eapply Nat.le_trans; [apply (Nat.pow_le_mono_r _ _ L); [lia | apply HL; exact Hg]|].
    rewrite Nat.pow_mul_r. apply Nat.pow_le_mono_l. exact HB. }
  assert (HU: List.length U <= n * (n * List.length VMs)).
  { unfold U. eapply Nat.le_trans; [apply (flat_map_length_le _ (n * List.length VMs))|rewrite map_length; fold n; lia].
    intros h _. eapply Nat.le_trans; [apply (flat_map_length_le _ (List.length VMs))|rewrite map_length; fold n; lia].
    intros b _. rewrite map_length. lia. }
  replace (3 * n + (n + L) * L) with (n + (n + (n + (n + L) * L))) by lia.
  rewrite !Nat.pow_add_r. pose proof (lt_pow2 n) as Hn.
  assert (Hq: 1 <= 2 ^ ((n + L) * L)) by (pose proof (Nat.pow_nonzero 2 ((n + L) * L)); lia).
  eapply Nat.le_trans; [exact HU|].
  apply Nat.mul_le_mono; [lia|]. apply Nat.mul_le_mono; [lia|].
  eapply Nat.le_trans; [exact HV|]. apply Nat.mul_le_mono; lia.
Qed.

Lemma closure_fuel_enough : exists f, closure_fuel G = S f /\ List.length U <= 2 ^ f.
Proof.
  unfold closure_fuel. fold (maxlen G). set (n := List.length G). set (L := maxlen G).
  exists ((n + 1) * (n + 1) + (L + 1) * (n + L + 1) + 3 * n + 3). split; [lia|].
  eapply Nat.le_trans; [apply U_length|]. fold n. fold L.
  apply Nat.pow_le_mono_r; [lia|]. nia.
Qed.

Lemma closure_loop_G : closure_loop (closure_fuel G) G <> OutOfFuel.
Proof.
  destruct closure_fuel_enough as [f [-> HU]]. apply (closure_loop_ok f 0 G Inv_0). exact HU.
Qed.
End Chains.

(* ====================================================================================== *)
(** * 5. The theorems *)

Theorem transitive_closure_no_outoffuel : forall a, transitive_closure a <> OutOfFuel.
Proof. intros a. unfold transitive_closure. apply closure_loop_G. Qed.

(* the fuel is not only sufficient: the exact number of passes is bounded by 1 + log2 of the universe *)
Theorem closure_loop_fuel_bound : forall G f, List.length (U G) <= 2 ^ f -> closure_loop (S f) G <> OutOfFuel.
Proof. intros G f H. apply (closure_loop_ok G f 0 G (Inv_0 G)). exact H. Qed.

Lemma compute_local_superseed_not_oof p rule : _compute_local_superseed p rule <> OutOfFuel.
Proof. destruct rule; simpl; discriminate. Qed.

Lemma superseed_of_pred_not_oof prg p ids : superseed_of_pred prg p ids <> OutOfFuel.
Proof.
  unfold superseed_of_pred.
  apply (fold_rbind_not_oof (fun (superseed: option (list Mapping)) (id_: nat) =>
           match nth_error prg id_ with
           | None => Raise "IndexError"%string
           | Some rule =>
               rbind (_compute_local_superseed p rule) (fun loc =>
                 Ok (Some (match superseed with None => loc | Some s => mintersect s loc end)))
           end)); [|discriminate].
  intros a x. destruct (nth_error prg x); [|discriminate].
  apply rbind_not_oof; [apply compute_local_superseed_not_oof|]. intros; discriminate.
Qed.

Theorem find_superseeded_no_outoffuel : forall ins sups prg, _find_superseeded ins sups prg <> OutOfFuel.
Proof.
  intros ins sups prg. unfold _find_superseeded. apply rbind_not_oof.
  - apply (fold_rbind_not_oof (fun (sups: list Mapping) (kv: pred * list nat) =>
             rbind (superseed_of_pred prg (fst kv) (snd kv)) (fun o =>
               match o with
               | Some s => Ok (mupdate sups s)
               | None => Raise "AssertionError"%string
               end))); [|discriminate].
    intros a x. apply rbind_not_oof; [apply superseed_of_pred_not_oof|]. intros [s|] _; discriminate.
  - intros a _. apply transitive_closure_no_outoffuel.
Qed.

Lemma apply_aggregate_not_oof sups blit : apply_aggregate sups blit <> OutOfFuel.
Proof.
  destruct blit as [[s a]|l c]; simpl; [|discriminate].
  destruct a; simpl; try discriminate.
  - apply rbind_not_oof; [|intros; discriminate]. apply mapM_upd_not_oof. intros e.
    apply rbind_not_oof; [apply remove_superseed_cond_no_outoffuel_proof|]. intros; discriminate.
  - apply rbind_not_oof; [|intros; discriminate]. apply mapM_upd_not_oof. intros e.
    apply rbind_not_oof; [apply remove_superseed_cond_no_outoffuel_proof|]. intros; discriminate.
Qed.

Lemma apply_blit_not_oof sups blit : apply_blit sups blit <> OutOfFuel.
Proof.
  destruct blit as [l|l c].
  - apply apply_aggregate_not_oof.
  - simpl. apply rbind_not_oof; [apply remove_superseed_cond_no_outoffuel_proof|]. intros; discriminate.
Qed.

Theorem apply_superseeding_no_outoffuel : forall sups stm, _apply_superseeding sups stm <> OutOfFuel.
Proof.
  intros sups stm. unfold _apply_superseeding. destruct (stmt_body stm) as [b|]; [|discriminate].
  apply rbind_not_oof; [apply remove_superseed_body_no_outoffuel_proof|]. intros bu _.
  apply rbind_not_oof; [apply mapM_upd_not_oof; apply apply_blit_not_oof|]. intros bu' _.
  destruct (snd bu || snd bu'); discriminate.
Qed.

Lemma execute_loop_not_oof sups prg : execute_loop sups prg <> OutOfFuel.
Proof.
  unfold execute_loop.
  apply (fold_rbind_not_oof (fun (new_prg: list stmt) (stm: stmt) =>
           rbind (_apply_superseeding sups stm) (fun s =>
             match remove_boolean s with
             | Some r => Ok (new_prg ++ [r])
             | None => Ok new_prg
             end))); [|discriminate].
  intros a x. apply rbind_not_oof; [apply apply_superseeding_no_outoffuel|].
  intros s _. destruct (remove_boolean s); discriminate.
Qed.

Theorem execute_core_state_no_outoffuel : forall ins sups prg, execute_core_state ins sups prg <> OutOfFuel.
Proof.
  intros ins sups prg. unfold execute_core_state.
  apply rbind_not_oof; [apply find_superseeded_no_outoffuel|]. intros s _.
  apply rbind_not_oof; [apply execute_loop_not_oof|]. intros; discriminate.
Qed.

Theorem execute_core_no_outoffuel : forall ins prg, execute_core ins prg <> OutOfFuel.
Proof.
  intros ins prg. unfold execute_core.
  apply rbind_not_oof; [apply execute_core_state_no_outoffuel|]. intros; discriminate.
Qed.

Print Assumptions transitive_closure_no_outoffuel.
Print Assumptions closure_loop_fuel_bound.
Print Assumptions find_superseeded_no_outoffuel.
Print Assumptions apply_superseeding_no_outoffuel.
Print Assumptions execute_core_state_no_outoffuel.
Print Assumptions execute_core_no_outoffuel.
