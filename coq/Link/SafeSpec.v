(* Theorems about the model of clingo's safety check (Model/Safe.v).

   Contents
   0. boolean equalities of the AST reflect equality (lit_eqb_eq, name_eqb_eq, tag_eqb_eq)
   1. the fixpoint `closure` computes exactly the derivable names (closure_spec) -- monotone,
      independent of the order of the rules
   2. safety is invariant under permutation of the body (any statement kind)         [task C.3]
   3. flat rules (plain head, plain body literals): characterisation, and the preservation lemmas
      used by the passes: adding a binding literal, deleting a literal, replacing a part of the body
      by an auxiliary atom (projection / duplication), injective renaming              [task C.2]
   4. ngo's own binding analysis (Model/Binding.v) against clingo's: refutations and the sound
      fragment                                                                          [task C.1]
   Stdlib only, no axioms (Print Assumptions at the end). *)
From Coq Require Import List String ZArith Bool Arith Permutation Lia.
From NGO Require Import Syntax.Ast Model.Corr Model.Binding Model.Safe Model.Normalize Link.CleanupSpec Link.BindingPerm.
Import ListNotations.
Open Scope string_scope. Open Scope list_scope.

(* ====================================================================================== *)
(** * 0. boolean equalities *)

Lemma cmp_eqb_eq a b : cmp_eqb a b = true <-> a = b.
Proof. destruct a, b; simpl; split; try discriminate; reflexivity. Qed.
Lemma aggfun_eqb_eq a b : aggfun_eqb a b = true <-> a = b.
Proof. destruct a, b; simpl; split; try discriminate; reflexivity. Qed.
Lemma guard_eqb_eq (a b: guard) : guard_eqb a b = true <-> a = b.
Proof.
  destruct a as [o t], b as [o' t']. unfold guard_eqb. simpl.
  rewrite andb_true_iff, cmp_eqb_eq, term_eqb_eq.
  split; [intros [-> ->]; reflexivity | intros E; inversion E; split; reflexivity].
Qed.
Lemma oguard_eqb_eq (a b: option guard) : option_eqb guard_eqb a b = true <-> a = b.
Proof.
  destruct a as [a|], b as [b|]; simpl; try (split; discriminate); [|split; reflexivity].
  rewrite guard_eqb_eq. split; [intros ->; reflexivity | intros E; inversion E; reflexivity].
Qed.

Lemma atom_eqb_true : forall a b, atom_eqb a b = true -> a = b.
Proof.
  apply (atom_ind' (fun a => forall b, atom_eqb a b = true -> a = b)).
  - intros t [t'| | | | |]; simpl; try discriminate. intros H. apply term_eqb_eq in H. subst. reflexivity.
  - intros t gs [|t' gs'| | | |]; simpl; try discriminate. rewrite andb_true_iff.
    intros [H1 H2]. apply term_eqb_eq in H1. apply (list_eqb_eq guard_eqb guard_eqb_eq) in H2. subst. reflexivity.
  - intros x [| |y| | |]; simpl; try discriminate. intros H. apply Bool.eqb_prop in H. subst. reflexivity.
  - intros lg f es rg IH [| | |lg' f' es' rg'| |]; try (simpl; discriminate).
    simpl. rewrite !andb_true_iff. intros [H1 [H2 [H3 H4]]].
    apply oguard_eqb_eq in H1. apply aggfun_eqb_eq in H2. apply oguard_eqb_eq in H3. subst.
    f_equal. revert es' H4.
    induction IH as [|[ts cs] r Hcs _ IHr]; intros [|[ts' cs'] r'] H; try discriminate; [reflexivity|].
    apply andb_true_iff in H. destruct H as [Ht H]. apply andb_true_iff in H. destruct H as [Hc Hr].
    apply list_eqb_term_eq in Ht. subst ts'. rewrite (IHr r' Hr). f_equal. f_equal.
    simpl in Hcs. clear IHr Hr. revert cs' Hc.
    induction Hcs as [|[sg a] q Ha _ IHq]; intros [|[sg' a'] q'] H; try discriminate; [reflexivity|].
    apply andb_true_iff in H. destruct H as [Hl Hq]. rewrite lit_eqb_unfold in Hl.
    apply andb_true_iff in Hl. destruct Hl as [Hs Hl]. apply sign_eqb_eq in Hs. subst.
    simpl in Ha. rewrite (Ha a' Hl), (IHq q' Hq). reflexivity.
  - intros lg es rg IH [| | | |lg' es' rg'|]; try (simpl; discriminate).
    simpl. rewrite !andb_true_iff. intros [H1 [H3 H4]].
    apply oguard_eqb_eq in H1. apply oguard_eqb_eq in H3. subst.
    f_equal. revert es' H4.
    induction IH as [|[[s0 a0] cs] r [Hl0 Hcs] _ IHr]; intros [|[[s0' a0'] cs'] r'] H; try discriminate; [reflexivity|].
    apply andb_true_iff in H. destruct H as [Ht H]. apply andb_true_iff in H. destruct H as [Hc Hr].
    rewrite lit_eqb_unfold in Ht. apply andb_true_iff in Ht. destruct Ht as [Hs Ht].
    apply sign_eqb_eq in Hs. simpl in Hl0. apply Hl0 in Ht. subst.
    rewrite (IHr r' Hr). f_equal. f_equal.
    simpl in Hcs. clear IHr Hr Hl0. revert cs' Hc.
    induction Hcs as [|[sg a] q Ha _ IHq]; intros [|[sg' a'] q'] H; try discriminate; [reflexivity|].
    apply andb_true_iff in H. destruct H as [Hl Hq]. rewrite lit_eqb_unfold in Hl.
    apply andb_true_iff in Hl. destruct Hl as [Hs Hl]. apply sign_eqb_eq in Hs. subst.
    simpl in Ha. rewrite (Ha a' Hl), (IHq q' Hq). reflexivity.
  - intros s [| | | | |s']; simpl; try discriminate. intros H. apply String.eqb_eq in H. subst. reflexivity.
Qed.

Theorem lit_eqb_eq a b : lit_eqb a b = true <-> a = b.
Proof.
  split.
  - destruct a as [s x], b as [s' y]. rewrite lit_eqb_unfold, andb_true_iff. intros [H1 H2].
    apply sign_eqb_eq in H1. apply atom_eqb_true in H2. subst. reflexivity.
  - intros ->. apply lit_eqb_refl.
Qed.

Lemma path_eqb_eq a b : path_eqb a b = true <-> a = b.
Proof. unfold path_eqb. apply list_eqb_eq. intros x y. apply Nat.eqb_eq. Qed.

Theorem name_eqb_eq a b : name_eqb a b = true <-> a = b.
Proof.
  destruct a as [x|o p|o p|t|o p], b as [y|o' p'|o' p'|t'|o' p']; simpl; try (split; discriminate).
  - rewrite String.eqb_eq. split; [intros ->; reflexivity | intros E; inversion E; reflexivity].
  - rewrite andb_true_iff, lit_eqb_eq, path_eqb_eq.
    split; [intros [-> ->]; reflexivity | intros E; inversion E; split; reflexivity].
  - rewrite andb_true_iff, lit_eqb_eq, path_eqb_eq.
    split; [intros [-> ->]; reflexivity | intros E; inversion E; split; reflexivity].
  - rewrite term_eqb_eq. split; [intros ->; reflexivity | intros E; inversion E; reflexivity].
  - rewrite andb_true_iff, lit_eqb_eq, path_eqb_eq.
    split; [intros [-> ->]; reflexivity | intros E; inversion E; split; reflexivity].
Qed.

Theorem tag_eqb_eq a b : tag_eqb a b = true <-> a = b.
Proof.
  destruct a as [u x], b as [v y]. unfold tag_eqb. simpl.
  rewrite andb_true_iff, Bool.eqb_true_iff, name_eqb_eq.
  split; [intros [-> ->]; reflexivity | intros E; inversion E; split; reflexivity].
Qed.

(* ====================================================================================== *)
(** * 1. the fixpoint *)
Section ClosureTheory.
  Context {A: Type} (eqb: A -> A -> bool) (Heqb: forall a b, eqb a b = true <-> a = b).

  Lemma amem_In x s : amem eqb x s = true <-> In x s.
  Proof.
    unfold amem. rewrite existsb_exists. split.
    - intros [y [Hy E]]. apply Heqb in E. subst. exact Hy.
    - intros H. exists x. split; [exact H | apply Heqb; reflexivity].
  Qed.
  Lemma amem_false x s : amem eqb x s = false <-> ~ In x s.
  Proof. rewrite <- amem_In. destruct (amem eqb x s); split; try congruence; intros H; exfalso; apply H; reflexivity. Qed.
  Lemma asub_incl a b : asub eqb a b = true <-> incl a b.
  Proof.
    unfold asub. rewrite forallb_forall. split; intros H x Hx; [apply amem_In, H, Hx | apply amem_In, H, Hx].
  Qed.
  Lemma adiff_In x a b : In x (adiff eqb a b) <-> In x a /\ ~ In x b.
  Proof. unfold adiff. rewrite filter_In, negb_true_iff, amem_false. reflexivity. Qed.
  Lemma adiff_nil a b : adiff eqb a b = [] <-> incl a b.
  Proof.
    split.
    - intros H x Hx. destruct (amem eqb x b) eqn:E; [apply amem_In; exact E|].
      exfalso. assert (In x (adiff eqb a b)) by (apply adiff_In; split; [exact Hx | apply amem_false; exact E]).
      rewrite H in H0. destruct H0.
    - intros H. destruct (adiff eqb a b) as [|x r] eqn:E; [reflexivity|].
      assert (In x (adiff eqb a b)) by (rewrite E; left; reflexivity).
      apply adiff_In in H0. destruct H0 as [H1 H2]. exfalso. apply H2, H, H1.
  Qed.
  Lemma adedup_In x l : In x (adedup eqb l) <-> In x l.
  Proof.
    induction l as [|y r IH]; simpl; [reflexivity|].
    destruct (amem eqb y r) eqn:E.
    - rewrite IH. split; [intros H; right; exact H|]. intros [->|H]; [apply amem_In; exact E | exact H].
    - simpl. rewrite IH. reflexivity.
  Qed.

  (* x is bound: it is given, or provided by a rule all of whose dependencies are bound *)
  Inductive derivable (rules: list (list A * list A)) (B0: list A) : A -> Prop :=
  | d_base x : In x B0 -> derivable rules B0 x
  | d_rule D P x : In (D, P) rules -> (forall d, In d D -> derivable rules B0 d) -> In x P -> derivable rules B0 x.

  Lemma derivable_mono rules rules' B B' x :
    incl rules rules' -> incl B B' -> derivable rules B x -> derivable rules' B' x.
  Proof.
    intros Hr Hb. induction 1 as [x Hx|D P x HDP _ IH Hx]; [apply d_base, Hb, Hx|].
    eapply d_rule; [apply Hr, HDP | exact IH | exact Hx].
  Qed.
  (* what is derivable may be assumed *)
  Lemma derivable_cut rules B B' x :
    (forall b, In b B' -> derivable rules B b) -> derivable rules B' x -> derivable rules B x.
  Proof.
    intros Hb. induction 1 as [x Hx|D P x HDP _ IH Hx]; [apply Hb, Hx|].
    eapply d_rule; [exact HDP | exact IH | exact Hx].
  Qed.
  (* rules may be replaced by rules that need less (up to derivable names) and give as much *)
  Lemma derivable_simulate rules rules' B B' x :
    (forall b, In b B -> derivable rules' B' b) ->
    (forall D P, In (D, P) rules -> (forall d, In d D -> derivable rules' B' d) -> forall y, In y P -> derivable rules' B' y) ->
    derivable rules B x -> derivable rules' B' x.
  Proof.
    intros Hb Hr. induction 1 as [x Hx|D P x HDP _ IH Hx]; [apply Hb, Hx|].
    exact (Hr D P HDP IH x Hx).
  Qed.

  Lemma filter_split_length {X} (f: X -> bool) (l: list X) :
    List.length (filter f l) + List.length (filter (fun x => negb (f x)) l) = List.length l.
  Proof. induction l as [|x r IH]; simpl; [reflexivity|]. destruct (f x); simpl; lia. Qed.

  Lemma fires_spec B r : fires eqb B r = true <-> incl (fst r) B.
  Proof. unfold fires. apply asub_incl. Qed.

  Lemma step_equiv rules B x :
    derivable rules B x <->
    derivable (filter (fun r => negb (fires eqb B r)) rules) (B ++ flat_map snd (filter (fires eqb B) rules)) x.
  Proof.
    split.
    - induction 1 as [x Hx|D P x HDP _ IH Hx].
      + apply d_base, in_or_app. left. exact Hx.
      + destruct (fires eqb B (D, P)) eqn:E.
        * apply d_base, in_or_app. right. apply in_flat_map. exists (D, P). split; [|exact Hx].
          apply filter_In. split; [exact HDP | exact E].
        * eapply d_rule; [|exact IH|exact Hx]. apply filter_In. split; [exact HDP|]. rewrite E. reflexivity.
    - induction 1 as [x Hx|D P x HDP _ IH Hx].
      + apply in_app_or in Hx. destruct Hx as [Hx|Hx]; [apply d_base, Hx|].
        apply in_flat_map in Hx. destruct Hx as [[D P] [HDP Hx]]. apply filter_In in HDP. destruct HDP as [HDP E].
        eapply d_rule; [exact HDP| |exact Hx]. intros d Hd. apply d_base. apply fires_spec in E. apply E, Hd.
      + apply filter_In in HDP. destruct HDP as [HDP _]. eapply d_rule; [exact HDP|exact IH|exact Hx].
  Qed.

  Lemma closure_aux_S n rules B :
    closure_aux eqb (S n) rules B =
    match filter (fires eqb B) rules with
    | [] => B
    | _ => closure_aux eqb n (filter (fun r => negb (fires eqb B r)) rules)
                       (B ++ flat_map snd (filter (fires eqb B) rules))
    end.
  Proof. simpl. destruct (filter (fires eqb B) rules); reflexivity. Qed.

  Lemma closure_aux_spec n : forall rules B, List.length rules <= n ->
    forall x, In x (closure_aux eqb n rules B) <-> derivable rules B x.
  Proof.
    induction n as [|n IH]; intros rules B Hlen x.
    - destruct rules; [|simpl in Hlen; lia]. simpl. split; [apply d_base|].
      induction 1 as [y Hy|D P y HDP _ _ _]; [exact Hy | destruct HDP].
    - rewrite closure_aux_S. destruct (filter (fires eqb B) rules) as [|r0 fired] eqn:EF.
      + split; [apply d_base|].
        induction 1 as [y Hy|D P y HDP _ IHd _]; [exact Hy|].
        exfalso. assert (In (D, P) (filter (fires eqb B) rules)).
        { apply filter_In. split; [exact HDP|]. apply fires_spec. exact IHd. }
        rewrite EF in H. destruct H.
      + rewrite <- EF. rewrite IH.
        * symmetry. apply step_equiv.
        * pose proof (filter_split_length (fires eqb B) rules) as L. rewrite EF in L. simpl in L. lia.
  Qed.

  Theorem closure_spec rules B x : In x (closure eqb rules B) <-> derivable rules B x.
  Proof. unfold closure. apply closure_aux_spec. apply le_n. Qed.

  (* the fixpoint only depends on the SETS of rules and of given names *)
  Corollary closure_mono rules rules' B B' :
    incl rules rules' -> incl B B' -> incl (closure eqb rules B) (closure eqb rules' B').
  Proof. intros Hr Hb x Hx. apply closure_spec. apply closure_spec in Hx. eapply derivable_mono; eauto. Qed.
  Corollary closure_base rules B : incl B (closure eqb rules B).
  Proof. intros x Hx. apply closure_spec, d_base, Hx. Qed.
  Corollary closure_closed rules B D P :
    In (D, P) rules -> incl D (closure eqb rules B) -> incl P (closure eqb rules B).
  Proof.
    intros HDP HD x Hx. apply closure_spec. eapply d_rule; [exact HDP| |exact Hx].
    intros d Hd. apply closure_spec, HD, Hd.
  Qed.
End ClosureTheory.

Definition same {X} (a b: list X) : Prop := forall x, In x a <-> In x b.
Lemma same_refl {X} (a: list X) : same a a. Proof. intros x. reflexivity. Qed.
Lemma same_sym {X} (a b: list X) : same a b -> same b a. Proof. intros H x. symmetry. apply H. Qed.
Lemma same_trans {X} (a b c: list X) : same a b -> same b c -> same a c.
Proof. intros H1 H2 x. rewrite (H1 x). apply H2. Qed.
Lemma same_incl {X} (a b: list X) : same a b <-> incl a b /\ incl b a.
Proof. split; [intros H; split; intros x Hx; apply H, Hx | intros [H1 H2] x; split; [apply H1 | apply H2]]. Qed.
Lemma perm_same {X} (a b: list X) : Permutation a b -> same a b.
Proof. intros P x. split; [apply Permutation_in, P | apply Permutation_in, Permutation_sym, P]. Qed.
Lemma same_app {X} (a a' b b': list X) : same a a' -> same b b' -> same (a ++ b) (a' ++ b').
Proof. intros H1 H2 x. rewrite !in_app_iff, (H1 x), (H2 x). reflexivity. Qed.
Lemma same_flat_map {X Y} (f: X -> list Y) (a b: list X) : same a b -> same (flat_map f a) (flat_map f b).
Proof.
  intros H y. rewrite !in_flat_map. split; intros [x [Hx Hy]]; exists x; (split; [apply H, Hx | exact Hy]).
Qed.
Lemma same_map {X Y} (f: X -> Y) (a b: list X) : same a b -> same (map f a) (map f b).
Proof. intros H y. rewrite !in_map_iff. split; intros [x [E Hx]]; exists x; (split; [exact E | apply H, Hx]). Qed.
Lemma same_filter {X} (f: X -> bool) (a b: list X) : same a b -> same (filter f a) (filter f b).
Proof. intros H x. rewrite !filter_In, (H x). reflexivity. Qed.

Lemma closure_same {A} (eqb: A -> A -> bool) (Heqb: forall a b, eqb a b = true <-> a = b) rules rules' B B' :
  same rules rules' -> same B B' -> same (closure eqb rules B) (closure eqb rules' B').
Proof.
  intros Hr Hb. apply same_incl. apply same_incl in Hr. apply same_incl in Hb.
  split; apply (closure_mono eqb Heqb); tauto.
Qed.

(* ====================================================================================== *)
(** * 2. Safety does not depend on the order of the body *)

Definition ncl_spec := closure_spec name_eqb name_eqb_eq.
Definition tcl_spec := closure_spec tag_eqb tag_eqb_eq.

Lemma nadiff_In x a b : In x (adiff name_eqb a b) <-> In x a /\ ~ In x b.
Proof. apply adiff_In, name_eqb_eq. Qed.
Lemma nadiff_same a a' b b' : same a a' -> same b b' -> same (adiff name_eqb a b) (adiff name_eqb a' b').
Proof. intros Ha Hb x. rewrite !nadiff_In, (Ha x), (Hb x). reflexivity. Qed.

Lemma smem_In x G : smem x G = true <-> In x G.
Proof.
  unfold smem. rewrite existsb_exists. split.
  - intros [y [Hy E]]. apply String.eqb_eq in E. subst. exact Hy.
  - intros H. exists x. split; [exact H | apply String.eqb_refl].
Qed.
Lemma smem_same G G' : same G G' -> forall x, smem x G = smem x G'.
Proof.
  intros H x. destruct (smem x G) eqn:E, (smem x G') eqn:E'; try reflexivity.
  - apply smem_In, H, smem_In in E. congruence.
  - apply smem_In, H, smem_In in E'. congruence.
Qed.
Lemma is_global_same G G' : same G G' -> forall n, is_global G n = is_global G' n.
Proof. intros H [x| | | |]; simpl; try reflexivity. apply smem_same, H. Qed.
Lemma local_only_same G G' ns ns' : same G G' -> same ns ns' -> same (local_only G ns) (local_only G' ns').
Proof.
  intros HG Hn x. unfold local_only. rewrite !filter_In, (Hn x), (is_global_same G G' HG x). reflexivity.
Qed.
Lemma gin_of_same G G' l : same G G' -> gin_of G l = gin_of G' l.
Proof.
  intros H. destruct l as [s a]. unfold gin_of. f_equal. apply filter_ext. intros x. apply smem_same, H.
Qed.

Lemma bounded_names_In P I n :
  In n (bounded_names P I) <-> is_aux n = false /\ ~ In n P /\ In (true, n) I /\ In (false, n) I.
Proof.
  unfold bounded_names. rewrite filter_In, in_map_iff, andb_true_iff, !negb_true_iff.
  rewrite (amem_false name_eqb name_eqb_eq). split.
  - intros [[[u m] [E Ht]] [Ha Hp]]. simpl in E. subst m. apply filter_In in Ht. destruct Ht as [Ht Hc].
    simpl in Hc. apply andb_true_iff in Hc. destruct Hc as [Hu Hc]. subst u.
    apply (amem_In tag_eqb tag_eqb_eq) in Hc. tauto.
  - intros [Ha [Hp [Hl Hu]]]. split; [|tauto]. exists (true, n). split; [reflexivity|].
    apply filter_In. split; [exact Hl|]. simpl. apply (amem_In tag_eqb tag_eqb_eq). exact Hu.
Qed.
Lemma bounded_names_same P P' I I' : same P P' -> same I I' -> same (bounded_names P I) (bounded_names P' I').
Proof. intros HP HI n. rewrite !bounded_names_In, (HP n), (HI (true, n)), (HI (false, n)). reflexivity. Qed.

Lemma ie_closure_same ies ies' I0 I0' : same ies ies' -> same I0 I0' -> same (ie_closure ies I0) (ie_closure ies' I0').
Proof. intros H1 H2. unfold ie_closure. apply (closure_same tag_eqb tag_eqb_eq); [apply same_flat_map, H1 | exact H2]. Qed.

Lemma solve_same P P' B0 B0' I0 I0' rules rules' ies ies' :
  same P P' -> same B0 B0' -> same I0 I0' -> same rules rules' -> same ies ies' ->
  same (fst (solve P B0 I0 rules ies)) (fst (solve P' B0' I0' rules' ies'))
  /\ same (snd (solve P B0 I0 rules ies)) (snd (solve P' B0' I0' rules' ies')).
Proof.
  intros HP HB HI Hr He. unfold solve. simpl. split.
  - apply (closure_same name_eqb name_eqb_eq); [exact Hr|]. apply same_app; [exact HB|].
    apply bounded_names_same; [exact HP|]. apply ie_closure_same; assumption.
  - apply ie_closure_same; assumption.
Qed.

(* projections of the scope functions *)
Definition ls_solve (e: env) (B0: list name) (bs xs: list lit) :=
  solve (eP e) B0 (eI e) (scope_rules no_gin bs xs) (scope_ies bs xs).
Lemma local_scope_proj e B0 proj bs xs :
  local_scope e B0 proj bs xs =
  (adiff name_eqb (local_only (eG e) (scope_needed proj bs xs)) (fst (ls_solve e B0 bs xs)),
   fst (ls_solve e B0 bs xs), snd (ls_solve e B0 bs xs), ie_values (eV e) (scope_ies bs xs)).
Proof. unfold local_scope, ls_solve. destruct (solve _ _ _ _ _) as [B Ix]. reflexivity. Qed.

Record env_same (e e': env) : Prop :=
  { es_G : same (eG e) (eG e'); es_P : same (eP e) (eP e'); es_B : same (eB e) (eB e'); es_I : same (eI e) (eI e') }.

Lemma ls_solve_same e e' B0 B0' bs xs :
  env_same e e' -> same B0 B0' ->
  same (fst (ls_solve e B0 bs xs)) (fst (ls_solve e' B0' bs xs))
  /\ same (snd (ls_solve e B0 bs xs)) (snd (ls_solve e' B0' bs xs)).
Proof.
  intros [HG HP HB HI] H0. unfold ls_solve. apply solve_same; try assumption; apply same_refl.
Qed.

Definition one_stage_u (e: env) (bs xs: list lit) : list name :=
  adiff name_eqb (local_only (eG e) (scope_needed false bs xs)) (fst (ls_solve e (eB e) bs xs)).
Lemma one_stage_fst e bs xs : fst (one_stage e bs xs) = one_stage_u e bs xs.
Proof. unfold one_stage. rewrite local_scope_proj. reflexivity. Qed.
Lemma one_stage_same e e' bs xs : env_same e e' -> same (one_stage_u e bs xs) (one_stage_u e' bs xs).
Proof.
  intros H. unfold one_stage_u. apply nadiff_same.
  - apply local_only_same; [apply (es_G _ _ H) | apply same_refl].
  - apply ls_solve_same; [exact H | apply (es_B _ _ H)].
Qed.

(* unsafe names of the local scopes of a body element / of the head *)
Definition belem_u (e: env) (x: bodyelem) : list name := flat_map fst (belem_scopes e x).
Definition head_u (e: env) (h: head) : list name := flat_map fst (head_scopes e h).

Lemma flat_map_fst_map {X} (f: X -> list name * bool) (l: list X) :
  flat_map fst (map f l) = flat_map (fun x => fst (f x)) l.
Proof. induction l as [|x r IH]; simpl; [reflexivity | rewrite IH; reflexivity]. Qed.

Definition cond_u (e: env) (l: lit) (c: list lit) : list name :=
  adiff name_eqb (local_only (eG e) (scope_needed false c [])) (fst (ls_solve e (eB e) c []))
  ++ adiff name_eqb (local_only (eG e) (lit_needed l)) (closure name_eqb (lit_brules [] l) (fst (ls_solve e (eB e) c []))).
Lemma belem_scopes_cond e l c :
  belem_scopes e (BCond l c) = [(cond_u e l c, ok_of (ie_values (eV e) (scope_ies c [])))].
Proof. unfold belem_scopes, cond_u. rewrite local_scope_proj. reflexivity. Qed.
Definition disj_u (e: env) (el: condlit) : list name :=
  adiff name_eqb (local_only (eG e) (scope_needed false (snd el) [])) (fst (ls_solve e (eB e) (snd el) []))
  ++ adiff name_eqb (local_only (eG e) (extra_needed_p true (head_carrier (fst el)))) (fst (ls_solve e (eB e) (snd el) [])).
Lemma head_scopes_disj e es :
  head_scopes e (HDisj es) = map (fun el => (disj_u e el, ok_of (ie_values (eV e) (scope_ies (snd el) [])))) es.
Proof. unfold head_scopes, disj_u. apply map_ext. intros el. rewrite local_scope_proj. reflexivity. Qed.

Lemma cond_u_same e e' l c : env_same e e' -> same (cond_u e l c) (cond_u e' l c).
Proof.
  intros H. unfold cond_u.
  pose proof (ls_solve_same e e' (eB e) (eB e') c [] H (es_B _ _ H)) as [HB _].
  apply same_app.
  - apply nadiff_same; [|exact HB]. apply local_only_same; [apply (es_G _ _ H) | apply same_refl].
  - apply nadiff_same; [apply local_only_same; [apply (es_G _ _ H) | apply same_refl]|].
    apply (closure_same name_eqb name_eqb_eq); [apply same_refl | exact HB].
Qed.
Lemma disj_u_same e e' el : env_same e e' -> same (disj_u e el) (disj_u e' el).
Proof.
  intros H. unfold disj_u.
  pose proof (ls_solve_same e e' (eB e) (eB e') (snd el) [] H (es_B _ _ H)) as [HB _].
  apply same_app; apply nadiff_same; try exact HB;
    (apply local_only_same; [apply (es_G _ _ H) | apply same_refl]).
Qed.

Lemma same_flat_map_ext {X Y} (f g: X -> list Y) (l: list X) :
  (forall x, In x l -> same (f x) (g x)) -> same (flat_map f l) (flat_map g l).
Proof.
  intros H y. rewrite !in_flat_map. split; intros [x [Hx Hy]]; exists x; (split; [exact Hx|]); apply (H x Hx), Hy.
Qed.

Lemma belem_u_same e e' x : env_same e e' -> same (belem_u e x) (belem_u e' x).
Proof.
  intros H. unfold belem_u. destruct x as [[s a]|l c].
  - unfold belem_scopes. destruct (is_agg a && has_guard a); [|apply same_refl].
    rewrite !flat_map_fst_map. apply same_flat_map_ext. intros el _. rewrite !one_stage_fst.
    apply one_stage_same, H.
  - rewrite !belem_scopes_cond. simpl. rewrite !app_nil_r. apply cond_u_same, H.
Qed.

Lemma head_u_same e e' h : env_same e e' -> same (head_u e h) (head_u e' h).
Proof.
  intros H. unfold head_u. destruct h as [l|es|lg es rg|lg f es rg|t]; try apply same_refl.
  - rewrite !head_scopes_disj, !flat_map_fst_map. apply same_flat_map_ext. intros el _. simpl.
    apply disj_u_same, H.
  - unfold head_scopes. rewrite !flat_map_fst_map. apply same_flat_map_ext. intros el _. rewrite !one_stage_fst.
    apply one_stage_same, H.
  - unfold head_scopes. rewrite !flat_map_fst_map. apply same_flat_map_ext. intros el _. rewrite !one_stage_fst.
    apply one_stage_same, H.
Qed.

(* the global scope *)
Definition gs_solve (G: list string) (lits xs: list lit) :=
  solve [] [] [] (scope_rules (gin_of G) lits xs) (scope_ies lits xs).
Definition gs_u (G: list string) (lits xs: list lit) : list name :=
  adiff name_eqb (scope_needed false lits xs) (fst (gs_solve G lits xs)).
Definition gs_env (G: list string) (lits xs: list lit) : env :=
  {| eG := G; eP := filter is_nvar (ie_names (scope_ies lits xs)); eB := map NVar G;
     eI := filter (fun t => is_nvar (snd t)) (snd (gs_solve G lits xs));
     eV := filter (fun xb => is_nvar (fst xb))
                  (match ie_values [] (scope_ies lits xs) with Some m => m | None => [] end) |}.
Lemma global_scope_proj G lits xs :
  global_scope G lits xs = (gs_u G lits xs, gs_env G lits xs, ok_of (ie_values [] (scope_ies lits xs))).
Proof. unfold global_scope, gs_u, gs_env, gs_solve. destruct (solve _ _ _ _ _) as [Bg Ig]. reflexivity. Qed.

Lemma flat_map_fst_flat_map {X} (f: X -> list (list name * bool)) (l: list X) :
  flat_map fst (flat_map f l) = flat_map (fun x => flat_map fst (f x)) l.
Proof. induction l as [|x r IH]; simpl; [reflexivity|]. rewrite flat_map_app, IH. reflexivity. Qed.

Theorem unsafe_names_unfold s gx xs mv h b :
  stmt_parts s = Some (gx, xs, mv, h, b) ->
  unsafe_names s =
  let G := global_vars gx b in
  let lits := mv ++ body_lits b in
  gs_u G lits xs ++ flat_map (belem_u (gs_env G lits xs)) b ++ head_u (gs_env G lits xs) h.
Proof.
  intros H. unfold unsafe_names, analyse. rewrite H, global_scope_proj. simpl.
  rewrite flat_map_app, flat_map_fst_flat_map. reflexivity.
Qed.

Lemma same_scope_rules G G' lits lits' xs :
  same G G' -> same lits lits' -> same (scope_rules (gin_of G) lits xs) (scope_rules (gin_of G') lits' xs).
Proof.
  intros HG HL. unfold scope_rules. apply same_app; [|apply same_refl].
  intros r. rewrite !in_flat_map. split; intros [l [Hl Hr]]; exists l.
  - split; [apply HL, Hl|]. rewrite <- (gin_of_same G G' l HG). exact Hr.
  - split; [apply HL, Hl|]. rewrite (gin_of_same G G' l HG). exact Hr.
Qed.
Lemma same_scope_ies lits lits' xs : same lits lits' -> same (scope_ies lits xs) (scope_ies lits' xs).
Proof. intros H. unfold scope_ies. apply same_app; [apply same_flat_map, H | apply same_refl]. Qed.
Lemma same_scope_needed p lits lits' xs : same lits lits' -> same (scope_needed p lits xs) (scope_needed p lits' xs).
Proof. intros H. unfold scope_needed. apply same_app; [apply same_flat_map, H | apply same_refl]. Qed.

Lemma ie_names_same ies ies' : same ies ies' -> same (ie_names ies) (ie_names ies').
Proof.
  intros H x. unfold ie_names. rewrite !(adedup_In name_eqb name_eqb_eq). apply (same_flat_map _ _ _ H).
Qed.

Lemma gs_same G G' lits lits' xs :
  same G G' -> same lits lits' ->
  same (gs_u G lits xs) (gs_u G' lits' xs) /\ env_same (gs_env G lits xs) (gs_env G' lits' xs).
Proof.
  intros HG HL.
  pose proof (solve_same [] [] [] [] [] [] _ _ _ _ (same_refl _) (same_refl _) (same_refl _)
                (same_scope_rules G G' lits lits' xs HG HL) (same_scope_ies lits lits' xs HL)) as [HB HI].
  split.
  - unfold gs_u. apply nadiff_same; [apply same_scope_needed, HL | exact HB].
  - constructor; simpl.
    + exact HG.
    + apply same_filter, ie_names_same, same_scope_ies, HL.
    + apply same_map, HG.
    + apply same_filter. exact HI.
Qed.

(* statements with a body *)
Definition body_of (s: stmt) : list bodyelem :=
  match s with SRule _ _ b | SMin _ _ _ _ b | SShowTerm _ b => b | _ => [] end.
Definition set_body (s: stmt) (b: list bodyelem) : stmt :=
  match s with
  | SRule n h _ => SRule n h b
  | SMin n w p ts _ => SMin n w p ts b
  | SShowTerm t _ => SShowTerm t b
  | _ => s
  end.

Lemma stmt_parts_set_body s b' :
  match stmt_parts s with
  | Some (gx, xs, mv, h, b) => b = body_of s /\ stmt_parts (set_body s b') = Some (gx, xs, mv, h, b')
  | None => stmt_parts (set_body s b') = None
  end.
Proof.
  destruct s as [n h b|n w p ts b|nm ar ps|t b|k tx]; simpl; try (split; reflexivity); try reflexivity.
  destruct h as [l|es|lg es rg|lg f es rg|t]; try (split; reflexivity); try reflexivity.
  - destruct lg as [g|]; [split; reflexivity|]. destruct es as [|[l c] [|e2 r]]; try (split; reflexivity).
    destruct rg; split; reflexivity.
  - destruct lg as [g|]; [split; reflexivity|]. destruct es as [|[ts [l c]] [|e2 r]]; try (split; reflexivity).
    destruct rg; split; reflexivity.
Qed.

Lemma body_lits_perm b b' : Permutation b b' -> Permutation (body_lits b) (body_lits b').
Proof.
  intros P. unfold body_lits. induction P; simpl.
  - constructor.
  - apply Permutation_app_head. exact IHP.
  - rewrite !app_assoc. apply Permutation_app_tail, Permutation_app_comm.
  - eapply Permutation_trans; eassumption.
Qed.

Theorem unsafe_names_perm s b' :
  Permutation (body_of s) b' -> same (unsafe_names s) (unsafe_names (set_body s b')).
Proof.
  intros P. pose proof (stmt_parts_set_body s b') as K.
  destruct (stmt_parts s) as [[[[[gx xs] mv] h] b]|] eqn:E.
  - destruct K as [Eb K]. subst b.
    rewrite (unsafe_names_unfold _ _ _ _ _ _ E), (unsafe_names_unfold _ _ _ _ _ _ K). cbv zeta.
    assert (HL: same (mv ++ body_lits (body_of s)) (mv ++ body_lits b')).
    { apply same_app; [apply same_refl | apply perm_same, body_lits_perm, P]. }
    assert (HG: same (global_vars gx (body_of s)) (global_vars gx b')).
    { unfold global_vars, nvars. apply same_flat_map, same_app; [apply same_refl|].
      apply same_flat_map, perm_same, body_lits_perm, P. }
    destruct (gs_same _ _ _ _ xs HG HL) as [HU HE].
    apply same_app; [exact HU|]. apply same_app; [|apply head_u_same, HE].
    intros y. rewrite !in_flat_map. split; intros [x [Hx Hy]]; exists x.
    + split; [eapply Permutation_in; eassumption | apply (belem_u_same _ _ x HE), Hy].
    + split; [eapply Permutation_in; [apply Permutation_sym|]; eassumption | apply (belem_u_same _ _ x HE), Hy].
  - unfold unsafe_names, analyse. rewrite E, K. apply same_refl.
Qed.

Lemma same_nil {X} (a b: list X) : same a b -> a = [] -> b = [].
Proof. intros H ->. destruct b as [|x r]; [reflexivity|]. exfalso. apply (H x). left. reflexivity. Qed.

(* C.3: the verdict and the set of reported variables do not depend on the order of the body *)
Corollary safe_core_perm s b' : Permutation (body_of s) b' -> safe_core (set_body s b') = safe_core s.
Proof.
  intros P. pose proof (unsafe_names_perm s b' P) as H. unfold safe_core.
  destruct (unsafe_names s) eqn:E1, (unsafe_names (set_body s b')) eqn:E2; try reflexivity.
  - exfalso. apply (H n). left. reflexivity.
  - exfalso. apply (H n). left. reflexivity.
Qed.
Corollary unsafe_vars_perm s b' : Permutation (body_of s) b' -> same (unsafe_vars s) (unsafe_vars (set_body s b')).
Proof.
  intros P x. unfold unsafe_vars, sdedup.
  rewrite !(adedup_In String.eqb String.eqb_eq). apply same_flat_map, unsafe_names_perm, P.
Qed.

(* ====================================================================================== *)
(** * 3. Flat rules: a plain head literal and plain body literals *)

Definition is_plain_lit (l: lit) : bool :=
  match l with Lit _ (ASym _) | Lit _ (ACmp _ _) | Lit _ (ABool _) => true | _ => false end.
Definition flat_body (b: list bodyelem) : bool :=
  forallb (fun x => match x with BLit l => is_plain_lit l | BCond _ _ => false end) b.
Definition blits (b: list bodyelem) : list lit :=
  flat_map (fun x => match x with BLit l => [l] | BCond _ _ => [] end) b.

(* the unsafe names of one scope without outside information *)
Definition flat_u (lits xs: list lit) : list name :=
  adiff name_eqb (scope_needed false lits xs)
        (fst (solve [] [] [] (scope_rules no_gin lits xs) (scope_ies lits xs))).
(* the names bound in it *)
Definition bound (lits xs: list lit) (x: name) : Prop :=
  derivable (scope_rules no_gin lits xs) (bounded_names [] (ie_closure (scope_ies lits xs) [])) x.

Lemma solve_fst_In P B0 I0 rules ies x :
  In x (fst (solve P B0 I0 rules ies)) <-> derivable rules (B0 ++ bounded_names P (ie_closure ies I0)) x.
Proof. unfold solve. simpl. apply ncl_spec. Qed.

Theorem flat_u_nil lits xs : flat_u lits xs = [] <-> forall x, In x (scope_needed false lits xs) -> bound lits xs x.
Proof.
  unfold flat_u. rewrite (adiff_nil name_eqb name_eqb_eq). unfold bound, incl.
  split; intros H x Hx; specialize (H x Hx); [apply solve_fst_In in H | apply solve_fst_In]; exact H.
Qed.

Lemma plain_not_agg l : is_plain_lit l = true -> match l with Lit _ a => is_agg a = false end.
Proof. destruct l as [s [t|t gs|v|lg f es rg|lg es rg|tx]]; simpl; try reflexivity; discriminate. Qed.
Lemma lit_brules_plain g l : is_plain_lit l = true -> lit_brules g l = lit_brules [] l.
Proof. destruct l as [s [t|t gs|v|lg f es rg|lg es rg|tx]]; simpl; try reflexivity; discriminate. Qed.

Lemma flat_body_lits b : flat_body b = true -> body_lits b = blits b /\ Forall (fun l => is_plain_lit l = true) (blits b).
Proof.
  unfold flat_body, body_lits, blits. induction b as [|x r IH]; simpl; [split; [reflexivity|constructor]|].
  rewrite andb_true_iff. intros [Hx Hr]. destruct (IH Hr) as [E F]. destruct x as [l|l c]; [|discriminate].
  pose proof (plain_not_agg l Hx) as N. destruct l as [s a]. rewrite N. simpl. rewrite E.
  split; [reflexivity | constructor; assumption].
Qed.
Lemma flat_belem_u e b : flat_body b = true -> flat_map (belem_u e) b = [].
Proof.
  unfold flat_body. induction b as [|x r IH]; simpl; [reflexivity|]. rewrite andb_true_iff. intros [Hx Hr].
  rewrite (IH Hr), app_nil_r. destruct x as [l|l c]; [|discriminate].
  pose proof (plain_not_agg l Hx) as N. destruct l as [s a]. unfold belem_u, belem_scopes. rewrite N. reflexivity.
Qed.

Lemma scope_rules_plain G lits xs :
  Forall (fun l => is_plain_lit l = true) lits -> scope_rules (gin_of G) lits xs = scope_rules no_gin lits xs.
Proof.
  intros F. unfold scope_rules. f_equal. induction F as [|l r Hl _ IH]; simpl; [reflexivity|].
  rewrite IH, (lit_brules_plain _ l Hl). reflexivity.
Qed.

Theorem unsafe_flat n h b :
  flat_body b = true -> unsafe_names (SRule n (HLit h) b) = flat_u (blits b) [head_carrier h].
Proof.
  intros F. rewrite (unsafe_names_unfold (SRule n (HLit h) b) [head_carrier h] [head_carrier h] [] (HLit h) b eq_refl). cbv zeta.
  destruct (flat_body_lits b F) as [E P]. rewrite (flat_belem_u _ b F). simpl. unfold head_u. simpl.
  rewrite !app_nil_r, E. unfold gs_u, gs_solve, flat_u. rewrite (scope_rules_plain _ _ _ P). reflexivity.
Qed.

Corollary safe_flat n h b :
  flat_body b = true ->
  (safe_core (SRule n (HLit h) b) = true <->
   forall x, In x (scope_needed false (blits b) [head_carrier h]) -> bound (blits b) [head_carrier h] x).
Proof.
  intros F. unfold safe_core. rewrite (unsafe_flat n h b F), <- flat_u_nil.
  destruct (flat_u (blits b) [head_carrier h]); split; congruence.
Qed.

(* ----- monotonicity: more literals bind more ----- *)
Lemma ie_closure_mono ies ies' I0 : incl ies ies' -> incl (ie_closure ies I0) (ie_closure ies' I0).
Proof.
  intros H. unfold ie_closure. apply (closure_mono tag_eqb tag_eqb_eq); [|apply incl_refl].
  intros r Hr. apply in_flat_map in Hr. destruct Hr as [e [He Hr]]. apply in_flat_map. exists e. split; [apply H, He | exact Hr].
Qed.
Lemma bounded_names_mono P I I' : incl I I' -> incl (bounded_names P I) (bounded_names P I').
Proof. intros H n. rewrite !bounded_names_In. intros [A [B [C D]]]. repeat split; try assumption; apply H; assumption. Qed.

Lemma bound_mono lits lits' xs x : incl lits lits' -> bound lits xs x -> bound lits' xs x.
Proof.
  intros H. unfold bound. apply (derivable_mono).
  - unfold scope_rules. apply incl_app; [apply incl_appl | apply incl_appr, incl_refl].
    intros r Hr. apply in_flat_map in Hr. destruct Hr as [l [Hl Hr]]. apply in_flat_map. exists l. split; [apply H, Hl | exact Hr].
  - apply bounded_names_mono, ie_closure_mono. unfold scope_ies. apply incl_app; [apply incl_appl | apply incl_appr, incl_refl].
    intros r Hr. apply in_flat_map in Hr. destruct Hr as [l [Hl Hr]]. apply in_flat_map. exists l. split; [apply H, Hl | exact Hr].
Qed.

(** C.2(a): adding a plain literal whose variables are bound in the new body keeps a flat rule safe *)
Theorem add_literal_safe n h b l :
  flat_body b = true -> is_plain_lit l = true ->
  safe_core (SRule n (HLit h) b) = true ->
  (forall x, In x (lit_needed l) -> bound (l :: blits b) [head_carrier h] x) ->
  safe_core (SRule n (HLit h) (BLit l :: b)) = true.
Proof.
  intros F Pl S Hl. assert (F': flat_body (BLit l :: b) = true) by (simpl; rewrite Pl; exact F).
  apply (proj2 (safe_flat n h _ F')). pose proof (proj1 (safe_flat n h b F) S) as S'. clear S. rename S' into S. simpl blits. intros x Hx.
  unfold scope_needed in Hx. simpl in Hx. rewrite <- app_assoc in Hx. apply in_app_or in Hx. destruct Hx as [Hx|Hx].
  - apply Hl, Hx.
  - apply (bound_mono (blits b)); [apply incl_tl, incl_refl|]. apply S. exact Hx.
Qed.

(* a positive atom binds the variables in binding position *)
Lemma bound_positive_atom lits xs t x :
  In (Lit NoSign (ASym t)) lits -> In x (bnames (Lit NoSign (ASym t)) [] t) -> bound lits xs x.
Proof.
  intros Hl Hx. unfold bound. eapply d_rule with (D := []); [|intros d []|exact Hx].
  unfold scope_rules. apply in_or_app. left. apply in_flat_map. exists (Lit NoSign (ASym t)). split; [exact Hl|].
  simpl. apply in_or_app. right. left. reflexivity.
Qed.
Corollary add_positive_atom_safe n h b t :
  flat_body b = true -> safe_core (SRule n (HLit h) b) = true ->
  incl (lit_needed (Lit NoSign (ASym t))) (bnames (Lit NoSign (ASym t)) [] t) ->
  safe_core (SRule n (HLit h) (BLit (Lit NoSign (ASym t)) :: b)) = true.
Proof.
  intros F S H. apply add_literal_safe; try assumption; [reflexivity|].
  intros x Hx. apply (bound_positive_atom _ _ t); [left; reflexivity | apply H, Hx].
Qed.

(** C.2(b): deleting a plain literal that contributes no integer bounds and all of whose provided
    names are still bound by the rest keeps a flat rule safe (cleanup's deletion; without the
    condition on the bounds it is false: `a(Y) :- p(X), X = 3, X < Y, Y < X+2.` minus `X = 3`) *)
Theorem delete_literal_safe n h b1 l b2 :
  flat_body (b1 ++ BLit l :: b2) = true ->
  safe_core (SRule n (HLit h) (b1 ++ BLit l :: b2)) = true ->
  lit_ies l = [] ->
  (forall D P x, In (D, P) (lit_brules [] l) -> In x P -> bound (blits (b1 ++ b2)) [head_carrier h] x) ->
  safe_core (SRule n (HLit h) (b1 ++ b2)) = true.
Proof.
  intros F S HI HP.
  assert (F': flat_body (b1 ++ b2) = true).
  { unfold flat_body in *. rewrite forallb_app in *. simpl in F. apply andb_true_iff in F. destruct F as [F1 F2].
    apply andb_true_iff in F2. destruct F2 as [_ F2]. rewrite F1, F2. reflexivity. }
  apply (proj2 (safe_flat n h _ F')). pose proof (proj1 (safe_flat n h _ F) S) as S'. clear S. rename S' into S.
  assert (EB: blits (b1 ++ BLit l :: b2) = blits b1 ++ l :: blits b2).
  { unfold blits. rewrite flat_map_app. reflexivity. }
  assert (EB': blits (b1 ++ b2) = blits b1 ++ blits b2) by (unfold blits; apply flat_map_app).
  rewrite EB in S. rewrite EB'. rewrite EB' in HP.
  set (xs := [head_carrier h]) in *.
  assert (K: forall x, bound (blits b1 ++ l :: blits b2) xs x -> bound (blits b1 ++ blits b2) xs x).
  { intros x. unfold bound at 1. apply derivable_simulate.
    - (* bounds: the same inequalities *)
      intros y Hy. apply d_base. revert Hy. apply bounded_names_mono.
      apply (closure_mono tag_eqb tag_eqb_eq); [|apply incl_refl].
      unfold scope_ies. rewrite !flat_map_app. simpl. rewrite HI. simpl. apply incl_refl.
    - intros D P HDP IH y Hy. unfold scope_rules in HDP. rewrite flat_map_app in HDP. simpl in HDP.
      rewrite <- !app_assoc in HDP. apply in_app_or in HDP. destruct HDP as [HDP|HDP].
      { eapply d_rule; [|exact IH|exact Hy]. unfold scope_rules. rewrite flat_map_app. rewrite <- app_assoc.
        apply in_or_app. left. exact HDP. }
      apply in_app_or in HDP. destruct HDP as [HDP|HDP].
      { apply (HP D P y HDP Hy). }
      eapply d_rule; [|exact IH|exact Hy]. unfold scope_rules. rewrite flat_map_app. rewrite <- app_assoc.
      apply in_or_app. right. exact HDP. }
  intros x Hx. apply K, S. unfold scope_needed in *. rewrite !flat_map_app in *. simpl.
  rewrite <- !app_assoc in *. apply in_app_or in Hx. destruct Hx as [Hx|Hx]; [apply in_or_app; left; exact Hx|].
  apply in_or_app. right. apply in_or_app. right. exact Hx.
Qed.

(* ----- what the rules of a plain literal depend on, and which names a literal talks about ----- *)
Lemma c2cl_idx_level gs : forall k t q,
  In q (c2cl_idx k t gs) ->
  match q with (kl, a, _, kr, b) =>
    In ([kl], a) (([k], t) :: imap_from k (fun i g => ([S i], snd g)) gs)
    /\ In ([kr], b) (([k], t) :: imap_from k (fun i (g: guard) => ([S i], snd g)) gs) end.
Proof.
  induction gs as [|[op rhs] r IH]; intros k t q Hq; [destruct Hq|].
  simpl in Hq. destruct Hq as [<-|Hq].
  - split; [left; reflexivity | right; left; reflexivity].
  - specialize (IH (S k) rhs q Hq). destruct q as [[[[kl a] op'] kr] b]. simpl.
    destruct IH as [H1 H2]. split; right; assumption.
Qed.

Lemma eff_rels_level s t gs q :
  In q (eff_rels s t gs) ->
  match q with (kl, a, _, kr, b) =>
    In ([kl], a) (level_terms (Lit s (ACmp t gs))) /\ In ([kr], b) (level_terms (Lit s (ACmp t gs))) end.
Proof.
  intros Hq. assert (K: forall q, In q (c2cl_idx 0 t gs) ->
    match q with (kl, a, _, kr, b) =>
      In ([kl], a) (level_terms (Lit s (ACmp t gs))) /\ In ([kr], b) (level_terms (Lit s (ACmp t gs))) end).
  { intros q' Hq'. apply (c2cl_idx_level gs 0 t q' Hq'). }
  destruct s; simpl in Hq; try (apply K; exact Hq).
  destruct gs as [|[op r] [|g2 gs']]; simpl in Hq; [destruct Hq| |destruct Hq].
  destruct Hq as [<-|[]]. simpl. split; [left; reflexivity | right; left; reflexivity].
Qed.

Lemma level_tnames_needed l p t :
  is_neg_sym l = false -> In (p, t) (level_terms l) -> incl (tnames l false p t) (lit_needed l).
Proof.
  intros N H x Hx. unfold lit_needed. apply in_or_app. left. apply in_flat_map. exists (p, t). split; [exact H|].
  rewrite N. exact Hx.
Qed.

Lemma lit_brules_deps_needed l D P :
  is_plain_lit l = true -> In (D, P) (lit_brules [] l) -> incl D (lit_needed l).
Proof.
  intros Pl H. unfold lit_brules in H. apply in_app_or in H. destruct H as [H|H].
  - intros x Hx. unfold lit_needed. apply in_or_app. right. unfold lit_range_needed. apply in_flat_map.
    exists (D, P). split; [exact H | exact Hx].
  - destruct l as [s [t|t gs|v|lg f es rg|lg es rg|tx]]; try discriminate.
    + destruct s; simpl in H; try contradiction. destruct H as [E|F]; [|contradiction]. inversion E. subst. intros x Hx. destruct Hx.
    + assert (H': exists q, In q (eff_rels s t gs) /\
                In (D, P) (match q with (kl, a, op, kr, b) =>
                   if cmp_eqb op CEq
                   then [(tnames (Lit s (ACmp t gs)) false [kr] b, bnames (Lit s (ACmp t gs)) [kl] a);
                         (tnames (Lit s (ACmp t gs)) false [kl] a, bnames (Lit s (ACmp t gs)) [kr] b)]
                   else [] end)).
      { destruct s; apply in_flat_map in H; exact H. }
      clear H. destruct H' as [q [Hq H]]. pose proof (eff_rels_level s t gs q Hq) as L.
      destruct q as [[[[kl a] op] kr] b]. destruct L as [L1 L2]. destruct (cmp_eqb op CEq); [|destruct H].
      destruct H as [E|[E|[]]]; inversion E; subst; apply level_tnames_needed; try assumption; destruct s; reflexivity.
    + destruct s; simpl in H; contradiction.
Qed.

Definition lit_names (l: lit) : list name :=
  lit_needed l ++ flat_map snd (lit_brules [] l) ++ ie_names (lit_ies l).

Lemma ie_closure_names ies t : In t (ie_closure ies []) -> In (snd t) (flat_map (fun e => map fst (fst e)) ies).
Proof.
  unfold ie_closure. intros H. apply tcl_spec in H. induction H as [x []|D P x HDP _ _ Hx].
  apply in_flat_map in HDP. destruct HDP as [e [He HDP]]. unfold ie_rules in HDP. apply in_map_iff in HDP.
  destruct HDP as [[y c] [E Hy]]. inversion E. subst. destruct Hx as [<-|[]]. simpl.
  apply in_flat_map. exists e. split; [exact He|]. apply in_map_iff. exists (y, c). split; [reflexivity | exact Hy].
Qed.

(* ----- the auxiliary atom a(X1,..,Xn) ----- *)
Definition var_atom (a: string) (ts: list string) : lit := Lit NoSign (ASym (TFun a (map TVar ts) false)).

Section VarArgs.
  Variable o : lit.
  Variable ts0 : list string.
  Hypothesis noanon : ~ In "_" ts0.

  Lemma vname_var p v : In v ts0 -> vname o p v = NVar v.
  Proof. intros H. unfold vname. destruct (String.eqb v "_") eqn:E; [|reflexivity]. apply String.eqb_eq in E. subst. contradiction. Qed.

  Lemma tnames_vars proj p : forall ts i, incl ts ts0 ->
    (fix go (i: nat) (l: list term) : list name :=
       match l with [] => [] | a :: r => tnames o proj (i :: p) a ++ go (S i) r end) i (map TVar ts) = map NVar ts.
  Proof.
    induction ts as [|v r IH]; intros i Hi; [reflexivity|]. simpl map.
    cbn [tnames]. assert (Hv: In v ts0) by (apply Hi; left; reflexivity).
    assert (E: String.eqb v "_" = false).
    { destruct (String.eqb v "_") eqn:E; [|reflexivity]. apply String.eqb_eq in E. subst. contradiction. }
    rewrite E, andb_false_r. rewrite (vname_var _ v Hv). simpl. f_equal. apply IH. intros x Hx. apply Hi. right. exact Hx.
  Qed.
  Lemma bnames_vars p : forall ts i, incl ts ts0 ->
    (fix go (i: nat) (l: list term) : list name :=
       match l with [] => [] | a :: r => bnames o (i :: p) a ++ go (S i) r end) i (map TVar ts) = map NVar ts.
  Proof.
    induction ts as [|v r IH]; intros i Hi; [reflexivity|]. simpl map.
    assert (Hv: In v ts0) by (apply Hi; left; reflexivity).
    assert (E: String.eqb v "_" = false).
    { destruct (String.eqb v "_") eqn:E; [|reflexivity]. apply String.eqb_eq in E. subst. contradiction. }
    cbn [bnames simp]. cbn [Z.eqb tnames]. rewrite E, (vname_var _ v Hv). simpl. f_equal.
    apply IH. intros x Hx. apply Hi. right. exact Hx.
  Qed.
  Lemma range_brules_vars p : forall ts i,
    (fix go (i: nat) (l: list term) : list (brule (A:=name)) :=
       match l with [] => [] | a :: r => range_brules o (i :: p) a ++ go (S i) r end) i (map TVar ts) = [].
  Proof. induction ts as [|v r IH]; intros i; [reflexivity|]. simpl. apply IH. Qed.
  Lemma range_ies_vars p : forall ts i,
    (fix go (i: nat) (l: list term) : list ie :=
       match l with [] => [] | a :: r => range_ies o (i :: p) a ++ go (S i) r end) i (map TVar ts) = [].
  Proof. induction ts as [|v r IH]; intros i; [reflexivity|]. simpl. apply IH. Qed.
  Lemma simp_vars : forall ts, bad_of (map simp (map TVar ts)) = None.
  Proof.
    intros ts. unfold bad_of.
    assert (K: forall f, (forall x, f (VLin x 1 0) = false) -> existsb f (map simp (map TVar ts)) = false).
    { intros f Hf. induction ts as [|v r IH]; [reflexivity|]. simpl. rewrite Hf, IH. reflexivity. }
    rewrite (K is_out), (K is_undef); reflexivity.
  Qed.
End VarArgs.

Lemma var_atom_facts a ts :
  ~ In "_" ts ->
  lit_needed (var_atom a ts) = map NVar ts
  /\ lit_brules [] (var_atom a ts) = [([], map NVar ts)]
  /\ lit_ies (var_atom a ts) = [].
Proof.
  intros N. unfold var_atom. repeat split.
  - unfold lit_needed, lit_range_needed, lit_range_brules. simpl. rewrite !app_nil_r.
    rewrite (range_brules_vars _ [] ts 0). simpl. rewrite app_nil_r.
    apply (tnames_vars _ ts N false [] ts 0). apply incl_refl.
  - unfold lit_brules, lit_range_brules. simpl level_terms. simpl flat_map. rewrite app_nil_r.
    cbn [range_brules]. rewrite (range_brules_vars _ [] ts 0). simpl app. f_equal. f_equal.
    cbn [bnames simp]. rewrite simp_vars. apply (bnames_vars _ ts N [] ts 0). apply incl_refl.
  - unfold lit_ies, lit_range_ies. simpl. rewrite app_nil_r. apply (range_ies_vars _ [] ts 0).
Qed.

Lemma head_carrier_var_atom a ts :
  ~ In "_" ts ->
  extra_needed (head_carrier (var_atom a ts)) = map NVar ts
  /\ lit_range_brules (head_carrier (var_atom a ts)) = []
  /\ lit_range_ies (head_carrier (var_atom a ts)) = [].
Proof.
  intros N. unfold var_atom, head_carrier, carrier.
  assert (R: lit_range_brules (Lit NoSign (ASym (TFun "#head" [TFun a (map TVar ts) false] false))) = []).
  { unfold lit_range_brules. simpl level_terms. simpl flat_map. rewrite app_nil_r. cbn [range_brules].
    rewrite (range_brules_vars _ [0] ts 0). reflexivity. }
  repeat split.
  - unfold extra_needed, extra_needed_p, lit_range_needed. rewrite R. simpl level_terms. simpl flat_map.
    rewrite !app_nil_r. apply (tnames_vars _ ts N false [0] ts 0). apply incl_refl.
  - exact R.
  - unfold lit_range_ies. simpl level_terms. simpl flat_map. rewrite app_nil_r. cbn [range_ies].
    rewrite (range_ies_vars _ [0] ts 0). reflexivity.
Qed.

Lemma flat_body_map ls : flat_body (map BLit ls) = forallb is_plain_lit ls.
Proof. unfold flat_body. induction ls as [|l r IH]; simpl; [reflexivity | rewrite IH; reflexivity]. Qed.
Lemma blits_map ls : blits (map BLit ls) = ls.
Proof. unfold blits. induction ls as [|l r IH]; simpl; [reflexivity | rewrite IH; reflexivity]. Qed.

Lemma scope_rules_cons g l lits xs : scope_rules g (l :: lits) xs = lit_brules (g l) l ++ scope_rules g lits xs.
Proof. unfold scope_rules. simpl. rewrite app_assoc. reflexivity. Qed.

(** C.2(c), first half: the rule after replacing the literals `New` by the atom aux(ts).
    `ts` must contain every variable shared between New and (Rest, head) -- and nothing else may be
    shared (anonymous variables, equal literals).  The condition on the bounds is necessary:
    `a(Y) :- p(X), X = 3, X < Y, Y < X+2.` is safe, `a(Y) :- aux(X), X < Y, Y < X+2.` is not. *)
Theorem replace_by_aux_safe n h New Rest a ts :
  forallb is_plain_lit (New ++ Rest) = true ->
  safe_core (SRule n (HLit h) (map BLit (New ++ Rest))) = true ->
  ~ In "_" ts ->
  scope_ies Rest [head_carrier h] = [] ->
  (forall x, In x (flat_map lit_names New) -> In x (scope_needed false Rest [head_carrier h]) ->
             exists v, x = NVar v /\ In v ts) ->
  safe_core (SRule n (HLit h) (map BLit (var_atom a ts :: Rest))) = true.
Proof.
  intros Pl S N HI Hsh. set (xs := [head_carrier h]) in *.
  destruct (var_atom_facts a ts N) as [An [Ar Ai]].
  rewrite forallb_app in Pl. apply andb_true_iff in Pl. destruct Pl as [PlN PlR].
  assert (F: flat_body (map BLit (New ++ Rest)) = true).
  { rewrite flat_body_map, forallb_app, PlN, PlR. reflexivity. }
  assert (F': flat_body (map BLit (var_atom a ts :: Rest)) = true).
  { rewrite flat_body_map. simpl. exact PlR. }
  apply (proj2 (safe_flat n h _ F')). pose proof (proj1 (safe_flat n h _ F) S) as S'. clear S.
  rewrite blits_map in *. fold xs in S'. fold xs.
  assert (Aux: forall v, In v ts -> bound (var_atom a ts :: Rest) xs (NVar v)).
  { intros v Hv. unfold bound. eapply d_rule with (D := []) (P := map NVar ts); [|intros d []|apply in_map, Hv].
    rewrite scope_rules_cons. unfold no_gin at 1. rewrite Ar. left. reflexivity. }
  assert (IEold: scope_ies (New ++ Rest) xs = flat_map lit_ies New).
  { unfold scope_ies in *. rewrite flat_map_app, <- app_assoc, HI, app_nil_r. reflexivity. }
  assert (C: forall x, bound (New ++ Rest) xs x -> In x (scope_needed false Rest xs) -> bound (var_atom a ts :: Rest) xs x).
  { intros x H. unfold bound in H. induction H as [x Hx|D P x HDP _ IH Hx]; intros Hn.
    - (* bounded through inequalities of New only *)
      rewrite IEold in Hx. apply bounded_names_In in Hx. destruct Hx as [_ [_ [Hl _]]].
      apply ie_closure_names in Hl. simpl in Hl. apply in_flat_map in Hl. destruct Hl as [e [He Hx]].
      apply in_flat_map in He. destruct He as [l [Hl He]].
      destruct (Hsh x) as [v [-> Hv]]; [|exact Hn|apply Aux, Hv].
      apply in_flat_map. exists l. split; [exact Hl|]. unfold lit_names. apply in_or_app. right. apply in_or_app. right.
      unfold ie_names. apply (adedup_In name_eqb name_eqb_eq). apply in_flat_map. exists e. split; assumption.
    - unfold scope_rules in HDP. rewrite flat_map_app, <- app_assoc in HDP. apply in_app_or in HDP. destruct HDP as [HDP|HDP].
      + (* a rule of New *)
        apply in_flat_map in HDP. destruct HDP as [l [Hl HDP]].
        destruct (Hsh x) as [v [-> Hv]]; [|exact Hn|apply Aux, Hv].
        apply in_flat_map. exists l. split; [exact Hl|]. unfold lit_names. apply in_or_app. right. apply in_or_app. left.
        apply in_flat_map. exists (D, P). split; [exact HDP | exact Hx].
      + (* a rule of Rest or of the head's intervals: still there, and its dependencies are names of Rest *)
        assert (HD: incl D (scope_needed false Rest xs)).
        { apply in_app_or in HDP. destruct HDP as [HDP|HDP].
          - apply in_flat_map in HDP. destruct HDP as [l [Hl HDP]]. unfold no_gin in HDP.
            intros d Hd. unfold scope_needed. apply in_or_app. left. apply in_flat_map. exists l. split; [exact Hl|].
            refine (lit_brules_deps_needed l D P _ HDP d Hd). rewrite forallb_forall in PlR. apply PlR, Hl.
          - apply in_flat_map in HDP. destruct HDP as [l [Hl HDP]].
            intros d Hd. unfold scope_needed. apply in_or_app. right. apply in_flat_map. exists l. split; [exact Hl|].
            unfold extra_needed_p. apply in_or_app. right. unfold lit_range_needed. apply in_flat_map.
            exists (D, P). split; assumption. }
        unfold bound. eapply d_rule; [|intros d Hd; apply (IH d Hd), HD, Hd|exact Hx].
        rewrite scope_rules_cons. unfold no_gin at 1. rewrite Ar. right. exact HDP. }
  intros x Hx. unfold scope_needed in Hx. simpl in Hx. rewrite An, <- app_assoc in Hx. apply in_app_or in Hx.
  destruct Hx as [Hx|Hx].
  - apply in_map_iff in Hx. destruct Hx as [v [<- Hv]]. apply Aux, Hv.
  - apply C; [|exact Hx]. apply S'. unfold scope_needed in *. rewrite flat_map_app, <- app_assoc.
    apply in_or_app. right. exact Hx.
Qed.

(** C.2(c), second half: the new rule aux(ts) :- New is safe iff New is safe on its own and binds ts *)
Theorem aux_rule_safe n New a ts :
  forallb is_plain_lit New = true -> ~ In "_" ts ->
  (safe_core (SRule n (HLit (var_atom a ts)) (map BLit New)) = true <->
   (forall x, In x (flat_map lit_needed New) -> bound New [] x) /\ (forall v, In v ts -> bound New [] (NVar v))).
Proof.
  intros Pl N. assert (F: flat_body (map BLit New) = true) by (rewrite flat_body_map; exact Pl).
  rewrite (safe_flat n _ _ F), blits_map.
  destruct (head_carrier_var_atom a ts N) as [En [Er Ei]].
  assert (EB: forall x, bound New [head_carrier (var_atom a ts)] x <-> bound New [] x).
  { intros x. unfold bound, scope_rules, scope_ies. cbn [flat_map]. rewrite Er, Ei. reflexivity. }
  unfold scope_needed. cbn [flat_map]. fold (extra_needed (head_carrier (var_atom a ts))). rewrite En, app_nil_r.
  split.
  - intros H. split.
    + intros x Hx. apply EB, H, in_or_app. left. exact Hx.
    + intros v Hv. apply EB, H, in_or_app. right. apply in_map, Hv.
  - intros [H1 H2] x Hx. apply EB. apply in_app_or in Hx. destruct Hx as [Hx|Hx]; [apply H1, Hx|].
    apply in_map_iff in Hx. destruct Hx as [v [<- Hv]]. apply H2, Hv.
Qed.

(* ====================================================================================== *)
(** * 4. ngo's binding analysis (Model/Binding.v) against clingo's *)

(* ----- 4.1 it is NOT sound: rules that ngo considers completely bound and clingo rejects ----- *)
Definition ngo_complete (h: lit) (body: list bodyelem) : bool :=
  match collect_binding_information_body body None with
  | Ok (bv, uv) => andb (match uv with [] => true | _ => false end)
                        (ssubset (drop_anonymous (sof (vars_lit h))) bv)
  | _ => false
  end.
Definition refutes (s: stmt) : bool :=
  match s with
  | SRule _ (HLit h) b => andb (ngo_complete h b) (andb (in_fragment s) (negb (safe_stmt s)))
  | _ => false
  end.
Definition atom1 (p: string) (t: term) : lit := Lit NoSign (ASym (TFun p [t] false)).

(* a(X) :- p(1..X).          an interval in an atom binds for ngo *)
Theorem ngo_binding_interval_refuted :
  refutes (SRule 1 (HLit (atom1 "a" (TVar "X")))
                 [BLit (atom1 "p" (TInterval (TSym (SNum 1%Z)) (TVar "X")))]) = true.
Proof. vm_compute. reflexivity. Qed.
(* a(X) :- p((X/2)+1).       only the outermost operator is inspected by has_unsafe_operation *)
Theorem ngo_binding_nested_division_refuted :
  refutes (SRule 1 (HLit (atom1 "a" (TVar "X")))
                 [BLit (atom1 "p" (TBin BPlus (TBin BDiv (TVar "X") (TSym (SNum 2%Z))) (TSym (SNum 1%Z))))]) = true.
Proof. vm_compute. reflexivity. Qed.
(* a(X) :- p(-|X|). *)
Theorem ngo_binding_nested_abs_refuted :
  refutes (SRule 1 (HLit (atom1 "a" (TVar "X"))) [BLit (atom1 "p" (TUn UMinus (TUn UAbs (TVar "X"))))]) = true.
Proof. vm_compute. reflexivity. Qed.
(* a(X) :- p(@f(X)). *)
Theorem ngo_binding_external_refuted :
  refutes (SRule 1 (HLit (atom1 "a" (TVar "X"))) [BLit (atom1 "p" (TFun "f" [TVar "X"] true))]) = true.
Proof. vm_compute. reflexivity. Qed.
(* a :- (X,Z) = (Y,W), p(Y), q(Z).    tuples are decomposed position by position *)
Theorem ngo_binding_tuple_refuted :
  refutes (SRule 1 (HLit (Lit NoSign (ASym (TFun "a" [] false))))
                 [BLit (Lit NoSign (ACmp (TFun "" [TVar "X"; TVar "Z"] false) [(CEq, TFun "" [TVar "Y"; TVar "W"] false)]));
                  BLit (atom1 "p" (TVar "Y")); BLit (atom1 "q" (TVar "Z"))]) = true.
Proof. vm_compute. reflexivity. Qed.
(* a(X) :- X+X = Y, p(Y).    one variable as a SET, two occurrences *)
Theorem ngo_binding_repeated_variable_refuted :
  refutes (SRule 1 (HLit (atom1 "a" (TVar "X")))
                 [BLit (Lit NoSign (ACmp (TBin BPlus (TVar "X") (TVar "X")) [(CEq, TVar "Y")])); BLit (atom1 "p" (TVar "Y"))]) = true.
Proof. vm_compute. reflexivity. Qed.
(* a(X,Y) :- X+Y = #sum{ 1 : p }.    every variable of an `=` guard counts as bound *)
Theorem ngo_binding_aggregate_guard_refuted :
  refutes (SRule 1 (HLit (Lit NoSign (ASym (TFun "a" [TVar "X"; TVar "Y"] false))))
                 [BLit (Lit NoSign (ABodyAgg (Some (CEq, TBin BPlus (TVar "X") (TVar "Y"))) FSum
                                             [([TSym (SNum 1%Z)], [Lit NoSign (ASym (TFun "p" [] false))])] None))]) = true.
Proof. vm_compute. reflexivity. Qed.
(* a(X) :- X = #sum{ 1 : p(X) }.     ... even when the aggregate depends on it *)
Theorem ngo_binding_aggregate_cycle_refuted :
  refutes (SRule 1 (HLit (atom1 "a" (TVar "X")))
                 [BLit (Lit NoSign (ABodyAgg (Some (CEq, TVar "X")) FSum
                                             [([TSym (SNum 1%Z)], [atom1 "p" (TVar "X")])] None))]) = true.
Proof. vm_compute. reflexivity. Qed.
(* the other direction (ngo is more careful than clingo) is harmless:  a(X) :- p(2*X).  a(X) :- 1 < X < 3. *)
Theorem ngo_binding_incomplete_examples :
  let s1 := SRule 1 (HLit (atom1 "a" (TVar "X"))) [BLit (atom1 "p" (TBin BMul (TSym (SNum 2%Z)) (TVar "X")))] in
  let s2 := SRule 1 (HLit (atom1 "a" (TVar "X")))
                  [BLit (Lit NoSign (ACmp (TSym (SNum 1%Z)) [(CLt, TVar "X"); (CLt, TSym (SNum 3%Z))]))] in
  (safe_stmt s1 && negb (ngo_complete (atom1 "a" (TVar "X")) (body_of s1))
   && safe_stmt s2 && negb (ngo_complete (atom1 "a" (TVar "X")) (body_of s2)))%bool = true.
Proof. vm_compute. reflexivity. Qed.

(* ----- 4.2 the sound fragment ----- *)
(* terms: variables (not `_`), symbols, function symbols / tuples, +, -, unary minus *)
Fixpoint fterm (t: term) : bool :=
  match t with
  | TVar x => negb (String.eqb x "_")
  | TSym _ => true
  | TUn UMinus a => fterm a
  | TBin BPlus l r | TBin BMinus l r => andb (fterm l) (fterm r)
  | TFun _ args false => forallb fterm args
  | _ => false
  end.

Lemma map_flat_map {X Y Z} (f: Y -> Z) (g: X -> list Y) (l: list X) :
  map f (flat_map g l) = flat_map (fun x => map f (g x)) l.
Proof. induction l as [|x r IH]; simpl; [reflexivity | rewrite map_app, IH; reflexivity]. Qed.

Lemma fterm_fun n args : fterm (TFun n args false) = forallb fterm args.
Proof. reflexivity. Qed.

(* in the fragment the names of a term are its variables, whatever the owner and the position *)
Lemma tnames_fterm o : forall t proj p, fterm t = true -> tnames o proj p t = map NVar (vars_term t).
Proof.
  induction t as [x|s|u a IH|b l r IHl IHr|l r IHl IHr|n xs e IH|xs IH] using term_ind'; intros proj p F;
    simpl in F; try discriminate.
  - simpl. apply negb_true_iff in F. rewrite F, andb_false_r. unfold vname. rewrite F. reflexivity.
  - reflexivity.
  - destruct u; try discriminate. simpl. apply IH, F.
  - destruct b; try discriminate; apply andb_true_iff in F; destruct F as [F1 F2]; simpl;
      rewrite map_app, (IHl false _ F1), (IHr false _ F2); reflexivity.
  - destruct e; [discriminate|]. cbn [tnames vars_term]. rewrite map_flat_map.
    generalize 0 as i. induction IH as [|a r Ha _ IHr]; intros i; [reflexivity|].
    simpl in F. apply andb_true_iff in F. destruct F as [Fa Fr]. simpl. rewrite (Ha proj _ Fa), (IHr Fr). reflexivity.
Qed.
Lemma range_brules_fterm o : forall t p, fterm t = true -> range_brules o p t = [].
Proof.
  induction t as [x|s|u a IH|b l r IHl IHr|l r IHl IHr|n xs e IH|xs IH] using term_ind'; intros p F;
    simpl in F; try discriminate; try reflexivity.
  - destruct u; try discriminate. simpl. apply IH, F.
  - destruct b; try discriminate; apply andb_true_iff in F; destruct F as [F1 F2]; simpl;
      rewrite (IHl _ F1), (IHr _ F2); reflexivity.
  - destruct e; [discriminate|]. cbn [range_brules]. simpl app.
    generalize 0 as i. induction IH as [|a r Ha _ IHr]; intros i; [reflexivity|].
    simpl in F. apply andb_true_iff in F. destruct F as [Fa Fr]. rewrite (Ha _ Fa), (IHr Fr). reflexivity.
Qed.

(* the unfolding of bnames *)
Definition bnames_struct (o: lit) (p: list nat) (t: term) : list name :=
  match t with
  | TFun _ args false =>
      (fix go (i: nat) (l: list term) : list name :=
         match l with [] => [] | a :: r => bnames o (i :: p) a ++ go (S i) r end) 0 args
  | TUn UMinus a => match simp a with VSym => bnames o (0 :: p) a | _ => [] end
  | _ => []
  end.
Lemma bnames_unfold o p t :
  bnames o p t = match simp t with
                 | VLin _ m _ => if (m =? 0)%Z then [] else tnames o false p t
                 | _ => bnames_struct o p t
                 end.
Proof. destruct t; reflexivity. Qed.

Lemma bnames_fun_arg o p n args : forall a,
  simp (TFun n args false) = VSym -> In a args ->
  exists i, incl (bnames o (i :: p) a) (bnames o p (TFun n args false)).
Proof.
  intros a S Ha. rewrite (bnames_unfold o p (TFun n args false)), S. unfold bnames_struct. clear S.
  generalize 0 as i. induction args as [|b r IH]; intros i; [destruct Ha|].
  destruct Ha as [->|Ha].
  - exists i. intros x Hx. apply in_or_app. left. exact Hx.
  - destruct (IH Ha (Datatypes.S i)) as [j Hj]. exists j. intros x Hx. apply in_or_app. right. apply Hj, Hx.
Qed.

(* definedness goes down *)
Lemma term_ok_spec t : term_ok t = true <-> simp t <> VOut /\ simp t <> VUndef.
Proof.
  unfold term_ok, tstat. destruct (simp t); simpl; split; try discriminate; try (intros [A B]; congruence);
    intros _; split; discriminate.
Qed.
Lemma term_ok_un o a : term_ok (TUn o a) = true -> term_ok a = true.
Proof.
  rewrite !term_ok_spec. simpl. destruct (simp a); intros [A B]; split; try discriminate; congruence.
Qed.
Lemma term_ok_bin o l r : term_ok (TBin o l r) = true -> term_ok l = true /\ term_ok r = true.
Proof.
  rewrite !term_ok_spec. simpl. destruct (simp l) eqn:El, (simp r) eqn:Er; intros [A B];
    repeat split; try discriminate; try congruence.
Qed.
Lemma bad_of_none vs : bad_of vs = None -> Forall (fun v => v <> VOut /\ v <> VUndef) vs.
Proof.
  unfold bad_of. destruct (existsb is_out vs) eqn:E1; [discriminate|]. destruct (existsb is_undef vs) eqn:E2; [discriminate|].
  intros _. apply Forall_forall. intros v Hv. split; intros ->.
  - assert (existsb is_out vs = true) by (apply existsb_exists; exists VOut; split; [exact Hv|reflexivity]). congruence.
  - assert (existsb is_undef vs = true) by (apply existsb_exists; exists VUndef; split; [exact Hv|reflexivity]). congruence.
Qed.
Lemma term_ok_fun n args e : term_ok (TFun n args e) = true ->
  bad_of (map simp args) = None /\ Forall (fun a => term_ok a = true) args.
Proof.
  rewrite term_ok_spec. simpl. destruct (bad_of (map simp args)) as [v|] eqn:E.
  - unfold bad_of in E. destruct (existsb is_out (map simp args)); [inversion E; subst; intros [A _]; congruence|].
    destruct (existsb is_undef (map simp args)); [inversion E; subst; intros [_ B]; congruence | discriminate].
  - intros _. split; [reflexivity|]. apply bad_of_none in E. apply Forall_forall. intros a Ha.
    rewrite Forall_forall in E. apply term_ok_spec. apply E. apply in_map, Ha.
Qed.

Lemma vnum_ok z : vnum z <> VOut -> vnum z = VNum z.
Proof. unfold vnum. destruct (fits z); congruence. Qed.
Lemma vlin_ok x m n : vlin x m n <> VOut -> vlin x m n = VLin x m n.
Proof. unfold vlin. destruct (fits m && fits n); congruence. Qed.

(* a defined fragment term without variables is a number, a symbolic term or a string *)
Lemma novars_val : forall t, fterm t = true -> term_ok t = true -> vars_term t = [] ->
  (exists z, simp t = VNum z) \/ simp t = VSym \/ simp t = VStr.
Proof.
  induction t as [x|s|u a IH|b l r IHl IHr|l r IHl IHr|n xs e IH|xs IH] using term_ind'; intros F K V;
    simpl in F; try discriminate.
  - apply term_ok_spec in K. destruct K as [K1 K2]. destruct s; simpl in *; try (right; right; reflexivity).
    + left. exists z. apply vnum_ok, K1.
    + right. left. reflexivity.
  - destruct u; try discriminate. pose proof (term_ok_un _ _ K) as Ka. simpl in V.
    apply term_ok_spec in K. destruct K as [K1 K2]. simpl in K1, K2.
    destruct (IH F Ka V) as [[z E]|[E|E]]; simpl; rewrite E in *.
    + left. exists (- z)%Z. apply vnum_ok, K1.
    + right. left. reflexivity.
    + congruence.
  - simpl in V. apply app_eq_nil in V. destruct V as [Vl Vr].
    destruct (term_ok_bin _ _ _ K) as [Kl Kr]. apply term_ok_spec in K. destruct K as [K1 K2].
    assert (Fl: fterm l = true /\ fterm r = true) by (destruct b; try discriminate; apply andb_true_iff in F; exact F).
    destruct Fl as [Fl Fr].
    destruct (IHl Fl Kl Vl) as [[z El]|[El|El]]; destruct (IHr Fr Kr Vr) as [[z' Er]|[Er|Er]];
      simpl in K1, K2 |- *; rewrite El, Er in *; try congruence.
    left. destruct b; try discriminate; simpl in *; eexists; apply vnum_ok, K1.
  - destruct e; [discriminate|]. destruct (term_ok_fun _ _ _ K) as [B _]. right. left. simpl. rewrite B. reflexivity.
Qed.

Lemma flat_map_unit {X Y} (f: X -> list Y) (l: list X) y :
  flat_map f l = [y] -> exists a, In a l /\ f a = [y].
Proof.
  induction l as [|a r IH]; simpl; [discriminate|]. intros H. apply app_eq_unit in H. destruct H as [[H1 H2]|[H1 H2]].
  - destruct (IH H2) as [a' [Ha' E]]. exists a'. split; [right; exact Ha' | exact E].
  - exists a. split; [left; reflexivity | exact H1].
Qed.

(* one variable occurrence in a defined fragment term is in binding position *)
Lemma single_occurrence_val : forall t, fterm t = true -> term_ok t = true -> forall x, vars_term t = [x] ->
  (exists m n, simp t = VLin x m n /\ m <> 0%Z) \/ (simp t = VSym /\ forall o p, In (NVar x) (bnames o p t)).
Proof.
  induction t as [y|s|u a IH|b l r IHl IHr|l r IHl IHr|n xs e IH|xs IH] using term_ind'; intros F K x V;
    simpl in F; try discriminate.
  - simpl in V. inversion V. subst. left. exists 1%Z, 0%Z. split; [reflexivity | discriminate].
  - destruct u; try discriminate. pose proof (term_ok_un _ _ K) as Ka. simpl in V.
    apply term_ok_spec in K. destruct K as [K1 K2]. simpl in K1, K2.
    destruct (IH F Ka x V) as [[m [n [E Hm]]]|[E Hb]].
    + left. simpl. rewrite E in *. exists (- m)%Z, (- n)%Z. split; [apply vlin_ok, K1 | lia].
    + right. split; [simpl; rewrite E; reflexivity|]. intros o p. rewrite bnames_unfold. simpl simp. rewrite E.
      unfold bnames_struct. rewrite E. apply Hb.
  - simpl in V. destruct (term_ok_bin _ _ _ K) as [Kl Kr]. apply term_ok_spec in K. destruct K as [K1 K2].
    assert (Fl: fterm l = true /\ fterm r = true) by (destruct b; try discriminate; apply andb_true_iff in F; exact F).
    destruct Fl as [Fl Fr]. apply app_eq_unit in V. destruct V as [[Vl Vr]|[Vl Vr]].
    + (* the variable is on the right *)
      destruct (novars_val l Fl Kl Vl) as [[z El]|[El|El]]; destruct (IHr Fr Kr x Vr) as [[m [n [Er Hm]]]|[Er _]];
        simpl in K1, K2 |- *; rewrite El, Er in *; try congruence.
      left. destruct b; try discriminate; simpl in *.
      * exists m, (z + n)%Z. split; [apply vlin_ok, K1 | exact Hm].
      * exists (- m)%Z, (z - n)%Z. split; [apply vlin_ok, K1 | lia].
    + destruct (novars_val r Fr Kr Vr) as [[z Er]|[Er|Er]]; destruct (IHl Fl Kl x Vl) as [[m [n [El Hm]]]|[El _]];
        simpl in K1, K2 |- *; rewrite El, Er in *; try congruence.
      left. destruct b; try discriminate; simpl in *.
      * exists m, (n + z)%Z. split; [apply vlin_ok, K1 | exact Hm].
      * exists m, (n - z)%Z. split; [apply vlin_ok, K1 | exact Hm].
  - destruct e; [discriminate|]. destruct (term_ok_fun _ _ _ K) as [B Ka]. right.
    assert (S: simp (TFun n xs false) = VSym) by (simpl; rewrite B; reflexivity).
    split; [exact S|]. intros o p. simpl in V. destruct (flat_map_unit _ _ _ V) as [a [Ha Va]].
    rewrite Forall_forall in IH, Ka. assert (F': forallb fterm xs = true) by exact F. clear F. rename F' into F. rewrite forallb_forall in F.
    destruct (bnames_fun_arg o p n xs a S Ha) as [i Hi]. apply Hi.
    destruct (IH a Ha (F a Ha) (Ka a Ha) x Va) as [[m [k [E Hm]]]|[E Hb]].
    + rewrite bnames_unfold, E. destruct (m =? 0)%Z eqn:Em; [apply Z.eqb_eq in Em; contradiction|].
      rewrite (tnames_fterm _ a false _ (F a Ha)), Va. left. reflexivity.
    + apply Hb.
Qed.

Corollary single_occurrence_bound t x o p :
  fterm t = true -> term_ok t = true -> vars_term t = [x] -> In (NVar x) (bnames o p t).
Proof.
  intros F K V. destruct (single_occurrence_val t F K x V) as [[m [n [E Hm]]]|[_ Hb]]; [|apply Hb].
  rewrite bnames_unfold, E. destruct (m =? 0)%Z eqn:Em; [apply Z.eqb_eq in Em; contradiction|].
  rewrite (tnames_fterm _ t false _ F), V. left. reflexivity.
Qed.

(* a fragment term without any operator: every variable is in binding position *)
Lemma collect_nil_fun q n args e :
  collect_term q (TFun n args e) = [] -> Forall (fun a => collect_term q a = []) args.
Proof.
  simpl. destruct (q (TFun n args e)); [discriminate|]. intros H. apply Forall_forall. intros a Ha.
  destruct (collect_term q a) as [|y r] eqn:E; [reflexivity|]. exfalso.
  assert (In y (flat_map (collect_term q) args)) by (apply in_flat_map; exists a; split; [exact Ha | rewrite E; left; reflexivity]).
  rewrite H in H0. destruct H0.
Qed.
Lemma no_operator_bound : forall t, fterm t = true -> term_ok t = true ->
  collect_term is_binop t = [] -> collect_term is_unop t = [] ->
  forall v o p, In v (vars_term t) -> In (NVar v) (bnames o p t).
Proof.
  induction t as [y|s|u a IH|b l r IHl IHr|l r IHl IHr|n xs e IH|xs IH] using term_ind'; intros F K C1 C2 v o p Hv;
    simpl in F; try discriminate.
  - simpl in Hv. destruct Hv as [<-|[]]. apply negb_true_iff in F. rewrite bnames_unfold. simpl.
    unfold vname. rewrite F. left. reflexivity.
  - destruct Hv.
  - destruct e; [discriminate|]. destruct (term_ok_fun _ _ _ K) as [B Ka].
    assert (S: simp (TFun n xs false) = VSym) by (simpl; rewrite B; reflexivity).
    simpl in Hv. apply in_flat_map in Hv. destruct Hv as [a [Ha Hv]].
    pose proof (collect_nil_fun _ _ _ _ C1) as D1. pose proof (collect_nil_fun _ _ _ _ C2) as D2.
    rewrite Forall_forall in IH, Ka, D1, D2. assert (F': forallb fterm xs = true) by exact F. clear F. rename F' into F. rewrite forallb_forall in F.
    destruct (bnames_fun_arg o p n xs a S Ha) as [i Hi]. apply Hi.
    apply (IH a Ha (F a Ha) (Ka a Ha) (D1 a Ha) (D2 a Ha)). exact Hv.
Qed.

(* ----- literals of the fragment ----- *)
Fixpoint nodupb (l: list string) : bool :=
  match l with [] => true | x :: r => andb (negb (Binding.smem x r)) (nodupb r) end.
Definition is_tuple (t: term) : bool := match t with TFun n args _ => tuple_like n args | _ => false end.
Definition fside (u: term) : bool := andb (andb (fterm u) (term_ok u)) (nodupb (vars_term u)).
Definition fcmp_ok (t: term) (gs: list guard) : bool :=
  andb (forallb fside (t :: map snd gs))
       (forallb (fun c => match c with (l, _, r) => negb (andb (is_tuple l) (is_tuple r)) end) (c2cl t gs)).
(* plain literals over fragment terms without statically undefined parts; in a comparison no variable
   occurs twice in one term and no tuple is compared with a tuple *)
Definition flit (l: lit) : bool :=
  match l with
  | Lit _ (ASym t) => andb (fterm t) (term_ok t)
  | Lit _ (ACmp t gs) => fcmp_ok t gs
  | Lit _ (ABool _) => true
  | _ => false
  end.
Lemma flit_plain l : flit l = true -> is_plain_lit l = true.
Proof. destruct l as [s [t|t gs|v|lg f es rg|lg es rg|tx]]; simpl; try reflexivity; discriminate. Qed.

Lemma nodupb_single l : nodupb l = true -> List.length (sof l) = 1 -> exists x, l = [x].
Proof.
  destruct l as [|x [|y r]]; simpl; intros N L.
  - discriminate.
  - exists x. reflexivity.
  - exfalso. apply andb_true_iff in N. destruct N as [N1 N2]. apply negb_true_iff in N1.
    assert (Hx: In x (sof (x :: y :: r))) by (apply sof_In; left; reflexivity).
    assert (Hy: In y (sof (x :: y :: r))) by (apply sof_In; right; left; reflexivity).
    destruct (sof (x :: y :: r)) as [|a [|b q]]; simpl in L; try discriminate.
    destruct Hx as [<-|[]]. destruct Hy as [<-|[]]. rewrite String.eqb_refl in N1. discriminate N1.
Qed.

Lemma fterm_no_anon : forall t, fterm t = true -> ~ In "_" (vars_term t).
Proof.
  induction t as [x|s|u a IH|b l r IHl IHr|l r IHl IHr|n xs e IH|xs IH] using term_ind'; intros F Hn;
    simpl in F; try discriminate.
  - simpl in Hn. destruct Hn as [E|[]]. subst x. cbv in F. discriminate F.
  - destruct Hn.
  - destruct u; try discriminate. simpl in Hn. apply (IH F Hn).
  - assert (Fl: fterm l = true /\ fterm r = true) by (destruct b; try discriminate; apply andb_true_iff in F; exact F).
    simpl in Hn. apply in_app_or in Hn. destruct Hn as [Hn|Hn]; [apply (IHl (proj1 Fl) Hn) | apply (IHr (proj2 Fl) Hn)].
  - destruct e; [discriminate|]. simpl in Hn. apply in_flat_map in Hn. destruct Hn as [a [Ha Hn]].
    assert (F': forallb fterm xs = true) by exact F. rewrite forallb_forall in F'. rewrite Forall_forall in IH.
    apply (IH a Ha (F' a Ha) Hn).
Qed.

(* pieces of a chain *)
Lemma c2cl_in_idx gs : forall k t lhs op rhs,
  In (lhs, op, rhs) (c2cl t gs) -> exists kl kr, In (kl, lhs, op, kr, rhs) (c2cl_idx k t gs).
Proof.
  induction gs as [|[op0 rhs0] gs IH]; intros k t lhs op rhs H; [destruct H|].
  simpl in H. destruct H as [E|H].
  - inversion E. subst. exists k, (S k). left. reflexivity.
  - destruct (IH (S k) rhs0 lhs op rhs H) as [kl [kr H']]. exists kl, kr. right. exact H'.
Qed.
Lemma c2cl_terms gs : forall t lhs op rhs,
  In (lhs, op, rhs) (c2cl t gs) -> In lhs (t :: map snd gs) /\ In rhs (t :: map snd gs).
Proof.
  induction gs as [|[op0 rhs0] gs IH]; intros t lhs op rhs H; [destruct H|].
  simpl in H. destruct H as [E|H].
  - inversion E. subst. split; [left; reflexivity | right; left; reflexivity].
  - destruct (IH rhs0 lhs op rhs H) as [H1 H2]. simpl. split; right; assumption.
Qed.

Lemma from_equal_no_tuple lhs rhs b :
  andb (is_tuple lhs) (is_tuple rhs) = false -> from_equal lhs rhs b = from_equal_basecase lhs rhs b.
Proof.
  intros H. destruct lhs as [x|s|o t|o l r|l r|ln largs le|alts]; try reflexivity.
  destruct rhs as [x|s|o t|o l r|l r|rn rargs re|alts]; try reflexivity.
  cbn [from_equal]. simpl in H.
  destruct (tuple_like ln largs); [|reflexivity]. destruct (tuple_like rn rargs); [discriminate | reflexivity].
Qed.

(* ----- the invariant: what ngo has in its bound set is bound for clingo ----- *)
Section NgoSound.
  Variable lits : list lit.
  Variable xs : list lit.
  Hypothesis Hflit : forall l, In l lits -> flit l = true.
  Definition Bd (v: string) : Prop := bound lits xs (NVar v).
  Definition Snd (b: list string) : Prop := forall v, In v b -> Bd v.

  Lemma Snd_supdate b c : Snd b -> Snd c -> Snd (supdate b c).
  Proof. intros H1 H2 v Hv. apply supdate_In in Hv. destruct Hv; [apply H1 | apply H2]; assumption. Qed.

  Lemma eq_rule_bound l s t gs kl a kr b x :
    l = Lit s (ACmp t gs) -> In l lits -> In (kl, a, CEq, kr, b) (eff_rels s t gs) ->
    fterm b = true -> Snd (vars_term b) -> In x (bnames l [kl] a) -> bound lits xs x.
  Proof.
    intros -> Hl Hq Fb Sb Hx. unfold bound.
    eapply d_rule with (D := tnames (Lit s (ACmp t gs)) false [kr] b) (P := bnames (Lit s (ACmp t gs)) [kl] a).
    - unfold scope_rules. apply in_or_app. left. apply in_flat_map. exists (Lit s (ACmp t gs)). split; [exact Hl|].
      unfold no_gin, lit_brules. apply in_or_app. right.
      assert (K: In (tnames (Lit s (ACmp t gs)) false [kr] b, bnames (Lit s (ACmp t gs)) [kl] a)
                   (flat_map (fun q => match q with (kl, a, op, kr, b) =>
                      if cmp_eqb op CEq
                      then [(tnames (Lit s (ACmp t gs)) false [kr] b, bnames (Lit s (ACmp t gs)) [kl] a);
                            (tnames (Lit s (ACmp t gs)) false [kl] a, bnames (Lit s (ACmp t gs)) [kr] b)]
                      else [] end) (eff_rels s t gs))).
      { apply in_flat_map. exists (kl, a, CEq, kr, b). split; [exact Hq|]. simpl. left. reflexivity. }
      destruct s; exact K.
    - intros d Hd. rewrite (tnames_fterm _ b false _ Fb) in Hd. apply in_map_iff in Hd. destruct Hd as [v [<- Hv]].
      apply Sb, Hv.
    - exact Hx.
  Qed.
  Lemma eq_rule_bound' l s t gs kl a kr b x :
    l = Lit s (ACmp t gs) -> In l lits -> In (kl, a, CEq, kr, b) (eff_rels s t gs) ->
    fterm a = true -> Snd (vars_term a) -> In x (bnames l [kr] b) -> bound lits xs x.
  Proof.
    intros -> Hl Hq Fa Sa Hx. unfold bound.
    eapply d_rule with (D := tnames (Lit s (ACmp t gs)) false [kl] a) (P := bnames (Lit s (ACmp t gs)) [kr] b).
    - unfold scope_rules. apply in_or_app. left. apply in_flat_map. exists (Lit s (ACmp t gs)). split; [exact Hl|].
      unfold no_gin, lit_brules. apply in_or_app. right.
      assert (K: In (tnames (Lit s (ACmp t gs)) false [kl] a, bnames (Lit s (ACmp t gs)) [kr] b)
                   (flat_map (fun q => match q with (kl, a, op, kr, b) =>
                      if cmp_eqb op CEq
                      then [(tnames (Lit s (ACmp t gs)) false [kr] b, bnames (Lit s (ACmp t gs)) [kl] a);
                            (tnames (Lit s (ACmp t gs)) false [kl] a, bnames (Lit s (ACmp t gs)) [kr] b)]
                      else [] end) (eff_rels s t gs))).
      { apply in_flat_map. exists (kl, a, CEq, kr, b). split; [exact Hq|]. simpl. right. left. reflexivity. }
      destruct s; exact K.
    - intros d Hd. rewrite (tnames_fterm _ a false _ Fa) in Hd. apply in_map_iff in Hd. destruct Hd as [v [<- Hv]].
      apply Sa, Hv.
    - exact Hx.
  Qed.

  (* one `=` link *)
  Lemma from_equal_base_sound t gs lhs rhs b :
    In (Lit NoSign (ACmp t gs)) lits -> In (lhs, CEq, rhs) (c2cl t gs) ->
    fside lhs = true -> fside rhs = true -> Snd b -> Snd (from_equal_base lhs rhs b).
  Proof.
    intros Hl Hp Fl Fr Sb. destruct (c2cl_in_idx gs 0 t lhs CEq rhs Hp) as [kl [kr Hq]].
    unfold fside in Fl, Fr. apply andb_true_iff in Fl. destruct Fl as [Fl Nl]. apply andb_true_iff in Fl. destruct Fl as [Fl Kl].
    apply andb_true_iff in Fr. destruct Fr as [Fr Nr]. apply andb_true_iff in Fr. destruct Fr as [Fr Kr].
    unfold from_equal_base. cbv zeta.
    assert (S1: Snd (if (Nat.eqb (List.length (sof (vars_term lhs))) 1) && (negb (has_unsafe_operation lhs) && ssubset (sof (vars_term rhs)) b)
                     then supdate b (sof (vars_term lhs)) else b)).
    { destruct ((Nat.eqb (List.length (sof (vars_term lhs))) 1) && (negb (has_unsafe_operation lhs) && ssubset (sof (vars_term rhs)) b))%bool eqn:C;
        [|exact Sb].
      apply andb_true_iff in C. destruct C as [C1 C2]. apply andb_true_iff in C2. destruct C2 as [_ C3].
      apply Nat.eqb_eq in C1. destruct (nodupb_single _ Nl C1) as [x Ex].
      apply Snd_supdate; [exact Sb|]. intros v Hv. apply sof_In in Hv. rewrite Ex in Hv. destruct Hv as [<-|[]].
      refine (eq_rule_bound _ NoSign t gs kl lhs kr rhs _ eq_refl Hl Hq Fr _ _).
      - intros w Hw. apply Sb. unfold ssubset in C3. rewrite forallb_forall in C3. apply bsmem_In, C3, sof_In, Hw.
      - apply single_occurrence_bound; assumption. }
    destruct ((Nat.eqb (List.length (sof (vars_term rhs))) 1) && (negb (has_unsafe_operation rhs) && ssubset (sof (vars_term lhs)) _))%bool eqn:C;
      [|exact S1].
    apply andb_true_iff in C. destruct C as [C1 C2]. apply andb_true_iff in C2. destruct C2 as [_ C3].
    apply Nat.eqb_eq in C1. destruct (nodupb_single _ Nr C1) as [x Ex].
    apply Snd_supdate; [exact S1|]. intros v Hv. apply sof_In in Hv. rewrite Ex in Hv. destruct Hv as [<-|[]].
    refine (eq_rule_bound' _ NoSign t gs kl lhs kr rhs _ eq_refl Hl Hq Fl _ _).
    - intros w Hw. apply S1. unfold ssubset in C3. rewrite forallb_forall in C3. apply bsmem_In, C3, sof_In, Hw.
    - apply single_occurrence_bound; assumption.
  Qed.

  Definition Cov (S b u: list string) : Prop := forall v, In v S -> In v b \/ In v u.

  Lemma fold_left_inv {X Y} (P: X -> Prop) (f: X -> Y -> X) (l: list Y) :
    forall a, P a -> (forall a x, In x l -> P a -> P (f a x)) -> P (fold_left f l a).
  Proof.
    induction l as [|y r IH]; intros a Ha Hs; simpl; [exact Ha|].
    apply IH; [apply Hs; [left; reflexivity | exact Ha]|]. intros a' x Hx. apply Hs. right. exact Hx.
  Qed.

  Lemma from_equal_base_incl lhs rhs b : incl b (from_equal_base lhs rhs b).
  Proof.
    intros v Hv. unfold from_equal_base. cbv zeta.
    repeat match goal with |- context [if ?c then _ else _] => destruct c end;
      rewrite ?supdate_In; tauto.
  Qed.
  Lemma sdiff_In a b v : In v (sdiff a b) <-> In v a /\ ~ In v b.
  Proof.
    unfold sdiff. rewrite filter_In, negb_true_iff. split; intros [H1 H2]; split; try exact H1.
    - intros H. apply bsmem_In in H. congruence.
    - destruct (Binding.smem v b) eqn:E; [|reflexivity]. apply bsmem_In in E. contradiction.
  Qed.
  Lemma in_dec_str (v: string) (b: list string) : In v b \/ ~ In v b.
  Proof. destruct (in_dec string_dec v b); [left | right]; assumption. Qed.

  Lemma fcmp_sides t gs lhs op rhs :
    fcmp_ok t gs = true -> In (lhs, op, rhs) (c2cl t gs) ->
    fside lhs = true /\ fside rhs = true /\ andb (is_tuple lhs) (is_tuple rhs) = false.
  Proof.
    unfold fcmp_ok. rewrite andb_true_iff. intros [H1 H2] Hp. rewrite forallb_forall in H1, H2.
    destruct (c2cl_terms gs t lhs op rhs Hp) as [Tl Tr]. repeat split; [apply H1, Tl | apply H1, Tr|].
    specialize (H2 _ Hp). simpl in H2. apply negb_true_iff in H2. exact H2.
  Qed.

  (* a comparison literal *)
  Definition cmp_step (acc: vset * vset) (c: term * cmp * term) : vset * vset :=
    let '(b, u) := acc in
    let '(lhs, op, rhs) := c in
    if cmp_eqb op CEq
    then let '(bound, unbound) := from_equal lhs rhs b in (supdate bound bound, supdate u unbound)
    else (b, u).
  Lemma from_comparison_cmp_pos t gs b :
    from_comparison_cmp NoSign t gs b =
    (fst (fold_left cmp_step (c2cl t gs) (b, sof (vars_atom (ACmp t gs)))),
     sdiff (snd (fold_left cmp_step (c2cl t gs) (b, sof (vars_atom (ACmp t gs)))))
           (fst (fold_left cmp_step (c2cl t gs) (b, sof (vars_atom (ACmp t gs)))))).
  Proof.
    unfold from_comparison_cmp. fold cmp_step.
    destruct (fold_left cmp_step (c2cl t gs) (b, sof (vars_atom (ACmp t gs)))) as [b1 u1]. reflexivity.
  Qed.
  Lemma cmp_fold_inv t gs b u0 :
    In (Lit NoSign (ACmp t gs)) lits -> Snd b ->
    Snd (fst (fold_left cmp_step (c2cl t gs) (b, u0))) /\ incl u0 (snd (fold_left cmp_step (c2cl t gs) (b, u0))).
  Proof.
    intros Hl Sb. pose proof (Hflit _ Hl) as Fl. simpl in Fl.
    apply (fold_left_inv (fun r => Snd (fst r) /\ incl u0 (snd r))).
    - split; [exact Sb | apply incl_refl].
    - intros [b0 u1] [[lhs op] rhs] Hp [S0 I0]. unfold cmp_step. destruct (cmp_eqb op CEq) eqn:Eo; [|split; assumption].
      apply cmp_eqb_eq in Eo. subst op.
      destruct (fcmp_sides t gs lhs CEq rhs Fl Hp) as [F1 [F2 NT]].
      rewrite (from_equal_no_tuple lhs rhs b0 NT). unfold from_equal_basecase. simpl. split.
      + apply Snd_supdate; apply (from_equal_base_sound t gs lhs rhs b0 Hl Hp F1 F2 S0).
      + intros v Hv. apply supdate_In. left. apply I0, Hv.
  Qed.
  Lemma from_comparison_cmp_inv s t gs b :
    In (Lit s (ACmp t gs)) lits -> Snd b ->
    Snd (fst (from_comparison_cmp s t gs b))
    /\ Cov (vars_atom (ACmp t gs)) (fst (from_comparison_cmp s t gs b)) (snd (from_comparison_cmp s t gs b)).
  Proof.
    intros Hl Sb. destruct s.
    - rewrite from_comparison_cmp_pos. destruct (cmp_fold_inv t gs b (sof (vars_atom (ACmp t gs))) Hl Sb) as [S1 I1].
      cbn [fst snd]. split; [exact S1|].
      intros v Hv. destruct (in_dec_str v (fst (fold_left cmp_step (c2cl t gs) (b, sof (vars_atom (ACmp t gs)))))) as [H|H];
        [left; exact H|]. right. apply sdiff_In. split; [|exact H]. apply I1, sof_In, Hv.
    - unfold from_comparison_cmp. cbn [fst snd]. split; [intros v []|]. intros v Hv. right. apply sof_In, Hv.
    - unfold from_comparison_cmp. cbn [fst snd]. split; [intros v []|]. intros v Hv. right. apply sof_In, Hv.
  Qed.

  (* a literal *)
  Lemma simple_literal_inv l b u S :
    In l lits -> Snd b -> Cov S b u ->
    Snd (fst (simple_literal l b u)) /\ Cov (S ++ vars_lit l) (fst (simple_literal l b u)) (snd (simple_literal l b u)).
  Proof.
    intros Hl Sb Cb. pose proof (Hflit _ Hl) as Fl. destruct l as [s a].
    destruct a as [t|t gs|bb|lg f es rg|lg es rg|tx]; try discriminate.
    - (* symbolic atom *)
      simpl in Fl. apply andb_true_iff in Fl. destruct Fl as [Ft Kt].
      assert (Dflt: Snd (fst (b, supdate u (vars_lit (Lit s (ASym t)))))
                    /\ Cov (S ++ vars_lit (Lit s (ASym t))) (fst (b, supdate u (vars_lit (Lit s (ASym t)))))
                           (snd (b, supdate u (vars_lit (Lit s (ASym t)))))).
      { simpl. split; [exact Sb|]. intros v Hv. apply in_app_or in Hv. destruct Hv as [Hv|Hv].
        - destruct (Cb v Hv); [left; assumption | right; apply supdate_In; left; assumption].
        - right. apply supdate_In. right. exact Hv. }
      unfold simple_literal. destruct s; try exact Dflt.
      destruct t as [x|sy|o t|o l r|l r|n args e|alts]; try exact Dflt.
      destruct e; [simpl in Ft; discriminate|].
      destruct (term_ok_fun _ _ _ Kt) as [Bad Ka].
      assert (Sy: simp (TFun n args false) = VSym) by (simpl; rewrite Bad; reflexivity).
      assert (Fa: forallb fterm args = true) by exact Ft. rewrite forallb_forall in Fa. rewrite Forall_forall in Ka.
      set (g := fun (acc: vset * vset) (arg: term) =>
                  let '(b, u) := acc in
                  let variables := vars_term arg in
                  if orb (andb (Nat.eqb (List.length variables) 1) (negb (has_unsafe_operation arg)))
                         (Nat.eqb (List.length (collect_term is_binop arg) + List.length (collect_term is_unop arg)) 0)
                  then (supdate b variables, u) else (b, supdate u variables)).
      (* generalise over the processed prefix *)
      assert (J: forall pre post, args = pre ++ post -> forall b0 u0,
                   Snd b0 -> Cov (S ++ flat_map vars_term pre) b0 u0 ->
                   Snd (fst (fold_left g post (b0, u0))) /\
                   Cov (S ++ flat_map vars_term args) (fst (fold_left g post (b0, u0))) (snd (fold_left g post (b0, u0)))).
      { intros pre post. revert pre. induction post as [|arg post IH]; intros pre E b0 u0 S0 C0.
        - simpl. rewrite app_nil_r in E. subst pre. split; assumption.
        - simpl. assert (Harg: In arg args) by (rewrite E; apply in_or_app; right; left; reflexivity).
          assert (E': args = (pre ++ [arg]) ++ post) by (rewrite <- app_assoc; exact E).
          unfold g at 2.
          destruct (orb (andb (Nat.eqb (List.length (vars_term arg)) 1) (negb (has_unsafe_operation arg)))
                        (Nat.eqb (List.length (collect_term is_binop arg) + List.length (collect_term is_unop arg)) 0)) eqn:C.
          + apply (IH _ E').
            * apply Snd_supdate; [exact S0|]. intros v Hv.
              destruct (bnames_fun_arg (Lit NoSign (ASym (TFun n args false))) [] n args arg Sy Harg) as [i Hi].
              apply (bound_positive_atom lits xs (TFun n args false)); [exact Hl|]. apply Hi.
              apply orb_true_iff in C. destruct C as [C|C].
              -- apply andb_true_iff in C. destruct C as [C _]. apply Nat.eqb_eq in C.
                 destruct (vars_term arg) as [|x [|y q]] eqn:Ev; simpl in C; try discriminate.
                 destruct Hv as [<-|[]]. apply single_occurrence_bound; [apply Fa, Harg | apply Ka, Harg | exact Ev].
              -- apply Nat.eqb_eq in C. apply Nat.eq_add_0 in C. destruct C as [C1 C2].
                 apply length_zero_iff_nil in C1. apply length_zero_iff_nil in C2.
                 apply no_operator_bound; [apply Fa, Harg | apply Ka, Harg | exact C1 | exact C2 | exact Hv].
            * intros v Hv. rewrite flat_map_app in Hv. simpl in Hv. rewrite app_nil_r in Hv.
              rewrite app_assoc in Hv. apply in_app_or in Hv. destruct Hv as [Hv|Hv].
              -- destruct (C0 v Hv); [left; apply supdate_In; left; assumption | right; assumption].
              -- left. apply supdate_In. right. exact Hv.
          + apply (IH _ E'); [exact S0|].
            intros v Hv. rewrite flat_map_app in Hv. simpl in Hv. rewrite app_nil_r in Hv.
            rewrite app_assoc in Hv. apply in_app_or in Hv. destruct Hv as [Hv|Hv].
            -- destruct (C0 v Hv); [left; assumption | right; apply supdate_In; left; assumption].
            -- right. apply supdate_In. right. exact Hv. }
      fold g. apply (J [] args eq_refl b u Sb). simpl. rewrite app_nil_r. exact Cb.
    - (* comparison *)
      unfold simple_literal. destruct (from_comparison_cmp_inv s t gs b Hl Sb) as [S1 C1].
      destruct (from_comparison_cmp s t gs b) as [bd ub]. simpl in *. split.
      + apply Snd_supdate; assumption.
      + intros v Hv. apply in_app_or in Hv. destruct Hv as [Hv|Hv].
        * destruct (Cb v Hv); [left | right]; apply supdate_In; left; assumption.
        * destruct (C1 v Hv); [left | right]; apply supdate_In; right; assumption.
    - (* boolean constant *)
      simpl. split; [exact Sb|]. rewrite app_nil_r. exact Cb.
  Qed.

  Lemma Cov_mono S b u b' u' : Cov S b u -> incl b b' -> incl u u' -> Cov S b' u'.
  Proof. intros C Hb Hu v Hv. destruct (C v Hv); [left; apply Hb | right; apply Hu]; assumption. Qed.

  (* one body element *)
  Lemma body_stm_inv l (bv uv: vset) S :
    In l lits -> Snd bv -> Cov S bv uv ->
    exists (bv' uv': vset), body_stm (BLit l) (bv, uv) = Ok (bv', uv') /\ Snd bv' /\ Cov (S ++ vars_lit l) bv' uv' /\ incl bv bv'.
  Proof.
    intros Hl Sb Cb. destruct (simple_literal_inv l bv uv S Hl Sb Cb) as [S1 C1].
    pose proof (flit_plain l (Hflit _ Hl)) as Pl.
    exists (supdate bv (fst (simple_literal l bv uv))), (supdate uv (snd (simple_literal l bv uv))).
    split; [|split; [|split]].
    - unfold body_stm. destruct (simple_literal l bv uv) as [bd ub]. simpl.
      destruct l as [s [t|t gs|bb|lg f es rg|lg es rg|tx]]; try discriminate; reflexivity.
    - apply Snd_supdate; assumption.
    - intros v Hv. destruct (C1 v Hv); [left | right]; apply supdate_In; right; assumption.
    - intros v Hv. apply supdate_In. left. exact Hv.
  Qed.

  Lemma body_fold_inv : forall ls (bv uv: vset) S,
    incl ls lits -> Snd bv -> Cov S bv uv ->
    exists (bv' uv': vset), fold_left (fun (acc: result (vset * vset)) stm => rbind acc (body_stm stm)) (map BLit ls) (Ok (bv, uv))
                    = Ok (bv', uv')
                    /\ Snd bv' /\ Cov (S ++ flat_map vars_lit ls) bv' uv' /\ incl bv bv'.
  Proof.
    induction ls as [|l r IH]; intros bv uv S Hi Sb Cb.
    - exists bv, uv. simpl. rewrite app_nil_r. repeat split; try assumption. apply incl_refl.
    - destruct (body_stm_inv l bv uv S (Hi l (or_introl eq_refl)) Sb Cb) as [b1 [u1 [E [S1 [C1 I1]]]]].
      change (fold_left (fun (acc: result (vset * vset)) stm => rbind acc (body_stm stm)) (map BLit (l :: r)) (Ok (bv, uv)))
        with (fold_left (fun (acc: result (vset * vset)) stm => rbind acc (body_stm stm)) (map BLit r) (body_stm (BLit l) (bv, uv))).
      rewrite E. destruct (IH b1 u1 (S ++ vars_lit l) (fun x Hx => Hi x (or_intror Hx)) S1 C1) as [b2 [u2 [E2 [S2 [C2 I2]]]]].
      exists b2, u2. split; [exact E2|]. split; [exact S2|]. split.
      + simpl. rewrite app_assoc. exact C2.
      + intros v Hv. apply I2, I1, Hv.
  Qed.

  (* the comparison passes *)
  Lemma comparisons_pass_inv : forall ls b u,
    incl ls lits -> Snd b ->
    Snd (fst (comparisons_pass (map BLit ls) b u)) /\ incl b (fst (comparisons_pass (map BLit ls) b u)).
  Proof.
    unfold comparisons_pass. induction ls as [|l r IH]; intros b u Hi Sb; simpl; [split; [exact Sb | apply incl_refl]|].
    assert (Hl: In l lits) by (apply Hi; left; reflexivity).
    assert (Hr: incl r lits) by (intros x Hx; apply Hi; right; exact Hx).
    destruct l as [s [t|t gs|bb|lg f es rg|lg es rg|tx]]; try (apply IH; assumption).
    destruct (from_comparison_cmp_inv s t gs b Hl Sb) as [S1 _].
    destruct (from_comparison_cmp s t gs b) as [bd ub]. simpl in S1.
    destruct (IH (supdate b bd) (supdate u ub) Hr (Snd_supdate _ _ Sb S1)) as [S2 I2]. split; [exact S2|].
    intros v Hv. apply I2, supdate_In. left. exact Hv.
  Qed.
  Lemma comparisons_loop_inv : forall fuel ls b u b' u',
    incl ls lits -> Snd b -> comparisons_loop fuel (map BLit ls) b u = Ok (b', u') -> Snd b' /\ incl b b'.
  Proof.
    induction fuel as [|fuel IH]; intros ls b u b' u' Hi Sb E; simpl in E; [discriminate|].
    destruct (comparisons_pass_inv ls b u Hi Sb) as [S1 I1].
    destruct (comparisons_pass (map BLit ls) b u) as [b1 u1]. simpl in S1, I1.
    destruct (sseteq b b1).
    - inversion E. subst. split; assumption.
    - destruct (IH ls b1 u1 b' u' Hi S1 E) as [S2 I2]. split; [exact S2|]. intros v Hv. apply I2, I1, Hv.
  Qed.

  (* one pass over the body: everything bound is bound for clingo, every variable is classified *)
  Lemma body_pass_inv ls (bv uv bv' uv': vset) :
    incl ls lits -> Snd bv -> body_pass (map BLit ls) bv uv = Ok (bv', uv') ->
    Snd bv' /\ Cov (flat_map vars_lit ls) bv' uv'.
  Proof.
    intros Hi Sb E. unfold body_pass in E.
    destruct (body_fold_inv ls bv uv [] Hi Sb (fun v (H: In v []) => match H with end)) as [b1 [u1 [E1 [S1 [C1 I1]]]]].
    rewrite E1 in E. simpl in E. simpl in C1.
    unfold collect_binding_information_from_comparisons in E.
    destruct (comparisons_loop _ (map BLit ls) b1 []) as [[b2 u2]| | |] eqn:E2; simpl in E; try discriminate.
    destruct (comparisons_loop_inv _ ls b1 [] b2 u2 Hi S1 E2) as [S2 I2].
    inversion E. subst. split.
    - apply Snd_supdate; assumption.
    - intros v Hv. destruct (in_dec_str v (supdate b2 b2)) as [H|H]; [left; exact H|]. right.
      apply sdiff_In. split; [|exact H]. apply supdate_In. left. apply sdiff_In.
      destruct (C1 v Hv) as [Hb|Hu].
      + exfalso. apply H, supdate_In. left. apply I2, Hb.
      + split; [exact Hu|]. intros Hb. apply H, supdate_In. left. apply I2, Hb.
  Qed.

  Lemma body_loop_inv : forall fuel ls bv uv sz bv' uv',
    incl ls lits -> Snd bv -> (Cov (flat_map vars_lit ls) bv uv \/ (slen bv >? sz)%Z = true) ->
    body_loop fuel (map BLit ls) bv uv sz = Ok (bv', uv') ->
    Snd bv' /\ Cov (flat_map vars_lit ls) bv' uv'.
  Proof.
    induction fuel as [|fuel IH]; intros ls bv uv sz bv' uv' Hi Sb Hc E; simpl in E.
    - destruct (slen bv >? sz)%Z eqn:G; [discriminate|]. inversion E. subst.
      destruct Hc as [Hc|Hc]; [split; assumption | discriminate].
    - destruct (slen bv >? sz)%Z eqn:G.
      + destruct (body_pass (map BLit ls) bv uv) as [[b1 u1]| | |] eqn:E1; simpl in E; try discriminate.
        destruct (body_pass_inv ls bv uv b1 u1 Hi Sb E1) as [S1 C1].
        apply (IH ls b1 u1 (slen b1) bv' uv' Hi S1 (or_introl C1) E).
      + inversion E. subst. destruct Hc as [Hc|Hc]; [split; assumption | discriminate].
  Qed.
End NgoSound.

(* the names a fragment literal needs are its variables *)
Lemma imap_from_in {X Y} (f: nat -> X -> Y) : forall l i y, In y (imap_from i f l) -> exists j x, In x l /\ y = f j x.
Proof.
  induction l as [|a r IH]; intros i y H; [destruct H|]. simpl in H. destruct H as [<-|H].
  - exists i, a. split; [left; reflexivity | reflexivity].
  - destruct (IH _ _ H) as [j [x [Hx E]]]. exists j, x. split; [right; exact Hx | exact E].
Qed.

Lemma flit_level_terms l p u :
  flit l = true -> In (p, u) (level_terms l) -> fterm u = true /\ incl (vars_term u) (vars_lit l).
Proof.
  destruct l as [s [t|t gs|bb|lg f es rg|lg es rg|tx]]; simpl; try discriminate.
  - rewrite andb_true_iff. intros [F _] [E|[]]. inversion E. subst. split; [exact F | apply incl_refl].
  - unfold fcmp_ok. rewrite andb_true_iff. intros [F _] H. rewrite forallb_forall in F.
    assert (Hu: In u (t :: map snd gs)).
    { destruct H as [E|H]; [inversion E; left; reflexivity|]. right. unfold imap in H.
      destruct (imap_from_in _ _ _ _ H) as [j [g [Hg E]]]. inversion E. apply in_map, Hg. }
    specialize (F u Hu). unfold fside in F. apply andb_true_iff in F. destruct F as [F _]. apply andb_true_iff in F.
    split; [apply F|]. destruct Hu as [<-|Hu]; intros v Hv; apply in_or_app; [left; exact Hv|].
    right. apply in_map_iff in Hu. destruct Hu as [g [<- Hg]]. apply in_flat_map. exists g. split; [exact Hg | exact Hv].
  - intros _ [].
Qed.

Lemma lit_needed_flit l x : flit l = true -> In x (lit_needed l) -> exists v, x = NVar v /\ In v (vars_lit l).
Proof.
  intros F H. unfold lit_needed in H. apply in_app_or in H. destruct H as [H|H].
  - apply in_flat_map in H. destruct H as [[p u] [Hpu H]]. simpl in H.
    destruct (flit_level_terms l p u F Hpu) as [Fu Iu]. rewrite (tnames_fterm l u _ _ Fu) in H.
    apply in_map_iff in H. destruct H as [v [<- Hv]]. exists v. split; [reflexivity | apply Iu, Hv].
  - exfalso. unfold lit_range_needed, lit_range_brules in H. apply in_flat_map in H. destruct H as [[D P] [HDP _]].
    apply in_flat_map in HDP. destruct HDP as [[p u] [Hpu HDP]]. simpl in HDP.
    destruct (flit_level_terms l p u F Hpu) as [Fu _]. rewrite (range_brules_fterm l u p Fu) in HDP. destruct HDP.
Qed.

Lemma extra_needed_carrier tag ts :
  extra_needed (carrier tag ts) =
  tnames (carrier tag ts) false [] (TFun tag ts false) ++ flat_map fst (range_brules (carrier tag ts) [] (TFun tag ts false)).
Proof.
  unfold extra_needed, extra_needed_p, lit_range_needed, lit_range_brules, carrier.
  cbn [level_terms flat_map fst snd]. rewrite !app_nil_r. reflexivity.
Qed.

Lemma head_needed_flit h x :
  flit h = true -> In x (extra_needed (head_carrier h)) -> exists v, x = NVar v /\ In v (vars_lit h).
Proof.
  intros F H. destruct h as [s [t|t gs|bb|lg f es rg|lg es rg|tx]]; try discriminate.
  - simpl in F. apply andb_true_iff in F. destruct F as [F _].
    assert (Fc: fterm (TFun "#head" [t] false) = true) by (simpl; rewrite F; reflexivity).
    unfold head_carrier in H. rewrite extra_needed_carrier in H.
    rewrite (tnames_fterm _ _ false [] Fc), (range_brules_fterm _ _ [] Fc) in H. simpl flat_map in H.
    rewrite app_nil_r in H. apply in_map_iff in H. destruct H as [v [<- Hv]].
    exists v. split; [reflexivity|]. simpl in Hv. rewrite app_nil_r in Hv. exact Hv.
  - (* a comparison as head: the literal is its own carrier *)
    assert (E: extra_needed (head_carrier (Lit s (ACmp t gs))) = lit_needed (Lit s (ACmp t gs))).
    { unfold head_carrier, extra_needed, extra_needed_p, lit_needed. destruct s; reflexivity. }
    rewrite E in H. apply lit_needed_flit; assumption.
  - unfold head_carrier, extra_needed, extra_needed_p, lit_range_needed, lit_range_brules in H. simpl in H. destruct H.
Qed.

Lemma flit_no_anon l : flit l = true -> ~ In "_" (vars_lit l).
Proof.
  intros F H. destruct l as [s [t|t gs|bb|lg f es rg|lg es rg|tx]]; try discriminate.
  - simpl in F. apply andb_true_iff in F. destruct F as [F _]. apply (fterm_no_anon t F H).
  - simpl in H. assert (exists u, In u (t :: map snd gs) /\ In "_" (vars_term u)) as [u [Hu Hv]].
    { apply in_app_or in H. destruct H as [H|H]; [exists t; split; [left; reflexivity | exact H]|].
      apply in_flat_map in H. destruct H as [g [Hg H]]. exists (snd g). split; [right; apply in_map, Hg | exact H]. }
    simpl in F. unfold fcmp_ok in F. apply andb_true_iff in F. destruct F as [F _]. rewrite forallb_forall in F.
    specialize (F u Hu). unfold fside in F. apply andb_true_iff in F. destruct F as [F _]. apply andb_true_iff in F.
    apply (fterm_no_anon u (proj1 F) Hv).
  - destruct H.
Qed.

(** C.1 (sound fragment): on flat rules over the fragment -- plain literals whose terms are built from
    variables (not `_`), constants, function symbols / tuples, +, - and unary minus, without statically
    undefined operations, in comparisons no variable twice in one term and no tuple against a tuple --
    a rule that ngo's analysis considers completely bound is safe for clingo. *)
Theorem binding_complete_implies_safe n h ls bv :
  forallb flit (h :: ls) = true ->
  collect_binding_information_body (map BLit ls) None = Ok (bv, []) ->
  incl (vars_lit h) bv ->
  safe_core (SRule n (HLit h) (map BLit ls)) = true.
Proof.
  intros F E Hh. simpl in F. apply andb_true_iff in F. destruct F as [Fh Fl]. rewrite forallb_forall in Fl.
  assert (Pl: flat_body (map BLit ls) = true).
  { rewrite flat_body_map. apply forallb_forall. intros l Hl. apply flit_plain, Fl, Hl. }
  apply (proj2 (safe_flat n h _ Pl)). rewrite blits_map.
  unfold collect_binding_information_body in E.
  destruct (body_loop _ (map BLit ls) [] [] (-1)%Z) as [[b0 u0]| | |] eqn:EL; simpl in E; try discriminate.
  inversion E. subst bv. clear E.
  destruct (body_loop_inv ls [head_carrier h] Fl _ ls [] [] (-1)%Z b0 u0 (incl_refl _) (fun v (H: In v []) => match H with end)
              (or_intror eq_refl) EL) as [S0 C0].
  assert (U0: forall v, In v u0 -> v = "_").
  { intros v Hv. destruct (string_dec v "_") as [|N]; [assumption|]. exfalso.
    assert (In v (drop_anonymous u0)) by (apply drop_anonymous_In; split; assumption). rewrite H1 in H. destruct H. }
  intros x Hx. unfold scope_needed in Hx. apply in_app_or in Hx. destruct Hx as [Hx|Hx].
  - apply in_flat_map in Hx. destruct Hx as [l [Hl Hx]].
    destruct (lit_needed_flit l x (Fl l Hl) Hx) as [v [-> Hv]].
    assert (Hv': In v (flat_map vars_lit ls)) by (apply in_flat_map; exists l; split; assumption).
    destruct (C0 v Hv') as [Hb|Hu]; [apply S0, Hb|]. exfalso. apply U0 in Hu. subst v.
    apply (flit_no_anon l (Fl l Hl) Hv).
  - simpl in Hx. rewrite app_nil_r in Hx. destruct (head_needed_flit h x Fh Hx) as [v [-> Hv]].
    apply S0. apply Hh in Hv. apply drop_anonymous_In in Hv. apply Hv.
Qed.

(* ====================================================================================== *)
(** * 5. Renaming variables  [task C.2(d)] *)

(* terms without `_`, intervals, pools and @-calls (every arithmetic operator is allowed) *)
Fixpoint sterm (t: term) : bool :=
  match t with
  | TVar x => negb (String.eqb x "_")
  | TSym _ => true
  | TUn _ a => sterm a
  | TBin _ l r => andb (sterm l) (sterm r)
  | TFun _ args false => forallb sterm args
  | _ => false
  end.
Definition slit (l: lit) : bool :=
  match l with
  | Lit _ (ASym t) => sterm t
  | Lit _ (ACmp t gs) => andb (sterm t) (forallb (fun g => sterm (snd g)) gs)
  | Lit _ (ABool _) => true
  | _ => false
  end.
Lemma slit_plain l : slit l = true -> is_plain_lit l = true.
Proof. destruct l as [s [t|t gs|v|lg f es rg|lg es rg|tx]]; simpl; try reflexivity; discriminate. Qed.

Section Rename.
  Variable sg : string -> string.
  Hypothesis sg_inj : forall x y, sg x = sg y -> x = y.
  Hypothesis sg_named : forall x, sg x <> "_".

  Definition rt (t: term) : term := Normalize.vmap_term (fun x => TVar (sg x)) t.
  Definition rl (l: lit) : lit := Normalize.vmap_lit (fun x => TVar (sg x)) l.
  Definition rn (n: name) : name :=
    match n with NVar x => NVar (sg x) | NArith t => NArith (rt t) | _ => n end.

  Lemma sg_eqb x : String.eqb (sg x) "_" = false.
  Proof. apply String.eqb_neq, sg_named. Qed.

  Lemma rt_fun n xs e : rt (TFun n xs e) = TFun n (map rt xs) e.
  Proof. reflexivity. Qed.

  Lemma rt_inj : forall a b, rt a = rt b -> a = b.
  Proof.
    induction a as [x|s|u a IH|o l r IHl IHr|l r IHl IHr|n xs e IH|xs IH] using term_ind'; intros b E;
      destruct b as [x'|s'|u' a'|o' l' r'|l' r'|n' xs' e'|xs']; simpl in E; try discriminate; inversion E; subst.
    - f_equal. apply sg_inj. assumption.
    - reflexivity.
    - f_equal. apply IH. assumption.
    - f_equal; [apply IHl | apply IHr]; assumption.
    - f_equal; [apply IHl | apply IHr]; assumption.
    - f_equal. clear E. revert xs' H1. induction IH as [|a q Ha _ IHq]; intros [|a' q'] H; simpl in H; try discriminate; [reflexivity|].
      inversion H. f_equal; [apply Ha | apply IHq]; assumption.
    - f_equal. clear E. revert xs' H0. induction IH as [|a q Ha _ IHq]; intros [|a' q'] H; simpl in H; try discriminate; [reflexivity|].
      inversion H. f_equal; [apply Ha | apply IHq]; assumption.
  Qed.
  Lemma rn_inj a b : rn a = rn b -> a = b.
  Proof.
    destruct a, b; simpl; intros E; try discriminate; inversion E; subst; try reflexivity.
    - f_equal. apply sg_inj. assumption.
    - f_equal. apply rt_inj. assumption.
  Qed.
  Lemma name_eqb_rn a b : name_eqb (rn a) (rn b) = name_eqb a b.
  Proof.
    destruct (name_eqb a b) eqn:E.
    - apply name_eqb_eq in E. subst. apply name_eqb_eq. reflexivity.
    - destruct (name_eqb (rn a) (rn b)) eqn:E'; [|reflexivity]. apply name_eqb_eq, rn_inj in E'. subst.
      assert (name_eqb b b = true) by (apply name_eqb_eq; reflexivity). congruence.
  Qed.

  Lemma vars_rt : forall t, vars_term (rt t) = map sg (vars_term t).
  Proof.
    induction t as [x|s|u a IH|o l r IHl IHr|l r IHl IHr|n xs e IH|xs IH] using term_ind'; simpl; try reflexivity.
    - apply IH.
    - fold (rt l). fold (rt r). rewrite IHl, IHr, map_app. reflexivity.
    - fold (rt l). fold (rt r). rewrite IHl, IHr, map_app. reflexivity.
    - rewrite map_flat_map. induction IH as [|a q Ha _ IHq]; simpl; [reflexivity|]. fold (rt a). rewrite Ha, IHq. reflexivity.
    - rewrite map_flat_map. induction IH as [|a q Ha _ IHq]; simpl; [reflexivity|]. fold (rt a). rewrite Ha, IHq. reflexivity.
  Qed.
  Lemma sterm_rt : forall t, sterm t = true -> sterm (rt t) = true.
  Proof.
    induction t as [x|s|u a IH|o l r IHl IHr|l r IHl IHr|n xs e IH|xs IH] using term_ind'; simpl; intros F; try discriminate.
    - rewrite sg_eqb. reflexivity.
    - reflexivity.
    - apply IH, F.
    - apply andb_true_iff in F. destruct F as [F1 F2]. fold (rt l). fold (rt r). rewrite (IHl F1), (IHr F2). reflexivity.
    - destruct e; [discriminate|]. induction IH as [|a q Ha _ IHq]; simpl; [reflexivity|].
      simpl in F. apply andb_true_iff in F. destruct F as [F1 F2]. fold (rt a). rewrite (Ha F1). apply IHq, F2.
  Qed.

  (* the names of such a term are its variables *)
  Lemma tnames_sterm o : forall t proj p, sterm t = true -> tnames o proj p t = map NVar (vars_term t).
  Proof.
    induction t as [x|s|u a IH|b l r IHl IHr|l r IHl IHr|n xs e IH|xs IH] using term_ind'; intros proj p F;
      simpl in F; try discriminate.
    - simpl. apply negb_true_iff in F. rewrite F, andb_false_r. unfold vname. rewrite F. reflexivity.
    - reflexivity.
    - simpl. apply IH, F.
    - apply andb_true_iff in F. destruct F as [F1 F2]. simpl. rewrite map_app, (IHl false _ F1), (IHr false _ F2). reflexivity.
    - destruct e; [discriminate|]. cbn [tnames vars_term]. rewrite map_flat_map.
      generalize 0 as i. induction IH as [|a r Ha _ IHr]; intros i; [reflexivity|].
      simpl in F. apply andb_true_iff in F. destruct F as [Fa Fr]. simpl. rewrite (Ha proj _ Fa), (IHr Fr). reflexivity.
  Qed.
  Lemma range_brules_sterm o : forall t p, sterm t = true -> range_brules o p t = [].
  Proof.
    induction t as [x|s|u a IH|b l r IHl IHr|l r IHl IHr|n xs e IH|xs IH] using term_ind'; intros p F;
      simpl in F; try discriminate; try reflexivity.
    - simpl. apply IH, F.
    - apply andb_true_iff in F. destruct F as [F1 F2]. simpl. rewrite (IHl _ F1), (IHr _ F2). reflexivity.
    - destruct e; [discriminate|]. cbn [range_brules]. simpl app.
      generalize 0 as i. induction IH as [|a r Ha _ IHr]; intros i; [reflexivity|].
      simpl in F. apply andb_true_iff in F. destruct F as [Fa Fr]. rewrite (Ha _ Fa), (IHr Fr). reflexivity.
  Qed.
  Lemma range_ies_sterm o : forall t p, sterm t = true -> range_ies o p t = [].
  Proof.
    induction t as [x|s|u a IH|b l r IHl IHr|l r IHl IHr|n xs e IH|xs IH] using term_ind'; intros p F;
      simpl in F; try discriminate; try reflexivity.
    - simpl. apply IH, F.
    - apply andb_true_iff in F. destruct F as [F1 F2]. simpl. rewrite (IHl _ F1), (IHr _ F2). reflexivity.
    - destruct e; [discriminate|]. cbn [range_ies].
      generalize 0 as i. induction IH as [|a r Ha _ IHr]; intros i; [reflexivity|].
      simpl in F. apply andb_true_iff in F. destruct F as [Fa Fr]. rewrite (Ha _ Fa), (IHr Fr). reflexivity.
  Qed.
  Lemma tnames_rt o o' t proj p : sterm t = true -> tnames o' proj p (rt t) = map rn (tnames o proj p t).
  Proof.
    intros F. rewrite (tnames_sterm o' _ _ _ (sterm_rt t F)), (tnames_sterm o _ _ _ F), vars_rt, !map_map. reflexivity.
  Qed.

  (* simplification does not look at the names *)
  Definition smap (v: sval) : sval := match v with VLin x m n => VLin (sg x) m n | _ => v end.
  Lemma smap_vlin x m n : smap (vlin x m n) = vlin (sg x) m n.
  Proof. unfold vlin. destruct (fits m && fits n); reflexivity. Qed.
  Lemma smap_vnum z : smap (vnum z) = vnum z.
  Proof. unfold vnum. destruct (fits z); reflexivity. Qed.
  Lemma existsb_smap (f: sval -> bool) vs : (forall v, f (smap v) = f v) -> existsb f (map smap vs) = existsb f vs.
  Proof. intros H. induction vs as [|v r IH]; simpl; [reflexivity|]. rewrite IH, H. reflexivity. Qed.
  Lemma bad_of_smap vs : bad_of (map smap vs) = bad_of vs.
  Proof.
    unfold bad_of. rewrite (existsb_smap is_out), (existsb_smap is_undef); try reflexivity; intros v; destruct v; reflexivity.
  Qed.
  Lemma simp_rt : forall t, sterm t = true -> simp (rt t) = smap (simp t).
  Proof.
    induction t as [x|s|u a IH|o l r IHl IHr|l r IHl IHr|n xs e IH|xs IH] using term_ind'; intros F; simpl in F; try discriminate.
    - reflexivity.
    - simpl. destruct s; try reflexivity. symmetry. apply smap_vnum.
    - simpl. fold (rt a). rewrite (IH F). destruct (simp a); simpl; try reflexivity;
        destruct u; simpl; rewrite ?smap_vnum, ?smap_vlin; reflexivity.
    - apply andb_true_iff in F. destruct F as [F1 F2]. simpl. fold (rt l). fold (rt r). rewrite (IHl F1), (IHr F2).
      destruct (simp l) as [| |a|x m n| | |], (simp r) as [| |b|y k j| | |]; simpl; try reflexivity;
        destruct o; simpl; rewrite ?smap_vnum, ?smap_vlin; try reflexivity;
        repeat match goal with |- context [if ?c then _ else _] => destruct c end;
        simpl; rewrite ?smap_vnum, ?smap_vlin; try reflexivity;
        unfold fold_bin, zpow; repeat match goal with |- context [if ?c then _ else _] => destruct c end;
        simpl; rewrite ?smap_vnum; reflexivity.
    - destruct e; [discriminate|]. simpl. rewrite map_map.
      assert (E: map (fun x => simp (vmap_term (fun x0 => TVar (sg x0)) x)) xs = map smap (map simp xs)).
      { rewrite map_map. assert (F': forallb sterm xs = true) by exact F. rewrite forallb_forall in F'. rewrite Forall_forall in IH.
        apply map_ext_in. intros a Ha. apply (IH a Ha (F' a Ha)). }
      rewrite E, bad_of_smap. destruct (bad_of (map simp xs)) as [v|] eqn:B; [|reflexivity].
      unfold bad_of in B. destruct (existsb is_out (map simp xs)); [inversion B; reflexivity|].
      destruct (existsb is_undef (map simp xs)); inversion B; reflexivity.
  Qed.

  Lemma smap_sym v : smap v = VSym <-> v = VSym.
  Proof. destruct v; simpl; split; congruence. Qed.

  Lemma bnames_rt o o' : forall t p, sterm t = true -> bnames o' p (rt t) = map rn (bnames o p t).
  Proof.
    assert (Lin: forall T p, sterm T = true -> forall x m n, simp T = VLin x m n ->
              (if (m =? 0)%Z then [] else tnames o' false p (rt T)) = map rn (if (m =? 0)%Z then [] else tnames o false p T)).
    { intros T p F x m n _. destruct (m =? 0)%Z; [reflexivity | apply (tnames_rt o o' T false p F)]. }
    assert (Hun: forall u a p, (forall p, sterm a = true -> bnames o' p (rt a) = map rn (bnames o p a)) -> sterm a = true ->
              bnames_struct o' p (rt (TUn u a)) = map rn (bnames_struct o p (TUn u a))).
    { intros u a p IH F. unfold bnames_struct. change (rt (TUn u a)) with (TUn u (rt a)).
      destruct u; try reflexivity. rewrite (simp_rt a F). destruct (simp a); cbn [smap]; try reflexivity. apply IH, F. }
    assert (Hfun: forall n xs (e: bool) p, Forall (fun a => forall p, sterm a = true -> bnames o' p (rt a) = map rn (bnames o p a)) xs ->
              (if e then false else forallb sterm xs) = true ->
              bnames_struct o' p (rt (TFun n xs e)) = map rn (bnames_struct o p (TFun n xs e))).
    { intros n xs e p IH F. destruct e; [discriminate|]. unfold bnames_struct. rewrite rt_fun. generalize 0 as i.
      induction IH as [|a q Ha _ IHq]; intros i; [reflexivity|].
      simpl in F. apply andb_true_iff in F. destruct F as [Fa Fq].
      simpl map. rewrite map_app, (Ha _ Fa), (IHq Fq). reflexivity. }
    induction t as [x|s|u a IH|b l r IHl IHr|l r IHl IHr|n xs e IH|xs IH] using term_ind'; intros p F;
      pose proof F as F0; simpl in F; try discriminate;
      rewrite (bnames_unfold o' p), (bnames_unfold o p), (simp_rt _ F0);
      match goal with |- context [smap (simp ?T)] => destruct (simp T) eqn:E end; cbn [smap];
      try (apply (Lin _ p F0 _ _ _ E)); try reflexivity.
    - apply Hun; assumption.
    - apply Hun; assumption.
    - apply Hun; assumption.
    - apply Hun; assumption.
    - apply Hun; assumption.
    - apply Hun; assumption.
    - apply Hfun; assumption.
    - apply Hfun; assumption.
    - apply Hfun; assumption.
    - apply Hfun; assumption.
    - apply Hfun; assumption.
    - apply Hfun; assumption.
  Qed.

  (* linear forms *)
  Definition rnc (xc: name * Z) : name * Z := (rn (fst xc), snd xc).
  Definition lmap (f: lform) : lform := (map rnc (fst f), snd f).
  Lemma lmap_scale c f : lmap (lscale c f) = lscale c (lmap f).
  Proof. unfold lmap, lscale. simpl. rewrite !map_map. reflexivity. Qed.
  Lemma lmap_add f g : lmap (ladd f g) = ladd (lmap f) (lmap g).
  Proof. unfold lmap, ladd. simpl. rewrite map_app. reflexivity. Qed.
  Lemma lmap_sub f g : lmap (lsub f g) = lsub (lmap f) (lmap g).
  Proof. unfold lsub. rewrite lmap_add, lmap_scale. reflexivity. Qed.
  Lemma omap_oadd f g : option_map lmap (oadd f g) = oadd (option_map lmap f) (option_map lmap g).
  Proof. destruct f, g; simpl; try reflexivity. rewrite lmap_add. reflexivity. Qed.
  Lemma ladd1_rn x c ts : ladd1 (rn x) c (map rnc ts) = map rnc (ladd1 x c ts).
  Proof.
    induction ts as [|[y d] r IH]; simpl; [reflexivity|]. rewrite name_eqb_rn.
    destruct (name_eqb x y); simpl; [reflexivity|]. rewrite IH. reflexivity.
  Qed.
  Lemma lmap_norm f : lmap (lnorm f) = lnorm (lmap f).
  Proof.
    unfold lnorm, lmap. simpl. f_equal.
    assert (K: forall ts acc, fold_left (fun acc xc => ladd1 (fst xc) (snd xc) acc) (map rnc ts) (map rnc acc)
                              = map rnc (fold_left (fun acc xc => ladd1 (fst xc) (snd xc) acc) ts acc)).
    { induction ts as [|[x c] r IH]; intros acc; simpl; [reflexivity|]. rewrite ladd1_rn. apply IH. }
    pose proof (K (fst f) []) as K0. cbn [map] in K0. rewrite K0. clear K K0.
    induction (fold_left (fun acc xc => ladd1 (fst xc) (snd xc) acc) (fst f) []) as [|[y d] r IH]; simpl; [reflexivity|].
    destruct (negb (d =? 0)%Z); simpl; rewrite <- IH; reflexivity.
  Qed.

  Lemma smap_num v z : smap v = VNum z <-> v = VNum z.
  Proof. destruct v; simpl; split; congruence. Qed.

  Lemma linform_rt o o' : forall t p, sterm t = true -> linform o' p (rt t) = option_map lmap (linform o p t).
  Proof.
    induction t as [x|s|u a IH|b l r IHl IHr|l r IHl IHr|n xs e IH|xs IH] using term_ind'; intros p F;
      pose proof F as F0; simpl in F; try discriminate.
    - simpl. unfold vname. rewrite sg_eqb. apply negb_true_iff in F. rewrite F. reflexivity.
    - simpl rt. destruct s; simpl; try reflexivity. unfold vnum. destruct (fits z); reflexivity.
    - assert (E: simp (TUn u (rt a)) = smap (simp (TUn u a))) by (apply (simp_rt (TUn u a)), F0).
      change (rt (TUn u a)) with (TUn u (rt a)). cbn [linform]. rewrite E.
      destruct (simp (TUn u a)) eqn:Es; simpl smap; cbv iota; try reflexivity;
        (destruct u; try reflexivity; rewrite (IH _ F); destruct (linform o (0 :: p) a); simpl; try reflexivity;
         rewrite lmap_scale; reflexivity).
    - apply andb_true_iff in F. destruct F as [F1 F2].
      assert (E: simp (TBin b (rt l) (rt r)) = smap (simp (TBin b l r))) by (apply (simp_rt (TBin b l r)), F0).
      change (rt (TBin b l r)) with (TBin b (rt l) (rt r)). cbn [linform]. rewrite E.
      destruct (simp (TBin b l r)) eqn:Es; simpl smap; cbv iota; try reflexivity;
        (destruct b; try reflexivity; rewrite (IHl _ F1), (IHr _ F2);
         destruct (linform o (0 :: p) l) as [[tl cl]|], (linform o (1 :: p) r) as [[tr cr]|]; simpl; try reflexivity;
         try (rewrite <- lmap_add; simpl; rewrite ?lmap_scale; reflexivity);
         try (unfold lmap, ladd, lscale; simpl; rewrite ?map_app, ?map_map; reflexivity);
         destruct tl as [|t1 tl]; simpl; try (unfold lmap, lscale; simpl; rewrite ?map_map; reflexivity);
         destruct tr as [|t2 tr]; simpl; try reflexivity; unfold lmap, lscale; simpl; rewrite ?map_map; reflexivity).
    - destruct e; [discriminate|].
      assert (E: simp (TFun n (map rt xs) false) = smap (simp (TFun n xs false))) by (apply (simp_rt (TFun n xs false)), F0).
      rewrite rt_fun. cbn [linform]. rewrite E.
      destruct (simp (TFun n xs false)) eqn:Es; simpl smap; cbv iota; reflexivity.
  Qed.

  Lemma sterm_no_anon : forall t, sterm t = true -> existsb (String.eqb "_") (vars_term t) = false.
  Proof.
    induction t as [x|s|u a IH|b l r IHl IHr|l r IHl IHr|n xs e IH|xs IH] using term_ind'; intros F; simpl in F; try discriminate.
    - cbn [vars_term existsb]. apply negb_true_iff in F. rewrite String.eqb_sym, F. reflexivity.
    - reflexivity.
    - apply IH, F.
    - apply andb_true_iff in F. destruct F as [F1 F2]. cbn [vars_term]. rewrite existsb_app, (IHl F1), (IHr F2). reflexivity.
    - destruct e; [discriminate|]. cbn [vars_term]. induction IH as [|a q Ha _ IHq]; [reflexivity|].
      simpl in F. apply andb_true_iff in F. destruct F as [Fa Fq]. cbn [flat_map]. rewrite existsb_app, (Ha Fa), (IHq Fq). reflexivity.
  Qed.
  Lemma arith_name_rt o o' p t : sterm t = true -> arith_name o' p (rt t) = rn (arith_name o p t).
  Proof.
    intros F. unfold arith_name. rewrite (sterm_no_anon _ (sterm_rt t F)), (sterm_no_anon t F). reflexivity.
  Qed.
  Lemma is_opaque_rt t : sterm t = true -> is_opaque (rt t) = is_opaque t.
  Proof. intros F. unfold is_opaque. rewrite (simp_rt t F). destruct (simp t); reflexivity. Qed.

  Lemma linform_rel_rt op o o' p t : sterm t = true ->
    linform_rel op o' p (rt t) = option_map lmap (linform_rel op o p t).
  Proof.
    intros F. unfold linform_rel. rewrite (is_opaque_rt t F). destruct (cmp_eqb op CEq && is_opaque t)%bool.
    - rewrite (arith_name_rt o o' p t F). reflexivity.
    - apply linform_rt, F.
  Qed.
  Lemma op_ies_rt a b op : op_ies (option_map lmap a) (option_map lmap b) op = map lmap (op_ies a b op).
  Proof.
    destruct a as [a|], b as [b|]; simpl; try reflexivity.
    destruct op; simpl; unfold ie_ge0; rewrite ?lmap_norm, ?lmap_sub; reflexivity.
  Qed.
  Lemma arith_def_ies_rt op o o' p t : sterm t = true ->
    arith_def_ies op o' p (rt t) = map lmap (arith_def_ies op o p t).
  Proof.
    intros F. unfold arith_def_ies. rewrite (is_opaque_rt t F). destruct (cmp_eqb op CEq && is_opaque t)%bool; [|reflexivity].
    rewrite (linform_rt o o' t p F). destruct (linform o p t) as [f|]; simpl; [|reflexivity].
    unfold ie_ge0. rewrite !lmap_norm, !lmap_sub, (arith_name_rt o o' p t F). reflexivity.
  Qed.
  Lemma rel_ies_rt o o' pl l op pr r : sterm l = true -> sterm r = true ->
    rel_ies o' pl (rt l) op pr (rt r) = map lmap (rel_ies o pl l op pr r).
  Proof.
    intros Fl Fr. unfold rel_ies.
    rewrite (arith_def_ies_rt op o o' pl l Fl), (arith_def_ies_rt op o o' pr r Fr),
            (linform_rel_rt op o o' pl l Fl), (linform_rel_rt op o o' pr r Fr),
            (linform_rt o o' l pl Fl), (linform_rt o o' r pr Fr), !op_ies_rt, !map_app.
    destruct (cmp_eqb op CEq); reflexivity.
  Qed.

  (* ----- literals ----- *)
  Definition rmap (r: list name * list name) : list name * list name := (map rn (fst r), map rn (snd r)).
  Definition vg (g: guard) : guard := Normalize.vmap_guard (fun x => TVar (sg x)) g.

  Lemma rl_sym s t : rl (Lit s (ASym t)) = Lit s (ASym (rt t)).
  Proof. reflexivity. Qed.
  Lemma rl_cmp s t gs : rl (Lit s (ACmp t gs)) = Lit s (ACmp (rt t) (map vg gs)).
  Proof. reflexivity. Qed.
  Lemma rl_bool s b : rl (Lit s (ABool b)) = Lit s (ABool b).
  Proof. reflexivity. Qed.

  Lemma c2cl_idx_rt gs : forall k t,
    c2cl_idx k (rt t) (map vg gs) = map (fun q => match q with (kl, a, op, kr, b) => (kl, rt a, op, kr, rt b) end) (c2cl_idx k t gs).
  Proof. induction gs as [|[op r] gs IH]; intros k t; simpl; [reflexivity|]. fold (rt r). rewrite IH. reflexivity. Qed.
  Lemma eff_rels_rt s t gs :
    eff_rels s (rt t) (map vg gs) = map (fun q => match q with (kl, a, op, kr, b) => (kl, rt a, op, kr, rt b) end) (eff_rels s t gs).
  Proof.
    destruct s; simpl; try apply c2cl_idx_rt. destruct gs as [|[op r] [|g2 gs]]; reflexivity.
  Qed.
  Lemma eff_rels_sterm s t gs q :
    sterm t = true -> forallb (fun g => sterm (snd g)) gs = true -> In q (eff_rels s t gs) ->
    match q with (_, a, _, _, b) => sterm a = true /\ sterm b = true end.
  Proof.
    intros Ft Fg Hq.
    assert (K: forall gs k t q, sterm t = true -> forallb (fun g => sterm (snd g)) gs = true -> In q (c2cl_idx k t gs) ->
               match q with (_, a, _, _, b) => sterm a = true /\ sterm b = true end).
    { clear. induction gs as [|[op r] gs IH]; intros k t q Ft Fg Hq; [destruct Hq|].
      simpl in Fg. apply andb_true_iff in Fg. destruct Fg as [Fr Fg]. simpl in Hq. destruct Hq as [<-|Hq].
      - split; assumption.
      - apply (IH _ _ _ Fr Fg Hq). }
    destruct s; simpl in Hq; try (apply (K gs 0 t q Ft Fg Hq)).
    destruct gs as [|[op r] [|g2 gs]]; simpl in Hq; try contradiction. destruct Hq as [<-|[]].
    simpl in Fg. apply andb_true_iff in Fg. split; [exact Ft | apply Fg].
  Qed.

  Lemma imap_from_map {X Y Z} (f: nat -> Y -> Z) (g: X -> Y) : forall l i, imap_from i f (map g l) = imap_from i (fun j x => f j (g x)) l.
  Proof. induction l as [|a r IH]; intros i; simpl; [reflexivity | rewrite IH; reflexivity]. Qed.
  Lemma imap_from_map_out {X Y Z} (f: nat -> X -> Y) (g: Y -> Z) : forall l i, map g (imap_from i f l) = imap_from i (fun j x => g (f j x)) l.
  Proof. induction l as [|a r IH]; intros i; simpl; [reflexivity | rewrite IH; reflexivity]. Qed.

  Lemma level_terms_rl l : slit l = true ->
    level_terms (rl l) = map (fun pt => (fst pt, rt (snd pt))) (level_terms l).
  Proof.
    destruct l as [s [t|t gs|v|lg f es rg|lg es rg|tx]]; simpl; try discriminate; intros F; try reflexivity.
    f_equal. unfold imap. rewrite imap_from_map, imap_from_map_out. reflexivity.
  Qed.
  Lemma level_terms_sterm l p t : slit l = true -> In (p, t) (level_terms l) -> sterm t = true.
  Proof.
    destruct l as [s [u|u gs|v|lg f es rg|lg es rg|tx]]; simpl; try discriminate; intros F H.
    - destruct H as [E|[]]. inversion E. subst. exact F.
    - apply andb_true_iff in F. destruct F as [Fu Fg]. destruct H as [E|H]; [inversion E; subst; exact Fu|].
      unfold imap in H. destruct (imap_from_in _ _ _ _ H) as [j [g [Hg E]]]. inversion E. subst.
      rewrite forallb_forall in Fg. apply Fg, Hg.
    - destruct H.
  Qed.
  Lemma is_neg_sym_rl l : is_neg_sym (rl l) = is_neg_sym l.
  Proof. destruct l as [s [t|t gs|v|lg f es rg|lg es rg|tx]]; destruct s; reflexivity. Qed.

  Lemma lit_range_brules_slit l : slit l = true -> lit_range_brules l = [].
  Proof.
    intros F. unfold lit_range_brules. induction (level_terms l) as [|[p t] r IH] eqn:E; [reflexivity|].
    assert (K: forall q, incl q (level_terms l) -> flat_map (fun pt => range_brules l (fst pt) (snd pt)) q = []).
    { clear IH. induction q as [|[p' t'] q IHq]; intros Hq; [reflexivity|]. simpl.
      rewrite (range_brules_sterm l t' p' (level_terms_sterm l p' t' F (Hq _ (or_introl eq_refl)))). simpl.
      apply IHq. intros x Hx. apply Hq. right. exact Hx. }
    rewrite <- E. apply K, incl_refl.
  Qed.
  Lemma lit_range_ies_slit l : slit l = true -> lit_range_ies l = [].
  Proof.
    intros F. unfold lit_range_ies.
    assert (K: forall q, incl q (level_terms l) -> flat_map (fun pt => range_ies l (fst pt) (snd pt)) q = []).
    { induction q as [|[p' t'] q IHq]; intros Hq; [reflexivity|]. simpl.
      rewrite (range_ies_sterm l t' p' (level_terms_sterm l p' t' F (Hq _ (or_introl eq_refl)))). simpl.
      apply IHq. intros x Hx. apply Hq. right. exact Hx. }
    apply K, incl_refl.
  Qed.
  Lemma slit_rl l : slit l = true -> slit (rl l) = true.
  Proof.
    destruct l as [s [t|t gs|v|lg f es rg|lg es rg|tx]]; simpl; try discriminate; intros F.
    - apply (sterm_rt t F).
    - apply andb_true_iff in F. destruct F as [Ft Fg]. fold (rt t). rewrite (sterm_rt t Ft). simpl.
      rewrite forallb_forall in Fg. apply forallb_forall. intros g Hg. apply in_map_iff in Hg. destruct Hg as [g0 [<- Hg0]].
      simpl. apply (sterm_rt (snd g0)), Fg, Hg0.
    - reflexivity.
  Qed.

  Lemma lit_needed_rl l : slit l = true -> lit_needed (rl l) = map rn (lit_needed l).
  Proof.
    intros F. unfold lit_needed, lit_range_needed. rewrite (lit_range_brules_slit l F), (lit_range_brules_slit _ (slit_rl l F)).
    simpl. rewrite !app_nil_r, (level_terms_rl l F), is_neg_sym_rl, map_flat_map, flat_map_concat_map, map_map, <- flat_map_concat_map.
    assert (K: forall q, incl q (level_terms l) ->
               flat_map (fun x => tnames (rl l) (is_neg_sym l) (fst (fst x, rt (snd x))) (snd (fst x, rt (snd x)))) q
               = flat_map (fun x => map rn (tnames l (is_neg_sym l) (fst x) (snd x))) q).
    { induction q as [|[p t] q IHq]; intros Hq; [reflexivity|]. simpl.
      rewrite (tnames_rt l (rl l) t _ p (level_terms_sterm l p t F (Hq _ (or_introl eq_refl)))).
      f_equal. apply IHq. intros x Hx. apply Hq. right. exact Hx. }
    apply K, incl_refl.
  Qed.

  Lemma lit_brules_rl l : slit l = true -> lit_brules [] (rl l) = map rmap (lit_brules [] l).
  Proof.
    intros F. unfold lit_brules. rewrite (lit_range_brules_slit l F), (lit_range_brules_slit _ (slit_rl l F)). simpl app.
    destruct l as [s [t|t gs|v|lg f es rg|lg es rg|tx]]; try discriminate.
    - rewrite rl_sym. destruct s; try reflexivity. simpl map. unfold rmap. simpl. f_equal. f_equal.
      apply (bnames_rt (Lit NoSign (ASym t)) (Lit NoSign (ASym (rt t))) t [] F).
    - rewrite rl_cmp. simpl in F. apply andb_true_iff in F. destruct F as [Ft Fg].
      assert (K: flat_map (fun q => match q with (kl, a, op, kr, b) =>
                    if cmp_eqb op CEq
                    then [(tnames (Lit s (ACmp (rt t) (map vg gs))) false [kr] b, bnames (Lit s (ACmp (rt t) (map vg gs))) [kl] a);
                          (tnames (Lit s (ACmp (rt t) (map vg gs))) false [kl] a, bnames (Lit s (ACmp (rt t) (map vg gs))) [kr] b)]
                    else [] end) (eff_rels s (rt t) (map vg gs))
                 = map rmap (flat_map (fun q => match q with (kl, a, op, kr, b) =>
                    if cmp_eqb op CEq
                    then [(tnames (Lit s (ACmp t gs)) false [kr] b, bnames (Lit s (ACmp t gs)) [kl] a);
                          (tnames (Lit s (ACmp t gs)) false [kl] a, bnames (Lit s (ACmp t gs)) [kr] b)]
                    else [] end) (eff_rels s t gs))).
      { rewrite eff_rels_rt.
        assert (G: forall qs, incl qs (eff_rels s t gs) ->
          flat_map (fun q => match q with (kl, a, op, kr, b) =>
                    if cmp_eqb op CEq
                    then [(tnames (Lit s (ACmp (rt t) (map vg gs))) false [kr] b, bnames (Lit s (ACmp (rt t) (map vg gs))) [kl] a);
                          (tnames (Lit s (ACmp (rt t) (map vg gs))) false [kl] a, bnames (Lit s (ACmp (rt t) (map vg gs))) [kr] b)]
                    else [] end)
                   (map (fun q => match q with (kl, a, op, kr, b) => (kl, rt a, op, kr, rt b) end) qs)
          = map rmap (flat_map (fun q => match q with (kl, a, op, kr, b) =>
                    if cmp_eqb op CEq
                    then [(tnames (Lit s (ACmp t gs)) false [kr] b, bnames (Lit s (ACmp t gs)) [kl] a);
                          (tnames (Lit s (ACmp t gs)) false [kl] a, bnames (Lit s (ACmp t gs)) [kr] b)]
                    else [] end) qs)).
        { induction qs as [|[[[[kl a] op] kr] b] qs IHq]; intros Hq; [reflexivity|]. simpl.
          destruct (eff_rels_sterm s t gs _ Ft Fg (Hq _ (or_introl eq_refl))) as [Fa Fb].
          rewrite map_app, (IHq (fun x Hx => Hq x (or_intror Hx))). f_equal.
          destruct (cmp_eqb op CEq); [|reflexivity]. simpl. unfold rmap. simpl.
          rewrite (tnames_rt (Lit s (ACmp t gs)) _ b false [kr] Fb), (tnames_rt (Lit s (ACmp t gs)) _ a false [kl] Fa),
                  (bnames_rt (Lit s (ACmp t gs)) (Lit s (ACmp (rt t) (map vg gs))) a [kl] Fa),
                  (bnames_rt (Lit s (ACmp t gs)) (Lit s (ACmp (rt t) (map vg gs))) b [kr] Fb). reflexivity. }
        apply G, incl_refl. }
      destruct s; exact K.
    - rewrite rl_bool. destruct s; reflexivity.
  Qed.

  Lemma lit_ies_rl l : slit l = true -> lit_ies (rl l) = map lmap (lit_ies l).
  Proof.
    intros F. unfold lit_ies. rewrite (lit_range_ies_slit l F), (lit_range_ies_slit _ (slit_rl l F)), !app_nil_r.
    destruct l as [s [t|t gs|v|lg f es rg|lg es rg|tx]]; try discriminate; try reflexivity.
    rewrite rl_cmp. simpl in F. apply andb_true_iff in F. destruct F as [Ft Fg]. rewrite eff_rels_rt.
    assert (G: forall qs, incl qs (eff_rels s t gs) ->
      flat_map (fun q => match q with (kl, a, op, kr, b) => rel_ies (Lit s (ACmp (rt t) (map vg gs))) [kl] a op [kr] b end)
               (map (fun q => match q with (kl, a, op, kr, b) => (kl, rt a, op, kr, rt b) end) qs)
      = map lmap (flat_map (fun q => match q with (kl, a, op, kr, b) => rel_ies (Lit s (ACmp t gs)) [kl] a op [kr] b end) qs)).
    { induction qs as [|[[[[kl a] op] kr] b] qs IHq]; intros Hq; [reflexivity|]. simpl.
      destruct (eff_rels_sterm s t gs _ Ft Fg (Hq _ (or_introl eq_refl))) as [Fa Fb].
      rewrite map_app, (IHq (fun x Hx => Hq x (or_intror Hx))). f_equal.
      apply (rel_ies_rt (Lit s (ACmp t gs)) _ [kl] a op [kr] b Fa Fb). }
    apply G, incl_refl.
  Qed.

  (* ----- the fixpoints, forward ----- *)
  Lemma derivable_map {X Y} (f: X -> Y) rules B0 x :
    derivable rules B0 x ->
    derivable (map (fun r => (map f (fst r), map f (snd r))) rules) (map f B0) (f x).
  Proof.
    induction 1 as [x Hx|D P x HDP _ IH Hx]; [apply d_base, in_map, Hx|].
    eapply d_rule with (D := map f D) (P := map f P).
    - apply in_map_iff. exists (D, P). split; [reflexivity | exact HDP].
    - intros d Hd. apply in_map_iff in Hd. destruct Hd as [d0 [<- Hd0]]. apply IH, Hd0.
    - apply in_map, Hx.
  Qed.

  Definition ft (t: tag) : tag := (fst t, rn (snd t)).
  Lemma filter_map_rnc (x: name) ts :
    filter (fun yd => negb (name_eqb (fst yd) (rn x))) (map rnc ts)
    = map rnc (filter (fun yd => negb (name_eqb (fst yd) x)) ts).
  Proof.
    induction ts as [|[y d] r IH]; simpl; [reflexivity|]. rewrite name_eqb_rn.
    destruct (negb (name_eqb y x)); simpl; rewrite IH; reflexivity.
  Qed.
  Lemma ie_rules_lmap e : ie_rules (lmap e) = map (fun r => (map ft (fst r), map ft (snd r))) (ie_rules e).
  Proof.
    unfold ie_rules, lmap. simpl. rewrite !map_map. apply map_ext. intros [x c]. simpl.
    rewrite filter_map_rnc, !map_map. reflexivity.
  Qed.
  Lemma ie_closure_rt ies t : In t (ie_closure ies []) -> In (ft t) (ie_closure (map lmap ies) []).
  Proof.
    assert (E: flat_map ie_rules (map lmap ies) = map (fun r => (map ft (fst r), map ft (snd r))) (flat_map ie_rules ies)).
    { induction ies as [|e r IH]; simpl; [reflexivity|]. rewrite map_app, IH, ie_rules_lmap. reflexivity. }
    unfold ie_closure. intros H. apply tcl_spec in H. apply tcl_spec.
    apply (derivable_map ft) in H. simpl in H.
    rewrite E. exact H.
  Qed.
  Lemma is_aux_rn n : is_aux (rn n) = is_aux n.
  Proof. destruct n; reflexivity. Qed.
  Lemma bounded_names_rt ies n :
    In n (bounded_names [] (ie_closure ies [])) -> In (rn n) (bounded_names [] (ie_closure (map lmap ies) [])).
  Proof.
    rewrite !bounded_names_In, is_aux_rn. intros [A [_ [L U]]]. repeat split; try exact A.
    - intros [].
    - apply (ie_closure_rt ies (true, n) L).
    - apply (ie_closure_rt ies (false, n) U).
  Qed.

  (* the head *)
  Lemma head_carrier_rl h : slit h = true ->
    lit_range_brules (head_carrier h) = [] /\ lit_range_ies (head_carrier h) = []
    /\ lit_range_brules (head_carrier (rl h)) = [] /\ lit_range_ies (head_carrier (rl h)) = []
    /\ extra_needed (head_carrier (rl h)) = map rn (extra_needed (head_carrier h)).
  Proof.
    intros F. destruct h as [s [t|t gs|v|lg f es rg|lg es rg|tx]]; try discriminate.
    - assert (Fc: slit (carrier "#head" [t]) = true) by (simpl; simpl in F; rewrite F; reflexivity).
      assert (E: head_carrier (rl (Lit s (ASym t))) = rl (carrier "#head" [t])) by reflexivity.
      rewrite E. unfold head_carrier.
      repeat split; try (apply lit_range_brules_slit; assumption); try (apply lit_range_ies_slit; assumption);
        try (apply lit_range_brules_slit, slit_rl; assumption); try (apply lit_range_ies_slit, slit_rl; assumption).
      apply (lit_needed_rl (carrier "#head" [t]) Fc).
    - assert (E: forall t gs, extra_needed (head_carrier (Lit s (ACmp t gs))) = lit_needed (Lit s (ACmp t gs))).
      { intros t0 gs0. unfold head_carrier, extra_needed, extra_needed_p, lit_needed. destruct s; reflexivity. }
      rewrite rl_cmp. unfold head_carrier at 1 2 3 4.
      repeat split; try (apply lit_range_brules_slit; assumption); try (apply lit_range_ies_slit; assumption);
        try (rewrite <- rl_cmp; apply lit_range_brules_slit, slit_rl; assumption);
        try (rewrite <- rl_cmp; apply lit_range_ies_slit, slit_rl; assumption).
      rewrite (E (rt t) (map vg gs)), (E t gs). rewrite <- rl_cmp. apply lit_needed_rl, F.
    - rewrite rl_bool. repeat split; reflexivity.
  Qed.

  Lemma flat_map_rl {X Y} (f f': lit -> list X) (g: list Y -> list X) (k: lit -> list Y) ls :
    (forall l, In l ls -> f' (rl l) = g (k l)) -> (forall a b, g (a ++ b) = g a ++ g b) -> g [] = [] ->
    flat_map f' (map rl ls) = g (flat_map k ls).
  Proof.
    intros H Ha Hn. induction ls as [|l r IH]; simpl; [symmetry; exact Hn|].
    rewrite Ha, (H l (or_introl eq_refl)). f_equal. apply IH. intros x Hx. apply H. right. exact Hx.
  Qed.

  (** C.2(d): renaming the variables injectively (and not to `_`) keeps a flat rule without `_`,
      intervals and @-calls safe *)
  Theorem rename_safe n h ls :
    forallb slit (h :: ls) = true ->
    safe_core (SRule n (HLit h) (map BLit ls)) = true ->
    safe_core (SRule n (HLit (rl h)) (map BLit (map rl ls))) = true.
  Proof.
    intros F S. simpl in F. apply andb_true_iff in F. destruct F as [Fh Fl]. rewrite forallb_forall in Fl.
    assert (P1: flat_body (map BLit ls) = true).
    { rewrite flat_body_map. apply forallb_forall. intros l Hl. apply slit_plain, Fl, Hl. }
    assert (P2: flat_body (map BLit (map rl ls)) = true).
    { rewrite flat_body_map. apply forallb_forall. intros l Hl. apply in_map_iff in Hl. destruct Hl as [l0 [<- Hl0]].
      apply slit_plain, slit_rl, Fl, Hl0. }
    apply (proj2 (safe_flat n _ _ P2)). pose proof (proj1 (safe_flat n _ _ P1) S) as S'. clear S.
    rewrite blits_map in *.
    destruct (head_carrier_rl h Fh) as [R1 [I1 [R2 [I2 EN]]]].
    (* the rules and inequalities of the renamed rule are the renamed ones *)
    assert (ER: scope_rules no_gin (map rl ls) [head_carrier (rl h)] = map rmap (scope_rules no_gin ls [head_carrier h])).
    { unfold scope_rules. cbn [flat_map]. rewrite R1, R2, !app_nil_r. unfold no_gin.
      apply (flat_map_rl (fun l => lit_brules [] l) (fun l => lit_brules [] l) (map rmap) (fun l => lit_brules [] l));
        [intros l Hl; apply lit_brules_rl, Fl, Hl | apply map_app | reflexivity]. }
    assert (EI: scope_ies (map rl ls) [head_carrier (rl h)] = map lmap (scope_ies ls [head_carrier h])).
    { unfold scope_ies. cbn [flat_map]. rewrite I1, I2, !app_nil_r.
      apply (flat_map_rl lit_ies lit_ies (map lmap) lit_ies);
        [intros l Hl; apply lit_ies_rl, Fl, Hl | apply map_app | reflexivity]. }
    assert (EN': scope_needed false (map rl ls) [head_carrier (rl h)] = map rn (scope_needed false ls [head_carrier h])).
    { unfold scope_needed. cbn [flat_map]. fold (extra_needed (head_carrier (rl h))). fold (extra_needed (head_carrier h)).
      rewrite EN, !app_nil_r, map_app. f_equal.
      apply (flat_map_rl lit_needed lit_needed (map rn) lit_needed);
        [intros l Hl; apply lit_needed_rl, Fl, Hl | apply map_app | reflexivity]. }
    intros x Hx. rewrite EN' in Hx. apply in_map_iff in Hx. destruct Hx as [x0 [<- Hx0]].
    specialize (S' x0 Hx0). unfold bound in *. rewrite ER, EI.
    apply (derivable_map rn) in S'.
    eapply derivable_mono; [apply incl_refl| |exact S'].
    intros y Hy. apply in_map_iff in Hy. destruct Hy as [y0 [<- Hy0]]. apply bounded_names_rt, Hy0.
  Qed.
End Rename.

(* ====================================================================================== *)
(** * 6. The side conditions on the integer bounds are necessary (both replayed with clingo 5.8.2) *)
Definition ex_head : lit := Lit NoSign (ASym (TFun "a" [TVar "Y"] false)).
Definition ex_px : lit := Lit NoSign (ASym (TFun "p" [TVar "X"] false)).
Definition ex_x3 : lit := Lit NoSign (ACmp (TVar "X") [(CEq, TSym (SNum 3%Z))]).
Definition ex_xy : lit := Lit NoSign (ACmp (TVar "X") [(CLt, TVar "Y")]).
Definition ex_yx : lit := Lit NoSign (ACmp (TVar "Y") [(CLt, TBin BPlus (TVar "X") (TSym (SNum 2%Z)))]).
(* a(Y) :- p(X), X = 3, X < Y, Y < X+2.  is safe; deleting X = 3 (X stays bound by p(X)) makes Y unsafe *)
Theorem delete_without_bounds_condition_refuted :
  safe_stmt (SRule 1 (HLit ex_head) (map BLit [ex_px; ex_x3; ex_xy; ex_yx])) = true
  /\ (forall D P x, In (D, P) (lit_brules [] ex_x3) -> In x P -> bound [ex_px; ex_xy; ex_yx] [head_carrier ex_head] x)
  /\ lit_ies ex_x3 <> []
  /\ safe_result (SRule 1 (HLit ex_head) (map BLit [ex_px; ex_xy; ex_yx])) = Ok ["Y"].
Proof.
  split; [vm_compute; reflexivity|]. split; [|split; [vm_compute; discriminate | vm_compute; reflexivity]].
  intros D P x HDP Hx. apply (bound_positive_atom _ _ (TFun "p" [TVar "X"] false)); [left; reflexivity|].
  vm_compute in HDP. vm_compute.
  destruct HDP as [E|[E|[]]]; inversion E; subst; simpl in Hx; try contradiction.
  destruct Hx as [<-|[]]. left. reflexivity.
Qed.
(* ... and so does replacing {p(X), X = 3} by aux(X) *)
Theorem replace_without_bounds_condition_refuted :
  safe_stmt (SRule 1 (HLit ex_head) (map BLit ([ex_px; ex_x3] ++ [ex_xy; ex_yx]))) = true
  /\ safe_result (SRule 1 (HLit ex_head) (map BLit (var_atom "aux" ["X"] :: [ex_xy; ex_yx]))) = Ok ["Y"].
Proof. split; vm_compute; reflexivity. Qed.

(* ====================================================================================== *)
(** * Summary (closed under the global context) *)
Print Assumptions closure_spec.
Print Assumptions unsafe_names_perm.
Print Assumptions safe_core_perm.
Print Assumptions unsafe_vars_perm.
Print Assumptions safe_flat.
Print Assumptions add_literal_safe.
Print Assumptions add_positive_atom_safe.
Print Assumptions delete_literal_safe.
Print Assumptions replace_by_aux_safe.
Print Assumptions aux_rule_safe.
Print Assumptions rename_safe.
Print Assumptions binding_complete_implies_safe.
Print Assumptions ngo_binding_interval_refuted.
Print Assumptions ngo_binding_nested_division_refuted.
Print Assumptions ngo_binding_nested_abs_refuted.
Print Assumptions ngo_binding_external_refuted.
Print Assumptions ngo_binding_tuple_refuted.
Print Assumptions ngo_binding_repeated_variable_refuted.
Print Assumptions ngo_binding_aggregate_guard_refuted.
Print Assumptions ngo_binding_aggregate_cycle_refuted.
Print Assumptions ngo_binding_incomplete_examples.
Print Assumptions delete_without_bounds_condition_refuted.
Print Assumptions replace_without_bounds_condition_refuted.
