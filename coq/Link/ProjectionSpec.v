(* Proofs about Model/Projection.v (ngo/projection.py: largest_subset, good_split, project_rule,
   execute without inline_arithmetic).

   The split of  h :- new ++ rest  into  aux(t) :- new  and  h :- rest, aux(t)  is an instance of
   definition folding (Meta/Fold.v). The syntactic side conditions of that theorem are established here:
     * good_split_interface_proof : the argument list t of the aux atom is exactly the set of variables
       that are global in `new` and occur in `rest` or are global in the head (interface condition),
       duplicate free, strictly sorted, without "_";
     * good_split_new_safe_proof / good_split_rest_legal_proof : the two legality tests;
     * good_split_size_proof : what the size test and the "positive symbolic literal" test guarantee;
     * project_rule_shape_proof : the exact shape of the output of project_rule and the freshness of
       the aux predicate;
     * execute_core_passthrough_proof / execute_core_fresh_aux_proof : statements other than rules are
       untouched, all aux predicates of one run are pairwise distinct and unknown to the naming state
       the translator was created with.
   Stdlib only; every theorem is closed under the global context. *)
From Coq Require Import List String Ascii ZArith Bool Arith Lia Sorted Permutation OrderedTypeEx RelationClasses.
From NGO Require Import Syntax.Ast Gen.Names Model.Traverse Model.Corr Model.Binding Model.Globals
                        Model.Projection Link.GlobalsSpec Link.BindingPerm.
Import ListNotations.
Open Scope string_scope. Open Scope list_scope.

(* ------------------------------------------------------------------ *)
(* 1. sets of variable names: the basic facts are in Link/BindingPerm.v *)
(* ------------------------------------------------------------------ *)
Lemma sinter_In : forall a b x, In x (sinter a b) <-> In x a /\ In x b.
Proof. intros a b x. unfold sinter. rewrite filter_In, bsmem_In. tauto. Qed.

(* collect_ast(r, "Variable") over a list of body elements, minus the anonymous variable *)
Lemma vars_of_lits_In : forall lits x,
  In x (vars_of_lits lits) <-> (exists r, In r lits /\ In x (vars_bodyelem r)) /\ x <> "_".
Proof.
  intros lits x. unfold vars_of_lits. rewrite drop_anonymous_In, sof_In, in_flat_map. tauto.
Qed.

(* ------------------------------------------------------------------ *)
(* 2. the "bound" component of the binding analysis is duplicate free  *)
(*    and neither component contains "_"                               *)
(* ------------------------------------------------------------------ *)
Lemma fold_left_inv : forall (A B: Type) (P: A -> Prop) (f: A -> B -> A),
  (forall a b, P a -> P (f a b)) -> forall l a, P a -> P (fold_left f l a).
Proof. intros A B P f Hf. induction l as [|x l IH]; intros a Ha; cbn; auto. Qed.

Lemma guard_binding_NoDup : forall s g bu, NoDup (fst bu) -> NoDup (fst (guard_binding s g bu)).
Proof.
  intros s g [b u]. destruct g as [[c t]|]; cbn; [|auto].
  destruct (andb (sign_eqb s NoSign) (cmp_eqb c CEq)); cbn; auto using supdate_NoDup.
Qed.

Lemma body_stm_NoDup : forall stm bu r, body_stm stm bu = Ok r -> NoDup (fst bu) -> NoDup (fst r).
Proof.
  intros stm [bv uv] r H Hnd. cbn [fst] in Hnd. unfold body_stm in H.
  destruct stm as [l | l c].
  - destruct (simple_literal l bv uv) as [bound unbound].
    assert (Hs: NoDup (supdate bv bound)) by (apply supdate_NoDup; assumption).
    destruct l as [s a].
    destruct a as [t|t gs|bb|lg f es rg|lg es rg|txt]; try (injection H as <-; exact Hs).
    + pose proof (guard_binding_NoDup s rg _
                    (guard_binding_NoDup s lg (supdate bv bound, supdate uv unbound) Hs)) as G.
      destruct (guard_binding s rg (guard_binding s lg (supdate bv bound, supdate uv unbound))) as [bv' uv'].
      match type of H with rbind ?x _ = _ => destruct x end; cbn [rbind] in H; try discriminate.
      injection H as <-. exact G.
    + pose proof (guard_binding_NoDup s rg _
                    (guard_binding_NoDup s lg (supdate bv bound, supdate uv unbound) Hs)) as G.
      destruct (guard_binding s rg (guard_binding s lg (supdate bv bound, supdate uv unbound))) as [bv' uv'].
      match type of H with (if ?c then _ else _) = _ => destruct c end; try discriminate.
      destruct (nonempty es); try discriminate. injection H as <-. exact G.
  - destruct (lit_has_theory l); try discriminate.
    destruct (collect_binding_information_conditions c bv) as [[bound unbound]| | |];
      cbn [rbind] in H; try discriminate.
    injection H as <-. exact Hnd.
Qed.

Lemma fold_body_stm_NoDup : forall l acc r,
  fold_left (fun (acc: result (vset * vset)) stm => rbind acc (body_stm stm)) l acc = Ok r ->
  (forall a, acc = Ok a -> NoDup (fst a)) -> NoDup (fst r).
Proof.
  induction l as [|x l IH]; intros acc r H Hacc; cbn in H.
  - apply Hacc. assumption.
  - apply IH in H; [assumption|]. intros a Ha.
    destruct acc as [a0| | |]; cbn [rbind] in Ha; try discriminate.
    eapply body_stm_NoDup; [exact Ha | apply Hacc; reflexivity].
Qed.

Lemma comparisons_pass_NoDup : forall l b u, NoDup b -> NoDup (fst (comparisons_pass l b u)).
Proof.
  intros l b u H. unfold comparisons_pass.
  apply (fold_left_inv _ _ (fun acc: vset * vset => NoDup (fst acc))); [| exact H].
  intros [b0 u0] stm Hb. cbn [fst] in Hb.
  destruct stm as [[s a]|l0 c0]; [| exact Hb].
  destruct a as [t|t gs|bb|lg f es rg|lg es rg|txt]; try exact Hb.
  destruct (from_comparison_cmp s t gs b0) as [bound unbound]. cbn [fst].
  apply supdate_NoDup. exact Hb.
Qed.

Lemma comparisons_loop_NoDup : forall fuel l b u r,
  comparisons_loop fuel l b u = Ok r -> NoDup b -> NoDup (fst r).
Proof.
  induction fuel as [|f IH]; intros l b u r H Hb; cbn [comparisons_loop] in H; [discriminate|].
  pose proof (comparisons_pass_NoDup l b u Hb) as Hp.
  destruct (comparisons_pass l b u) as [b' u']. cbn [fst] in Hp. destruct (sseteq b b').
  - injection H as <-. exact Hp.
  - eapply IH; eauto.
Qed.

Lemma body_pass_NoDup : forall l bv uv r, body_pass l bv uv = Ok r -> NoDup bv -> NoDup (fst r).
Proof.
  intros l bv uv r H Hb. unfold body_pass in H.
  match type of H with rbind ?x _ = _ => destruct x as [[bv1 uv1]| | |] eqn:F end;
    cbn [rbind] in H; try discriminate.
  assert (H1: NoDup bv1).
  { apply (fold_body_stm_NoDup _ _ _ F). intros a Ha. injection Ha as <-. exact Hb. }
  unfold collect_binding_information_from_comparisons in H.
  match type of H with rbind ?x _ = _ => destruct x as [[bound unbound]| | |] eqn:C end;
    cbn [rbind] in H; try discriminate.
  injection H as <-. cbn [fst]. apply supdate_NoDup.
  apply (comparisons_loop_NoDup _ _ _ _ _ C H1).
Qed.

Lemma body_loop_eq : forall f l bv uv sz,
  body_loop f l bv uv sz =
  if Z.gtb (slen bv) sz then
    match f with
    | 0 => OutOfFuel
    | S f' => rbind (body_pass l bv uv) (fun '(bv', uv') => body_loop f' l bv' uv' (slen bv'))
    end
  else Ok (bv, uv).
Proof. destruct f; reflexivity. Qed.

Lemma body_loop_NoDup : forall f l bv uv sz r,
  body_loop f l bv uv sz = Ok r -> NoDup bv -> NoDup (fst r).
Proof.
  induction f as [|f IH]; intros l bv uv sz r H Hb; rewrite body_loop_eq in H;
    destruct (Z.gtb (slen bv) sz).
  - discriminate.
  - injection H as <-. exact Hb.
  - destruct (body_pass l bv uv) as [[bv' uv']| | |] eqn:P; cbn [rbind] in H; try discriminate.
    eapply IH; [exact H|]. apply (body_pass_NoDup _ _ _ _ P Hb).
  - injection H as <-. exact Hb.
Qed.

Lemma cbib_spec : forall l pre r,
  collect_binding_information_body l pre = Ok r ->
  NoDup (fst r) /\ ~ In "_" (fst r) /\ ~ In "_" (snd r).
Proof.
  intros l pre r H. unfold collect_binding_information_body in H.
  match type of H with rbind ?x _ = _ => destruct x as [[bv uv]| | |] eqn:L end;
    cbn [rbind] in H; try discriminate.
  injection H as <-. cbn [fst snd]. split; [| split].
  - unfold drop_anonymous. apply NoDup_filter.
    apply (body_loop_NoDup _ _ _ _ _ _ L). destruct pre; [apply supdate_NoDup|]; constructor.
  - rewrite drop_anonymous_In. tauto.
  - rewrite drop_anonymous_In. tauto.
Qed.

Lemma gvib_spec : forall l g,
  global_vars_inside_body l = Ok g ->
  exists b u, collect_binding_information_body l None = Ok (b, u) /\ g = supdate b u /\
              NoDup g /\ ~ In "_" g.
Proof.
  intros l g H. unfold global_vars_inside_body in H.
  destruct (collect_binding_information_body l None) as [[b u]| | |] eqn:E; cbn [rbind] in H; try discriminate.
  injection H as <-. exists b, u. apply cbib_spec in E. cbn [fst snd] in E. destruct E as [E1 [E2 E3]].
  repeat split.
  - apply supdate_NoDup. assumption.
  - rewrite supdate_In. tauto.
Qed.

(* ------------------------------------------------------------------ *)
(* 3. sort_strings                                                     *)
(* ------------------------------------------------------------------ *)
Definition str_le (a b: string) : Prop := string_leb a b = true.
Definition str_lt (a b: string) : Prop := String.compare a b = Lt.

Lemma string_leb_total : forall x y, string_leb x y = false -> string_leb y x = true.
Proof.
  intros x y. unfold string_leb. rewrite (String.compare_antisym y x).
  destruct (String.compare x y); cbn; congruence.
Qed.

Lemma insert_string_perm : forall x l, Permutation (insert_string x l) (x :: l).
Proof.
  intros x. induction l as [|y l IH]; cbn.
  - apply Permutation_refl.
  - destruct (string_leb x y).
    + apply Permutation_refl.
    + eapply Permutation_trans; [apply perm_skip, IH | apply perm_swap].
Qed.

Lemma sort_strings_perm : forall l, Permutation (sort_strings l) l.
Proof.
  unfold sort_strings. induction l as [|x l IH]; cbn.
  - constructor.
  - eapply Permutation_trans; [apply insert_string_perm | apply perm_skip, IH].
Qed.

Lemma sort_strings_In : forall l x, In x (sort_strings l) <-> In x l.
Proof.
  intros l x. split; apply Permutation_in; [| apply Permutation_sym]; apply sort_strings_perm.
Qed.

Lemma sort_strings_length : forall l, List.length (sort_strings l) = List.length l.
Proof. intros l. apply Permutation_length, sort_strings_perm. Qed.

Lemma insert_string_sorted : forall x l, Sorted str_le l -> Sorted str_le (insert_string x l).
Proof.
  intros x. induction l as [|y l IH]; intros H; cbn.
  - repeat constructor.
  - destruct (string_leb x y) eqn:E.
    + constructor; [assumption | constructor; exact E].
    + inversion H as [|? ? Hs Hh]; subst. constructor; [apply IH; assumption|].
      destruct l as [|z l]; cbn.
      * constructor. apply string_leb_total. assumption.
      * destruct (string_leb x z); constructor.
        -- apply string_leb_total. assumption.
        -- inversion Hh; assumption.
Qed.

Lemma sort_strings_sorted : forall l, Sorted str_le (sort_strings l).
Proof.
  unfold sort_strings. induction l as [|x l IH]; cbn; [constructor | apply insert_string_sorted, IH].
Qed.

Lemma str_lt_trans : forall x y z, str_lt x y -> str_lt y z -> str_lt x z.
Proof.
  unfold str_lt. intros x y z H1 H2.
  apply String_as_OT.cmp_lt. apply String_as_OT.cmp_lt in H1. apply String_as_OT.cmp_lt in H2.
  eapply String_as_OT.lt_trans; eassumption.
Qed.

Lemma str_le_neq_lt : forall x y, str_le x y -> x <> y -> str_lt x y.
Proof.
  unfold str_le, str_lt, string_leb. intros x y H Hn.
  destruct (String.compare x y) eqn:E; try reflexivity; try discriminate.
  apply String_as_OT.cmp_eq in E. contradiction.
Qed.

Lemma sorted_nodup_strict : forall l, Sorted str_le l -> NoDup l -> StronglySorted str_lt l.
Proof.
  intros l Hs Hn. apply Sorted_StronglySorted.
  - intros x y z. apply str_lt_trans.
  - induction Hs as [|a l Hs IH Hh]; [constructor|].
    inversion Hn as [|? ? Hna Hnl]; subst. constructor; [apply IH; assumption|].
    destruct Hh as [|b l Hab]; constructor.
    apply str_le_neq_lt; [assumption|]. intros ->. apply Hna. left. reflexivity.
Qed.

(* ------------------------------------------------------------------ *)
(* 4. largest_subset enumerates exactly the subsequences               *)
(* ------------------------------------------------------------------ *)
Inductive subseq {A: Type} : list A -> list A -> Prop :=
| subseq_nil : subseq [] []
| subseq_take : forall x l1 l2, subseq l1 l2 -> subseq (x :: l1) (x :: l2)
| subseq_skip : forall x l1 l2, subseq l1 l2 -> subseq l1 (x :: l2).

Lemma subseq_nil_l : forall (A: Type) (l: list A), subseq [] l.
Proof. induction l; constructor; assumption. Qed.

Lemma subseq_refl : forall (A: Type) (l: list A), subseq l l.
Proof. induction l; constructor; assumption. Qed.

Lemma subseq_length : forall (A: Type) (c l: list A), subseq c l -> List.length c <= List.length l.
Proof. intros A c l H. induction H; cbn; lia. Qed.

Lemma subseq_incl : forall (A: Type) (c l: list A), subseq c l -> incl c l.
Proof.
  intros A c l H. induction H; intros y Hy.
  - assumption.
  - destruct Hy as [<- | Hy]; [left; reflexivity | right; apply IHsubseq; assumption].
  - right. apply IHsubseq. assumption.
Qed.

(* a subsequence of full length is the list itself *)
Lemma subseq_full : forall (A: Type) (c l: list A),
  subseq c l -> List.length c = List.length l -> c = l.
Proof.
  intros A c l H. induction H; intros Hl; cbn in Hl.
  - reflexivity.
  - f_equal. apply IHsubseq. lia.
  - apply subseq_length in H. lia.
Qed.

Lemma subseq_filter : forall (A: Type) (f: A -> bool) (l: list A), subseq (filter f l) l.
Proof.
  intros A f. induction l as [|x l IH]; cbn; [constructor|].
  destruct (f x); constructor; assumption.
Qed.

Lemma combinations_subseq : forall (A: Type) (l: list A) r c,
  In c (combinations l r) -> subseq c l /\ List.length c = r.
Proof.
  intros A. induction l as [|a l IH]; intros r c H; destruct r as [|r]; cbn in H.
  - destruct H as [<- | []]. split; constructor.
  - destruct H.
  - destruct H as [<- | []]. split; [apply subseq_nil_l | reflexivity].
  - apply in_app_iff in H. destruct H as [H | H].
    + apply in_map_iff in H. destruct H as [c' [<- Hc']]. apply IH in Hc'. destruct Hc' as [H1 H2].
      split; [constructor; assumption | cbn; f_equal; assumption].
    + apply IH in H. destruct H as [H1 H2]. split; [apply subseq_skip; assumption | assumption].
Qed.

Lemma subseq_combinations : forall (A: Type) (c l: list A),
  subseq c l -> In c (combinations l (List.length c)).
Proof.
  intros A c l H. induction H.
  - left. reflexivity.
  - cbn. apply in_app_iff. left. apply in_map. assumption.
  - destruct l1 as [|y l1].
    + left. reflexivity.
    + cbn. apply in_app_iff. right. exact IHsubseq.
Qed.

Theorem largest_subset_In : forall (A: Type) (l c: list A), In c (largest_subset l) <-> subseq c l.
Proof.
  intros A l c. unfold largest_subset. rewrite <- in_rev, in_flat_map. split.
  - intros [r [_ H]]. apply combinations_subseq in H. tauto.
  - intros H. exists (List.length c). split.
    + apply in_seq. apply subseq_length in H. lia.
    + apply subseq_combinations. assumption.
Qed.

(* ------------------------------------------------------------------ *)
(* 5. good_split                                                       *)
(* ------------------------------------------------------------------ *)
(* the first test of good_split:  `not (1 < len(new) < len(stm.body)) and len(rest)`  parses as
   `(not (1 < len(new) < len(stm.body))) and len(rest)`; true = "return None" *)
Definition first_test (new rest body: list bodyelem) : bool :=
  andb (negb (andb (Nat.ltb 1 (List.length new)) (Nat.ltb (List.length new) (List.length body))))
       (nonempty rest).

Lemma first_test_passes : forall new rest body,
  first_test new rest body = false <->
  (1 < List.length new /\ List.length new < List.length body) \/ rest = [].
Proof.
  intros new rest body. unfold first_test.
  rewrite andb_false_iff, negb_false_iff, andb_true_iff, !Nat.ltb_lt, nonempty_false. tauto.
Qed.

(* all tests of good_split, in the order of the code; gn = global_vars_inside_body(new),
   gh = global_vars_inside_head(stm.head), go = global_vars_inside_body(stm.body), t0 = the set t *)
Definition split_accepted (new rest: list bodyelem) (h: head) (b: list bodyelem) (gn gh go t0: vset) : Prop :=
  body_has_theory new = false /\ body_has_theory rest = false /\ body_has_theory b = false /\
  first_test new rest b = false /\
  (exists bn, collect_binding_information_body new None = Ok (bn, [])) /\
  global_vars_inside_body new = Ok gn /\
  global_vars_inside_head h = Ok gh /\
  t0 = sinter gn (supdate (vars_of_lits rest) gh) /\
  (exists br, collect_binding_information_body rest (Some t0) = Ok (br, [])) /\
  global_vars_inside_body b = Ok go /\
  sinter (sdiff (vars_of_lits new) gn) go = [] /\
  Nat.leb (List.length go) (List.length (supdate t0 (vars_of_lits rest))) = false /\
  Nat.leb (List.length gn) (List.length t0) = false /\
  existsb (fun r => ssubset (vars_of_lit r) (vars_of_lits new)) rest = false /\
  existsb aux rest = true /\
  andb (existsb has_body_aggregate new) (existsb has_body_aggregate rest) = false /\
  Nat.leb (List.length gh) (List.length t0) = false.

(* exact characterisation of acceptance *)
Theorem good_split_accept_iff : forall new rest line h b t,
  good_split new rest (SRule line h b) = Ok (Some t) <->
  exists gn gh go t0, split_accepted new rest h b gn gh go t0 /\ t = sort_strings t0.
Proof.
  intros new rest line h b t. split.
  - intros H. unfold good_split in H. cbv zeta in H.
    destruct (body_has_theory new) eqn:E1; cbn [orb] in H; [discriminate|].
    destruct (body_has_theory rest) eqn:E2; cbn [orb] in H; [discriminate|].
    destruct (body_has_theory b) eqn:E3; [discriminate|].
    match type of H with (if ?c then _ else _) = _ => change c with (first_test new rest b) in H end.
    destruct (first_test new rest b) eqn:E4; [discriminate|].
    destruct (collect_binding_information_body new None) as [[bn un]| | |] eqn:E5;
      cbn [rbind] in H; try discriminate.
    cbn [snd] in H. destruct un as [|? ?]; cbn [nonempty] in H; [|discriminate].
    destruct (global_vars_inside_body new) as [gn| | |] eqn:E6; cbn [rbind] in H; try discriminate.
    destruct (global_vars_inside_head h) as [gh| | |] eqn:E7; cbn [rbind] in H; try discriminate.
    set (t0 := sinter gn (supdate (vars_of_lits rest) gh)) in *.
    destruct (collect_binding_information_body rest (Some t0)) as [[br ur]| | |] eqn:E8;
      cbn [rbind] in H; try discriminate.
    cbn [snd] in H. destruct ur as [|? ?]; cbn [nonempty] in H; [|discriminate].
    destruct (global_vars_inside_body b) as [go| | |] eqn:E9; cbn [rbind] in H; try discriminate.
    destruct (nonempty (sinter (sdiff (vars_of_lits new) gn) go)) eqn:E10; [discriminate|].
    apply nonempty_false in E10.
    destruct (Nat.leb (List.length go) (List.length (supdate t0 (vars_of_lits rest)))) eqn:E11;
      cbn [orb] in H; [discriminate|].
    destruct (Nat.leb (List.length gn) (List.length t0)) eqn:E12; [discriminate|].
    destruct (existsb (fun r => ssubset (vars_of_lit r) (vars_of_lits new)) rest) eqn:E13; [discriminate|].
    destruct (existsb aux rest) eqn:E14; cbn [negb] in H; [|discriminate].
    destruct (andb (existsb has_body_aggregate new) (existsb has_body_aggregate rest)) eqn:E15; [discriminate|].
    destruct (Nat.leb (List.length gh) (List.length t0)) eqn:E16; [discriminate|].
    injection H as <-.
    exists gn, gh, go, t0. split; [| reflexivity].
    unfold split_accepted. repeat split; try assumption; try reflexivity; eexists; eassumption.
  - intros [gn [gh [go [t0 [HA ->]]]]].
    destruct HA as [E1 [E2 [E3 [E4 [[bn E5] [E6 [E7 [Et [[br E8] [E9 [E10 [E11 [E12 [E13 [E14 [E15 E16]]]]]]]]]]]]]]]].
    unfold good_split. cbv zeta. rewrite E1, E2, E3. cbn [orb].
    match goal with |- (if ?c then _ else _) = _ => change c with (first_test new rest b) end.
    rewrite E4, E5. cbn [rbind snd nonempty]. rewrite E6, E7. cbn [rbind].
    rewrite <- Et. rewrite E8. cbn [rbind snd nonempty]. rewrite E9. cbn [rbind].
    rewrite E10. cbn [nonempty]. rewrite E11, E12. cbn [orb]. rewrite E13, E14. cbn [negb].
    rewrite E15, E16. reflexivity.
Qed.

Lemma good_split_is_rule : forall new rest stm t,
  good_split new rest stm = Ok (Some t) -> exists line h b, stm = SRule line h b.
Proof.
  intros new rest stm t H. destruct stm; try discriminate H. eauto.
Qed.

(* item 1: the interface condition *)
Theorem good_split_interface_proof : forall new rest stm t,
  good_split new rest stm = Ok (Some t) ->
  exists line h b gn gh,
    stm = SRule line h b /\
    global_vars_inside_body new = Ok gn /\
    global_vars_inside_head h = Ok gh /\
    (* (a) + (b): t is exactly the set of interface variables *)
    (forall x, In x t <->
               In x gn /\ ((exists r, In r rest /\ In x (vars_bodyelem r)) \/ In x gh)) /\
    (* (c) *)
    NoDup t /\ Sorted str_le t /\ StronglySorted str_lt t /\
    (* (d) *)
    ~ In "_" t.
Proof.
  intros new rest stm t H.
  destruct (good_split_is_rule _ _ _ _ H) as [line [h [b ->]]].
  apply good_split_accept_iff in H. destruct H as [gn [gh [go [t0 [HA ->]]]]].
  destruct HA as [_ [_ [_ [_ [_ [E6 [E7 [Et _]]]]]]]].
  destruct (gvib_spec _ _ E6) as [bn [un [_ [_ [Hnd Hno]]]]].
  assert (Hin: forall x, In x t0 <->
               In x gn /\ ((exists r, In r rest /\ In x (vars_bodyelem r)) \/ In x gh)).
  { intros x. subst t0. rewrite sinter_In, supdate_In, vars_of_lits_In. split.
    - intros [Hg [[Hr _] | Hh]]; auto.
    - intros [Hg [Hr | Hh]]; split; auto. left. split; [assumption|]. intros ->. contradiction. }
  assert (Hnd0: NoDup t0) by (subst t0; unfold sinter; apply NoDup_filter; assumption).
  assert (HndS: NoDup (sort_strings t0)).
  { eapply Permutation_NoDup; [apply Permutation_sym, sort_strings_perm | assumption]. }
  exists line, h, b, gn, gh.
  split; [reflexivity|]. split; [assumption|]. split; [assumption|].
  split; [intros x; rewrite sort_strings_In; apply Hin|].
  split; [assumption|]. split; [apply sort_strings_sorted|].
  split; [apply sorted_nodup_strict; [apply sort_strings_sorted | assumption]|].
  rewrite sort_strings_In. intros Hx. apply Hin in Hx. tauto.
Qed.

(* item 2 *)
Theorem good_split_new_safe_proof : forall new rest stm t,
  good_split new rest stm = Ok (Some t) ->
  exists bound, collect_binding_information_body new None = Ok (bound, []).
Proof.
  intros new rest stm t H.
  destruct (good_split_is_rule _ _ _ _ H) as [line [h [b ->]]].
  apply good_split_accept_iff in H. destruct H as [gn [gh [go [t0 [HA _]]]]].
  unfold split_accepted in HA. tauto.
Qed.

(* the staying rule is legal when the interface variables t are pre-bound. good_split runs the
   analysis on the unsorted set t0 (sorted(t0) = t); by Link/BindingPerm.v the order is irrelevant *)
Theorem good_split_rest_legal_proof : forall new rest stm t,
  good_split new rest stm = Ok (Some t) ->
  exists bound, collect_binding_information_body rest (Some t) = Ok (bound, []).
Proof.
  intros new rest stm t H.
  destruct (good_split_is_rule _ _ _ _ H) as [line [h [b ->]]].
  apply good_split_accept_iff in H. destruct H as [gn [gh [go [t0 [HA ->]]]]].
  destruct HA as [_ [_ [_ [_ [_ [_ [_ [_ [[br E8] _]]]]]]]]].
  destruct (collect_binding_information_body_perm_safe rest t0 (sort_strings t0) br
              (Permutation_sym (sort_strings_perm t0)) E8) as [br' [_ E]].
  exists br'. assumption.
Qed.

(* the literal form of the test in the code *)
Theorem good_split_rest_legal_unsorted : forall new rest stm t,
  good_split new rest stm = Ok (Some t) ->
  exists t0 bound, Permutation t0 t /\ t = sort_strings t0 /\
                   collect_binding_information_body rest (Some t0) = Ok (bound, []).
Proof.
  intros new rest stm t H.
  destruct (good_split_is_rule _ _ _ _ H) as [line [h [b ->]]].
  apply good_split_accept_iff in H. destruct H as [gn [gh [go [t0 [HA ->]]]]].
  destruct HA as [_ [_ [_ [_ [_ [_ [_ [_ [[br E8] _]]]]]]]]].
  exists t0, br. repeat split; [apply Permutation_sym, sort_strings_perm | assumption].
Qed.

(* item 3 *)
Theorem good_split_size_proof : forall new rest stm t,
  good_split new rest stm = Ok (Some t) ->
  exists line h b, stm = SRule line h b /\
    1 < List.length new /\ List.length new < List.length b /\
    (exists name args ext, In (BLit (Lit NoSign (ASym (TFun name args ext)))) rest) /\
    (* the other size tests *)
    (exists gn gh, global_vars_inside_body new = Ok gn /\ global_vars_inside_head h = Ok gh /\
                   List.length t < List.length gn /\ List.length t < List.length gh).
Proof.
  intros new rest stm t H.
  destruct (good_split_is_rule _ _ _ _ H) as [line [h [b ->]]].
  apply good_split_accept_iff in H. destruct H as [gn [gh [go [t0 [HA ->]]]]].
  destruct HA as [_ [_ [_ [E4 [_ [E6 [E7 [_ [_ [_ [_ [_ [E12 [_ [E14 [_ E16]]]]]]]]]]]]]]]].
  exists line, h, b. split; [reflexivity|].
  apply existsb_exists in E14. destruct E14 as [r [Hr Ha]].
  assert (Hne: rest <> []) by (intros ->; destruct Hr).
  apply first_test_passes in E4. destruct E4 as [[H1 H2] | H0]; [| contradiction].
  split; [assumption|]. split; [assumption|]. split.
  - destruct r as [[s at0]|l0 c0]; [| discriminate Ha].
    destruct s; try discriminate Ha.
    destruct at0 as [tm|? ?|?|? ? ? ?|? ? ?|?]; try discriminate Ha.
    destruct tm as [?|?|? ?|? ? ?|? ?|n args ext|?]; try discriminate Ha.
    exists n, args, ext. assumption.
  - exists gn, gh. rewrite sort_strings_length. apply Nat.leb_gt in E12. apply Nat.leb_gt in E16.
    repeat split; assumption.
Qed.

(* ------------------------------------------------------------------ *)
(* 6. project_rule                                                     *)
(* ------------------------------------------------------------------ *)
(* rest = [x for x in stm.body if x not in new] *)
Definition rest_of (b new: list bodyelem) : list bodyelem :=
  filter (fun x => negb (mem bodyelem_eqb x new)) b.
Definition aux_head (a: string) (t: list string) : lit :=
  Lit NoSign (ASym (TFun a (map TVar t) false)).

Lemma rest_of_In : forall b new x,
  In x (rest_of b new) <-> In x b /\ forall y, In y new -> bodyelem_eqb x y = false.
Proof.
  intros b new x. unfold rest_of, mem. rewrite filter_In, negb_true_iff. split.
  - intros [Hb He]. split; [assumption|]. intros y Hy.
    destruct (bodyelem_eqb x y) eqn:E; [| reflexivity].
    assert (existsb (bodyelem_eqb x) new = true) by (apply existsb_exists; eauto). congruence.
  - intros [Hb Hall]. split; [assumption|].
    destruct (existsb (bodyelem_eqb x) new) eqn:E; [| reflexivity].
    apply existsb_exists in E. destruct E as [y [Hy Hxy]]. rewrite (Hall y Hy) in Hxy. discriminate.
Qed.

Lemma rest_of_subseq : forall b new, subseq (rest_of b new) b.
Proof. intros. apply subseq_filter. Qed.

(* every body element stays in rest or is ==-equal to an element of new *)
Lemma rest_of_cover : forall b new x,
  In x b -> In x (rest_of b new) \/ mem bodyelem_eqb x new = true.
Proof.
  intros b new x Hx. unfold rest_of. destruct (mem bodyelem_eqb x new) eqn:E; [right; reflexivity|].
  left. apply filter_In. split; [assumption | rewrite E; reflexivity].
Qed.

Lemma project_rule_loop_spec : forall subsets st line h b out st',
  project_rule_loop st line h b subsets = Ok (out, st') ->
  (out = [SRule line h b] /\ st' = st /\
   forall n, In n subsets -> good_split n (rest_of b n) (SRule line h b) = Ok None)
  \/
  (exists pre new post t a,
     subsets = pre ++ new :: post /\
     (forall n, In n pre -> good_split n (rest_of b n) (SRule line h b) = Ok None) /\
     good_split new (rest_of b new) (SRule line h b) = Ok (Some t) /\
     new_auxpredicate st (List.length t) = Ok ((a, List.length t), st') /\
     out = [SRule LOC_line (HLit (aux_head a t)) new;
            SRule line h (rest_of b new ++ [BLit (aux_head a t)])]).
Proof.
  induction subsets as [|new subsets IH]; intros st line h b out st' H; cbn [project_rule_loop] in H.
  - injection H as <- <-. left. repeat split. intros n [].
  - cbv zeta in H. change (filter (fun x => negb (mem bodyelem_eqb x new)) b) with (rest_of b new) in H.
    destruct (good_split new (rest_of b new) (SRule line h b)) as [[t|]| | |] eqn:G;
      cbn [rbind] in H; try discriminate.
    + destruct (new_auxpredicate st (List.length t)) as [[p st1]| | |] eqn:N;
        cbn [rbind] in H; try discriminate.
      cbn [fst snd] in H. injection H as <- <-.
      pose proof (new_auxpredicate_fresh _ _ _ _ N) as [_ [_ [_ Hsnd]]].
      destruct p as [a n]. cbn [snd] in Hsnd. subst n.
      right. exists [], new, subsets, t, a. cbn [fst app].
      repeat split; try assumption; try reflexivity. intros n [].
    + apply IH in H.
      destruct H as [[-> [-> Hall]] | [pre [new' [post [t [a [-> [Hpre [G' [N' ->]]]]]]]]]].
      * left. repeat split. intros n [<- | Hn]; auto.
      * right. exists (new :: pre), new', post, t, a.
        repeat split; try assumption; try reflexivity. intros n [<- | Hn]; auto.
Qed.

(* item 4 *)
Theorem project_rule_shape_proof : forall st stm out st',
  project_rule st stm = Ok (out, st') ->
  exists line h b, stm = SRule line h b /\
  ( (* no subset of the body is a good split: rule and naming state unchanged *)
    (out = [stm] /\ st' = st /\
     forall n, subseq n b -> good_split n (rest_of b n) stm = Ok None)
    \/
    (exists new rest t a,
       out = [SRule LOC_line (HLit (aux_head a t)) new;
              SRule line h (rest ++ [BLit (aux_head a t)])] /\
       (* new: a subsequence of the body, the first accepted one in the order of largest_subset *)
       subseq new b /\
       (exists pre post, largest_subset b = pre ++ new :: post /\
                         forall n, In n pre -> good_split n (rest_of b n) stm = Ok None) /\
       (* rest: the body elements that are not ==-equal to an element of new, in body order *)
       rest = rest_of b new /\
       (forall x, In x rest <-> In x b /\ forall y, In y new -> bodyelem_eqb x y = false) /\
       good_split new rest stm = Ok (Some t) /\
       (* the aux predicate *)
       new_auxpredicate st (List.length t) = Ok ((a, List.length t), st') /\
       ~ In (a, List.length t) (known st) /\
       (forall q, In q (known st') <-> q = (a, List.length t) \/ In q (known st)) /\
       (exists k, a = (AUX_FUNC ++ string_of_nat k)%string) /\
       auxcounter st < auxcounter st') ).
Proof.
  intros st stm out st' H. destruct stm as [line h b| | | |]; try discriminate H.
  exists line, h, b. split; [reflexivity|]. unfold project_rule in H.
  apply project_rule_loop_spec in H.
  destruct H as [[-> [-> Hall]] | [pre [new [post [t [a [Hsub [Hpre [G [N ->]]]]]]]]]].
  - left. repeat split. intros n Hn. apply Hall. apply largest_subset_In. assumption.
  - right. exists new, (rest_of b new), t, a.
    pose proof (new_auxpredicate_fresh _ _ _ _ N) as [Hfresh _].
    pose proof (new_auxpredicate_shape _ _ _ _ N) as [[k Hk] [Hc Hknown]]. cbn [fst] in Hk.
    split; [reflexivity|]. split.
    { apply largest_subset_In. rewrite Hsub. apply in_app_iff. right. left. reflexivity. }
    split; [exists pre, post; split; assumption|].
    split; [reflexivity|]. split; [apply rest_of_In|].
    split; [assumption|]. split; [assumption|]. split; [assumption|].
    split; [assumption|]. split; [exists k; assumption | assumption].
Qed.

(* items 1 and 4 together: the interface condition for the two rules produced by project_rule *)
Corollary project_rule_interface_proof : forall st line h b a t new rest line' st',
  project_rule st (SRule line h b) =
    Ok ([SRule line' (HLit (aux_head a t)) new; SRule line h (rest ++ [BLit (aux_head a t)])], st') ->
  exists gn gh,
    global_vars_inside_body new = Ok gn /\ global_vars_inside_head h = Ok gh /\
    (forall x, In x gn -> (exists r, In r rest /\ In x (vars_bodyelem r)) \/ In x gh -> In x t) /\
    (forall x, In x t -> In x gn) /\ NoDup t /\ ~ In "_" t.
Proof.
  intros st line h b a t new rest line' st' H.
  apply project_rule_shape_proof in H.
  destruct H as [line0 [h0 [b0 [E [[Hout _] | [new' [rest' [t' [a' [Hout [_ [_ [_ [_ [G _]]]]]]]]]]]]]]].
  - discriminate Hout.
  - injection E as <- <- <-.
    injection Hout as _ Ha Ht <- Hr.
    assert (Ht': t = t').
    { clear - Ht. revert t' Ht. induction t as [|x t IH]; intros [|y t'] H; cbn in H; try discriminate.
      - reflexivity.
      - injection H as -> H. f_equal. apply IH. assumption. }
    subst t'. apply app_inj_tail in Hr. destruct Hr as [<- _].
    apply good_split_interface_proof in G.
    destruct G as [l1 [h1 [b1 [gn [gh [E [E6 [E7 [Hin [Hnd [_ [_ Hno]]]]]]]]]]]].
    injection E as <- <- <-.
    exists gn, gh. repeat split; try assumption.
    + intros x Hg Hx. apply Hin. auto.
    + intros x Hx. apply Hin in Hx. tauto.
Qed.

(* ------------------------------------------------------------------ *)
(* 7. execute (without inline_arithmetic)                              *)
(* ------------------------------------------------------------------ *)
Definition is_rule (s: stmt) : bool := match s with SRule _ _ _ => true | _ => false end.
Definition non_rule (s: stmt) : bool := negb (is_rule s).

(* exec_trace st prg blocks auxs st': running the loop of execute on prg from naming state st emits,
   per statement, the block of statements listed in blocks, invents the aux predicates auxs (in order)
   and ends in state st' *)
Inductive exec_trace : unames -> list stmt -> list (list stmt) -> list pred -> unames -> Prop :=
| et_nil : forall st, exec_trace st [] [] [] st
| et_other : forall st s prg blks auxs st',
    is_rule s = false -> exec_trace st prg blks auxs st' ->
    exec_trace st (s :: prg) ([s] :: blks) auxs st'
| et_keep : forall st s prg blks auxs st',
    is_rule s = true -> project_rule st s = Ok ([s], st) -> exec_trace st prg blks auxs st' ->
    exec_trace st (s :: prg) ([s] :: blks) auxs st'
| et_split : forall st line h b new rest t a st1 prg blks auxs st',
    project_rule st (SRule line h b) =
      Ok ([SRule LOC_line (HLit (aux_head a t)) new; SRule line h (rest ++ [BLit (aux_head a t)])], st1) ->
    subseq new b -> rest = rest_of b new ->
    good_split new rest (SRule line h b) = Ok (Some t) ->
    new_auxpredicate st (List.length t) = Ok ((a, List.length t), st1) ->
    exec_trace st1 prg blks auxs st' ->
    exec_trace st (SRule line h b :: prg)
               ([SRule LOC_line (HLit (aux_head a t)) new; SRule line h (rest ++ [BLit (aux_head a t)])] :: blks)
               ((a, List.length t) :: auxs) st'.

Theorem execute_loop_trace : forall prg st out st',
  execute_loop st prg = Ok (out, st') <->
  exists blks auxs, exec_trace st prg blks auxs st' /\ out = List.concat blks.
Proof.
  intros prg st out st'. split.
  - revert st out st'. induction prg as [|s prg IH]; intros st out st' H; cbn [execute_loop] in H.
    + injection H as <- <-. exists [], []. split; [constructor | reflexivity].
    + destruct s as [line h b|l w p ts b|n ar ps|t b|k txt].
      * destruct (project_rule st (SRule line h b)) as [[blk st1]| | |] eqn:P;
          cbn [rbind] in H; try discriminate.
        cbn [fst snd] in H.
        destruct (execute_loop st1 prg) as [[out1 st2]| | |] eqn:L; cbn [rbind] in H; try discriminate.
        cbn [fst snd] in H. injection H as <- <-.
        destruct (IH _ _ _ L) as [blks [auxs [Htr ->]]].
        pose proof P as P'. apply project_rule_shape_proof in P'.
        destruct P' as [line0 [h0 [b0 [E [[-> [-> _]] |
                          [new [rest [t [a [-> [Hsub [_ [Hrest [_ [G [N _]]]]]]]]]]]]]]]].
        -- exists ([SRule line h b] :: blks), auxs. split; [| reflexivity].
           apply et_keep; [reflexivity | assumption | assumption].
        -- injection E as <- <- <-.
           exists ([SRule LOC_line (HLit (aux_head a t)) new;
                    SRule line h (rest ++ [BLit (aux_head a t)])] :: blks), ((a, List.length t) :: auxs).
           split; [| reflexivity].
           eapply et_split; eassumption.
      * destruct (execute_loop st prg) as [[out1 st2]| | |] eqn:L; cbn [rbind] in H; try discriminate.
        cbn [fst snd] in H. injection H as <- <-.
        destruct (IH _ _ _ L) as [blks [auxs [Htr ->]]].
        eexists (_ :: blks), auxs. split; [apply et_other; [reflexivity | assumption] | reflexivity].
      * destruct (execute_loop st prg) as [[out1 st2]| | |] eqn:L; cbn [rbind] in H; try discriminate.
        cbn [fst snd] in H. injection H as <- <-.
        destruct (IH _ _ _ L) as [blks [auxs [Htr ->]]].
        eexists (_ :: blks), auxs. split; [apply et_other; [reflexivity | assumption] | reflexivity].
      * destruct (execute_loop st prg) as [[out1 st2]| | |] eqn:L; cbn [rbind] in H; try discriminate.
        cbn [fst snd] in H. injection H as <- <-.
        destruct (IH _ _ _ L) as [blks [auxs [Htr ->]]].
        eexists (_ :: blks), auxs. split; [apply et_other; [reflexivity | assumption] | reflexivity].
      * destruct (execute_loop st prg) as [[out1 st2]| | |] eqn:L; cbn [rbind] in H; try discriminate.
        cbn [fst snd] in H. injection H as <- <-.
        destruct (IH _ _ _ L) as [blks [auxs [Htr ->]]].
        eexists (_ :: blks), auxs. split; [apply et_other; [reflexivity | assumption] | reflexivity].
  - intros [blks [auxs [Htr ->]]]. induction Htr.
    + reflexivity.
    + destruct s; try discriminate; cbn [execute_loop]; rewrite IHHtr; reflexivity.
    + destruct s; try discriminate. cbn [execute_loop]. rewrite H0. cbn [rbind fst snd].
      rewrite IHHtr. reflexivity.
    + cbn [execute_loop]. rewrite H. cbn [rbind fst snd]. rewrite IHHtr. reflexivity.
Qed.

Lemma trace_passthrough : forall st prg blks auxs st',
  exec_trace st prg blks auxs st' ->
  filter non_rule (List.concat blks) = filter non_rule prg /\
  List.length (List.concat blks) = List.length prg + List.length auxs /\
  Forall2 (fun s blk => blk = [s] \/
             exists line h b new rest t a,
               s = SRule line h b /\
               blk = [SRule LOC_line (HLit (aux_head a t)) new;
                      SRule line h (rest ++ [BLit (aux_head a t)])]) prg blks.
Proof.
  intros st prg blks auxs st' H. induction H.
  - repeat split; constructor.
  - destruct IHexec_trace as [I1 [I2 I3]]. cbn [List.concat app filter List.length].
    assert (Hn: non_rule s = true) by (unfold non_rule; rewrite H; reflexivity).
    rewrite Hn. repeat split.
    + f_equal. assumption.
    + lia.
    + constructor; [left; reflexivity | assumption].
  - destruct IHexec_trace as [I1 [I2 I3]]. cbn [List.concat app filter List.length].
    assert (Hn: non_rule s = false) by (unfold non_rule; rewrite H; reflexivity).
    rewrite Hn. repeat split.
    + assumption.
    + lia.
    + constructor; [left; reflexivity | assumption].
  - destruct IHexec_trace as [I1 [I2 I3]]. cbn [List.concat app filter List.length non_rule is_rule negb].
    repeat split.
    + assumption.
    + lia.
    + constructor; [| assumption]. right. exists line, h, b, new, rest, t, a. split; reflexivity.
Qed.

(* item 5 *)
Theorem execute_core_passthrough_proof : forall ctor_prg ins prg out,
  execute_core ctor_prg ins prg = Ok out ->
  (* statements that are not rules: unchanged, same order, none added *)
  filter non_rule out = filter non_rule prg /\
  List.length prg <= List.length out /\
  (* every statement is kept or (a rule) replaced by the two rules of project_rule_shape_proof *)
  exists blks auxs st',
    exec_trace (init_names ctor_prg ins) prg blks auxs st' /\ out = List.concat blks /\
    List.length out = List.length prg + List.length auxs /\
    Forall2 (fun s blk => blk = [s] \/
               exists line h b new rest t a,
                 s = SRule line h b /\
                 blk = [SRule LOC_line (HLit (aux_head a t)) new;
                        SRule line h (rest ++ [BLit (aux_head a t)])]) prg blks.
Proof.
  intros ctor_prg ins prg out H. unfold execute_core, execute_core_state in H.
  destruct (execute_loop (init_names ctor_prg ins) prg) as [[out1 st']| | |] eqn:L;
    cbn [rbind] in H; try discriminate.
  cbn [fst] in H. injection H as <-.
  apply execute_loop_trace in L. destruct L as [blks [auxs [Htr ->]]].
  destruct (trace_passthrough _ _ _ _ _ Htr) as [I1 [I2 I3]].
  split; [assumption|]. split; [lia|].
  exists blks, auxs, st'. repeat split; assumption.
Qed.

(* the aux predicates of a run are the answers of a history of new_auxpredicate requests *)
Lemma trace_requests : forall st prg blks auxs st',
  exec_trace st prg blks auxs st' ->
  run_requests st (map (fun p: pred => NewAux (snd p)) auxs) = Ok (st', auxs).
Proof.
  intros st prg blks auxs st' H. induction H.
  - reflexivity.
  - assumption.
  - assumption.
  - cbn [map run_requests run_request snd]. rewrite H3. cbn [rbind fst snd]. rewrite IHexec_trace.
    reflexivity.
Qed.

Lemma trace_aux_names : forall st prg blks auxs st',
  exec_trace st prg blks auxs st' ->
  forall p, In p auxs -> exists k, fst p = (AUX_FUNC ++ string_of_nat k)%string.
Proof.
  intros st prg blks auxs st' H. induction H; try assumption.
  - intros p [].
  - intros p [<- | Hp]; [| apply IHexec_trace; assumption].
    apply new_auxpredicate_shape in H3. destruct H3 as [Hk _]. exact Hk.
Qed.

Theorem execute_loop_fresh_aux : forall st prg blks auxs st',
  exec_trace st prg blks auxs st' ->
  NoDup auxs /\ (forall p, In p auxs -> ~ In p (known st)) /\
  incl (known st) (known st') /\ incl auxs (known st').
Proof.
  intros st prg blks auxs st' H. apply trace_requests in H.
  apply run_requests_distinct in H. assumption.
Qed.

(* item 6 *)
Theorem execute_core_fresh_aux_proof : forall ctor_prg ins prg out st',
  execute_core_state ctor_prg ins prg = Ok (out, st') ->
  exists blks auxs,
    exec_trace (init_names ctor_prg ins) prg blks auxs st' /\ out = List.concat blks /\
    (* pairwise distinct *)
    NoDup auxs /\
    (* distinct from every predicate the naming state was initialised with: the input predicates and
       the predicates `predicates(stm)` finds in the constructor's program *)
    (forall p, In p auxs ->
       ~ In p (known (init_names ctor_prg ins)) /\
       ~ In p ins /\
       (forall s, In s ctor_prg -> ~ In p (map snd (predicates all_signs s))) /\
       exists k, fst p = (AUX_FUNC ++ string_of_nat k)%string) /\
    incl auxs (known st').
Proof.
  intros ctor_prg ins prg out st' H. unfold execute_core_state in H.
  apply execute_loop_trace in H. destruct H as [blks [auxs [Htr ->]]].
  exists blks, auxs. destruct (execute_loop_fresh_aux _ _ _ _ _ Htr) as [Hnd [Hfresh [_ Hincl]]].
  repeat split; try assumption.
  - apply Hfresh. assumption.
  - intros Hi. apply (Hfresh p H). apply unique_names_init_known. left. assumption.
  - intros s Hs Hp. apply (Hfresh p H). apply unique_names_init_known. right. exists s. auto.
  - eapply trace_aux_names; eassumption.
Qed.

(* ------------------------------------------------------------------ *)
(* non-vacuity                                                         *)
(* ------------------------------------------------------------------ *)
Local Definition pl (n: string) (args: list term) : bodyelem := BLit (Lit NoSign (ASym (TFun n args false))).
(* g(X,Y) :- t(X,Y), r(A), s(A,X), u(A).   becomes
   __aux_1(X) :- r(A), s(A,X), u(A).   g(X,Y) :- t(X,Y), __aux_1(X). *)
Example project_rule_splits :
  let h := HLit (Lit NoSign (ASym (TFun "g" [TVar "X"; TVar "Y"] false))) in
  let new := [pl "r" [TVar "A"]; pl "s" [TVar "A"; TVar "X"]; pl "u" [TVar "A"]] in
  let stm := SRule 7 h (pl "t" [TVar "X"; TVar "Y"] :: new) in
  project_rule (init_names [stm] []) stm =
    Ok ([SRule LOC_line (HLit (aux_head "__aux_1" ["X"])) new;
         SRule 7 h [pl "t" [TVar "X"; TVar "Y"]; BLit (aux_head "__aux_1" ["X"])]],
        mk_unames 1 [("g", 2); ("t", 2); ("r", 1); ("s", 2); ("u", 1); ("__aux_1", 1)]).
Proof. vm_compute. reflexivity. Qed.

Print Assumptions largest_subset_In.
Print Assumptions good_split_accept_iff.
Print Assumptions good_split_interface_proof.
Print Assumptions good_split_new_safe_proof.
Print Assumptions good_split_rest_legal_proof.
Print Assumptions good_split_rest_legal_unsorted.
Print Assumptions good_split_size_proof.
Print Assumptions project_rule_shape_proof.
Print Assumptions project_rule_interface_proof.
Print Assumptions execute_loop_trace.
Print Assumptions execute_core_passthrough_proof.
Print Assumptions execute_core_fresh_aux_proof.
