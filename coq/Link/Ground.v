(* The bridge between the non-ground HT semantics (Sem/Sat.v) and the abstract ground programs of the
   meta-theorems (Meta/Cleanup.v): a non-ground program of a simple fragment denotes a ground program
   (its set of ground instances) with the same stable models, so supportedness and the cleanup
   meta-theorem apply to real programs.

   Fragment (decidable, [simple_prog]):
     body  : plain literals only (no conditional literals); every sign; atom = symbolic atom [ASym t]
             (any term t, in particular [TFun n args e]), comparison [ACmp], boolean constant [ABool].
     head  : [HLit (Lit NoSign (ASym t))]          plain atom head,
             [HLit (Lit sg (ABool b))]              constant head ([:- body.] is [Lit NoSign (ABool false)]),
             [HAgg None es None]                    bound-free choice whose elements are condition-free
                                                    positive atoms [(Lit NoSign (ASym (TFun n args e)), [])],
                                                    any number of elements, and whose variables all occur
                                                    in the body ([head_safe], see the remark at [head_safe]).
     non-rule statements are allowed and ignored (as [Sat.stmt_sat] does).

   Axiom used: Classical_Prop.classic (through Meta/Cleanup.v and for the enumeration of a choice head). *)
From Coq Require Import List String ZArith Bool Classical.
From Coq Require FinFun.
From NGO Require Import Syntax.Ast Sem.Sym Sem.Sat.
From NGO Require Meta.Cleanup.
Import ListNotations.
Open Scope list_scope.

(* ---------- induction over the nested term type (copied from Link/UnifySpec.v) ---------- *)
Lemma term_ind' (P: term -> Prop) :
  (forall x, P (TVar x)) -> (forall s, P (TSym s)) -> (forall o t, P t -> P (TUn o t)) ->
  (forall o l r, P l -> P r -> P (TBin o l r)) -> (forall l r, P l -> P r -> P (TInterval l r)) ->
  (forall n xs e, Forall P xs -> P (TFun n xs e)) -> (forall xs, Forall P xs -> P (TPool xs)) ->
  forall t, P t.
Proof.
  intros HV HS HU HB HI HF HP. fix IH 1. intros t.
  destruct t as [x|s|o t|o l r|l r|n xs e|xs].
  - apply HV.
  - apply HS.
  - apply HU, IH.
  - apply HB; apply IH.
  - apply HI; apply IH.
  - apply HF. induction xs as [|x xs IHxs]; constructor; [apply IH | apply IHxs].
  - apply HP. induction xs as [|x xs IHxs]; constructor; [apply IH | apply IHxs].
Qed.

(* ---------- coincidence: evaluation only looks at the variables of the term ---------- *)
Lemma eval_list_agree s s' ts :
  Forall (fun t => eval s t = eval s' t) ts -> eval_list s ts = eval_list s' ts.
Proof.
  induction 1 as [|t ts E _ IH]; simpl; [reflexivity|]. rewrite E, IH. reflexivity.
Qed.

Lemma eval_agree s s' t : (forall x, In x (vars_term t) -> s x = s' x) -> eval s t = eval s' t.
Proof.
  induction t as [x|c|o u IH|o l r IHl IHr|l r IHl IHr|n xs e IH|xs IH] using term_ind'; intros A.
  - simpl. f_equal. apply A. simpl. auto.
  - reflexivity.
  - simpl. rewrite IH; [reflexivity|]. exact A.
  - simpl. rewrite IHl, IHr; [reflexivity| |]; intros x Hx; apply A; simpl; apply in_or_app; auto.
  - reflexivity.
  - rewrite !eval_fun. rewrite (eval_list_agree s s' xs); [reflexivity|].
    rewrite Forall_forall in *. intros t Ht. apply IH; [exact Ht|].
    intros x Hx. apply A. simpl. apply in_flat_map. exists t. auto.
  - reflexivity.
Qed.

Lemma eval_list_agree_vars s s' ts :
  (forall x, In x (flat_map vars_term ts) -> s x = s' x) -> eval_list s ts = eval_list s' ts.
Proof.
  intros A. apply eval_list_agree. rewrite Forall_forall. intros t Ht. apply eval_agree.
  intros x Hx. apply A. apply in_flat_map. exists t. auto.
Qed.

(* ---------- finite subsets can be enumerated (classically) ---------- *)
Lemma finite_enum {A: Type} (c: list A) : forall (S: A -> Prop), (forall x, S x -> In x c) ->
  exists l, NoDup l /\ forall x, In x l <-> S x.
Proof.
  induction c as [|a c IH]; intros S Sub.
  - exists []. split; [constructor|]. intro x. split; [intros []|]. intro Sx. exact (Sub x Sx).
  - destruct (IH (fun x => S x /\ x <> a)) as [l [ND E]].
    { intros x [Sx Ne]. destruct (Sub x Sx) as [Eq|Hin]; [congruence|exact Hin]. }
    destruct (classic (S a)) as [Sa|NSa].
    + exists (a :: l). split.
      * constructor; [|exact ND]. intro Hin. apply E in Hin. destruct Hin as [_ Ne]. apply Ne. reflexivity.
      * intro x. simpl. rewrite E. split.
        -- intros [<-|[Sx _]]; assumption.
        -- intro Sx. destruct (classic (x = a)) as [->|Ne]; [left; reflexivity|right; split; assumption].
    + exists l. split; [exact ND|]. intro x. rewrite E. split; [tauto|].
      intro Sx. split; [exact Sx|]. intros ->. contradiction.
Qed.

(* ================================================================================================ *)
(* 1. The fragment                                                                                  *)
(* ================================================================================================ *)
Definition simple_lit (l: lit) : bool :=
  match l with
  | Lit _ (ASym _) => true
  | Lit _ (ACmp _ _) => true
  | Lit _ (ABool _) => true
  | _ => false
  end.
Definition simple_bodyelem (e: bodyelem) : bool := match e with BLit l => simple_lit l | BCond _ _ => false end.
Definition simple_body (b: list bodyelem) : bool := forallb simple_bodyelem b.

Definition simple_choice_elem (c: condlit) : bool :=
  match c with (Lit NoSign (ASym (TFun _ _ _)), []) => true | _ => false end.
Definition simple_head (h: head) : bool :=
  match h with
  | HLit (Lit NoSign (ASym _)) => true
  | HLit (Lit _ (ABool _)) => true
  | HAgg None es None => forallb simple_choice_elem es
  | _ => false
  end.
(* Safety of a choice head: every variable of the elements is global, i.e. occurs in a body literal
   (the head of an HAgg contributes only its guards to gvars_rule). Without it the elements range over
   ALL substitutions th that agree with s on the globals, the tuple set of the implicit #count can be
   infinite, [agg_holds] is then false (no enumeration) and the rule is unsatisfiable although its
   ground instances are satisfiable: the bridge would be false. Plain heads need no such condition
   because their variables are global by definition of gvars_head. *)
Definition head_safe (h: head) (b: list bodyelem) : bool :=
  match h with
  | HAgg _ _ _ => forallb (fun x => existsb (String.eqb x) (gvars_rule h b)) (vars_head h)
  | _ => true
  end.
Definition simple_stmt (st: stmt) : bool :=
  match st with
  | SRule _ h b => simple_head h && simple_body b && head_safe h b
  | _ => true
  end.
Definition simple_prog (P: program) : bool := forallb simple_stmt P.

(* ================================================================================================ *)
(* 2. Ground formulas and grounding                                                                 *)
(* ================================================================================================ *)
Inductive gF := GPos (a: gatom) | GNeg (a: gatom) | GNN (a: gatom) | GConst (p: Prop).
Definition gsat (H T: interp) (f: gF) : Prop :=
  match f with GPos a => H a | GNeg a => ~ T a | GNN a => T a | GConst p => p end.

Lemma gsat_pos H T a : gsat H T (GPos a) <-> H a.
Proof. simpl. tauto. Qed.
Lemma gsat_persist (H T: interp) f : Cleanup.subi gatom H T -> gsat H T f -> gsat T T f.
Proof. intros S. destruct f; simpl; auto. Qed.
Lemma gsat_mono (H H' T: interp) f : Cleanup.subi gatom H H' -> gsat H T f -> gsat H' T f.
Proof. intros S. destruct f; simpl; auto. Qed.

Local Notation grule := (Cleanup.rule gatom gF).
Local Notation ghead := (Cleanup.head gatom).
Local Notation GAtom := (Cleanup.HAtom gatom).
Local Notation GChoice := (Cleanup.HChoice gatom).
Local Notation GFalse := (Cleanup.HFalse gatom).
Local Notation mkrule := (Cleanup.Build_rule gatom gF).
Local Notation ghd := (Cleanup.hd gatom gF).
Local Notation gbd := (Cleanup.bd gatom gF).
Local Notation gbsat := (Cleanup.bsat gatom gF gsat).
Local Notation ghsat := (Cleanup.hsat gatom).
Local Notation grsat := (Cleanup.rsat gatom gF gsat).
Local Notation gpsat := (Cleanup.psat gatom gF gsat).
Local Notation gstable := (Cleanup.stable gatom gF gsat).

Definition sign_form (sg: sign) (a: gatom) : gF :=
  match sg with NoSign => GPos a | Neg => GNeg a | NegNeg => GNN a end.

(* the ground atom a symbolic-atom term denotes under s (None: undefined or not an atom) *)
Definition gatom_of (s: subst) (t: term) : option gatom :=
  match eval s t with Some (SFun n vs true) => Some (n, vs) | _ => None end.

Lemma gatom_of_fun s n args e :
  gatom_of s (TFun n args e) = match eval_list s args with Some vs => Some (n, vs) | None => None end.
Proof. unfold gatom_of. rewrite eval_fun. destruct (eval_list s args); reflexivity. Qed.

Fixpoint chain_definedb (s: subst) (gs: list guard) : bool :=
  match gs with
  | [] => true
  | (_, t) :: gs' => match eval s t with Some _ => chain_definedb s gs' | None => false end
  end.
Definition cmp_defb (s: subst) (t: term) (gs: list guard) : bool :=
  match eval s t with Some _ => chain_definedb s gs | None => false end.

Lemma chain_definedb_spec s gs : chain_definedb s gs = true <-> chain_defined s gs.
Proof.
  induction gs as [|[o t] gs IH]; simpl; [tauto|].
  destruct (eval s t); [rewrite IH; split; [intro X; split; [discriminate|exact X] | tauto]|].
  split; [discriminate|]. intros [X _]. congruence.
Qed.
Lemma cmp_defb_spec s t gs : cmp_defb s t gs = true <-> cmp_def s t gs.
Proof.
  unfold cmp_defb, cmp_def. destruct (eval s t).
  - rewrite chain_definedb_spec. split; [intro X; split; [discriminate|exact X] | tauto].
  - split; [discriminate|]. intros [X _]. congruence.
Qed.

Definition bool_lit_true (sg: sign) (b: bool) : bool := match sg with Neg => negb b | _ => b end.
Lemma bool_lit_true_spec sg b : apply_sign sg (b = true) (b = true) <-> bool_lit_true sg b = true.
Proof. destruct sg, b; simpl; split; intro X; try reflexivity; try discriminate; try (exfalso; apply X; reflexivity); intro; discriminate. Qed.

(* ground heads of the instance of a rule under s:
   - atom head: the ground atom, or HFalse when the head term is undefined / not an atom (Sat.head_sat is
     then false, so an instance with a satisfied body violates the rule: that IS a ground constraint);
   - constant head: HFalse if the constant is false, no ground rule if it is true;
   - choice head: one ground choice rule per element whose arguments are defined (an element with
     undefined arguments is harmless for Sat.head_sat: no ground rule). *)
Definition ground_choice_elem (s: subst) (c: condlit) : list ghead :=
  match c with
  | (Lit NoSign (ASym (TFun n args _)), []) =>
      match eval_list s args with Some vs => [GChoice (n, vs)] | None => [] end
  | _ => []
  end.
Definition ground_heads (s: subst) (h: head) : list ghead :=
  match h with
  | HLit (Lit NoSign (ASym t)) => [match gatom_of s t with Some a => GAtom a | None => GFalse end]
  | HLit (Lit sg (ABool b)) => if bool_lit_true sg b then [] else [GFalse]
  | HAgg None es None => flat_map (ground_choice_elem s) es
  | _ => []
  end.

Lemma simple_choice_elem_inv c : simple_choice_elem c = true ->
  exists n args e, c = (Lit NoSign (ASym (TFun n args e)), []).
Proof.
  destruct c as [[sg a] cs]. destruct sg; try discriminate. destruct a as [t| | | | |]; try discriminate.
  destruct t; try discriminate. destruct cs; try discriminate. intros _. eauto.
Qed.

(* every variable of a choice element is global *)
Definition choice_safe (G: list string) (es: list condlit) : Prop :=
  forall e n args ext, In e es -> fst e = Lit NoSign (ASym (TFun n args ext)) ->
    forall x, In x (flat_map vars_term args) -> In x G.

Lemma vars_lit_sym sg t : vars_lit (Lit sg (ASym t)) = vars_term t.
Proof. reflexivity. Qed.

Lemma head_safe_choice lg es rg b : head_safe (HAgg lg es rg) b = true -> choice_safe (gvars_rule (HAgg lg es rg) b) es.
Proof.
  unfold head_safe. intros S e n args ext Hin Ef x Hx. rewrite forallb_forall in S.
  assert (V: In x (vars_head (HAgg lg es rg))).
  { simpl. apply in_or_app. right. apply in_or_app. left. apply in_flat_map. exists e. split; [exact Hin|].
    unfold vars_condlit. apply in_or_app. left. rewrite Ef, vars_lit_sym. exact Hx. }
  specialize (S x V). apply existsb_exists in S. destruct S as [y [Hy E]]. apply String.eqb_eq in E. subst y. exact Hy.
Qed.

Section Ground.
Variable sym_lt : sym -> sym -> Prop.
Notation lit_sat := (lit_sat sym_lt).
Notation body_sat := (body_sat sym_lt).
Notation head_sat := (head_sat sym_lt).
Notation rule_sat := (rule_sat sym_lt).
Notation stmt_sat := (stmt_sat sym_lt).
Notation prog_sat := (prog_sat sym_lt).
Notation cmp_true := (cmp_true sym_lt).

(* None = the instance is dropped (an undefined literal is false under every sign) *)
Definition ground_lit (s: subst) (l: lit) : option gF :=
  match l with
  | Lit sg (ASym t) => option_map (sign_form sg) (gatom_of s t)
  | Lit sg (ACmp t gs) =>
      if cmp_defb s t gs then Some (GConst (apply_sign sg (cmp_true s t gs) (cmp_true s t gs))) else None
  | Lit sg (ABool b) => Some (GConst (apply_sign sg (b = true) (b = true)))
  | _ => None
  end.
Fixpoint ground_body (s: subst) (b: list bodyelem) : option (list gF) :=
  match b with
  | [] => Some []
  | BLit l :: b' =>
      match ground_lit s l, ground_body s b' with Some f, Some fs => Some (f :: fs) | _, _ => None end
  | BCond _ _ :: _ => None
  end.

Lemma lit_sat_sym G H T s sg t : lit_sat G H T s (Lit sg (ASym t)) = sym_atom_sat H T s sg t.
Proof. reflexivity. Qed.
Lemma lit_sat_cmp G H T s sg t gs :
  lit_sat G H T s (Lit sg (ACmp t gs)) = (cmp_def s t gs /\ apply_sign sg (cmp_true s t gs) (cmp_true s t gs)).
Proof. reflexivity. Qed.
Lemma lit_sat_bool G H T s sg b : lit_sat G H T s (Lit sg (ABool b)) = apply_sign sg (b = true) (b = true).
Proof. reflexivity. Qed.

Lemma ground_lit_sat G H T s l : simple_lit l = true ->
  match ground_lit s l with
  | Some f => lit_sat G H T s l <-> gsat H T f
  | None => ~ lit_sat G H T s l
  end.
Proof.
  destruct l as [sg a]. destruct a as [t|t gs|b| | |]; try discriminate; intros _.
  - rewrite lit_sat_sym. unfold ground_lit, sym_atom_sat, gatom_of.
    destruct (eval s t) as [[ |z|str|n vs [|]| ]|]; simpl; try tauto.
    destruct sg; simpl; tauto.
  - rewrite lit_sat_cmp. unfold ground_lit. destruct (cmp_defb s t gs) eqn:E.
    + apply cmp_defb_spec in E. simpl. tauto.
    + intros [D _]. apply cmp_defb_spec in D. congruence.
  - rewrite lit_sat_bool. simpl. tauto.
Qed.

Lemma ground_body_sat G H T s b : simple_body b = true ->
  match ground_body s b with
  | Some fs => body_sat G H T s b <-> gbsat H T fs
  | None => ~ body_sat G H T s b
  end.
Proof.
  unfold Sat.body_sat, Cleanup.bsat. induction b as [|e b IH]; simpl.
  - intros _. split; [intros _ f []|constructor].
  - intro S. apply andb_true_iff in S. destruct S as [Se Sb]. specialize (IH Sb).
    destruct e as [l|l c]; [|discriminate]. simpl in Se.
    pose proof (ground_lit_sat G H T s l Se) as L.
    destruct (ground_lit s l) as [f|].
    + destruct (ground_body s b) as [fs|].
      * split.
        -- intros X. inversion X as [|? ? X1 X2]; subst. intros g [<-|Hg]; [apply L; exact X1|].
           apply (proj1 IH X2). exact Hg.
        -- intros X. constructor; [apply L; apply X; left; reflexivity|].
           apply IH. intros g Hg. apply X. right. exact Hg.
      * intro X. inversion X; subst. apply IH. assumption.
    + intro X. inversion X; subst. apply L. assumption.
Qed.

(* ---------- heads ---------- *)
Lemma choice_agg_holds G X T s es : choice_safe G es ->
  agg_holds sym_lt s None FCount None (choice_tuples sym_lt G X T s es).
Proof.
  intros Safe.
  destruct (finite_enum
    (flat_map (fun e : condlit => match fst e with
                        | Lit NoSign (ASym (TFun n args _)) =>
                            match eval_list s args with Some vs => [[SFun n vs true]] | None => [] end
                        | _ => [] end) es)
    (choice_tuples sym_lt G X T s es)) as [l [ND E]].
  { intros tv [e [th [n [args [ext [vs [Hin [Ag [Ef [Ev [Etv _]]]]]]]]]]].
    apply in_flat_map. exists e. split; [exact Hin|]. rewrite Ef.
    rewrite (eval_list_agree_vars s th args).
    - rewrite Ev. left. symmetry. exact Etv.
    - intros x Hx. apply Ag. exact (Safe e n args ext Hin Ef x Hx). }
  exists (SNum (Z.of_nat (List.length l))). split; [|split; exact I].
  exists l. split; [split; assumption|reflexivity].
Qed.

Lemma choice_head_ground G H T s es : forallb simple_choice_elem es = true -> choice_safe G es ->
  (head_sat G H T s (HAgg None es None) <-> forall gh, In gh (flat_map (ground_choice_elem s) es) -> ghsat H T gh).
Proof.
  intros Simple Safe. rewrite forallb_forall in Simple. split.
  - intros [CE _] gh Hin. apply in_flat_map in Hin. destruct Hin as [e [Hin Hgh]].
    destruct (simple_choice_elem_inv e (Simple e Hin)) as [n [args [ext ->]]].
    simpl in Hgh. destruct (eval_list s args) as [vs|] eqn:Ev; [|destruct Hgh].
    destruct Hgh as [<-|[]]. simpl.
    assert (Ag: agree_on G s s) by (intros x _; reflexivity).
    specialize (CE _ s Hin Ag (Forall_nil _)). simpl fst in CE. rewrite !lit_sat_sym in CE.
    unfold sym_atom_sat in CE. rewrite eval_fun, Ev in CE. exact CE.
  - intros All. split; [|apply choice_agg_holds; exact Safe].
    intros e th Hin Ag _.
    destruct (simple_choice_elem_inv e (Simple e Hin)) as [n [args [ext ->]]]. simpl fst.
    rewrite !lit_sat_sym. unfold sym_atom_sat. rewrite eval_fun.
    rewrite <- (eval_list_agree_vars s th args).
    + destruct (eval_list s args) as [vs|] eqn:Ev.
      * apply (All (GChoice (n, vs))). apply in_flat_map.
        exists (Lit NoSign (ASym (TFun n args ext)), []). split; [exact Hin|]. simpl. rewrite Ev. left. reflexivity.
      * right. intro F. exact F.
    + intros x Hx. apply Ag. exact (Safe _ n args ext Hin eq_refl x Hx).
Qed.

Lemma head_ground H T s h b : simple_head h = true -> head_safe h b = true ->
  (head_sat (gvars_rule h b) H T s h <-> forall gh, In gh (ground_heads s h) -> ghsat H T gh).
Proof.
  intros Sh Safe. destruct h as [[sg a]|es|lg es rg|lg f es rg|tx]; try discriminate.
  - destruct a as [t|t gs|c| | |]; try (destruct sg; discriminate).
    + destruct sg; try discriminate. change (head_sat (gvars_rule (HLit (Lit NoSign (ASym t))) b) H T s (HLit (Lit NoSign (ASym t))))
        with (lit_sat (gvars_rule (HLit (Lit NoSign (ASym t))) b) H T s (Lit NoSign (ASym t))).
      rewrite lit_sat_sym. unfold sym_atom_sat, ground_heads, gatom_of.
      destruct (eval s t) as [[ |z|str|n vs [|]| ]|]; simpl;
        (split; [intros X gh [<-|[]]; exact X | intros X; apply (X _ (or_introl eq_refl))]).
    + change (head_sat (gvars_rule (HLit (Lit sg (ABool c))) b) H T s (HLit (Lit sg (ABool c))))
        with (lit_sat (gvars_rule (HLit (Lit sg (ABool c))) b) H T s (Lit sg (ABool c))).
      rewrite lit_sat_bool, bool_lit_true_spec.
      assert (E: ground_heads s (HLit (Lit sg (ABool c))) = if bool_lit_true sg c then [] else [GFalse])
        by (destruct sg; reflexivity).
      rewrite E. destruct (bool_lit_true sg c).
      * split; [intros _ gh Hin; destruct Hin|reflexivity].
      * split; [discriminate|]. intros X. exfalso. apply (X GFalse). left. reflexivity.
  - destruct lg; try discriminate. destruct rg; try discriminate.
    apply choice_head_ground; [exact Sh|]. apply head_safe_choice. exact Safe.
Qed.

(* ---------- rules ---------- *)
(* r is a ground instance of the rule statement st *)
Definition ground_rule (st: stmt) (r: grule) : Prop :=
  match st with
  | SRule _ h b => exists s fs, ground_body s b = Some fs /\ In (ghd r) (ground_heads s h) /\ gbd r = fs
  | _ => False
  end.

Lemma simple_stmt_rule line h b : simple_stmt (SRule line h b) = true ->
  simple_head h = true /\ simple_body b = true /\ head_safe h b = true.
Proof. simpl. rewrite !andb_true_iff. tauto. Qed.

Theorem rule_ground line h b H T : simple_stmt (SRule line h b) = true ->
  (rule_sat (gvars_rule h b) H T h b <-> forall r, ground_rule (SRule line h b) r -> grsat H T r).
Proof.
  intros S. destruct (simple_stmt_rule _ _ _ S) as [Sh [Sb Safe]]. split.
  - intros RS r [s [fs [Eb [Hh Ebd]]]]. destruct (RS s) as [A B].
    pose proof (ground_body_sat (gvars_rule h b) H T s b Sb) as BH.
    pose proof (ground_body_sat (gvars_rule h b) T T s b Sb) as BT.
    rewrite Eb in BH, BT. unfold Cleanup.rsat. rewrite Ebd. split; intro Bd.
    + apply BH in Bd. apply A in Bd. apply (proj1 (head_ground H T s h b Sh Safe) Bd). exact Hh.
    + apply BT in Bd. apply B in Bd. apply (proj1 (head_ground T T s h b Sh Safe) Bd). exact Hh.
  - intros All s.
    pose proof (ground_body_sat (gvars_rule h b) H T s b Sb) as BH.
    pose proof (ground_body_sat (gvars_rule h b) T T s b Sb) as BT.
    destruct (ground_body s b) as [fs|] eqn:Eb.
    + split; intro Bd; apply (head_ground _ _ s h b Sh Safe); intros gh Hin;
        (assert (GR: ground_rule (SRule line h b) (mkrule gh fs)) by (exists s, fs; simpl; auto));
        destruct (All _ GR) as [A B]; simpl in A, B.
      * apply A. apply BH. exact Bd.
      * apply B. apply BT. exact Bd.
    + split; intro Bd; exfalso; [apply BH|apply BT]; exact Bd.
Qed.

(* ---------- programs ---------- *)
Definition fact_rule (a: gatom) : grule := mkrule (GAtom a) [].
Definition ground_prog (P: program) (I: list gatom) : Cleanup.prog gatom gF :=
  fun r => (exists st, In st P /\ ground_rule st r) \/ (exists a, In a I /\ r = fact_rule a).

Lemma simple_prog_stmt P st : simple_prog P = true -> In st P -> simple_stmt st = true.
Proof. unfold simple_prog. rewrite forallb_forall. auto. Qed.

Lemma stmt_ground st H T : simple_stmt st = true ->
  (stmt_sat H T st <-> forall r, ground_rule st r -> grsat H T r).
Proof.
  intros S. destruct st as [line h b| | | |]; try (simpl; split; [intros _ r []|exact (fun _ => I)]).
  apply rule_ground. exact S.
Qed.

Lemma psat_ground P I H T : simple_prog P = true ->
  (gpsat H T (ground_prog P I) <-> prog_sat H T P /\ facts_sat H I /\ facts_sat T I).
Proof.
  intros S. unfold Cleanup.psat, ground_prog, Sat.prog_sat, facts_sat. split.
  - intros All. split; [|split].
    + intros st Hin. apply stmt_ground; [eapply simple_prog_stmt; eauto|].
      intros r GR. apply All. left. exists st. auto.
    + intros a Hin. assert (R: grsat H T (fact_rule a)) by (apply All; right; exists a; auto).
      destruct R as [R _]. apply R. intros f [].
    + intros a Hin. assert (R: grsat H T (fact_rule a)) by (apply All; right; exists a; auto).
      destruct R as [_ R]. apply R. intros f [].
  - intros [PS [FH FT]] r [[st [Hin GR]]|[a [Hin ->]]].
    + apply (proj1 (stmt_ground st H T (simple_prog_stmt P st S Hin)) (PS st Hin)). exact GR.
    + split; intros _; simpl; auto.
Qed.

(* 3. the bridge *)
Theorem ground_stable_iff P : simple_prog P = true ->
  forall I T, Sat.stable sym_lt P I T <-> gstable (ground_prog P I) T.
Proof.
  intros S I T. unfold Sat.stable, Cleanup.stable. split.
  - intros [[PT FT] Min]. split.
    + apply psat_ground; auto.
    + intros H Sub PS. apply (psat_ground P I H T S) in PS. destruct PS as [PS [FH _]].
      exact (Min H Sub PS FH).
  - intros [PT Min]. apply (psat_ground P I T T S) in PT. destruct PT as [PT [FT _]]. split; [split; assumption|].
    intros H Sub PS FH. apply Min; [exact Sub|]. apply psat_ground; auto.
Qed.


(* ================================================================================================ *)
(* 4. Supportedness for non-ground programs                                                         *)
(* ================================================================================================ *)
(* the head h can derive the ground atom a under s: h is an atom head or a choice element evaluating to a *)
Definition head_derives (s: subst) (h: head) (a: gatom) : Prop :=
  match h with
  | HLit (Lit NoSign (ASym t)) => gatom_of s t = Some a
  | HAgg None es None =>
      exists n args e, In (Lit NoSign (ASym (TFun n args e)), []) es /\ gatom_of s (TFun n args e) = Some a
  | _ => False
  end.

Lemma ground_heads_derives s h gh a : simple_head h = true ->
  In gh (ground_heads s h) -> Cleanup.head_atom gatom gh a -> head_derives s h a.
Proof.
  intros Sh. destruct h as [[sg x]|es|lg es rg|lg f es rg|tx]; try discriminate.
  - destruct x as [t|t gs|c| | |]; try (destruct sg; discriminate).
    + destruct sg; try discriminate. simpl. intros [<-|[]]. destruct (gatom_of s t); simpl; [congruence|tauto].
    + assert (E: ground_heads s (HLit (Lit sg (ABool c))) = if bool_lit_true sg c then [] else [GFalse])
        by (destruct sg; reflexivity).
      rewrite E. destruct (bool_lit_true sg c); [intros []|]. intros [<-|[]]. simpl. tauto.
  - destruct lg; try discriminate. destruct rg; try discriminate. simpl in Sh. rewrite forallb_forall in Sh.
    simpl. intros Hin HA. apply in_flat_map in Hin. destruct Hin as [e [Hin Hgh]].
    destruct (simple_choice_elem_inv e (Sh e Hin)) as [n [args [ext ->]]].
    simpl in Hgh. destruct (eval_list s args) as [vs|] eqn:Ev; [|destruct Hgh].
    destruct Hgh as [<-|[]]. simpl in HA. subst a.
    exists n, args, ext. split; [exact Hin|]. rewrite gatom_of_fun, Ev. reflexivity.
Qed.

Theorem supported_nonground P I T a : simple_prog P = true ->
  Sat.stable sym_lt P I T -> T a ->
  In a I \/
  exists line h b s, In (SRule line h b) P /\ head_derives s h a /\ body_sat (gvars_rule h b) T T s b.
Proof.
  intros S St Ta. apply (ground_stable_iff P S) in St.
  destruct (Cleanup.supported gatom gF gsat gsat_persist _ T a St Ta) as [r [[[st [Hin GR]]|[a0 [Hin ->]]] [HA B]]].
  - right. destruct st as [line h b| | | |]; try (simpl in GR; contradiction).
    destruct GR as [s [fs [Eb [Hh Ebd]]]].
    destruct (simple_stmt_rule _ _ _ (simple_prog_stmt P _ S Hin)) as [Sh [Sb _]].
    exists line, h, b, s. split; [exact Hin|]. split.
    + eapply ground_heads_derives; eauto.
    + pose proof (ground_body_sat (gvars_rule h b) T T s b Sb) as BT. rewrite Eb in BT.
      apply BT. rewrite <- Ebd. exact B.
  - left. simpl in HA. subst a0. exact Hin.
Qed.

(* ================================================================================================ *)
(* 5. The cleanup meta-theorem instantiated for non-ground programs                                 *)
(* ================================================================================================ *)
Notation gshortened := (Cleanup.shortened gatom gF GPos).

Theorem cleanup_nonground_fwd P P' I : simple_prog P = true -> simple_prog P' = true ->
  (forall r, ground_prog P I r -> exists r', ground_prog P' I r' /\ gshortened (ground_prog P I) r r') ->
  (forall r', ground_prog P' I r' -> exists r, ground_prog P I r /\ gshortened (ground_prog P I) r r') ->
  forall T, Sat.stable sym_lt P I T -> Sat.stable sym_lt P' I T.
Proof.
  intros S S' fwd bwd T St. apply (ground_stable_iff P' S'). apply (ground_stable_iff P S) in St.
  exact (Cleanup.cleanup_fwd gatom gF gsat GPos gsat_pos gsat_persist _ _ fwd bwd T St).
Qed.

Theorem cleanup_nonground_bwd P P' I : simple_prog P = true -> simple_prog P' = true ->
  (forall r, ground_prog P I r -> exists r', ground_prog P' I r' /\ gshortened (ground_prog P I) r r') ->
  (forall r', ground_prog P' I r' -> exists r, ground_prog P I r /\ gshortened (ground_prog P I) r r') ->
  forall T, Sat.stable sym_lt P' I T -> Sat.stable sym_lt P I T.
Proof.
  intros S S' fwd bwd T St. apply (ground_stable_iff P S). apply (ground_stable_iff P' S') in St.
  exact (Cleanup.cleanup_bwd gatom gF gsat GPos gsat_pos gsat_mono _ _ fwd bwd T St).
Qed.


(* ---------- P' is obtained from P by deleting body literals ---------- *)
(* The structural obligations of Cleanup.shortened (same head, smaller body, the ground instances
   correspond) are discharged here; what remains per rule pair is exactly the semantic side condition:
   every instance of the shortened rule is an instance of the original rule (the deleted literals are
   defined) and each ground literal of the original instance is kept or implied by a kept positive atom. *)
Inductive del_body : list bodyelem -> list bodyelem -> Prop :=
| del_nil : del_body [] []
| del_keep e b b' : del_body b b' -> del_body (e :: b) (e :: b')
| del_drop e b b' : del_body b b' -> del_body (e :: b) b'.

Definition del_ok (P: program) (I: list gatom) (st st': stmt) : Prop :=
  match st, st' with
  | SRule _ h b, SRule _ h' b' =>
      h = h' /\ del_body b b' /\
      forall s fs', ground_body s b' = Some fs' ->
        exists fs, ground_body s b = Some fs /\
          forall f, In f fs -> In f fs' \/ exists p, In (GPos p) fs' /\ Cleanup.imp gatom gF GPos (ground_prog P I) p f
  | SRule _ _ _, _ => False
  | _, SRule _ _ _ => False
  | _, _ => True
  end.

Lemma ground_body_del s b b' : del_body b b' -> forall fs, ground_body s b = Some fs ->
  exists fs', ground_body s b' = Some fs' /\ forall f, In f fs' -> In f fs.
Proof.
  induction 1 as [|e b b' D IH|e b b' D IH]; intros fs E.
  - exists []. split; [reflexivity|]. intros f [].
  - simpl in *. destruct e as [l|l c]; [|discriminate].
    destruct (ground_lit s l) as [g|]; [|discriminate].
    destruct (ground_body s b) as [gs|]; [|discriminate]. injection E as <-.
    destruct (IH gs eq_refl) as [fs' [E' Sub]]. rewrite E'. exists (g :: fs'). split; [reflexivity|].
    intros f [<-|Hf]; [left; reflexivity|right; apply Sub; exact Hf].
  - simpl in E. destruct e as [l|l c]; [|discriminate].
    destruct (ground_lit s l) as [g|]; [|discriminate].
    destruct (ground_body s b) as [gs|]; [|discriminate]. injection E as <-.
    destruct (IH gs eq_refl) as [fs' [E' Sub]]. exists fs'. split; [exact E'|].
    intros f Hf. right. apply Sub. exact Hf.
Qed.

Lemma Forall2_in_l {A B} (R: A -> B -> Prop) l l' x : Forall2 R l l' -> In x l -> exists y, In y l' /\ R x y.
Proof.
  induction 1 as [|a b l l' Rab _ IH]; intros Hin; [destruct Hin|].
  destruct Hin as [<-|Hin]; [exists b; simpl; auto|]. destruct (IH Hin) as [y [Hy Ry]]. exists y. simpl. auto.
Qed.
Lemma Forall2_in_r {A B} (R: A -> B -> Prop) l l' y : Forall2 R l l' -> In y l' -> exists x, In x l /\ R x y.
Proof.
  induction 1 as [|a b l l' Rab _ IH]; intros Hin; [destruct Hin|].
  destruct Hin as [<-|Hin]; [exists a; simpl; auto|]. destruct (IH Hin) as [x [Hx Rx]]. exists x. simpl. auto.
Qed.

Lemma del_fwd P P' I : Forall2 (del_ok P I) P P' ->
  forall r, ground_prog P I r -> exists r', ground_prog P' I r' /\ gshortened (ground_prog P I) r r'.
Proof.
  intros D r [[st [Hin GR]]|[a [Hin ->]]].
  - destruct (Forall2_in_l _ _ _ _ D Hin) as [st' [Hin' OK]].
    destruct st as [line h b| | | |]; try (simpl in GR; contradiction).
    destruct st' as [line' h' b'| | | |]; try (simpl in OK; contradiction).
    destruct OK as [<- [Del OK]]. destruct GR as [s [fs [Eb [Hh Ebd]]]].
    destruct (ground_body_del s b b' Del fs Eb) as [fs' [Eb' Sub]].
    exists (mkrule (ghd r) fs'). split.
    + left. exists (SRule line' h b'). split; [exact Hin'|]. exists s, fs'. simpl. auto.
    + split; [reflexivity|]. simpl. rewrite Ebd. split; [exact Sub|].
      destruct (OK s fs' Eb') as [fs0 [Eb0 Imp]]. rewrite Eb in Eb0. injection Eb0 as <-. exact Imp.
  - exists (fact_rule a). split; [right; exists a; auto|]. split; [reflexivity|]. split; [auto|]. intros l Hl. left. exact Hl.
Qed.

Lemma del_bwd P P' I : Forall2 (del_ok P I) P P' ->
  forall r', ground_prog P' I r' -> exists r, ground_prog P I r /\ gshortened (ground_prog P I) r r'.
Proof.
  intros D r' [[st' [Hin' GR]]|[a [Hin ->]]].
  - destruct (Forall2_in_r _ _ _ _ D Hin') as [st [Hin OK]].
    destruct st' as [line' h' b'| | | |]; try (simpl in GR; contradiction).
    destruct st as [line h b| | | |]; try (simpl in OK; contradiction).
    destruct OK as [<- [Del OK]]. destruct GR as [s [fs' [Eb' [Hh Ebd]]]].
    destruct (OK s fs' Eb') as [fs [Eb Imp]].
    destruct (ground_body_del s b b' Del fs Eb) as [fs0 [Eb0 Sub]]. rewrite Eb' in Eb0. injection Eb0 as <-.
    exists (mkrule (ghd r') fs). split.
    + left. exists (SRule line h b). split; [exact Hin|]. exists s, fs. simpl. auto.
    + split; [reflexivity|]. simpl. rewrite Ebd. split; [exact Sub|exact Imp].
  - exists (fact_rule a). split; [right; exists a; auto|]. split; [reflexivity|]. split; [auto|]. intros l Hl. left. exact Hl.
Qed.

Theorem cleanup_nonground_del P P' I : simple_prog P = true -> simple_prog P' = true ->
  Forall2 (del_ok P I) P P' ->
  forall T, Sat.stable sym_lt P I T <-> Sat.stable sym_lt P' I T.
Proof.
  intros S S' D T. split.
  - apply cleanup_nonground_fwd; [exact S|exact S'|apply del_fwd; exact D|apply del_bwd; exact D].
  - apply cleanup_nonground_bwd; [exact S|exact S'|apply del_fwd; exact D|apply del_bwd; exact D].
Qed.

End Ground.

(* ================================================================================================ *)
(* 6. Sanity check: the whole chain on a concrete non-ground program                                *)
(*      p(X) :- q(X).  a(X) :- p(X), q(X).     ~~>     p(X) :- q(X).  a(X) :- p(X).                 *)
(*    for every instance without p-facts (p is not an input predicate).                             *)
(* ================================================================================================ *)
Module Example.
Open Scope string_scope.
Definition at1 (n: string) : lit := Lit NoSign (ASym (TFun n [TVar "X"] false)).
Definition r1 : stmt := SRule 1 (HLit (at1 "p")) [BLit (at1 "q")].
Definition r2 : stmt := SRule 2 (HLit (at1 "a")) [BLit (at1 "p"); BLit (at1 "q")].
Definition r2' : stmt := SRule 2 (HLit (at1 "a")) [BLit (at1 "p")].

Theorem example_cleanup sym_lt I T : (forall vs, ~ In ("p", vs) I) ->
  Sat.stable sym_lt [r1; r2] I T <-> Sat.stable sym_lt [r1; r2'] I T.
Proof.
  intros NoP. apply cleanup_nonground_del; [reflexivity|reflexivity|].
  constructor; [|constructor; [|constructor]].
  - split; [reflexivity|]. split; [repeat constructor|].
    intros s fs' E. exists fs'. split; [exact E|]. intros f Hf. left. exact Hf.
  - split; [reflexivity|]. split; [apply del_keep, del_drop, del_nil|].
    intros s fs' E. cbv in E. injection E as <-.
    exists [GPos ("p", [s "X"]); GPos ("q", [s "X"])]. split; [reflexivity|].
    intros f [<-|[<-|[]]]; [left; left; reflexivity|]. right.
    exists ("p", [s "X"]). split; [left; reflexivity|]. exists 0%nat.
    intros [rh rb] [[st [[<-|[<-|[]]] [s0 [fs0 [Eb [Hh Ebd]]]]]]|[a0 [Hin E0]]] HA; simpl in HA.
    + simpl in Hh, Ebd. cbv in Eb. injection Eb as <-. cbv in Hh. destruct Hh as [<-|[]].
      simpl in HA. injection HA as HA. rewrite Ebd, HA. left. reflexivity.
    + simpl in Hh. cbv in Hh. destruct Hh as [<-|[]]. simpl in HA. discriminate HA.
    + injection E0 as -> ->. simpl in HA. subst a0. exfalso. exact (NoP _ Hin).
Qed.

(* ---- two remarks about Sem/Sat.v made precise ---- *)

(* (a) A plain head with an undefined term under a satisfied body makes [rule_sat] false (ground_heads maps
   it to HFalse): [p(1/0).] has NO stable model in Sem/Sat.v. gringo instead drops the instance with an
   "operation undefined" info message (clingo: [p(1/0).] has the answer set {}, [q. p(1/0) :- q.] has {q}).
   Choice heads differ: an undefined element is harmless in Sat.head_sat, as in gringo. *)
Definition undef_fact : stmt :=
  SRule 1 (HLit (Lit NoSign (ASym (TFun "p" [TBin BDiv (TSym (SNum 1)) (TSym (SNum 0))] false)))) [].
Lemma undefined_head_unsat sym_lt I T : ~ Sat.stable sym_lt [undef_fact] I T.
Proof.
  intros [[PS _] _]. specialize (PS undef_fact (or_introl eq_refl)).
  destruct (PS (fun _ => SInf)) as [_ A]. exact (A (Forall_nil _)).
Qed.

(* (b) why [head_safe] is part of the fragment: for the unsafe choice [{p(X)}.] every ground instance
   [{p(v)}.] is satisfied by T = all p-atoms, but the non-ground rule is not: the tuple set of the implicit
   #count ranges over all substitutions, is infinite, and [agg_holds] demands an enumeration. *)
Definition unsafe_choice : stmt := SRule 1 (HAgg None [(at1 "p", [])] None) [].
Definition all_p : interp := fun a => fst a = "p".

Lemma unsafe_choice_ground_sat sym_lt r : ground_rule sym_lt unsafe_choice r -> Cleanup.rsat gatom gF gsat all_p all_p r.
Proof.
  intros [s [fs [Eb [Hh Ebd]]]]. destruct r as [rh rb]. simpl in Hh. cbv in Hh. destruct Hh as [<-|[]].
  split; intros _; left; reflexivity.
Qed.

Lemma unsafe_choice_unsat sym_lt : ~ Sat.stmt_sat sym_lt all_p all_p unsafe_choice.
Proof.
  intros RS. destruct (RS (fun _ => SInf)) as [_ A]. destruct (A (Forall_nil _)) as [_ [v [[l [[ND E] _]] _]]].
  set (f := fun k : nat => [SFun "p" [SNum (Z.of_nat k)] true]).
  assert (Incl: incl (map f (seq 0 (S (List.length l)))) l).
  { intros tv Htv. apply in_map_iff in Htv. destruct Htv as [k [<- _]]. apply E.
    exists (at1 "p", []), (fun _ => SNum (Z.of_nat k)), "p", [TVar "X"], false, [SNum (Z.of_nat k)].
    repeat split; try reflexivity; try (left; reflexivity); try constructor. intros x []. }
  assert (NDm: NoDup (map f (seq 0 (S (List.length l))))).
  { apply FinFun.Injective_map_NoDup; [|apply seq_NoDup]. intros x y Exy. unfold f in Exy.
    injection Exy as Exy. apply Nat2Z.inj. exact Exy. }
  pose proof (NoDup_incl_length NDm Incl) as Len. rewrite map_length, seq_length in Len.
  exact (Nat.nle_succ_diag_l _ Len).
Qed.
End Example.

Print Assumptions ground_stable_iff.
Print Assumptions supported_nonground.
Print Assumptions cleanup_nonground_fwd.
Print Assumptions cleanup_nonground_bwd.
Print Assumptions cleanup_nonground_del.
Print Assumptions Example.example_cleanup.
