(* Semantic links for the always-on normal form (C05): literal-level HT equivalences. *)
From Coq Require Import List String ZArith Bool Lia.
From NGO Require Import Syntax.Ast Sem.Sym Sem.Sat Gen.Tables Model.NormalizeCore Link.TablesSpec.
Import ListNotations.
Open Scope list_scope.

Section NormalizeSem.
Variable sym_lt : sym -> sym -> Prop.
Hypothesis ord : sym_order sym_lt.
Notation lit_sat := (lit_sat sym_lt).
Notation lits_sat := (lits_sat sym_lt).
Notation cmp_holds := (cmp_holds sym_lt).
Notation chain_holds := (chain_holds sym_lt).
Notation cmp_true := (cmp_true sym_lt).
Notation agg_holds := (agg_holds sym_lt).
Notation guard_ok := (guard_ok sym_lt).

(* ---- comparison chains ---- *)
Lemma lits_sat_cons G H T s l ls : lits_sat G H T s (l :: ls) <-> lit_sat G H T s l /\ lits_sat G H T s ls.
Proof. unfold Sat.lits_sat. split; [intro F; inversion F; subst; tauto | intros [A B]; constructor; assumption]. Qed.

Lemma chain_step_pos G H T s t o u g gs :
  lit_sat G H T s (Lit NoSign (ACmp t ((o, u) :: g :: gs))) <->
  lit_sat G H T s (Lit NoSign (ACmp t [(o, u)])) /\ lit_sat G H T s (Lit NoSign (ACmp u (g :: gs))).
Proof.
  destruct g as [o2 u2]. cbn. unfold Sat.cmp_def, Sat.cmp_true. cbn.
  destruct (eval s t) as [vt|], (eval s u) as [vu|]; simpl;
    intuition (try discriminate; try congruence; auto).
Qed.
Lemma chain_step_nn G H T s t o u g gs :
  lit_sat G H T s (Lit NegNeg (ACmp t ((o, u) :: g :: gs))) <->
  lit_sat G H T s (Lit NegNeg (ACmp t [(o, u)])) /\ lit_sat G H T s (Lit NegNeg (ACmp u (g :: gs))).
Proof.
  destruct g as [o2 u2]. cbn. unfold Sat.cmp_def, Sat.cmp_true. cbn.
  destruct (eval s t) as [vt|], (eval s u) as [vu|]; simpl;
    intuition (try discriminate; try congruence; auto).
Qed.

(* positive chains: splitting into binary links is an HT-equivalence *)
Theorem chain_split_pos_proof : forall G H T s t gs, gs <> [] ->
  (lit_sat G H T s (Lit NoSign (ACmp t gs)) <-> lits_sat G H T s (split_cmp_lit NoSign t gs)).
Proof.
  intros G H T s t gs. revert t. induction gs as [|[o u] gs IH]; intros t NE; [congruence|].
  unfold split_cmp_lit. simpl comparison2comparisonlist. simpl map. rewrite lits_sat_cons.
  destruct gs as [|g gs'].
  - simpl map. unfold Sat.lits_sat. split; [intros X; split; [exact X | constructor] | tauto].
  - specialize (IH u ltac:(discriminate)). unfold split_cmp_lit in IH. rewrite <- IH. apply chain_step_pos.
Qed.

(* doubly negated chains: also sound *)
Theorem chain_split_nn_proof : forall G H T s t gs, gs <> [] ->
  (lit_sat G H T s (Lit NegNeg (ACmp t gs)) <-> lits_sat G H T s (split_cmp_lit NegNeg t gs)).
Proof.
  intros G H T s t gs. revert t. induction gs as [|[o u] gs IH]; intros t NE; [congruence|].
  unfold split_cmp_lit. simpl comparison2comparisonlist. simpl map. rewrite lits_sat_cons.
  destruct gs as [|g gs'].
  - simpl map. unfold Sat.lits_sat. split; [intros X; split; [exact X | constructor] | tauto].
  - specialize (IH u ltac:(discriminate)). unfold split_cmp_lit in IH. rewrite <- IH. apply chain_step_nn.
Qed.

(* negated chains: NOT sound.  not 1 < 2 < 1  holds, its split  not 1 < 2, not 2 < 1  does not *)
Definition negchain_t := TSym (SNum 1).
Definition negchain_gs : list guard := [(CLt, TSym (SNum 2)); (CLt, TSym (SNum 1))].
Theorem chain_split_neg_refuted_proof : forall G H T s,
  lit_sat G H T s (Lit Neg (ACmp negchain_t negchain_gs)) /\
  ~ lits_sat G H T s (split_cmp_lit Neg negchain_t negchain_gs).
Proof.
  intros G H T s. pose proof (lt_num _ ord) as LN. split.
  - simpl. unfold Sat.cmp_def, Sat.cmp_true. simpl. split; [repeat split; discriminate|].
    intros [_ [L _]]. apply LN in L. lia.
  - unfold split_cmp_lit. simpl. intro F. apply lits_sat_cons in F. destruct F as [A _].
    simpl in A. unfold Sat.cmp_def, Sat.cmp_true in A. simpl in A. destruct A as [_ N]. apply N.
    split; [apply LN; lia | exact I].
Qed.

(* ---- guards ---- *)
Theorem guard_to_left_proof : forall s f o t S,
  agg_holds s None f (Some (o, t)) S <-> agg_holds s (Some (rhs2lhs_comparison o, t)) f None S.
Proof.
  intros s f o t S. unfold Sat.agg_holds. split; intros [v [V [A B]]]; exists v; (split; [exact V|]); simpl in *.
  - destruct (eval s t) as [w|]; [|contradiction]. split; [|exact I]. apply (proj1 (rhs2lhs_correct_proof sym_lt o v w)). exact B.
  - destruct (eval s t) as [w|]; [|contradiction]. split; [exact I|]. apply (proj2 (rhs2lhs_correct_proof sym_lt o v w)). exact A.
Qed.

Lemma inf_le v : cmp_holds CLe SInf v.
Proof. simpl. destruct v; try (left; apply (lt_inf _ ord); discriminate). right. reflexivity. Qed.
Lemma le_sup v : cmp_holds CLe v SSup.
Proof. simpl. destruct v; try (left; apply (lt_sup _ ord); discriminate). right. reflexivity. Qed.

Lemma sup_ge v : cmp_holds CGe SSup v.
Proof. pose proof (le_sup v) as X. simpl in *. destruct X as [X|X]; [left; exact X | right; congruence]. Qed.
Lemma inf_ge v : cmp_holds CGe v SInf.
Proof. pose proof (inf_le v) as X. simpl in *. destruct X as [X|X]; [left; exact X | right; congruence]. Qed.

(* robust w.r.t. the shape of the generated table: plain case analysis on operator and symbol *)
Theorem drop_left_guard_proof : forall s g v, guard_ok s true (drop_left_guard g) v <-> guard_ok s true g v.
Proof.
  intros s g v. destruct g as [[o t]|]; [|simpl; tauto].
  destruct t as [x|c|u t|b l r|l r|n args e|alts]; try (simpl; tauto).
  destruct o; destruct c; simpl; try tauto;
    (split; [intros _; first [apply inf_le | apply sup_ge] | intros _; exact I]).
Qed.

Theorem drop_right_guard_proof : forall s g v, guard_ok s false (drop_right_guard g) v <-> guard_ok s false g v.
Proof.
  intros s g v. destruct g as [[o t]|]; [|simpl; tauto].
  destruct t as [x|c|u t|b l r|l r|n args e|alts]; try (simpl; tauto).
  destruct o; destruct c; simpl; try tauto;
    (split; [intros _; first [apply le_sup | apply inf_ge] | intros _; exact I]).
Qed.

(* the whole guard normalisation of remove_unecessary_bounds keeps the truth value of the aggregate *)
Theorem normalize_guards_proof : forall s f lg rg S,
  agg_holds s lg f rg S <-> agg_holds s (fst (normalize_guards lg rg)) f (snd (normalize_guards lg rg)) S.
Proof.
  intros s f lg rg S. unfold normalize_guards.
  assert (E: agg_holds s lg f rg S <-> agg_holds s (drop_left_guard lg) f (drop_right_guard rg) S).
  { unfold Sat.agg_holds. split; intros [v [V [A B]]]; exists v; (split; [exact V|]).
    - split; [apply drop_left_guard_proof; exact A | apply drop_right_guard_proof; exact B].
    - split; [apply (drop_left_guard_proof s lg v); exact A | apply (drop_right_guard_proof s rg v); exact B]. }
  rewrite E. destruct (drop_left_guard lg) as [g|]; [simpl; tauto|].
  destruct (drop_right_guard rg) as [[o t]|]; simpl; [|tauto]. apply guard_to_left_proof.
Qed.

(* ---- boolean constants (cleanup.remove_boolean) ---- *)
Theorem true_literal_proof : forall G H T s, lit_sat G H T s (Lit NoSign (ABool true)) /\ lit_sat G H T s (Lit NegNeg (ABool true)).
Proof. intros. simpl. split; reflexivity. Qed.
Theorem false_literal_proof : forall G H T s, ~ lit_sat G H T s (Lit NoSign (ABool false)) /\ ~ lit_sat G H T s (Lit NegNeg (ABool false)).
Proof. intros. simpl. split; discriminate. Qed.
End NormalizeSem.
