(* C05, statement level: the literal/atom-level HT equivalences of Link/NormalizeSem.v and Link/AggSem.v
   lifted to the statement-level functions of the executable model Model/Normalize.v
   (normalize_operators / expand_comparisons, remove_unecessary_bounds, the #count -> #sum+ conversion of
   replace_old_aggregates, preprocess). *)
From Coq Require Import List String ZArith Bool Lia Arith.
From NGO Require Import Syntax.Ast Sem.Sym Sem.Sat Gen.Tables Model.NormalizeCore Model.Normalize
     Link.NormalizeSem Link.AggSem Link.Equiv.
From NGO Require Link.TraverseSpec.
Import ListNotations.
Open Scope list_scope.

(* ====================================================================================== *)
(* 0. Side conditions (decidable, on the AST)                                             *)
(* ====================================================================================== *)
(* a comparison literal that `split_cmp_lit` may split: at least one guard, and not a negated chain *)
Definition cmp_ok_lit (l: lit) : bool :=
  match l with
  | Lit sg (ACmp _ gs) =>
      match gs with
      | [] => false
      | [_] => true
      | _ => match sg with Neg => false | _ => true end
      end
  | _ => true
  end.

(* the comparison literals that normalize_operators touches in a body element: the element itself,
   the condition of a conditional literal, the element conditions of a body aggregate *)
Definition cmp_ok_bodyelem (b: bodyelem) : bool :=
  match b with
  | BLit (Lit _ (ABodyAgg _ _ es _)) => forallb (fun e : belem => forallb cmp_ok_lit (snd e)) es
  | BLit l => cmp_ok_lit l
  | BCond _ c => forallb cmp_ok_lit c
  end.
Definition cmp_ok_body (b: list bodyelem) : bool := forallb cmp_ok_bodyelem b.
Definition cmp_ok_stmt (st: stmt) : bool :=
  match st with SRule _ _ b => cmp_ok_body b | _ => true end.

(* the function that normalize_operators maps over the body *)
Definition expand_bodyelem (lit: bodyelem) : list bodyelem :=
  match lit with
  | BCond l c => [BCond l (normalize_operators_condition c)]
  | BLit (Lit sg (ACmp t gs)) => map BLit (split_cmp_lit sg t gs)
  | BLit (Lit sg (ABodyAgg lg f es rg)) =>
      [BLit (Lit sg (ABodyAgg lg f (map (fun e => (fst e, normalize_operators_condition (snd e))) es) rg))]
  | _ => [lit]
  end.
Lemma normalize_operators_eq b : normalize_operators b = flat_map expand_bodyelem b.
Proof. reflexivity. Qed.

Definition same_members (G G': list string) := forall x, In x G <-> In x G'.
Lemma same_members_refl G : same_members G G. Proof. intro x; tauto. Qed.
Lemma same_members_sym G G' : same_members G G' -> same_members G' G.
Proof. intros E x. symmetry. apply E. Qed.
Lemma same_members_app A A' B B' : same_members A A' -> same_members B B' -> same_members (A ++ B) (A' ++ B').
Proof. intros EA EB x. rewrite !in_app_iff, (EA x), (EB x). tauto. Qed.

(* ---- #count -> #sum+ ---- *)
Definition no_old_agg_bodyelem (b: bodyelem) : bool :=
  match b with BLit (Lit _ (AAgg _ _ _)) => false | _ => true end.
Definition no_old_agg_rule (st: stmt) : bool :=
  match st with SRule _ _ b => forallb no_old_agg_bodyelem b | _ => true end.
Definition no_old_agg_stmt (st: stmt) : bool :=
  match st with SRule _ _ b | SMin _ _ _ _ b => forallb no_old_agg_bodyelem b | _ => true end.
(* what replace_old_body does to a body element that is not an old-style aggregate *)
Definition count_to_sum_bodyelem (b: bodyelem) : bodyelem :=
  match b with
  | BLit (Lit sg (ABodyAgg lg FCount es rg)) => BLit (Lit sg (convert_count_to_sum lg es rg))
  | _ => b
  end.
Definition count_to_sum_stmt (st: stmt) : stmt :=
  match st with
  | SRule ln h b => SRule ln h (map count_to_sum_bodyelem b)
  | SMin ln w p ts b => SMin ln w p ts (map count_to_sum_bodyelem b)
  | _ => st
  end.
Lemma replace_old_body_no_old b st : forallb no_old_agg_bodyelem b = true ->
  replace_old_body b st = Ok (map count_to_sum_bodyelem b).
Proof.
  induction b as [|x b IH]; intro OK; [reflexivity|].
  simpl in OK. apply andb_true_iff in OK. destruct OK as [OKx OKb]. specialize (IH OKb).
  destruct x as [[sg a]|l c]; [|simpl; rewrite IH; reflexivity].
  destruct a as [t|t gs|bb|lg f es rg|lg es rg|tx]; try (simpl; rewrite IH; reflexivity); [|discriminate].
  destruct f; simpl; rewrite IH; reflexivity.
Qed.
Lemma gvars_count_to_sum_body b : flat_map gvars_bodyelem (map count_to_sum_bodyelem b) = flat_map gvars_bodyelem b.
Proof.
  induction b as [|x b IH]; [reflexivity|]. simpl. rewrite IH. f_equal.
  destruct x as [[sg a]|l c]; [|reflexivity]. destruct a; try reflexivity. destruct f; reflexivity.
Qed.


(* ====================================================================================== *)
(* 1. Satisfaction depends on the list of global variables only through its members       *)
(* ====================================================================================== *)
Section Spec.
Variable sym_lt : sym -> sym -> Prop.
Notation lit_sat := (lit_sat sym_lt).
Notation atom_sat := (atom_sat sym_lt).
Notation lits_sat := (lits_sat sym_lt).
Notation bodyelem_sat := (bodyelem_sat sym_lt).
Notation body_sat := (body_sat sym_lt).
Notation head_sat := (head_sat sym_lt).
Notation rule_sat := (rule_sat sym_lt).
Notation stmt_sat := (stmt_sat sym_lt).
Notation agg_holds := (agg_holds sym_lt).
Notation elems_tuples := (elems_tuples sym_lt).
Notation choice_elems_ok := (choice_elems_ok sym_lt).
Notation choice_tuples := (choice_tuples sym_lt).
Notation headagg_tuples := (headagg_tuples sym_lt).
Notation equiv_all := (equiv_all sym_lt).
Notation stable := (stable sym_lt).

Lemma agree_on_ext G G' s th : same_members G G' -> agree_on G s th -> agree_on G' s th.
Proof. intros E A x Hx. apply A. apply E. exact Hx. Qed.

Lemma lits_sat_app G H T s a b : lits_sat G H T s (a ++ b) <-> lits_sat G H T s a /\ lits_sat G H T s b.
Proof. unfold Sat.lits_sat. apply Forall_app. Qed.
Lemma lits_sat_one G H T s l : lits_sat G H T s [l] <-> lit_sat G H T s l.
Proof. rewrite lits_sat_cons. unfold Sat.lits_sat. split; [tauto | intro X; split; [exact X | constructor]]. Qed.

Lemma all_sat_iff G X T th cs :
  (fix all (cs: list lit) : Prop :=
     match cs with [] => True | c :: cs' => lit_sat G X T th c /\ all cs' end) cs
  <-> lits_sat G X T th cs.
Proof.
  induction cs as [|c cs IH].
  - split; [intros _; constructor | intros _; exact I].
  - rewrite lits_sat_cons. rewrite <- IH. tauto.
Qed.

(* the tuple set of a body aggregate, in a form that is convenient to reason with *)
Lemma elems_tuples_iff G X T s es tv :
  elems_tuples G X T s es tv <->
  exists e, In e es /\ exists th, agree_on G s th /\ eval_list th (fst e) = Some tv /\ lits_sat G X T th (snd e).
Proof.
  unfold AggSem.elems_tuples. induction es as [|e es IH].
  - split; [intros [] | intros [e [[] _]]].
  - split.
    + intros [[th [A [E C]]]|R].
      * exists e. split; [left; reflexivity|]. exists th. split; [exact A|]. split; [exact E|].
        apply all_sat_iff. exact C.
      * destruct (proj1 IH R) as [e' [I' R']]. exists e'. split; [right; exact I' | exact R'].
    + intros [e' [[<-|I'] [th [A [E C]]]]].
      * left. exists th. split; [exact A|]. split; [exact E|]. apply all_sat_iff. exact C.
      * right. apply (proj2 IH). exists e'. split; [exact I'|]. exists th. auto.
Qed.

(* congruence of a (signed) body aggregate w.r.t. its tuple sets *)
Lemma bodyagg_sat_ext G G' H T s sg lg f es es' rg :
  (forall X, tup_eq (elems_tuples G X T s es) (elems_tuples G' X T s es')) ->
  (atom_sat G H T s sg (ABodyAgg lg f es rg) <-> atom_sat G' H T s sg (ABodyAgg lg f es' rg)).
Proof.
  intros K. rewrite !atom_sat_bodyagg.
  pose proof (agg_holds_ext sym_lt s lg f rg _ _ (K H)) as KH.
  pose proof (agg_holds_ext sym_lt s lg f rg _ _ (K T)) as KT.
  destruct sg; simpl; tauto.
Qed.

Lemma lit_sat_gext_all G G' : same_members G G' ->
  forall l H T s, lit_sat G H T s l <-> lit_sat G' H T s l.
Proof.
  intros SM.
  apply (TraverseSpec.lit_ind' (fun l => forall H T s, lit_sat G H T s l <-> lit_sat G' H T s l)).
  - intros; simpl; tauto.
  - intros; simpl; tauto.
  - intros; simpl; tauto.
  - intros sg lg f es rg IH H T s.
    change (atom_sat G H T s sg (ABodyAgg lg f es rg) <-> atom_sat G' H T s sg (ABodyAgg lg f es rg)).
    apply bodyagg_sat_ext. intros X tv. rewrite !elems_tuples_iff.
    rewrite Forall_forall in IH.
    split; intros [e [I' [th [A [E C]]]]]; exists e; (split; [exact I'|]); exists th;
      (split; [eapply agree_on_ext; [|exact A]; first [exact SM | apply same_members_sym; exact SM] |]);
      (split; [exact E|]); specialize (IH e I'); rewrite Forall_forall in IH;
      unfold Sat.lits_sat in *; rewrite Forall_forall in *; intros c Hc; apply (IH c Hc); apply C; exact Hc.
  - intros; simpl; tauto.
  - intros; simpl; tauto.
Qed.

Lemma lit_sat_gext G G' H T s l : same_members G G' -> (lit_sat G H T s l <-> lit_sat G' H T s l).
Proof. intro SM. exact (lit_sat_gext_all G G' SM l H T s). Qed.

Lemma lits_sat_gext G G' H T s cs : same_members G G' -> (lits_sat G H T s cs <-> lits_sat G' H T s cs).
Proof.
  intro SM. unfold Sat.lits_sat. rewrite !Forall_forall.
  split; intros A c Hc; apply (lit_sat_gext G G' H T s c SM); apply A; exact Hc.
Qed.

Lemma bodyelem_sat_gext_1 G G' H T s b : same_members G G' -> bodyelem_sat G H T s b -> bodyelem_sat G' H T s b.
Proof.
  intros SM. destruct b as [l|l c]; simpl.
  - apply (proj1 (lit_sat_gext G G' H T s l SM)).
  - intros A th Ag. specialize (A th (agree_on_ext _ _ _ _ (same_members_sym _ _ SM) Ag)).
    rewrite <- !(lits_sat_gext G G' _ _ th c SM), <- !(lit_sat_gext G G' _ _ th l SM). exact A.
Qed.
Lemma bodyelem_sat_gext G G' H T s b : same_members G G' -> (bodyelem_sat G H T s b <-> bodyelem_sat G' H T s b).
Proof. intro SM. split; apply bodyelem_sat_gext_1; [exact SM | apply same_members_sym; exact SM]. Qed.

Lemma body_sat_gext G G' H T s b : same_members G G' -> (body_sat G H T s b <-> body_sat G' H T s b).
Proof.
  intro SM. unfold Sat.body_sat. rewrite !Forall_forall.
  split; intros A x Hx; apply (bodyelem_sat_gext G G' H T s x SM); apply A; exact Hx.
Qed.

Lemma choice_elems_ok_gext_1 G G' H T s es : same_members G G' -> choice_elems_ok G H T s es -> choice_elems_ok G' H T s es.
Proof.
  intros SM A e th I' Ag C.
  rewrite <- !(lit_sat_gext G G' _ _ th (fst e) SM). apply A; [exact I' | |].
  - eapply agree_on_ext; [apply same_members_sym; exact SM | exact Ag].
  - apply (lits_sat_gext G G' _ _ th (snd e) SM). exact C.
Qed.

Lemma choice_tuples_gext_1 G G' X T s es tv : same_members G G' -> choice_tuples G X T s es tv -> choice_tuples G' X T s es tv.
Proof.
  intros SM (e & th & n & args & ext & vs & I' & Ag & E1 & E2 & E3 & C & XA).
  exists e, th, n, args, ext, vs. repeat split; try assumption.
  - eapply agree_on_ext; [exact SM | exact Ag].
  - apply (lits_sat_gext G G' _ _ th (snd e) SM). exact C.
Qed.
Lemma headagg_tuples_gext_1 G G' X T s es tv : same_members G G' -> headagg_tuples G X T s es tv -> headagg_tuples G' X T s es tv.
Proof.
  intros SM (e & th & I' & Ag & E & C & L).
  exists e, th. repeat split; try assumption.
  - eapply agree_on_ext; [exact SM | exact Ag].
  - apply (lits_sat_gext G G' _ _ th _ SM). exact C.
  - apply (lit_sat_gext G G' _ _ th _ SM). exact L.
Qed.

Lemma head_sat_gext_1 G G' H T s h : same_members G G' -> head_sat G H T s h -> head_sat G' H T s h.
Proof.
  intros SM. pose proof (same_members_sym _ _ SM) as SM'. destruct h as [l|es|lg es rg|lg f es rg|t]; simpl.
  - apply (proj1 (lit_sat_gext G G' H T s l SM)).
  - intros (e & th & I' & Ag & C & L). exists e, th. repeat split; try assumption.
    + eapply agree_on_ext; [exact SM | exact Ag].
    + apply (lits_sat_gext G G' _ _ th _ SM). exact C.
    + apply (lit_sat_gext G G' _ _ th _ SM). exact L.
  - intros (A & C). split; [apply (choice_elems_ok_gext_1 G G'); assumption|].
    revert C; apply agg_holds_ext; intro tv; split; apply choice_tuples_gext_1; assumption.
  - intros (A & C). split; [apply (choice_elems_ok_gext_1 G G'); assumption|].
    revert C; apply agg_holds_ext; intro tv; split; apply headagg_tuples_gext_1; assumption.
  - tauto.
Qed.
Lemma head_sat_gext G G' H T s h : same_members G G' -> (head_sat G H T s h <-> head_sat G' H T s h).
Proof. intro SM. split; apply head_sat_gext_1; [exact SM | apply same_members_sym; exact SM]. Qed.

Lemma rule_sat_gext G G' H T h b : same_members G G' -> (rule_sat G H T h b <-> rule_sat G' H T h b).
Proof.
  intro SM. unfold Sat.rule_sat.
  split; intros A s; specialize (A s);
    rewrite ?(body_sat_gext G G' _ _ s b SM), ?(head_sat_gext G G' _ _ s h SM) in *; exact A.
Qed.

(* a rule whose body is replaced by a body that is HT-equivalent under every G and has the same global
   variables (as a set) has the same HT models *)
Lemma rule_body_replace ln h b b' :
  same_members (flat_map gvars_bodyelem b) (flat_map gvars_bodyelem b') ->
  (forall G H T s, body_sat G H T s b <-> body_sat G H T s b') ->
  forall H T, stmt_sat H T (SRule ln h b) <-> stmt_sat H T (SRule ln h b').
Proof.
  intros SM E H T. simpl.
  assert (SM2: same_members (gvars_rule h b) (gvars_rule h b')).
  { unfold gvars_rule. apply same_members_app; [apply same_members_refl | exact SM]. }
  rewrite (rule_sat_gext _ _ H T h b SM2). unfold Sat.rule_sat.
  split; intros A s; specialize (A s); rewrite ?E in *; exact A.
Qed.

(* ====================================================================================== *)
(* 2. expand_comparisons / normalize_operators                                            *)
(* ====================================================================================== *)
Lemma split_cmp_lit_sat G H T s sg t gs : cmp_ok_lit (Lit sg (ACmp t gs)) = true ->
  (lit_sat G H T s (Lit sg (ACmp t gs)) <-> lits_sat G H T s (split_cmp_lit sg t gs)).
Proof.
  intros OK. simpl in OK. destruct gs as [|[o u] gs]; [discriminate|].
  destruct gs as [|g gs].
  - unfold split_cmp_lit. simpl. rewrite lits_sat_one. tauto.
  - destruct sg; [|discriminate|].
    + apply chain_split_pos_proof. discriminate.
    + apply chain_split_nn_proof. discriminate.
Qed.

(* conditions (of conditional literals and of aggregate elements) *)
Lemma normalize_operators_condition_sat G H T s cs : forallb cmp_ok_lit cs = true ->
  (lits_sat G H T s cs <-> lits_sat G H T s (normalize_operators_condition cs)).
Proof.
  unfold normalize_operators_condition. induction cs as [|c cs IH]; intro OK; simpl; [tauto|].
  simpl in OK. apply andb_true_iff in OK. destruct OK as [OKc OKcs].
  rewrite lits_sat_cons, lits_sat_app, <- (IH OKcs).
  destruct c as [sg [t|t gs|b|lg f es rg|lg es rg|tx]]; try (rewrite lits_sat_one; tauto).
  rewrite (split_cmp_lit_sat G H T s sg t gs OKc). tauto.
Qed.

Lemma body_sat_one G H T s x : body_sat G H T s [x] <-> bodyelem_sat G H T s x.
Proof.
  unfold Sat.body_sat. split; [intro F; inversion F; assumption | intro X; constructor; [exact X | constructor]].
Qed.
Lemma body_sat_app G H T s a b : body_sat G H T s (a ++ b) <-> body_sat G H T s a /\ body_sat G H T s b.
Proof. unfold Sat.body_sat. apply Forall_app. Qed.
Lemma body_sat_cons G H T s x b : body_sat G H T s (x :: b) <-> bodyelem_sat G H T s x /\ body_sat G H T s b.
Proof. unfold Sat.body_sat. split; [intro F; inversion F; tauto | intros [A B]; constructor; assumption]. Qed.
Lemma body_sat_blits G H T s ls : body_sat G H T s (map BLit ls) <-> lits_sat G H T s ls.
Proof.
  induction ls as [|l ls IH]; simpl.
  - unfold Sat.body_sat, Sat.lits_sat. split; intros _; constructor.
  - rewrite body_sat_cons, lits_sat_cons, IH. simpl. tauto.
Qed.

(* one body element *)
Lemma expand_bodyelem_sat G H T s b : cmp_ok_bodyelem b = true ->
  (bodyelem_sat G H T s b <-> body_sat G H T s (expand_bodyelem b)).
Proof.
  intro OK. destruct b as [[sg a]|l c].
  - destruct a as [t|t gs|bb|lg f es rg|lg es rg|tx]; try (simpl expand_bodyelem; rewrite body_sat_one; tauto).
    + (* comparison *)
      simpl expand_bodyelem. rewrite body_sat_blits. apply split_cmp_lit_sat. exact OK.
    + (* body aggregate: element conditions *)
      simpl expand_bodyelem. rewrite body_sat_one. simpl bodyelem_sat.
      change (atom_sat G H T s sg (ABodyAgg lg f es rg) <->
              atom_sat G H T s sg (ABodyAgg lg f (map (fun e => (fst e, normalize_operators_condition (snd e))) es) rg)).
      apply bodyagg_sat_ext. intros X tv. rewrite !elems_tuples_iff.
      simpl in OK. rewrite forallb_forall in OK. split.
      * intros [e [I' [th [A [E C]]]]]. exists (fst e, normalize_operators_condition (snd e)).
        split; [apply in_map_iff; exists e; split; [reflexivity | exact I']|].
        exists th. split; [exact A|]. split; [exact E|]. simpl.
        apply (normalize_operators_condition_sat G X T th (snd e) (OK e I')). exact C.
      * intros [e' [I' [th [A [E C]]]]]. apply in_map_iff in I'. destruct I' as [e [<- I']].
        exists e. split; [exact I'|]. exists th. split; [exact A|]. split; [exact E|]. simpl in C.
        apply (normalize_operators_condition_sat G X T th (snd e) (OK e I')). exact C.
  - (* conditional literal *)
    simpl expand_bodyelem. rewrite body_sat_one. simpl. simpl in OK.
    split; intros A th Ag; specialize (A th Ag);
      rewrite <- ?(normalize_operators_condition_sat G H T th c OK),
              <- ?(normalize_operators_condition_sat G T T th c OK) in *; exact A.
Qed.

(* item 1: the body, for any fixed list G of global variables *)
Theorem expand_comparisons_body_proof : forall G H T s b, cmp_ok_body b = true ->
  (body_sat G H T s b <-> body_sat G H T s (normalize_operators b)).
Proof.
  intros G H T s b. rewrite normalize_operators_eq. unfold cmp_ok_body.
  induction b as [|x b IH]; intro OK; simpl; [tauto|].
  simpl in OK. apply andb_true_iff in OK. destruct OK as [OKx OKb].
  rewrite body_sat_cons, body_sat_app, <- (IH OKb), (expand_bodyelem_sat G H T s x OKx). tauto.
Qed.

(* the global variables of the expanded body are the same (as a set) *)
Lemma gvars_split_cmp_lit sg t gs : gs <> [] ->
  same_members (flat_map gvars_bodyelem (map BLit (split_cmp_lit sg t gs))) (vars_term t ++ flat_map vars_guard gs).
Proof.
  unfold split_cmp_lit. revert t. induction gs as [|[o u] gs IH]; intros t NE; [congruence|].
  destruct gs as [|g gs].
  - simpl. intro x. rewrite !app_nil_r. tauto.
  - specialize (IH u ltac:(discriminate)). intro x. specialize (IH x).
    simpl comparison2comparisonlist in *. simpl map in *. simpl flat_map in *.
    unfold vars_guard at 1 3. simpl snd.
    rewrite !in_app_iff in *. rewrite IH. simpl. tauto.
Qed.

Lemma gvars_expand_bodyelem x : cmp_ok_bodyelem x = true ->
  same_members (flat_map gvars_bodyelem (expand_bodyelem x)) (gvars_bodyelem x).
Proof.
  intro OK. destruct x as [[sg a]|l c]; [|simpl; apply same_members_refl].
  destruct a as [t|t gs|bb|lg f es rg|lg es rg|tx]; try (simpl; rewrite ?app_nil_r; apply same_members_refl).
  simpl expand_bodyelem. simpl gvars_bodyelem. apply gvars_split_cmp_lit.
  simpl in OK. destruct gs; [discriminate OK | discriminate].
Qed.

Theorem expand_comparisons_gvars_proof : forall b, cmp_ok_body b = true ->
  same_members (flat_map gvars_bodyelem (normalize_operators b)) (flat_map gvars_bodyelem b).
Proof.
  intro b. rewrite normalize_operators_eq. unfold cmp_ok_body.
  induction b as [|x b IH]; intro OK; simpl; [apply same_members_refl|].
  simpl in OK. apply andb_true_iff in OK. destruct OK as [OKx OKb].
  intro y. rewrite flat_map_app, !in_app_iff, (IH OKb y), (gvars_expand_bodyelem x OKx y). tauto.
Qed.

(* item 2: statements and programs *)
Theorem expand_comparisons_rule_proof : forall line h b, cmp_ok_body b = true ->
  forall H T, stmt_sat H T (SRule line h b) <-> stmt_sat H T (expand_comparisons (SRule line h b)).
Proof.
  intros line h b OK. simpl expand_comparisons. apply rule_body_replace.
  - apply same_members_sym. apply expand_comparisons_gvars_proof. exact OK.
  - intros G H T s. apply expand_comparisons_body_proof. exact OK.
Qed.

Theorem expand_comparisons_stmt_proof : forall st, cmp_ok_stmt st = true ->
  forall H T, stmt_sat H T st <-> stmt_sat H T (expand_comparisons st).
Proof.
  intros st OK. destruct st as [line h b|line w p ts b|n a p|t b|k tx]; try (intros; simpl; tauto).
  apply expand_comparisons_rule_proof. exact OK.
Qed.

Theorem expand_comparisons_prog_proof : forall P, forallb cmp_ok_stmt P = true ->
  equiv_all P (map expand_comparisons P).
Proof.
  intros P OK. apply map_equiv. intros st Hst H T _. apply expand_comparisons_stmt_proof.
  rewrite forallb_forall in OK. apply OK. exact Hst.
Qed.

(* ====================================================================================== *)
(* 3. generic lifting for passes that return `result`                                     *)
(* ====================================================================================== *)
Lemma rmap_ok {A B} (f: A -> result B) l r : rmap f l = Ok r -> Forall2 (fun x y => f x = Ok y) l r.
Proof.
  revert r. induction l as [|a l IH]; simpl; intros r E.
  - injection E as <-. constructor.
  - destruct (f a) as [y| | |] eqn:Fa; simpl in E; try discriminate.
    destruct (rmap f l) as [ys| | |] eqn:Fl; simpl in E; try discriminate.
    injection E as <-. constructor; [exact Fa | apply IH; reflexivity].
Qed.
Lemma rmap_total {A B} (f: A -> result B) (g: A -> B) l :
  (forall x, In x l -> f x = Ok (g x)) -> rmap f l = Ok (map g l).
Proof.
  induction l as [|a l IH]; simpl; intro E; [reflexivity|].
  rewrite (E a (or_introl eq_refl)). simpl. rewrite IH; [reflexivity|]. intros x Hx. apply E. right. exact Hx.
Qed.

Lemma forall2_equiv_all P Q :
  Forall2 (fun st st' => forall H T, stmt_sat H T st <-> stmt_sat H T st') P Q -> equiv_all P Q.
Proof.
  intros F. apply stmts_equiv_equiv_all. intros H T _. induction F as [|x y l l' E F IH]; [tauto|].
  split; intros A st [<-|I'].
  - apply E. apply A. left. reflexivity.
  - apply (proj1 IH); [|exact I']. intros st' I2. apply A. right. exact I2.
  - apply E. apply A. left. reflexivity.
  - apply (proj2 IH); [|exact I']. intros st' I2. apply A. right. exact I2.
Qed.

(* ====================================================================================== *)
(* 4. remove_unecessary_bounds                                                            *)
(* ====================================================================================== *)
Section Bounds.
Hypothesis ord : sym_order sym_lt.

Lemma remove_bounds_bodyelem_sat G H T s b :
  bodyelem_sat G H T s b <-> bodyelem_sat G H T s (remove_bounds_bodyelem b).
Proof.
  destruct b as [[sg a]|l c]; [|simpl; tauto].
  destruct a as [t|t gs|bb|lg f es rg|lg es rg|tx]; try (simpl; tauto).
  unfold remove_bounds_bodyelem. pose proof (normalize_guards_proof sym_lt ord s f lg rg) as NG.
  destruct (normalize_guards lg rg) as [lg' rg']. simpl fst in NG. simpl snd in NG.
  simpl bodyelem_sat.
  change (atom_sat G H T s sg (ABodyAgg lg f es rg) <-> atom_sat G H T s sg (ABodyAgg lg' f es rg')).
  rewrite !atom_sat_bodyagg.
  pose proof (NG (elems_tuples G H T s es)) as N1. pose proof (NG (elems_tuples G T T s es)) as N2.
  destruct sg; simpl; tauto.
Qed.

Theorem remove_bounds_body_proof : forall G H T s b,
  body_sat G H T s b <-> body_sat G H T s (map remove_bounds_bodyelem b).
Proof.
  intros G H T s b. induction b as [|x b IH]; simpl; [tauto|].
  rewrite !body_sat_cons, <- IH, <- (remove_bounds_bodyelem_sat G H T s x). tauto.
Qed.
End Bounds.

(* the global variables: a dropped guard is a #inf / #sup symbol and has no variables, the moved guard keeps its term *)
Lemma vars_drop_left_guard g : vars_oguard (drop_left_guard g) = vars_oguard g.
Proof.
  destruct g as [[o t]|]; [|reflexivity]. destruct t; try reflexivity.
  simpl. destruct (_ || _); reflexivity.
Qed.
Lemma vars_drop_right_guard g : vars_oguard (drop_right_guard g) = vars_oguard g.
Proof.
  destruct g as [[o t]|]; [|reflexivity]. destruct t; try reflexivity.
  simpl. destruct (_ || _); reflexivity.
Qed.
Lemma vars_normalize_guards lg rg :
  same_members (vars_oguard (fst (normalize_guards lg rg)) ++ vars_oguard (snd (normalize_guards lg rg)))
               (vars_oguard lg ++ vars_oguard rg).
Proof.
  unfold normalize_guards. rewrite <- (vars_drop_left_guard lg), <- (vars_drop_right_guard rg).
  destruct (drop_left_guard lg) as [gl|]; [apply same_members_refl|].
  destruct (drop_right_guard rg) as [[o t]|]; [|apply same_members_refl].
  simpl. intro x. rewrite app_nil_r. tauto.
Qed.
Lemma gvars_remove_bounds_bodyelem x : same_members (gvars_bodyelem (remove_bounds_bodyelem x)) (gvars_bodyelem x).
Proof.
  destruct x as [[sg a]|l c]; [|apply same_members_refl].
  destruct a as [t|t gs|bb|lg f es rg|lg es rg|tx]; try apply same_members_refl.
  unfold remove_bounds_bodyelem. pose proof (vars_normalize_guards lg rg) as V.
  destruct (normalize_guards lg rg) as [lg' rg']. exact V.
Qed.
Theorem remove_bounds_gvars_proof : forall b,
  same_members (flat_map gvars_bodyelem (map remove_bounds_bodyelem b)) (flat_map gvars_bodyelem b).
Proof.
  induction b as [|x b IH]; simpl; [apply same_members_refl|].
  apply same_members_app; [apply gvars_remove_bounds_bodyelem | exact IH].
Qed.

Section Bounds2.
Hypothesis ord : sym_order sym_lt.

Theorem remove_bounds_rule_proof : forall line h b,
  remove_bounds_stm (SRule line h b) = Ok (SRule line h (map remove_bounds_bodyelem b)) /\
  forall H T, stmt_sat H T (SRule line h b) <-> stmt_sat H T (SRule line h (map remove_bounds_bodyelem b)).
Proof.
  intros line h b. split; [reflexivity|]. apply rule_body_replace.
  - apply same_members_sym. apply remove_bounds_gvars_proof.
  - intros G H T s. apply remove_bounds_body_proof. exact ord.
Qed.

Theorem remove_bounds_stmt_proof : forall st st', remove_bounds_stm st = Ok st' ->
  forall H T, stmt_sat H T st <-> stmt_sat H T st'.
Proof.
  intros st st' E. destruct st as [line h b|line w p ts b|n a p|t b|k tx]; simpl in E.
  - injection E as <-. apply remove_bounds_rule_proof.
  - injection E as <-. intros; simpl; tauto.
  - injection E as <-. intros; simpl; tauto.
  - injection E as <-. intros; simpl; tauto.
  - destruct (_ && _); [discriminate|]. injection E as <-. intros; simpl; tauto.
Qed.

Theorem remove_bounds_prog_proof : forall P Q, remove_unecessary_bounds P = Ok Q -> equiv_all P Q.
Proof.
  intros P Q E. apply forall2_equiv_all. apply rmap_ok in E.
  induction E as [|st st' l l' E' F IH]; constructor; [apply remove_bounds_stmt_proof; exact E' | exact IH].
Qed.
End Bounds2.

(* ====================================================================================== *)
(* 5. #count -> #sum+ inside replace_old_aggregates                                       *)
(* ====================================================================================== *)
Lemma count_to_sum_bodyelem_sat G H T s b :
  bodyelem_sat G H T s b <-> bodyelem_sat G H T s (count_to_sum_bodyelem b).
Proof.
  destruct b as [[sg a]|l c]; [|simpl; tauto].
  destruct a as [t|t gs|bb|lg f es rg|lg es rg|tx]; try (simpl; tauto).
  destruct f; try (simpl; tauto).
  simpl count_to_sum_bodyelem. unfold convert_count_to_sum. simpl bodyelem_sat.
  apply (count_to_sumplus_proof sym_lt G H T s sg lg es rg).
Qed.

Theorem count_to_sum_body_proof : forall G H T s b,
  body_sat G H T s b <-> body_sat G H T s (map count_to_sum_bodyelem b).
Proof.
  intros G H T s b. induction b as [|x b IH]; simpl; [tauto|].
  rewrite !body_sat_cons, <- IH, <- (count_to_sum_bodyelem_sat G H T s x). tauto.
Qed.

Theorem count_to_sum_rule_proof : forall line h b, forallb no_old_agg_bodyelem b = true ->
  replace_old_aggregates_stm (SRule line h b) = Ok (SRule line h (map count_to_sum_bodyelem b)) /\
  forall H T, stmt_sat H T (SRule line h b) <-> stmt_sat H T (SRule line h (map count_to_sum_bodyelem b)).
Proof.
  intros line h b OK. split.
  - simpl. rewrite (replace_old_body_no_old b _ OK). reflexivity.
  - apply rule_body_replace.
    + rewrite gvars_count_to_sum_body. apply same_members_refl.
    + intros G H T s. apply count_to_sum_body_proof.
Qed.

Theorem count_to_sum_stmt_proof : forall st st', no_old_agg_rule st = true ->
  replace_old_aggregates_stm st = Ok st' -> forall H T, stmt_sat H T st <-> stmt_sat H T st'.
Proof.
  intros st st' OK E. destruct st as [line h b|line w p ts b|n a p|t b|k tx].
  - destruct (count_to_sum_rule_proof line h b OK) as [E' S]. rewrite E' in E. injection E as <-. exact S.
  - simpl in E. destruct (replace_old_body b _); simpl in E; try discriminate. injection E as <-. intros; simpl; tauto.
  - injection E as <-. intros; simpl; tauto.
  - injection E as <-. intros; simpl; tauto.
  - injection E as <-. intros; simpl; tauto.
Qed.

Theorem count_to_sum_prog_proof : forall P Q, forallb no_old_agg_rule P = true ->
  replace_old_aggregates P = Ok Q -> equiv_all P Q.
Proof.
  intros P Q OK E. apply forall2_equiv_all. apply rmap_ok in E. rewrite forallb_forall in OK.
  revert OK. induction E as [|st st' l l' E' F IH]; intro OK; constructor.
  - apply count_to_sum_stmt_proof; [apply OK; left; reflexivity | exact E'].
  - apply IH. intros x Hx. apply OK. right. exact Hx.
Qed.

(* on programs without old-style aggregates (also in #minimize bodies) the pass is total and explicit *)
Theorem replace_old_aggregates_total_proof : forall P, forallb no_old_agg_stmt P = true ->
  replace_old_aggregates P = Ok (map count_to_sum_stmt P).
Proof.
  intros P OK. apply rmap_total. rewrite forallb_forall in OK. intros st Hst. specialize (OK st Hst).
  destruct st as [line h b|line w p ts b|n a p|t b|k tx]; try reflexivity; simpl in *;
    rewrite (replace_old_body_no_old b _ OK); reflexivity.
Qed.

End Spec.

(* ====================================================================================== *)
(* 6. preprocess: statement-wise decomposition, unpool on pool-free syntax, pass-through   *)
(* ====================================================================================== *)
(* what preprocess does to one statement *)
Definition preprocess_stmt (st: stmt) : result (list stmt) :=
  rbind (replace_old_aggregates_stm st) (fun s1 =>
  rbind (remove_bounds_stm s1) (fun s2 => unpool_stmt (expand_comparisons s2))).

Lemma rmap_of_forall2 {A B} (f: A -> result B) l r : Forall2 (fun x y => f x = Ok y) l r -> rmap f l = Ok r.
Proof. induction 1 as [|x y l r E F IH]; simpl; [reflexivity|]. rewrite E. simpl. rewrite IH. reflexivity. Qed.

Lemma preprocess_stmt_ok st q : preprocess_stmt st = Ok q <->
  exists s1 s2, replace_old_aggregates_stm st = Ok s1 /\ remove_bounds_stm s1 = Ok s2 /\
                unpool_stmt (expand_comparisons s2) = Ok q.
Proof.
  unfold preprocess_stmt. split.
  - destruct (replace_old_aggregates_stm st) as [s1| | |]; simpl; try discriminate.
    destruct (remove_bounds_stm s1) as [s2| | |] eqn:E2; simpl; try discriminate.
    intro E3. exists s1, s2. auto.
  - intros (s1 & s2 & E1 & E2 & E3). rewrite E1. simpl. rewrite E2. simpl. exact E3.
Qed.

(* preprocess succeeds iff it succeeds on every statement; the result is the concatenation *)
Theorem preprocess_decompose_proof : forall P Q,
  preprocess P = Ok Q <-> exists Qs, Forall2 (fun st q => preprocess_stmt st = Ok q) P Qs /\ Q = List.concat Qs.
Proof.
  intros P Q. unfold preprocess, normalize, replace_old_aggregates, remove_unecessary_bounds, unpool_prg. split.
  - destruct (rmap replace_old_aggregates_stm P) as [P1| | |] eqn:E1; simpl; try discriminate.
    destruct (rmap remove_bounds_stm P1) as [P2| | |] eqn:E2; simpl; try discriminate.
    destruct (rmap unpool_stmt (map expand_comparisons P2)) as [L| | |] eqn:E3; simpl; try discriminate.
    intro E. injection E as <-. exists L. split; [|reflexivity].
    apply rmap_ok in E1. apply rmap_ok in E2. apply rmap_ok in E3.
    revert P2 L E2 E3. induction E1 as [|st s1 P P1 F1 _ IH]; intros P2 L E2 E3.
    + inversion E2; subst. simpl in E3. inversion E3; subst. constructor.
    + inversion E2 as [|s1' s2 P1' P2' F2 E2']; subst. simpl in E3.
      inversion E3 as [|s2' q X L' F3 E3']; subst. constructor; [|apply (IH _ _ E2' E3')].
      apply preprocess_stmt_ok. exists s1, s2. auto.
  - intros [Qs [F ->]].
    assert (K: exists P1 P2, Forall2 (fun x y => replace_old_aggregates_stm x = Ok y) P P1 /\
                             Forall2 (fun x y => remove_bounds_stm x = Ok y) P1 P2 /\
                             Forall2 (fun x y => unpool_stmt x = Ok y) (map expand_comparisons P2) Qs).
    { induction F as [|st q P Qs E _ IH].
      - exists [], []. repeat split; constructor.
      - destruct IH as (P1 & P2 & A & B & C). apply preprocess_stmt_ok in E.
        destruct E as (s1 & s2 & E1 & E2 & E3). exists (s1 :: P1), (s2 :: P2).
        repeat split; simpl; constructor; assumption. }
    destruct K as (P1 & P2 & A & B & C).
    rewrite (rmap_of_forall2 _ _ _ A). simpl. rewrite (rmap_of_forall2 _ _ _ B). simpl.
    rewrite (rmap_of_forall2 _ _ _ C). reflexivity.
Qed.

(* ---- unpool on pool-free syntax is the identity ---- *)
Lemma term_ind' (P: term -> Prop) :
  (forall x, P (TVar x)) -> (forall s, P (TSym s)) -> (forall o t, P t -> P (TUn o t)) ->
  (forall o l r, P l -> P r -> P (TBin o l r)) -> (forall l r, P l -> P r -> P (TInterval l r)) ->
  (forall n xs e, Forall P xs -> P (TFun n xs e)) -> (forall xs, Forall P xs -> P (TPool xs)) ->
  forall t, P t.
Proof.
  intros HV HS HU HB HI HF HP. fix IH 1. intros t.
  destruct t as [x|s|o t|o l r|l r|n xs e|xs].
  - apply HV.
  - apply HS.
  - apply HU, IH.
  - apply HB; apply IH.
  - apply HI; apply IH.
  - apply HF. induction xs as [|x xs IHxs]; constructor; [apply IH | apply IHxs].
  - apply HP. induction xs as [|x xs IHxs]; constructor; [apply IH | apply IHxs].
Qed.

Fixpoint pool_free_term (t: term) : bool :=
  match t with
  | TVar _ => true
  | TSym _ => true
  | TUn _ a => pool_free_term a
  | TBin _ l r => pool_free_term l && pool_free_term r
  | TInterval l r => pool_free_term l && pool_free_term r
  | TFun _ args _ => forallb pool_free_term args
  | TPool _ => false
  end.
Definition pool_free_guard (g: guard) : bool := pool_free_term (snd g).
Definition pool_free_oguard (g: option guard) : bool := match g with Some g => pool_free_guard g | None => true end.
(* theory atoms are opaque text: their pools are the business of `unpool_opaque` *)
Fixpoint pool_free_atom (a: atom) : bool :=
  match a with
  | ASym t => pool_free_term t
  | ACmp t gs => pool_free_term t && forallb pool_free_guard gs
  | ABool _ => true
  | ABodyAgg lg _ es rg =>
      pool_free_oguard lg
      && forallb (fun e => forallb pool_free_term (fst e) && forallb pool_free_lit (snd e)) es
      && pool_free_oguard rg
  | AAgg lg es rg =>
      pool_free_oguard lg
      && forallb (fun e => pool_free_lit (fst e) && forallb pool_free_lit (snd e)) es
      && pool_free_oguard rg
  | ATheory _ => true
  end
with pool_free_lit (l: lit) : bool := match l with Lit _ a => pool_free_atom a end.
Definition pool_free_condlit (c: condlit) : bool := pool_free_lit (fst c) && forallb pool_free_lit (snd c).
Definition pool_free_bodyelem (b: bodyelem) : bool :=
  match b with BLit l => pool_free_lit l | BCond l c => pool_free_condlit (l, c) end.
Definition pool_free_head (h: head) : bool :=
  match h with
  | HLit l => pool_free_lit l
  | HDisj es => forallb pool_free_condlit es
  | HAgg lg es rg => pool_free_oguard lg && forallb pool_free_condlit es && pool_free_oguard rg
  | HHeadAgg lg _ es rg =>
      pool_free_oguard lg && forallb (fun e => forallb pool_free_term (fst e) && pool_free_condlit (snd e)) es
      && pool_free_oguard rg
  | HTheory _ => true
  end.
(* no Pool node in the typed part and no possible pool in the opaque part *)
Definition pool_free_stmt (st: stmt) : bool :=
  negb (unpool_opaque st) &&
  match st with
  | SRule _ h b => pool_free_head h && forallb pool_free_bodyelem b
  | SMin _ w p ts b => pool_free_term w && pool_free_term p && forallb pool_free_term ts && forallb pool_free_bodyelem b
  | SShowTerm t b => pool_free_term t && forallb pool_free_bodyelem b
  | SShowSig _ _ _ => true
  | SOther _ _ => true
  end.

Lemma cross_step_one {A} (r: list A) x : cross_step [r] [x] = [r ++ [x]].
Proof. reflexivity. Qed.
Lemma vec_cross_singletons {A} (f: A -> list A) l : Forall (fun x => f x = [x]) l -> vec_cross (map f l) = [l].
Proof.
  intro F. unfold vec_cross.
  assert (K: forall acc, fold_left cross_step (map f l) [acc] = [acc ++ l]).
  { induction F as [|x l E _ IH]; intro acc; simpl; [rewrite app_nil_r; reflexivity|].
    rewrite E, cross_step_one, IH, <- app_assoc. reflexivity. }
  apply (K []).
Qed.
Lemma flat_map_singletons {A} (f: A -> list A) l : Forall (fun x => f x = [x]) l -> flat_map f l = l.
Proof. induction 1 as [|x l E _ IH]; simpl; [reflexivity|]. rewrite E, IH. reflexivity. Qed.
Lemma cross2_one {A B C} (f: A -> B -> C) x y : cross2 f [x] [y] = [f x y].
Proof. reflexivity. Qed.
Lemma forallb_Forall {A} (p: A -> bool) (Q: A -> Prop) l :
  Forall (fun x => p x = true -> Q x) l -> forallb p l = true -> Forall Q l.
Proof.
  induction 1 as [|x l E _ IH]; simpl; intro OK; [constructor|].
  apply andb_true_iff in OK. destruct OK as [O1 O2]. constructor; auto.
Qed.
Lemma forallb_Forall' {A} (p: A -> bool) (Q: A -> Prop) l :
  (forall x, p x = true -> Q x) -> forallb p l = true -> Forall Q l.
Proof. intros E. apply forallb_Forall. apply Forall_forall. intros x _. apply E. Qed.

Lemma unpool_term_pool_free t : pool_free_term t = true -> unpool_term t = [t].
Proof.
  induction t as [x|s|o t IHt|o l r IHl IHr|l r IHl IHr|n xs e IHxs|xs IHxs] using term_ind'; simpl; intro OK.
  - reflexivity.
  - reflexivity.
  - rewrite (IHt OK). reflexivity.
  - apply andb_true_iff in OK. destruct OK as [A B]. rewrite (IHl A), (IHr B). reflexivity.
  - apply andb_true_iff in OK. destruct OK as [A B]. rewrite (IHl A), (IHr B). reflexivity.
  - rewrite (vec_cross_singletons unpool_term xs (forallb_Forall _ _ _ IHxs OK)). reflexivity.
  - discriminate.
Qed.
Lemma unpool_terms_pool_free ts : forallb pool_free_term ts = true -> unpool_terms ts = [ts].
Proof.
  intro OK. unfold unpool_terms. apply vec_cross_singletons.
  exact (forallb_Forall' _ _ _ unpool_term_pool_free OK).
Qed.
Lemma unpool_guard_pool_free g : pool_free_guard g = true -> unpool_guard g = [g].
Proof. intro OK. unfold unpool_guard. rewrite (unpool_term_pool_free _ OK). destruct g; reflexivity. Qed.
Lemma unpool_oguard_pool_free g : pool_free_oguard g = true -> unpool_oguard g = [g].
Proof. destruct g as [g|]; simpl; intro OK; [rewrite (unpool_guard_pool_free _ OK)|]; reflexivity. Qed.

Lemma unpool_lit_eq s a : unpool_lit (Lit s a) = map (Lit s) (unpool_atom a).
Proof. reflexivity. Qed.
Lemma unpool_atom_bodyagg lg f es rg :
  unpool_atom (ABodyAgg lg f es rg) =
  cross2 (fun l r => ABodyAgg l f
            (flat_map (fun e => cross2 pair (unpool_terms (fst e)) (vec_cross (map unpool_lit (snd e)))) es) r)
         (unpool_oguard lg) (unpool_oguard rg).
Proof. reflexivity. Qed.
Lemma unpool_atom_agg lg es rg :
  unpool_atom (AAgg lg es rg) =
  cross2 (fun l r => AAgg l
            (flat_map (fun e => cross2 pair (unpool_lit (fst e)) (vec_cross (map unpool_lit (snd e)))) es) r)
         (unpool_oguard lg) (unpool_oguard rg).
Proof. reflexivity. Qed.
Lemma pool_free_bodyagg s lg f es rg :
  pool_free_lit (Lit s (ABodyAgg lg f es rg)) =
  pool_free_oguard lg && forallb (fun e => forallb pool_free_term (fst e) && forallb pool_free_lit (snd e)) es
  && pool_free_oguard rg.
Proof. reflexivity. Qed.
Lemma pool_free_agg s lg es rg :
  pool_free_lit (Lit s (AAgg lg es rg)) =
  pool_free_oguard lg && forallb (fun e => pool_free_lit (fst e) && forallb pool_free_lit (snd e)) es
  && pool_free_oguard rg.
Proof. reflexivity. Qed.

Lemma unpool_lit_pool_free : forall l, pool_free_lit l = true -> unpool_lit l = [l].
Proof.
  apply (TraverseSpec.lit_ind' (fun l => pool_free_lit l = true -> unpool_lit l = [l])).
  - intros s t OK. simpl in *. rewrite (unpool_term_pool_free t OK). reflexivity.
  - intros s t gs OK. simpl in OK. apply andb_true_iff in OK. destruct OK as [A B].
    rewrite unpool_lit_eq. simpl unpool_atom. rewrite (unpool_term_pool_free t A).
    rewrite (vec_cross_singletons unpool_guard gs (forallb_Forall' _ _ _ unpool_guard_pool_free B)). reflexivity.
  - reflexivity.
  - intros s lg f es rg IH OK. rewrite pool_free_bodyagg in OK.
    apply andb_true_iff in OK. destruct OK as [OK C]. apply andb_true_iff in OK. destruct OK as [A B].
    rewrite unpool_lit_eq, unpool_atom_bodyagg, (unpool_oguard_pool_free lg A), (unpool_oguard_pool_free rg C), cross2_one.
    rewrite flat_map_singletons; [reflexivity|].
    rewrite Forall_forall in IH. rewrite forallb_forall in B. apply Forall_forall. intros e He.
    specialize (B e He). apply andb_true_iff in B. destruct B as [B1 B2].
    rewrite (unpool_terms_pool_free _ B1).
    rewrite (vec_cross_singletons unpool_lit (snd e) (forallb_Forall _ _ _ (IH e He) B2)).
    destruct e; reflexivity.
  - intros s lg es rg IH OK. rewrite pool_free_agg in OK.
    apply andb_true_iff in OK. destruct OK as [OK C]. apply andb_true_iff in OK. destruct OK as [A B].
    rewrite unpool_lit_eq, unpool_atom_agg, (unpool_oguard_pool_free lg A), (unpool_oguard_pool_free rg C), cross2_one.
    rewrite flat_map_singletons; [reflexivity|].
    rewrite Forall_forall in IH. rewrite forallb_forall in B. apply Forall_forall. intros e He.
    specialize (B e He). apply andb_true_iff in B. destruct B as [B1 B2]. destruct (IH e He) as [I1 I2].
    rewrite (I1 B1).
    rewrite (vec_cross_singletons unpool_lit (snd e) (forallb_Forall _ _ _ I2 B2)).
    destruct e; reflexivity.
  - reflexivity.
Qed.
Lemma unpool_lits_pool_free ls : forallb pool_free_lit ls = true -> unpool_lits ls = [ls].
Proof.
  intro OK. unfold unpool_lits. apply vec_cross_singletons. exact (forallb_Forall' _ _ _ unpool_lit_pool_free OK).
Qed.
Lemma unpool_condlit_pool_free c : pool_free_condlit c = true -> unpool_condlit c = [c].
Proof.
  intro OK. apply andb_true_iff in OK. destruct OK as [A B]. unfold unpool_condlit.
  rewrite (unpool_lit_pool_free _ A), (unpool_lits_pool_free _ B). destruct c; reflexivity.
Qed.
Lemma condlit_siblings_pool_free c : pool_free_condlit c = true -> condlit_siblings c = [c].
Proof.
  intro OK. apply andb_true_iff in OK. destruct OK as [A B]. unfold condlit_siblings.
  rewrite (unpool_lits_pool_free _ B). destruct c; reflexivity.
Qed.
Lemma condlit_alternatives_pool_free c : pool_free_condlit c = true -> condlit_alternatives c = [c].
Proof.
  intro OK. apply andb_true_iff in OK. destruct OK as [A B]. unfold condlit_alternatives.
  rewrite (unpool_lit_pool_free _ A). destruct c; reflexivity.
Qed.
Lemma body_siblings_pool_free b : pool_free_bodyelem b = true -> body_siblings b = [b].
Proof.
  destruct b as [l|l c]; simpl; intro OK; [reflexivity|]. rewrite (condlit_siblings_pool_free (l, c) OK). reflexivity.
Qed.
Lemma bodyelem_alternatives_pool_free b : pool_free_bodyelem b = true -> bodyelem_alternatives b = [b].
Proof.
  destruct b as [l|l c]; simpl; intro OK.
  - rewrite (unpool_lit_pool_free l OK). reflexivity.
  - rewrite (condlit_alternatives_pool_free (l, c) OK). reflexivity.
Qed.
Lemma unpool_body_pool_free b : forallb pool_free_bodyelem b = true -> unpool_body b = [b].
Proof.
  intro OK. unfold unpool_body.
  rewrite (flat_map_singletons body_siblings b (forallb_Forall' _ _ _ body_siblings_pool_free OK)).
  apply vec_cross_singletons. exact (forallb_Forall' _ _ _ bodyelem_alternatives_pool_free OK).
Qed.
Lemma unpool_head_pool_free h : pool_free_head h = true -> unpool_head h = [h].
Proof.
  destruct h as [l|es|lg es rg|lg f es rg|t]; simpl; intro OK.
  - rewrite (unpool_lit_pool_free l OK). reflexivity.
  - rewrite (flat_map_singletons condlit_siblings es (forallb_Forall' _ _ _ condlit_siblings_pool_free OK)).
    rewrite (vec_cross_singletons condlit_alternatives es (forallb_Forall' _ _ _ condlit_alternatives_pool_free OK)).
    reflexivity.
  - apply andb_true_iff in OK. destruct OK as [OK C]. apply andb_true_iff in OK. destruct OK as [A B].
    rewrite (unpool_oguard_pool_free lg A), (unpool_oguard_pool_free rg C), cross2_one.
    rewrite (flat_map_singletons unpool_condlit es (forallb_Forall' _ _ _ unpool_condlit_pool_free B)). reflexivity.
  - apply andb_true_iff in OK. destruct OK as [OK C]. apply andb_true_iff in OK. destruct OK as [A B].
    rewrite (unpool_oguard_pool_free lg A), (unpool_oguard_pool_free rg C), cross2_one.
    rewrite flat_map_singletons; [reflexivity|].
    refine (forallb_Forall' _ _ _ _ B). intros e Oe. simpl in Oe.
    apply andb_true_iff in Oe. destruct Oe as [O1 O2].
    rewrite (unpool_terms_pool_free _ O1), (unpool_condlit_pool_free _ O2). destruct e; reflexivity.
  - reflexivity.
Qed.

Theorem unpool_stmt_pool_free_proof : forall st, pool_free_stmt st = true -> unpool_stmt st = Ok [st].
Proof.
  intros st OK. unfold pool_free_stmt in OK. apply andb_true_iff in OK. destruct OK as [NO OK].
  unfold unpool_stmt. apply negb_true_iff in NO. rewrite NO.
  destruct st as [line h b|line w p ts b|n a p|t b|k tx]; try reflexivity.
  - apply andb_true_iff in OK. destruct OK as [A B].
    rewrite (unpool_head_pool_free h A), (unpool_body_pool_free b B). reflexivity.
  - apply andb_true_iff in OK. destruct OK as [OK D]. apply andb_true_iff in OK. destruct OK as [OK C].
    apply andb_true_iff in OK. destruct OK as [A B].
    rewrite (unpool_term_pool_free w A), (unpool_term_pool_free p B), (unpool_terms_pool_free ts C),
            (unpool_body_pool_free b D). reflexivity.
  - apply andb_true_iff in OK. destruct OK as [A B].
    rewrite (unpool_term_pool_free t A), (unpool_body_pool_free b B). reflexivity.
Qed.

(* ---- the three passes keep the side conditions ---- *)
Lemma forallb_map' {A B} (p: B -> bool) (f: A -> B) l : forallb p (map f l) = forallb (fun x => p (f x)) l.
Proof. induction l as [|x l IH]; simpl; [reflexivity|]. rewrite IH. reflexivity. Qed.
Lemma forallb_flat_map {A B} (p: B -> bool) (f: A -> list B) l :
  forallb p (flat_map f l) = forallb (fun x => forallb p (f x)) l.
Proof. induction l as [|x l IH]; simpl; [reflexivity|]. rewrite forallb_app, IH. reflexivity. Qed.
Lemma forallb_impl {A} (p q: A -> bool) l : (forall x, p x = true -> q x = true) -> forallb p l = true -> forallb q l = true.
Proof. intros E. rewrite !forallb_forall. intros F x Hx. apply E, F, Hx. Qed.

Lemma cmp_ok_count_to_sum x : cmp_ok_bodyelem (count_to_sum_bodyelem x) = cmp_ok_bodyelem x.
Proof.
  destruct x as [[sg a]|l c]; [|reflexivity]. destruct a as [t|t gs|bb|lg f es rg|lg es rg|tx]; try reflexivity.
  destruct f; try reflexivity. simpl. unfold convert_count_elems. rewrite forallb_map'. reflexivity.
Qed.
Lemma cmp_ok_remove_bounds x : cmp_ok_bodyelem (remove_bounds_bodyelem x) = cmp_ok_bodyelem x.
Proof.
  destruct x as [[sg a]|l c]; [|reflexivity]. destruct a as [t|t gs|bb|lg f es rg|lg es rg|tx]; try reflexivity.
  unfold remove_bounds_bodyelem. destruct (normalize_guards lg rg). reflexivity.
Qed.

Lemma theory_text_count_to_sum x : theory_text_of_bodyelem (count_to_sum_bodyelem x) = theory_text_of_bodyelem x.
Proof.
  destruct x as [[sg a]|l c]; [|reflexivity]. destruct a as [t|t gs|bb|lg f es rg|lg es rg|tx]; try reflexivity.
  destruct f; reflexivity.
Qed.
Lemma theory_text_remove_bounds x : theory_text_of_bodyelem (remove_bounds_bodyelem x) = theory_text_of_bodyelem x.
Proof.
  destruct x as [[sg a]|l c]; [|reflexivity]. destruct a as [t|t gs|bb|lg f es rg|lg es rg|tx]; try reflexivity.
  unfold remove_bounds_bodyelem. destruct (normalize_guards lg rg). reflexivity.
Qed.
Lemma theory_text_expand x : flat_map theory_text_of_bodyelem (expand_bodyelem x) = theory_text_of_bodyelem x.
Proof.
  destruct x as [[sg a]|l c]; [|reflexivity]. destruct a as [t|t gs|bb|lg f es rg|lg es rg|tx]; try reflexivity.
  simpl expand_bodyelem. simpl theory_text_of_bodyelem.
  unfold split_cmp_lit. induction (comparison2comparisonlist t gs) as [|[[l o] r] q IH]; [reflexivity|]. simpl. exact IH.
Qed.
Lemma flat_map_map' {A B C} (f: A -> B) (g: B -> list C) l : flat_map g (map f l) = flat_map (fun x => g (f x)) l.
Proof. induction l as [|x l IH]; simpl; [reflexivity|]. rewrite IH. reflexivity. Qed.
Lemma flat_map_flat_map {A B C} (f: A -> list B) (g: B -> list C) l :
  flat_map g (flat_map f l) = flat_map (fun x => flat_map g (f x)) l.
Proof. induction l as [|x l IH]; simpl; [reflexivity|]. rewrite flat_map_app, IH. reflexivity. Qed.
Lemma theory_texts_pipeline b :
  flat_map theory_text_of_bodyelem (normalize_operators (map remove_bounds_bodyelem (map count_to_sum_bodyelem b)))
  = flat_map theory_text_of_bodyelem b.
Proof.
  rewrite normalize_operators_eq, flat_map_flat_map, !flat_map_map'.
  apply flat_map_ext. intro x. rewrite theory_text_expand, theory_text_remove_bounds, theory_text_count_to_sum. reflexivity.
Qed.

Lemma pool_free_lit_sign s s' a : pool_free_lit (Lit s a) = pool_free_lit (Lit s' a).
Proof. reflexivity. Qed.
Lemma pool_free_count_to_sum x : pool_free_bodyelem x = true -> pool_free_bodyelem (count_to_sum_bodyelem x) = true.
Proof.
  destruct x as [[sg a]|l c]; [|tauto]. destruct a as [t|t gs|bb|lg f es rg|lg es rg|tx]; try tauto.
  destruct f; try tauto. unfold count_to_sum_bodyelem, convert_count_to_sum, pool_free_bodyelem.
  rewrite !pool_free_bodyagg.
  unfold convert_count_elems. rewrite forallb_map'. simpl. tauto.
Qed.
Lemma pool_free_drop_left g : pool_free_oguard g = true -> pool_free_oguard (drop_left_guard g) = true.
Proof. destruct g as [[o t]|]; [|tauto]. destruct t; try tauto. simpl. destruct (_ || _); tauto. Qed.
Lemma pool_free_drop_right g : pool_free_oguard g = true -> pool_free_oguard (drop_right_guard g) = true.
Proof. destruct g as [[o t]|]; [|tauto]. destruct t; try tauto. simpl. destruct (_ || _); tauto. Qed.
Lemma pool_free_normalize_guards lg rg : pool_free_oguard lg = true -> pool_free_oguard rg = true ->
  pool_free_oguard (fst (normalize_guards lg rg)) = true /\ pool_free_oguard (snd (normalize_guards lg rg)) = true.
Proof.
  intros A B. apply pool_free_drop_left in A. apply pool_free_drop_right in B. unfold normalize_guards.
  destruct (drop_left_guard lg) as [gl|]; [simpl; tauto|].
  destruct (drop_right_guard rg) as [[o t]|]; simpl; tauto.
Qed.
Lemma pool_free_remove_bounds x : pool_free_bodyelem x = true -> pool_free_bodyelem (remove_bounds_bodyelem x) = true.
Proof.
  destruct x as [[sg a]|l c]; [|tauto]. destruct a as [t|t gs|bb|lg f es rg|lg es rg|tx]; try tauto.
  unfold remove_bounds_bodyelem. pose proof (pool_free_normalize_guards lg rg) as N.
  destruct (normalize_guards lg rg) as [lg' rg']. unfold pool_free_bodyelem.
  rewrite !pool_free_bodyagg.
  intro OK. apply andb_true_iff in OK. destruct OK as [OK C]. apply andb_true_iff in OK. destruct OK as [A B].
  destruct (N A C) as [N1 N2]. simpl in N1, N2. rewrite N1, N2, B. reflexivity.
Qed.
Lemma pool_free_split_cmp_lit sg t gs : pool_free_term t = true -> forallb pool_free_guard gs = true ->
  forallb pool_free_lit (split_cmp_lit sg t gs) = true.
Proof.
  unfold split_cmp_lit. revert t. induction gs as [|[o u] gs IH]; intros t A B; [reflexivity|].
  simpl in B. apply andb_true_iff in B. destruct B as [B1 B2]. unfold pool_free_guard in B1. simpl in B1.
  simpl. unfold pool_free_guard at 1. simpl. rewrite A, B1. simpl. apply IH; assumption.
Qed.
Lemma pool_free_noc cs : forallb pool_free_lit cs = true -> forallb pool_free_lit (normalize_operators_condition cs) = true.
Proof.
  unfold normalize_operators_condition. rewrite forallb_flat_map. apply forallb_impl. intros [sg a] OK. cbv beta.
  destruct a as [t|t gs|bb|lg f es rg|lg es rg|tx]; try (cbn [forallb]; rewrite OK; reflexivity).
  simpl in OK. apply andb_true_iff in OK. destruct OK as [A B]. apply pool_free_split_cmp_lit; assumption.
Qed.
Lemma pool_free_expand x : pool_free_bodyelem x = true -> forallb pool_free_bodyelem (expand_bodyelem x) = true.
Proof.
  destruct x as [[sg a]|l c].
  - destruct a as [t|t gs|bb|lg f es rg|lg es rg|tx]; try (intro OK; simpl expand_bodyelem; cbn [forallb]; rewrite OK; reflexivity).
    + intro OK. simpl in OK. apply andb_true_iff in OK. destruct OK as [A B].
      simpl expand_bodyelem. rewrite forallb_map'. apply (pool_free_split_cmp_lit sg t gs A B).
    + unfold pool_free_bodyelem, expand_bodyelem. cbn [forallb]. rewrite andb_true_r.
      rewrite !pool_free_bodyagg.
      intro OK. apply andb_true_iff in OK. destruct OK as [OK C]. apply andb_true_iff in OK. destruct OK as [A B].
      rewrite A, C, andb_true_r. simpl. rewrite forallb_map'. revert B. apply forallb_impl. intros e Oe. simpl.
      apply andb_true_iff in Oe. destruct Oe as [O1 O2]. rewrite O1, (pool_free_noc _ O2). reflexivity.
  - intro OK. simpl in OK. unfold pool_free_condlit in OK. simpl in OK. apply andb_true_iff in OK. destruct OK as [A B].
    simpl. unfold pool_free_condlit. simpl. rewrite A, (pool_free_noc _ B). reflexivity.
Qed.
Lemma pool_free_pipeline b : forallb pool_free_bodyelem b = true ->
  forallb pool_free_bodyelem (normalize_operators (map remove_bounds_bodyelem (map count_to_sum_bodyelem b))) = true.
Proof.
  rewrite normalize_operators_eq, forallb_flat_map, !forallb_map'. apply forallb_impl. intros x OK.
  apply pool_free_expand, pool_free_remove_bounds, pool_free_count_to_sum, OK.
Qed.
Lemma cmp_ok_pipeline b : cmp_ok_body (map remove_bounds_bodyelem (map count_to_sum_bodyelem b)) = cmp_ok_body b.
Proof.
  unfold cmp_ok_body. rewrite !forallb_map'. induction b as [|x b IH]; simpl; [reflexivity|].
  rewrite IH, cmp_ok_remove_bounds, cmp_ok_count_to_sum. reflexivity.
Qed.

(* ---- statements that pass through preprocess unchanged ---- *)
Definition no_bodyagg_bodyelem (b: bodyelem) : bool :=
  match b with BLit (Lit _ (ABodyAgg _ _ _ _)) => false | _ => true end.
Definition passthrough_stmt (st: stmt) : bool :=
  match st with
  | SShowSig _ _ _ => true
  | SOther kind text => negb (other_has_body kind && has_char lbrace text) && negb (unpool_opaque st)
  | SShowTerm t b => pool_free_stmt st && forallb no_bodyagg_bodyelem b
  | _ => false
  end.

Lemma remove_bounds_no_bodyagg b : forallb no_bodyagg_bodyelem b = true -> map remove_bounds_bodyelem b = b.
Proof.
  induction b as [|x b IH]; simpl; intro OK; [reflexivity|]. apply andb_true_iff in OK. destruct OK as [A B].
  rewrite (IH B). f_equal. destruct x as [[sg a]|l c]; [|reflexivity]. destruct a; try reflexivity. discriminate.
Qed.

(* #show term : body.  -- only the bounds of body aggregates change *)
Theorem preprocess_show_term_proof : forall t b, pool_free_stmt (SShowTerm t b) = true ->
  preprocess_stmt (SShowTerm t b) = Ok [SShowTerm t (map remove_bounds_bodyelem b)].
Proof.
  intros t b OK. unfold preprocess_stmt. simpl rbind. apply unpool_stmt_pool_free_proof.
  unfold pool_free_stmt in *. apply andb_true_iff in OK. destruct OK as [NO OK].
  apply andb_true_iff in OK. destruct OK as [A B]. apply andb_true_iff. split.
  - simpl in *. rewrite flat_map_map'.
    rewrite (flat_map_ext _ theory_text_of_bodyelem theory_text_remove_bounds). exact NO.
  - rewrite A. simpl. rewrite forallb_map'. revert B. apply forallb_impl. intro x. apply pool_free_remove_bounds.
Qed.

Theorem preprocess_stmt_passthrough_proof : forall st, passthrough_stmt st = true -> preprocess_stmt st = Ok [st].
Proof.
  intros st OK. destruct st as [line h b|line w p ts b|n a p|t b|k tx]; try discriminate.
  - reflexivity.
  - simpl in OK. apply andb_true_iff in OK. destruct OK as [A B].
    rewrite (preprocess_show_term_proof t b A), (remove_bounds_no_bodyagg b B). reflexivity.
  - simpl in OK. apply andb_true_iff in OK. destruct OK as [A B].
    apply negb_true_iff in A. apply negb_true_iff in B.
    unfold preprocess_stmt. simpl. rewrite A. simpl. unfold unpool_stmt. simpl. rewrite B. reflexivity.
Qed.

(* item 5: inside any program, a pass-through statement is returned unchanged and in place *)
Theorem preprocess_passthrough_proof : forall P1 st P2 Q, passthrough_stmt st = true ->
  preprocess (P1 ++ st :: P2) = Ok Q ->
  exists Q1 Q2, preprocess P1 = Ok Q1 /\ preprocess P2 = Ok Q2 /\ Q = Q1 ++ st :: Q2.
Proof.
  intros P1 st P2 Q OK E. apply preprocess_decompose_proof in E. destruct E as [Qs [F ->]].
  apply Forall2_app_inv_l in F. destruct F as (L1 & L2 & F1 & F2 & ->).
  inversion F2 as [|x q X L2' E F2']; subst.
  rewrite (preprocess_stmt_passthrough_proof st OK) in E. injection E as <-.
  exists (List.concat L1), (List.concat L2'). split; [|split].
  - apply preprocess_decompose_proof. exists L1. auto.
  - apply preprocess_decompose_proof. exists L2'. auto.
  - rewrite concat_app. reflexivity.
Qed.
Corollary preprocess_passthrough_single_proof : forall st, passthrough_stmt st = true -> preprocess [st] = Ok [st].
Proof.
  intros st OK. apply preprocess_decompose_proof. exists [[st]]. split; [|reflexivity].
  constructor; [apply preprocess_stmt_passthrough_proof; exact OK | constructor].
Qed.

(* ====================================================================================== *)
(* 7. capstone: preprocess keeps the answer sets                                          *)
(* ====================================================================================== *)
Definition is_rule (st: stmt) : bool := match st with SRule _ _ _ => true | _ => false end.
(* side condition, on rules only: no old-style aggregate in the body, no negated comparison chain and
   no guard-less comparison where normalize_operators splits, no pool *)
Definition preprocess_ok_stmt (st: stmt) : bool :=
  match st with
  | SRule _ _ _ => no_old_agg_rule st && cmp_ok_stmt st && pool_free_stmt st
  | _ => true
  end.

Lemma in_cross2 {A B C} (f: A -> B -> C) xs ys z : In z (cross2 f xs ys) -> exists x y, z = f x y.
Proof.
  unfold cross2. intro I'. apply in_flat_map in I'. destruct I' as [x [_ I']].
  apply in_map_iff in I'. destruct I' as [y [<- _]]. exists x, y. reflexivity.
Qed.

Lemma unpool_stmt_nonrule st q : is_rule st = false -> unpool_stmt st = Ok q -> forall st', In st' q -> is_rule st' = false.
Proof.
  intros NR E st' I'. unfold unpool_stmt in E. destruct (unpool_opaque st); [discriminate|]. injection E as <-.
  destruct st as [line h b|line w p ts b|n a p|t b|k tx]; try discriminate.
  - apply in_flat_map in I'. destruct I' as [b' [_ I']]. apply in_flat_map in I'. destruct I' as [w' [_ I']].
    apply in_flat_map in I'. destruct I' as [p' [_ I']]. apply in_map_iff in I'. destruct I' as [ts' [<- _]]. reflexivity.
  - destruct I' as [<-|[]]. reflexivity.
  - apply in_cross2 in I'. destruct I' as [b' [t' ->]]. reflexivity.
  - destruct I' as [<-|[]]. reflexivity.
Qed.

Lemma preprocess_stmt_nonrule st q : is_rule st = false -> preprocess_stmt st = Ok q ->
  forall st', In st' q -> is_rule st' = false.
Proof.
  intros NR E. apply preprocess_stmt_ok in E. destruct E as (s1 & s2 & E1 & E2 & E3).
  apply (unpool_stmt_nonrule (expand_comparisons s2) q); [|exact E3].
  assert (N1: is_rule s1 = false).
  { destruct st as [line h b|line w p ts b|n a p|t b|k tx]; try discriminate; simpl in E1;
      try (injection E1 as <-; reflexivity).
    destruct (replace_old_body b _); simpl in E1; try discriminate. injection E1 as <-. reflexivity. }
  assert (N2: is_rule s2 = false).
  { destruct s1 as [line h b|line w p ts b|n a p|t b|k tx]; try discriminate; simpl in E2;
      try (injection E2 as <-; reflexivity).
    destruct (_ && _); [discriminate|]. injection E2 as <-. reflexivity. }
  destruct s2; try discriminate; reflexivity.
Qed.

Lemma preprocess_stmt_rule_eq line h b :
  preprocess_ok_stmt (SRule line h b) = true ->
  preprocess_stmt (SRule line h b) =
  Ok [SRule line h (normalize_operators (map remove_bounds_bodyelem (map count_to_sum_bodyelem b)))].
Proof.
  intro OK. simpl in OK. apply andb_true_iff in OK. destruct OK as [OK PF]. apply andb_true_iff in OK. destruct OK as [NO CO].
  unfold preprocess_stmt. simpl replace_old_aggregates_stm. rewrite (replace_old_body_no_old b _ NO).
  simpl rbind. apply unpool_stmt_pool_free_proof.
  unfold pool_free_stmt in *. apply andb_true_iff in PF. destruct PF as [A B].
  apply andb_true_iff in B. destruct B as [B1 B2]. apply andb_true_iff. split.
  - simpl in *. rewrite theory_texts_pipeline. exact A.
  - rewrite B1. simpl. apply pool_free_pipeline. exact B2.
Qed.

Section Preprocess.
Variable sym_lt : sym -> sym -> Prop.
Hypothesis ord : sym_order sym_lt.
Notation stmt_sat := (stmt_sat sym_lt).
Notation equiv_all := (equiv_all sym_lt).

Lemma nonrule_sat H T st : is_rule st = false -> stmt_sat H T st <-> True.
Proof. destruct st; try discriminate; intros _; simpl; tauto. Qed.

Theorem preprocess_rule_proof : forall line h b, preprocess_ok_stmt (SRule line h b) = true ->
  exists r, preprocess_stmt (SRule line h b) = Ok [r] /\
            forall H T, stmt_sat H T (SRule line h b) <-> stmt_sat H T r.
Proof.
  intros line h b OK. eexists. split; [apply preprocess_stmt_rule_eq; exact OK|].
  simpl in OK. apply andb_true_iff in OK. destruct OK as [OK PF]. apply andb_true_iff in OK. destruct OK as [NO CO].
  intros H T.
  rewrite (proj2 (count_to_sum_rule_proof sym_lt line h b NO) H T).
  rewrite (proj2 (remove_bounds_rule_proof sym_lt ord line h (map count_to_sum_bodyelem b)) H T).
  apply (expand_comparisons_rule_proof sym_lt line h). rewrite cmp_ok_pipeline. exact CO.
Qed.

Lemma forall2_concat_equiv_all P Qs :
  Forall2 (fun st q => forall H T, stmt_sat H T st <-> (forall st', In st' q -> stmt_sat H T st')) P Qs ->
  equiv_all P (List.concat Qs).
Proof.
  intro F. apply stmts_equiv_equiv_all. intros H T _. induction F as [|st q P Qs E _ IH]; simpl; [tauto|].
  split.
  - intros A st' I'. apply in_app_iff in I'. destruct I' as [I'|I'].
    + apply (proj1 (E H T)); [apply A; left; reflexivity | exact I'].
    + apply (proj1 IH); [|exact I']. intros x Hx. apply A. right. exact Hx.
  - intros A x [<-|Hx].
    + apply (proj2 (E H T)). intros st' I'. apply A. apply in_app_iff. left. exact I'.
    + apply (proj2 IH); [|exact Hx]. intros st' I'. apply A. apply in_app_iff. right. exact I'.
Qed.

Theorem preprocess_equiv_proof : forall P Q, forallb preprocess_ok_stmt P = true ->
  preprocess P = Ok Q -> equiv_all P Q.
Proof.
  intros P Q OK E. apply preprocess_decompose_proof in E. destruct E as [Qs [F ->]].
  apply forall2_concat_equiv_all. rewrite forallb_forall in OK.
  induction F as [|st q P Qs E _ IH]; constructor.
  - specialize (OK st (or_introl eq_refl)). intros H T. destruct (is_rule st) eqn:R.
    + destruct st as [line h b| | | |]; try discriminate.
      destruct (preprocess_rule_proof line h b OK) as [r [E' S]]. rewrite E' in E. injection E as <-.
      rewrite (S H T). split; [intros A st' [<-|[]]; exact A | intro A; apply A; left; reflexivity].
    + rewrite (nonrule_sat H T st R). split; [|tauto]. intros _ st' I'.
      apply (nonrule_sat H T st'). apply (preprocess_stmt_nonrule st q R E st' I'). exact I.
  - apply IH. intros x Hx. apply OK. right. exact Hx.
Qed.
End Preprocess.

(* ====================================================================================== *)
(* 8. the excluded case is really excluded: negated chains at statement level             *)
(* ====================================================================================== *)
Section NegChain.
Variable sym_lt : sym -> sym -> Prop.
Hypothesis ord : sym_order sym_lt.
Definition negchain_rule : stmt :=
  SRule 0 (HLit (Lit NoSign (ASym (TFun "a" [] false)))) [BLit (Lit Neg (ACmp negchain_t negchain_gs))].
Definition empty_interp : interp := fun _ => False.

(*  a :- not 1 < 2 < 1.   has no HT model with a false;   a :- not 1 < 2, not 2 < 1.   has one *)
Theorem expand_comparisons_neg_chain_refuted_proof :
  cmp_ok_stmt negchain_rule = false /\
  ~ stmt_sat sym_lt empty_interp empty_interp negchain_rule /\
  stmt_sat sym_lt empty_interp empty_interp (expand_comparisons negchain_rule).
Proof.
  split; [reflexivity|]. split.
  - intro S. simpl in S. unfold Sat.rule_sat in S. destruct (S (fun _ => SInf)) as [S1 _].
    assert (B: body_sat sym_lt (gvars_rule (HLit (Lit NoSign (ASym (TFun "a" [] false))))
                                  [BLit (Lit Neg (ACmp negchain_t negchain_gs))])
                 empty_interp empty_interp (fun _ => SInf) [BLit (Lit Neg (ACmp negchain_t negchain_gs))]).
    { apply body_sat_one. simpl bodyelem_sat.
      apply (proj1 (chain_split_neg_refuted_proof sym_lt ord _ _ _ _)). }
    specialize (S1 B). simpl in S1. unfold Sat.sym_atom_sat in S1. simpl in S1. exact S1.
  - simpl expand_comparisons. simpl. unfold Sat.rule_sat. intro s.
    assert (NB: forall G X, ~ body_sat sym_lt G X empty_interp s
                              (normalize_operators [BLit (Lit Neg (ACmp negchain_t negchain_gs))])).
    { intros G X B. change (normalize_operators [BLit (Lit Neg (ACmp negchain_t negchain_gs))])
        with (map BLit (split_cmp_lit Neg negchain_t negchain_gs) ++ []) in B.
      rewrite app_nil_r in B. apply body_sat_blits in B.
      exact (proj2 (chain_split_neg_refuted_proof sym_lt ord G X empty_interp s) B). }
    split; intro B; exfalso; exact (NB _ _ B).
Qed.
End NegChain.

(* ====================================================================================== *)
(* 9. non-vacuity of the side conditions                                                  *)
(* ====================================================================================== *)
Local Open Scope string_scope.
Definition vX := TVar "X". Definition vY := TVar "Y". Definition vZ := TVar "Z".
Definition pX := Lit NoSign (ASym (TFun "p" [vX] false)).
Definition ex_chain sg := Lit sg (ACmp vX [(CLt, vY); (CLe, vZ)]).
Definition ex_body : list bodyelem :=
  [ BLit pX;
    BLit (ex_chain NoSign);                                   (* X < Y <= Z *)
    BLit (ex_chain NegNeg);                                   (* not not X < Y <= Z *)
    BLit (Lit Neg (ACmp vX [(CEq, vY)]));                     (* not X = Y *)
    BCond pX [ex_chain NoSign];                               (* p(X) : X < Y <= Z *)
    BLit (Lit NoSign (ABodyAgg None FCount [([vX], [pX; ex_chain NoSign])] (Some (CLe, TSym (SNum 3)))))
                                                              (* #count { X : p(X), X < Y <= Z } <= 3 *)
  ].
Definition ex_rule : stmt := SRule 1 (HLit (Lit NoSign (ASym (TFun "q" [vY; vZ] false)))) ex_body.

Example cmp_ok_nonvacuous :
  cmp_ok_body ex_body = true /\ cmp_ok_stmt ex_rule = true /\
  normalize_operators ex_body =
  [ BLit pX;
    BLit (Lit NoSign (ACmp vX [(CLt, vY)])); BLit (Lit NoSign (ACmp vY [(CLe, vZ)]));
    BLit (Lit NegNeg (ACmp vX [(CLt, vY)])); BLit (Lit NegNeg (ACmp vY [(CLe, vZ)]));
    BLit (Lit Neg (ACmp vX [(CEq, vY)]));
    BCond pX [Lit NoSign (ACmp vX [(CLt, vY)]); Lit NoSign (ACmp vY [(CLe, vZ)])];
    BLit (Lit NoSign (ABodyAgg None FCount
            [([vX], [pX; Lit NoSign (ACmp vX [(CLt, vY)]); Lit NoSign (ACmp vY [(CLe, vZ)])])]
            (Some (CLe, TSym (SNum 3))))) ].
Proof. repeat split. Qed.
Example cmp_ok_rejects : cmp_ok_lit (ex_chain Neg) = false /\ cmp_ok_lit (Lit NoSign (ACmp vX [])) = false.
Proof. split; reflexivity. Qed.

(* remove_unecessary_bounds needs no side condition; it does change statements *)
Example remove_bounds_nonvacuous :
  remove_unecessary_bounds
    [SRule 1 (HLit pX) [BLit (Lit NoSign (ABodyAgg (Some (CLe, TSym SInf)) FSum [([vX], [pX])] (Some (CLe, vY))))]]
  = Ok [SRule 1 (HLit pX) [BLit (Lit NoSign (ABodyAgg (Some (CGe, vY)) FSum [([vX], [pX])] None))]].
Proof. reflexivity. Qed.

Example no_old_agg_nonvacuous :
  forallb no_old_agg_rule [ex_rule] = true /\ forallb no_old_agg_stmt [ex_rule] = true /\
  replace_old_aggregates [SRule 1 (HLit pX) [BLit (Lit NoSign (ABodyAgg None FCount [([vX], [pX])] (Some (CLe, vY))))]]
  = Ok [SRule 1 (HLit pX) [BLit (Lit NoSign (ABodyAgg None FSumPlus [([TSym (SNum 1); vX], [pX])] (Some (CLe, vY))))]].
Proof. repeat split. Qed.
Example no_old_agg_rejects : no_old_agg_bodyelem (BLit (Lit NoSign (AAgg None [(pX, [])] None))) = false.
Proof. reflexivity. Qed.

Example passthrough_nonvacuous :
  passthrough_stmt (SShowSig "p" 1 true) = true /\
  passthrough_stmt (SShowTerm (TFun "f" [vX] false) [BLit pX; BCond pX [ex_chain NoSign]]) = true /\
  passthrough_stmt (SOther "ASTType.Program" "#program base.") = true /\
  passthrough_stmt (SOther "ASTType.External" "#external p(X) : q(X).") = true /\
  passthrough_stmt (SOther "ASTType.External" "#external p(1;2).") = false /\
  passthrough_stmt (SShowTerm (TPool [vX; vY]) []) = false.
Proof. repeat split. Qed.

(* why "#show term : body." is only a pass-through without body aggregates: the model (as the Python)
   normalises the bounds of body aggregates in #show bodies, too *)
Example preprocess_show_term_changes :
  let agg lg rg := BLit (Lit NoSign (ABodyAgg lg FSum [([vX], [pX])] rg)) in
  pool_free_stmt (SShowTerm vY [agg None (Some (CLe, vY))]) = true /\
  preprocess [SShowTerm vY [agg None (Some (CLe, vY))]] = Ok [SShowTerm vY [agg (Some (CGe, vY)) None]].
Proof. split; reflexivity. Qed.

Example preprocess_ok_nonvacuous :
  preprocess_ok_stmt ex_rule = true /\
  preprocess [ex_rule] =
  Ok [SRule 1 (HLit (Lit NoSign (ASym (TFun "q" [vY; vZ] false))))
       [ BLit pX;
         BLit (Lit NoSign (ACmp vX [(CLt, vY)])); BLit (Lit NoSign (ACmp vY [(CLe, vZ)]));
         BLit (Lit NegNeg (ACmp vX [(CLt, vY)])); BLit (Lit NegNeg (ACmp vY [(CLe, vZ)]));
         BLit (Lit Neg (ACmp vX [(CEq, vY)]));
         BCond pX [Lit NoSign (ACmp vX [(CLt, vY)]); Lit NoSign (ACmp vY [(CLe, vZ)])];
         BLit (Lit NoSign (ABodyAgg (Some (CGe, TSym (SNum 3))) FSumPlus
                 [([TSym (SNum 1); vX], [pX; Lit NoSign (ACmp vX [(CLt, vY)]); Lit NoSign (ACmp vY [(CLe, vZ)])])]
                 None)) ]].
Proof. split; reflexivity. Qed.

(* ====================================================================================== *)
(* 10. assumptions                                                                        *)
(* ====================================================================================== *)
Print Assumptions expand_comparisons_body_proof.
Print Assumptions expand_comparisons_gvars_proof.
Print Assumptions expand_comparisons_rule_proof.
Print Assumptions expand_comparisons_stmt_proof.
Print Assumptions expand_comparisons_prog_proof.
Print Assumptions expand_comparisons_neg_chain_refuted_proof.
Print Assumptions remove_bounds_body_proof.
Print Assumptions remove_bounds_gvars_proof.
Print Assumptions remove_bounds_rule_proof.
Print Assumptions remove_bounds_stmt_proof.
Print Assumptions remove_bounds_prog_proof.
Print Assumptions count_to_sum_body_proof.
Print Assumptions count_to_sum_rule_proof.
Print Assumptions count_to_sum_stmt_proof.
Print Assumptions count_to_sum_prog_proof.
Print Assumptions replace_old_aggregates_total_proof.
Print Assumptions preprocess_decompose_proof.
Print Assumptions unpool_stmt_pool_free_proof.
Print Assumptions preprocess_show_term_proof.
Print Assumptions preprocess_stmt_passthrough_proof.
Print Assumptions preprocess_passthrough_proof.
Print Assumptions preprocess_passthrough_single_proof.
Print Assumptions preprocess_rule_proof.
Print Assumptions preprocess_equiv_proof.
