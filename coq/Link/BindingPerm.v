(* Model/Binding.v represents a Python set of Variable nodes by a duplicate-free list and claims that
   the insertion order is not observable. This file proves that claim for
   collect_binding_information_body with respect to its `prebound` argument:
   permuting the pre-bound set permutes the two result sets and changes nothing else
   (same exception / same fuel behaviour).  Used by Link/ProjectionSpec.v: good_split runs the analysis
   on the set t and returns sorted(t).
   Also: the basic facts about the list-as-set operations.  Stdlib only; closed under the global context. *)
From Coq Require Import List String ZArith Bool Arith Lia Permutation.
From NGO Require Import Syntax.Ast Model.Corr Model.Binding.
Import ListNotations.
Open Scope string_scope. Open Scope list_scope.

(* ------------------------------------------------------------------ *)
(* 1. sets of variable names (Binding.vset)                            *)
(* ------------------------------------------------------------------ *)
Lemma bsmem_In : forall x s, Binding.smem x s = true <-> In x s.
Proof.
  intros x s. unfold Binding.smem. rewrite existsb_exists. split.
  - intros [y [Hin He]]. apply String.eqb_eq in He. subst. assumption.
  - intros H. exists x. split; [assumption | apply String.eqb_refl].
Qed.

Lemma sadd_In : forall x s y, In y (sadd x s) <-> y = x \/ In y s.
Proof.
  intros x s y. unfold sadd. destruct (Binding.smem x s) eqn:E.
  - apply bsmem_In in E. split; [auto | intros [-> | H]; assumption].
  - rewrite in_app_iff. cbn. split.
    + intros [H | [H | []]]; [right; assumption | left; symmetry; assumption].
    + intros [H | H]; [right; left; symmetry; assumption | left; assumption].
Qed.

Lemma sadd_NoDup : forall x s, NoDup s -> NoDup (sadd x s).
Proof.
  intros x s H. unfold sadd. destruct (Binding.smem x s) eqn:E; [assumption|].
  apply (Permutation_NoDup (l := x :: s)).
  - apply Permutation_cons_append.
  - constructor; [| assumption]. intros Hin. apply bsmem_In in Hin. congruence.
Qed.

Lemma supdate_In : forall xs s y, In y (supdate s xs) <-> In y s \/ In y xs.
Proof.
  unfold supdate. induction xs as [|x xs IH]; intros s y; cbn.
  - tauto.
  - rewrite IH, sadd_In. split.
    + intros [[H | H] | H]; auto.
    + intros [H | [H | H]]; auto.
Qed.

Lemma supdate_NoDup : forall xs s, NoDup s -> NoDup (supdate s xs).
Proof.
  unfold supdate. induction xs as [|x xs IH]; intros s H; cbn; [assumption|].
  apply IH, sadd_NoDup, H.
Qed.

Lemma sof_In : forall xs y, In y (sof xs) <-> In y xs.
Proof. intros xs y. unfold sof. rewrite supdate_In. cbn. tauto. Qed.

Lemma drop_anonymous_In : forall s x, In x (drop_anonymous s) <-> In x s /\ x <> "_".
Proof. intros s x. unfold drop_anonymous. rewrite filter_In, negb_true_iff, String.eqb_neq. tauto. Qed.

Lemma nonempty_false : forall (A: Type) (l: list A), nonempty l = false <-> l = [].
Proof. intros A l. destruct l; cbn; split; congruence. Qed.

(* ------------------------------------------------------------------ *)
(* 2. the set operations respect permutations                          *)
(* ------------------------------------------------------------------ *)
Lemma existsb_perm : forall (A: Type) (f: A -> bool) l l', Permutation l l' -> existsb f l = existsb f l'.
Proof.
  intros A f l l' P. induction P; cbn; try congruence.
  destruct (f x), (f y); reflexivity.
Qed.

Lemma forallb_perm : forall (A: Type) (f: A -> bool) l l', Permutation l l' -> forallb f l = forallb f l'.
Proof.
  intros A f l l' P. induction P; cbn; try congruence.
  destruct (f x), (f y); reflexivity.
Qed.

Lemma forallb_ext_all : forall (A: Type) (f g: A -> bool) l, (forall x, f x = g x) -> forallb f l = forallb g l.
Proof. intros A f g l H. induction l as [|x l IH]; cbn; [reflexivity | rewrite H, IH; reflexivity]. Qed.

Lemma filter_ext_all : forall (A: Type) (f g: A -> bool) l, (forall x, f x = g x) -> filter f l = filter g l.
Proof. intros A f g l H. induction l as [|x l IH]; cbn; [reflexivity | rewrite H, IH; reflexivity]. Qed.

Lemma filter_perm : forall (A: Type) (f: A -> bool) l l', Permutation l l' -> Permutation (filter f l) (filter f l').
Proof.
  intros A f l l' P. induction P; cbn.
  - constructor.
  - destruct (f x); [constructor|]; assumption.
  - destruct (f x), (f y); try apply Permutation_refl. apply perm_swap.
  - eapply Permutation_trans; eassumption.
Qed.

Lemma smem_perm : forall x s s', Permutation s s' -> Binding.smem x s = Binding.smem x s'.
Proof. intros x s s' P. unfold Binding.smem. apply existsb_perm. assumption. Qed.

Lemma sadd_perm : forall x s s', Permutation s s' -> Permutation (sadd x s) (sadd x s').
Proof.
  intros x s s' P. unfold sadd. rewrite (smem_perm x s s' P).
  destruct (Binding.smem x s'); [assumption | apply Permutation_app_tail; assumption].
Qed.

Lemma sadd_comm : forall x y s, Permutation (sadd x (sadd y s)) (sadd y (sadd x s)).
Proof.
  intros x y s. unfold sadd.
  destruct (Binding.smem y s) eqn:Ey; destruct (Binding.smem x s) eqn:Ex;
    unfold Binding.smem in *; rewrite ?Ex, ?Ey, ?existsb_app, ?Ex, ?Ey; cbn [existsb orb].
  - apply Permutation_refl.
  - apply Permutation_refl.
  - apply Permutation_refl.
  - rewrite (String.eqb_sym y x). destruct (String.eqb x y) eqn:E; cbn [orb].
    + apply String.eqb_eq in E. subst. apply Permutation_refl.
    + rewrite <- !app_assoc. apply Permutation_app_head. cbn. apply perm_swap.
Qed.

Lemma supdate_perm_l : forall xs s s', Permutation s s' -> Permutation (supdate s xs) (supdate s' xs).
Proof.
  unfold supdate. induction xs as [|x xs IH]; intros s s' P; cbn; [assumption|].
  apply IH, sadd_perm, P.
Qed.

Lemma supdate_perm_r : forall xs xs', Permutation xs xs' -> forall s, Permutation (supdate s xs) (supdate s xs').
Proof.
  intros xs xs' P. induction P; intros s.
  - apply Permutation_refl.
  - apply (IHP (sadd x s)).
  - apply (supdate_perm_l l). apply sadd_comm.
  - eapply Permutation_trans; [apply IHP1 | apply IHP2].
Qed.

Lemma supdate_perm : forall s s' xs xs',
  Permutation s s' -> Permutation xs xs' -> Permutation (supdate s xs) (supdate s' xs').
Proof.
  intros s s' xs xs' P Q. eapply Permutation_trans; [apply supdate_perm_l, P | apply supdate_perm_r, Q].
Qed.

Lemma sdiff_perm : forall a a' b b',
  Permutation a a' -> Permutation b b' -> Permutation (sdiff a b) (sdiff a' b').
Proof.
  intros a a' b b' P Q. unfold sdiff.
  rewrite (filter_ext_all _ (fun x => negb (Binding.smem x b)) (fun x => negb (Binding.smem x b')) a).
  - apply filter_perm. assumption.
  - intros x. rewrite (smem_perm x b b' Q). reflexivity.
Qed.

Lemma ssubset_perm : forall a a' b b',
  Permutation a a' -> Permutation b b' -> ssubset a b = ssubset a' b'.
Proof.
  intros a a' b b' P Q. unfold ssubset.
  rewrite (forallb_perm _ _ a a' P). apply forallb_ext_all. intros x. apply smem_perm. assumption.
Qed.

Lemma sseteq_perm : forall a a' b b',
  Permutation a a' -> Permutation b b' -> sseteq a b = sseteq a' b'.
Proof.
  intros a a' b b' P Q. unfold sseteq.
  rewrite (ssubset_perm a a' b b' P Q), (ssubset_perm b b' a a' Q P). reflexivity.
Qed.

Lemma slen_perm : forall a a', Permutation a a' -> slen a = slen a'.
Proof. intros a a' P. unfold slen. rewrite (Permutation_length P). reflexivity. Qed.

Lemma drop_anonymous_perm : forall a a', Permutation a a' -> Permutation (drop_anonymous a) (drop_anonymous a').
Proof. intros a a' P. unfold drop_anonymous. apply filter_perm. assumption. Qed.

(* ------------------------------------------------------------------ *)
(* 3. relations on results                                             *)
(* ------------------------------------------------------------------ *)
Definition prel (p q: vset * vset) : Prop := Permutation (fst p) (fst q) /\ Permutation (snd p) (snd q).

Definition rrel {A: Type} (R: A -> A -> Prop) (x y: result A) : Prop :=
  match x, y with
  | Ok a, Ok b => R a b
  | Raise k, Raise k' => k = k'
  | OutOfFragment, OutOfFragment => True
  | OutOfFuel, OutOfFuel => True
  | _, _ => False
  end.

Lemma rrel_rbind : forall (A B: Type) (R: A -> A -> Prop) (S: B -> B -> Prop) x y f g,
  rrel R x y -> (forall a b, R a b -> rrel S (f a) (g b)) -> rrel S (rbind x f) (rbind y g).
Proof.
  intros A B R S x y f g H Hf. destruct x, y; cbn in *; try contradiction; auto.
Qed.

Lemma prel_refl : forall p, prel p p.
Proof. intros p. split; apply Permutation_refl. Qed.

Lemma fold_left_rel : forall (A B: Type) (R: A -> A -> Prop) (f: A -> B -> A),
  (forall a a' x, R a a' -> R (f a x) (f a' x)) ->
  forall l a a', R a a' -> R (fold_left f l a) (fold_left f l a').
Proof. intros A B R f Hf. induction l as [|x l IH]; intros a a' H; cbn; auto. Qed.

Lemma fold_left_rel2 : forall (A B: Type) (R: A -> A -> Prop) (f g: A -> B -> A),
  (forall a a' x, R a a' -> R (f a x) (g a' x)) ->
  forall l a a', R a a' -> R (fold_left f l a) (fold_left g l a').
Proof. intros A B R f g Hf. induction l as [|x l IH]; intros a a' H; cbn; auto. Qed.

(* ------------------------------------------------------------------ *)
(* 4. the analysis, bottom up                                          *)
(* ------------------------------------------------------------------ *)
Lemma from_equal_base_perm : forall lhs rhs b b',
  Permutation b b' -> Permutation (from_equal_base lhs rhs b) (from_equal_base lhs rhs b').
Proof.
  intros lhs rhs b b' P. unfold from_equal_base. cbv zeta.
  rewrite (ssubset_perm (sof (vars_term rhs)) (sof (vars_term rhs)) b b' (Permutation_refl _) P).
  match goal with |- context [if ?c then supdate b' _ else b'] => destruct c end.
  - rewrite (ssubset_perm (sof (vars_term lhs)) (sof (vars_term lhs))
               (supdate b (sof (vars_term lhs))) (supdate b' (sof (vars_term lhs)))
               (Permutation_refl _) (supdate_perm_l _ _ _ P)).
    match goal with |- context [if ?c then _ else supdate b' _] => destruct c end.
    + apply supdate_perm_l, supdate_perm_l, P.
    + apply supdate_perm_l, P.
  - rewrite (ssubset_perm (sof (vars_term lhs)) (sof (vars_term lhs)) b b' (Permutation_refl _) P).
    match goal with |- context [if ?c then _ else b'] => destruct c end.
    + apply supdate_perm_l, P.
    + exact P.
Qed.

(* the inner loop of from_equal over two argument tuples *)
Definition zip_from_equal : list term -> list term -> vset -> vset -> vset * vset :=
  fix zip_loop (ls rs: list term) (b u: vset) {struct ls} : vset * vset :=
    match ls, rs with
    | l :: ls', r :: rs' =>
        let '(bound, unbound) := from_equal l r b in
        zip_loop ls' rs' (supdate bound bound) (supdate u unbound)
    | _, _ => (b, u)
    end.

Definition from_equal_unbound0 (lhs rhs: term) : vset := supdate (sof (vars_term lhs)) (sof (vars_term rhs)).
Definition from_equal_basecase (lhs rhs: term) (ib: vset) : vset * vset :=
  (from_equal_base lhs rhs ib, sdiff (from_equal_unbound0 lhs rhs) (from_equal_base lhs rhs ib)).

Lemma from_equal_cases : forall lhs rhs ib,
  from_equal lhs rhs ib = from_equal_basecase lhs rhs ib \/
  exists ln largs le rn rargs re,
    lhs = TFun ln largs le /\ rhs = TFun rn rargs re /\
    from_equal lhs rhs ib =
      (fst (zip_from_equal largs rargs ib (from_equal_unbound0 lhs rhs)),
       sdiff (snd (zip_from_equal largs rargs ib (from_equal_unbound0 lhs rhs)))
             (fst (zip_from_equal largs rargs ib (from_equal_unbound0 lhs rhs)))).
Proof.
  intros lhs rhs ib. destruct lhs as [x|s|o t|o l r|l r|ln largs le|alts]; try (left; reflexivity).
  destruct rhs as [x|s|o t|o l r|l r|rn rargs re|alts]; try (left; reflexivity).
  cbn [from_equal].
  destruct (andb (tuple_like ln largs) (andb (tuple_like rn rargs) (Nat.eqb (List.length largs) (List.length rargs)))).
  - right. exists ln, largs, le, rn, rargs, re. split; [reflexivity|]. split; [reflexivity|].
    fold zip_from_equal. unfold from_equal_unbound0.
    destruct (zip_from_equal largs rargs ib
                (supdate (sof (vars_term (TFun ln largs le))) (sof (vars_term (TFun rn rargs re))))) as [b u].
    reflexivity.
  - left. reflexivity.
Qed.

Section TermInd.
  Variable P : term -> Prop.
  Hypothesis HVar : forall x, P (TVar x).
  Hypothesis HSym : forall s, P (TSym s).
  Hypothesis HUn : forall o t, P t -> P (TUn o t).
  Hypothesis HBin : forall o l r, P l -> P r -> P (TBin o l r).
  Hypothesis HInt : forall l r, P l -> P r -> P (TInterval l r).
  Hypothesis HFun : forall n args e, Forall P args -> P (TFun n args e).
  Hypothesis HPool : forall alts, Forall P alts -> P (TPool alts).
  Fixpoint term_ind_nested (t: term) : P t :=
    match t with
    | TVar x => HVar x
    | TSym s => HSym s
    | TUn o a => HUn o a (term_ind_nested a)
    | TBin o l r => HBin o l r (term_ind_nested l) (term_ind_nested r)
    | TInterval l r => HInt l r (term_ind_nested l) (term_ind_nested r)
    | TFun n args e =>
        HFun n args e
          ((fix G (l: list term) : Forall P l :=
              match l with
              | [] => Forall_nil P
              | x :: r => Forall_cons x (term_ind_nested x) (G r)
              end) args)
    | TPool alts =>
        HPool alts
          ((fix G (l: list term) : Forall P l :=
              match l with
              | [] => Forall_nil P
              | x :: r => Forall_cons x (term_ind_nested x) (G r)
              end) alts)
    end.
End TermInd.

Definition from_equal_perm_at (lhs: term) : Prop :=
  forall rhs b b', Permutation b b' -> prel (from_equal lhs rhs b) (from_equal lhs rhs b').

Lemma basecase_perm : forall lhs rhs b b',
  Permutation b b' -> prel (from_equal_basecase lhs rhs b) (from_equal_basecase lhs rhs b').
Proof.
  intros lhs rhs b b' P. unfold from_equal_basecase. split; cbn [fst snd].
  - apply from_equal_base_perm, P.
  - apply sdiff_perm; [apply Permutation_refl | apply from_equal_base_perm, P].
Qed.

Lemma zip_from_equal_perm : forall ls, Forall from_equal_perm_at ls ->
  forall rs b b' u u', Permutation b b' -> Permutation u u' ->
  prel (zip_from_equal ls rs b u) (zip_from_equal ls rs b' u').
Proof.
  intros ls HF. induction HF as [|l ls Hl HF IH]; intros rs b b' u u' P Q.
  - split; assumption.
  - destruct rs as [|r rs]; [split; assumption|].
    cbn [zip_from_equal]. fold zip_from_equal.
    pose proof (Hl r b b' P) as [Q1 Q2].
    destruct (from_equal l r b) as [bd ub], (from_equal l r b') as [bd' ub']. cbn [fst snd] in Q1, Q2.
    apply IH; apply supdate_perm; assumption.
Qed.

Theorem from_equal_perm : forall lhs, from_equal_perm_at lhs.
Proof.
  apply term_ind_nested; unfold from_equal_perm_at.
  - intros x rhs b b' P. apply (basecase_perm (TVar x) rhs b b' P).
  - intros s rhs b b' P. apply (basecase_perm (TSym s) rhs b b' P).
  - intros o t _ rhs b b' P. apply (basecase_perm (TUn o t) rhs b b' P).
  - intros o l r _ _ rhs b b' P. apply (basecase_perm (TBin o l r) rhs b b' P).
  - intros l r _ _ rhs b b' P. apply (basecase_perm (TInterval l r) rhs b b' P).
  - intros n args e HF rhs b b' P.
    destruct rhs as [x|s|o t|o l r|l r|rn rargs re|alts];
      try (apply (basecase_perm (TFun n args e) _ b b' P)).
    cbn [from_equal]. fold zip_from_equal.
    destruct (andb (tuple_like n args) (andb (tuple_like rn rargs) (Nat.eqb (List.length args) (List.length rargs)))).
    + pose proof (zip_from_equal_perm args HF rargs b b'
                    (supdate (sof (vars_term (TFun n args e))) (sof (vars_term (TFun rn rargs re))))
                    _ P (Permutation_refl _)) as [Q1 Q2].
      destruct (zip_from_equal args rargs b _) as [b1 u1], (zip_from_equal args rargs b' _) as [b1' u1'].
      cbn [fst snd] in Q1, Q2. split; cbn [fst snd]; [assumption | apply sdiff_perm; assumption].
    + apply (basecase_perm (TFun n args e) (TFun rn rargs re) b b' P).
  - intros alts _ rhs b b' P. apply (basecase_perm (TPool alts) rhs b b' P).
Qed.

Lemma let_pair_sdiff_prel : forall (x y: vset * vset),
  prel x y -> prel (let '(b, u) := x in (b, sdiff u b)) (let '(b, u) := y in (b, sdiff u b)).
Proof.
  intros [b u] [b' u'] [H1 H2]. cbn [fst snd] in H1, H2.
  split; cbn [fst snd]; [assumption | apply sdiff_perm; assumption].
Qed.

Lemma from_comparison_cmp_perm : forall s t gs b b',
  Permutation b b' -> prel (from_comparison_cmp s t gs b) (from_comparison_cmp s t gs b').
Proof.
  intros s t gs b b' P. unfold from_comparison_cmp. destruct s; try apply prel_refl.
  apply let_pair_sdiff_prel.
  apply (fold_left_rel _ _ prel).
  - intros [b0 u0] [b0' u0'] [[lhs op] rhs] [Q1 Q2]. cbn [fst snd] in Q1, Q2.
    destruct (cmp_eqb op CEq); [| split; assumption].
    pose proof (from_equal_perm lhs rhs b0 b0' Q1) as [R1 R2].
    destruct (from_equal lhs rhs b0) as [bd ub], (from_equal lhs rhs b0') as [bd' ub'].
    cbn [fst snd] in R1, R2. split; cbn [fst snd]; apply supdate_perm; assumption.
  - split; [assumption | apply Permutation_refl].
Qed.

Lemma simple_literal_perm : forall l b b' u u',
  Permutation b b' -> Permutation u u' -> prel (simple_literal l b u) (simple_literal l b' u').
Proof.
  intros [s a] b b' u u' P Q. unfold simple_literal.
  destruct a as [t|t gs|bb|lg f es rg|lg es rg|txt]; try (split; assumption).
  - assert (D: prel (b, supdate u (vars_lit (Lit s (ASym t)))) (b', supdate u' (vars_lit (Lit s (ASym t))))).
    { split; cbn [fst snd]; [assumption | apply supdate_perm_l; assumption]. }
    destruct s; try exact D.
    destruct t as [x|sy|o t|o l r|l r|n args e|alts]; try exact D.
    apply (fold_left_rel _ _ prel); [| split; assumption].
    intros [b0 u0] [b0' u0'] arg [Q1 Q2]. cbn [fst snd] in Q1, Q2.
    match goal with |- context [if ?c then _ else _] => destruct c end;
      split; cbn [fst snd]; try assumption; apply supdate_perm_l; assumption.
  - pose proof (from_comparison_cmp_perm s t gs b b' P) as [R1 R2].
    destruct (from_comparison_cmp s t gs b) as [bd ub], (from_comparison_cmp s t gs b') as [bd' ub'].
    cbn [fst snd] in R1, R2. split; cbn [fst snd]; apply supdate_perm; assumption.
Qed.

Lemma conditions_pass_perm : forall cs b b' u u',
  Permutation b b' -> Permutation u u' -> prel (conditions_pass cs b u) (conditions_pass cs b' u').
Proof.
  intros cs b b' u u' P Q. unfold conditions_pass.
  apply (fold_left_rel _ _ prel); [| split; assumption].
  intros [b0 u0] [b0' u0'] c [Q1 Q2]. cbn [fst snd] in Q1, Q2.
  pose proof (simple_literal_perm c b0 b0' u0 u0' Q1 Q2) as [R1 R2].
  destruct (simple_literal c b0 u0) as [bd ub], (simple_literal c b0' u0') as [bd' ub'].
  cbn [fst snd] in R1, R2. split; cbn [fst snd]; apply supdate_perm; assumption.
Qed.

Lemma conditions_loop_perm : forall fuel cs b b' u u' size,
  Permutation b b' -> Permutation u u' ->
  rrel prel (conditions_loop fuel cs b u size) (conditions_loop fuel cs b' u' size).
Proof.
  induction fuel as [|f IH]; intros cs b b' u u' size P Q; cbn [conditions_loop];
    rewrite (slen_perm b b' P); destruct (Z.eqb (slen b') size); try (split; assumption).
  pose proof (conditions_pass_perm cs b b' u u' P Q) as [R1 R2].
  destruct (conditions_pass cs b u) as [b1 u1], (conditions_pass cs b' u') as [b1' u1'].
  cbn [fst snd] in R1, R2. apply IH; assumption.
Qed.

Lemma cbic_perm : forall cs b b',
  Permutation b b' ->
  rrel prel (collect_binding_information_conditions cs b) (collect_binding_information_conditions cs b').
Proof.
  intros cs b b' P. unfold collect_binding_information_conditions.
  destruct (existsb lit_has_theory cs); [exact I|].
  eapply rrel_rbind; [apply conditions_loop_perm; [assumption | apply Permutation_refl]|].
  intros [b1 u1] [b1' u1'] [R1 R2]. cbn [fst snd] in R1, R2.
  split; cbn [fst snd]; [assumption | apply sdiff_perm; assumption].
Qed.

Lemma comparisons_pass_perm : forall l b b' u u',
  Permutation b b' -> Permutation u u' -> prel (comparisons_pass l b u) (comparisons_pass l b' u').
Proof.
  intros l b b' u u' P Q. unfold comparisons_pass.
  apply (fold_left_rel _ _ prel); [| split; assumption].
  intros [b0 u0] [b0' u0'] stm [Q1 Q2]. cbn [fst snd] in Q1, Q2.
  destruct stm as [[s a]|l0 c0]; [| split; assumption].
  destruct a as [t|t gs|bb|lg f es rg|lg es rg|txt]; try (split; assumption).
  pose proof (from_comparison_cmp_perm s t gs b0 b0' Q1) as [R1 R2].
  destruct (from_comparison_cmp s t gs b0) as [bd ub], (from_comparison_cmp s t gs b0') as [bd' ub'].
  cbn [fst snd] in R1, R2. split; cbn [fst snd]; apply supdate_perm; assumption.
Qed.

Lemma comparisons_loop_perm : forall fuel l b b' u u',
  Permutation b b' -> Permutation u u' ->
  rrel prel (comparisons_loop fuel l b u) (comparisons_loop fuel l b' u').
Proof.
  induction fuel as [|f IH]; intros l b b' u u' P Q; cbn [comparisons_loop]; [exact I|].
  pose proof (comparisons_pass_perm l b b' u u' P Q) as [R1 R2].
  destruct (comparisons_pass l b u) as [b1 u1], (comparisons_pass l b' u') as [b1' u1'].
  cbn [fst snd] in R1, R2. rewrite (sseteq_perm b b' b1 b1' P R1).
  destruct (sseteq b' b1'); [split; assumption | apply IH; assumption].
Qed.

Lemma guard_binding_perm : forall s g p q, prel p q -> prel (guard_binding s g p) (guard_binding s g q).
Proof.
  intros s g [b u] [b' u'] [P Q]. cbn [fst snd] in P, Q. unfold guard_binding.
  destruct g as [[c t]|]; [| split; assumption].
  destruct (andb (sign_eqb s NoSign) (cmp_eqb c CEq)); split; cbn [fst snd];
    try assumption; apply supdate_perm_l; assumption.
Qed.

Lemma body_stm_perm : forall stm p q, prel p q -> rrel prel (body_stm stm p) (body_stm stm q).
Proof.
  intros stm [bv uv] [bv' uv'] [P Q]. cbn [fst snd] in P, Q. unfold body_stm.
  destruct stm as [l | l c].
  - pose proof (simple_literal_perm l bv bv' uv uv' P Q) as [R1 R2].
    destruct (simple_literal l bv uv) as [bd ub], (simple_literal l bv' uv') as [bd' ub'].
    cbn [fst snd] in R1, R2.
    assert (D: prel (supdate bv bd, supdate uv ub) (supdate bv' bd', supdate uv' ub')).
    { split; cbn [fst snd]; apply supdate_perm; assumption. }
    destruct l as [s a].
    destruct a as [t|t gs|bb|lg f es rg|lg es rg|txt]; try exact D.
    + pose proof (guard_binding_perm s rg _ _ (guard_binding_perm s lg _ _ D)) as [G1 G2].
      destruct (guard_binding s rg (guard_binding s lg (supdate bv bd, supdate uv ub))) as [b1 u1].
      destruct (guard_binding s rg (guard_binding s lg (supdate bv' bd', supdate uv' ub'))) as [b1' u1'].
      cbn [fst snd] in G1, G2.
      eapply (rrel_rbind _ _ (@Permutation string)).
      * apply (fold_left_rel2 _ _ (rrel (@Permutation string))); [| exact G2].
        intros acc acc' element Hacc.
        eapply rrel_rbind; [exact Hacc|]. intros u2 u2' Hu.
        eapply rrel_rbind; [apply cbic_perm; exact G1|].
        intros [bo uo] [bo' uo'] [S1 S2]. cbn [fst snd] in S1, S2. cbn [rrel].
        apply supdate_perm.
        -- apply supdate_perm; [assumption|].
           apply sdiff_perm; [apply sdiff_perm; [apply Permutation_refl | assumption] | assumption].
        -- apply sdiff_perm; assumption.
      * intros u2 u2' Hu. split; assumption.
    + pose proof (guard_binding_perm s rg _ _ (guard_binding_perm s lg _ _ D)) as [G1 G2].
      destruct (guard_binding s rg (guard_binding s lg (supdate bv bd, supdate uv ub))) as [b1 u1].
      destruct (guard_binding s rg (guard_binding s lg (supdate bv' bd', supdate uv' ub'))) as [b1' u1'].
      cbn [fst snd] in G1, G2.
      match goal with |- context [if ?c then OutOfFragment else _] => destruct c end; [exact I|].
      destruct (nonempty es); [reflexivity | split; assumption].
  - destruct (lit_has_theory l); [exact I|].
    eapply rrel_rbind; [apply cbic_perm; exact P|].
    intros [bo uo] [bo' uo'] [S1 S2]. cbn [fst snd] in S1, S2. split; cbn [fst snd]; [assumption|].
    apply supdate_perm; [apply supdate_perm; assumption|].
    apply sdiff_perm; [apply Permutation_refl | assumption].
Qed.

Lemma body_pass_perm : forall l bv bv' uv uv',
  Permutation bv bv' -> Permutation uv uv' -> rrel prel (body_pass l bv uv) (body_pass l bv' uv').
Proof.
  intros l bv bv' uv uv' P Q. unfold body_pass.
  eapply (rrel_rbind _ _ prel).
  - apply (fold_left_rel _ _ (rrel prel)); [| split; assumption].
    intros acc acc' stm Hacc. eapply rrel_rbind; [exact Hacc|]. intros p q Hpq. apply body_stm_perm, Hpq.
  - intros [b1 u1] [b1' u1'] [R1 R2]. cbn [fst snd] in R1, R2.
    eapply (rrel_rbind _ _ prel).
    + unfold collect_binding_information_from_comparisons.
      apply comparisons_loop_perm; [assumption | apply Permutation_refl].
    + intros [bo uo] [bo' uo'] [S1 S2]. cbn [fst snd] in S1, S2.
      assert (T1: Permutation (supdate bo bo) (supdate bo' bo')) by (apply supdate_perm; assumption).
      split; cbn [fst snd]; [assumption|].
      apply sdiff_perm; [| assumption]. apply supdate_perm; [| assumption].
      apply sdiff_perm; assumption.
Qed.

Lemma body_loop_perm : forall fuel l bv bv' uv uv' size,
  Permutation bv bv' -> Permutation uv uv' ->
  rrel prel (body_loop fuel l bv uv size) (body_loop fuel l bv' uv' size).
Proof.
  induction fuel as [|f IH]; intros l bv bv' uv uv' size P Q; cbn [body_loop];
    rewrite (slen_perm bv bv' P); destruct (Z.gtb (slen bv') size); try (split; assumption).
  eapply rrel_rbind; [apply body_pass_perm; assumption|].
  intros [b1 u1] [b1' u1'] [R1 R2]. cbn [fst snd] in R1, R2.
  rewrite (slen_perm b1 b1' R1). apply IH; assumption.
Qed.

(* permuting the pre-bound set only permutes the two result sets *)
Theorem collect_binding_information_body_perm : forall l p p',
  Permutation p p' ->
  rrel prel (collect_binding_information_body l (Some p)) (collect_binding_information_body l (Some p')).
Proof.
  intros l p p' P. unfold collect_binding_information_body.
  eapply rrel_rbind.
  - apply body_loop_perm; [apply supdate_perm_r; assumption | apply Permutation_refl].
  - intros [b1 u1] [b1' u1'] [R1 R2]. cbn [fst snd] in R1, R2.
    split; cbn [fst snd]; apply drop_anonymous_perm; assumption.
Qed.

Corollary collect_binding_information_body_perm_safe : forall l p p' bound,
  Permutation p p' ->
  collect_binding_information_body l (Some p) = Ok (bound, []) ->
  exists bound', Permutation bound bound' /\ collect_binding_information_body l (Some p') = Ok (bound', []).
Proof.
  intros l p p' bound P H.
  pose proof (collect_binding_information_body_perm l p p' P) as R. rewrite H in R.
  destruct (collect_binding_information_body l (Some p')) as [[b' u']| | |]; cbn in R; try contradiction.
  destruct R as [R1 R2]. cbn [fst snd] in R1, R2. apply Permutation_nil in R2. subst u'.
  exists b'. split; [assumption | reflexivity].
Qed.

Print Assumptions collect_binding_information_body_perm.
