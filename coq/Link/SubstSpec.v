(* Substitutions and the HT semantics (Sem/Sym.v, Sem/Sat.v): coincidence, the substitution lemma, and what they say
   about the two rewrites of Model/Normalize.v that move arithmetic around:

     exline_arithmetic   p(X+1)            ~>  p(AUX), AUX = X+1        (AUX fresh, from make_unique)
     inline_rule         ..., X = t, ...   ~>  ...[X := t]...           (X = t removed)

   1. Coincidence      eval_coincide, lit_sat_coincide_simple, lit_sat_coincide_gen (every literal, body aggregates
                       included), lit_sat_coincide, bodyelem_sat_coincide, body_sat_coincide, head_sat_coincide
   2. Substitution     eval_vmap (simultaneous), eval_subst, eval_subst_undefined, lit_sat_subst, lit_sat_subst_undefined
   3. Ex-lining        exline_literal_sound (every sign), exline_rule_sound (body literal of any sign),
                       exline_head_sound_1 / exline_head_converse_refuted (heads: an artefact of Sat.head_sat),
                       exline_literal_shape, exline_arithmetic_rule_one_sound (the model function)
   4. In-lining        equality_sem (the model's `equality` test), inline_step_sound_gen,
                       inline_equality_sound_partial (one step of the model), inline_equality_sound_split (h :- B1, X = t, B2),
                       inline_rule_sound (the model's loop under the decidable checker inline_checked)
   5. Counter-models   inline_self_reference_refuted, inline_self_reference_mul_refuted,
                       inline_duplicate_equality_refuted, inline_into_aggregate_refuted (both replayed with clingo + ngo),
                       inline_head_only_refuted (an artefact of Sat.head_sat)

   No axioms. *)
From Coq Require Import List String ZArith Bool Lia Arith.
From NGO Require Import Syntax.Ast Sem.Sym Sem.Sat Gen.Names Model.Globals Model.NormalizeCore Model.Normalize
     Link.AggSem Link.Equiv Link.NormalizeSem Link.NormalizeSpec Link.GlobalsSpec.
From NGO Require Link.CleanupSpec Link.TraverseSpec.
Import ListNotations.
Open Scope list_scope.

(* ====================================================================================== *)
(* 0. Updating a substitution                                                             *)
(* ====================================================================================== *)
Definition upd (s: subst) (x: string) (v: sym) : subst := fun y => if String.eqb y x then v else s y.

Lemma upd_same s x v : upd s x v x = v.
Proof. unfold upd. rewrite String.eqb_refl. reflexivity. Qed.
Lemma upd_other s x v y : y <> x -> upd s x v y = s y.
Proof. intro N. unfold upd. destruct (String.eqb y x) eqn:E; [apply String.eqb_eq in E; contradiction | reflexivity]. Qed.
Lemma upd_self s x y : upd s x (s x) y = s y.
Proof. unfold upd. destruct (String.eqb y x) eqn:E; [apply String.eqb_eq in E; subst; reflexivity | reflexivity]. Qed.

Lemma smem_true_In x l : smem x l = true -> In x l.
Proof. apply smem_In. Qed.
Lemma smem_false_nIn x l : smem x l = false -> ~ In x l.
Proof. apply smem_false. Qed.
Lemma negb_smem x l : negb (smem x l) = true -> ~ In x l.
Proof. intro E. apply smem_false. apply negb_true_iff. exact E. Qed.

(* ====================================================================================== *)
(* 1. Coincidence                                                                         *)
(* ====================================================================================== *)
Lemma eval_list_forall s s' ts : Forall (fun t => eval s t = eval s' t) ts -> eval_list s ts = eval_list s' ts.
Proof. induction 1 as [|t ts E _ IH]; simpl; [reflexivity|]. rewrite E, IH. reflexivity. Qed.

Theorem eval_coincide : forall t s s', (forall x, In x (vars_term t) -> s x = s' x) -> eval s t = eval s' t.
Proof.
  intro t. induction t as [x|c|o t IHt|o l r IHl IHr|l r IHl IHr|n xs e IHxs|xs IHxs] using NormalizeSpec.term_ind';
    intros s s' A.
  - simpl. f_equal. apply A. left. reflexivity.
  - reflexivity.
  - simpl. rewrite (IHt s s' A). reflexivity.
  - simpl. rewrite (IHl s s'), (IHr s s'); [reflexivity | |]; intros x Hx; apply A; simpl; apply in_app_iff; auto.
  - reflexivity.
  - rewrite !eval_fun.
    assert (E: eval_list s xs = eval_list s' xs).
    { apply eval_list_forall. rewrite Forall_forall in *. intros t Ht. apply (IHxs t Ht).
      intros x Hx. apply A. simpl. apply in_flat_map. exists t. split; assumption. }
    rewrite E. reflexivity.
  - reflexivity.
Qed.

Lemma eval_list_coincide ts s s' : (forall x, In x (flat_map vars_term ts) -> s x = s' x) -> eval_list s ts = eval_list s' ts.
Proof.
  intro A. apply eval_list_forall. apply Forall_forall. intros t Ht. apply eval_coincide.
  intros x Hx. apply A. apply in_flat_map. exists t. split; assumption.
Qed.

Lemma eval_upd_fresh s x v t : ~ In x (vars_term t) -> eval (upd s x v) t = eval s t.
Proof. intro N. apply eval_coincide. intros y Hy. apply upd_other. intro E. subst. contradiction. Qed.

Lemma gvars_sub_vars l x : In x (gvars_lit l) -> In x (vars_lit l).
Proof.
  destruct l as [sg a]. destruct a as [t|t gs|b|lg f es rg|lg es rg|tx]; simpl; rewrite ?in_app_iff; tauto.
Qed.

Section Coincide.
Variable sym_lt : sym -> sym -> Prop.
Notation lit_sat := (lit_sat sym_lt).
Notation atom_sat := (atom_sat sym_lt).
Notation lits_sat := (lits_sat sym_lt).
Notation bodyelem_sat := (bodyelem_sat sym_lt).
Notation body_sat := (body_sat sym_lt).
Notation head_sat := (head_sat sym_lt).
Notation rule_sat := (rule_sat sym_lt).
Notation stmt_sat := (stmt_sat sym_lt).
Notation chain_holds := (chain_holds sym_lt).
Notation cmp_true := (cmp_true sym_lt).
Notation agg_holds := (agg_holds sym_lt).
Notation guard_ok := (guard_ok sym_lt).
Notation elems_tuples := (elems_tuples sym_lt).
Notation choice_elems_ok := (choice_elems_ok sym_lt).
Notation choice_tuples := (choice_tuples sym_lt).
Notation headagg_tuples := (headagg_tuples sym_lt).

Lemma chain_holds_coincide s s' gs : (forall x, In x (flat_map vars_guard gs) -> s x = s' x) ->
  forall v, chain_holds s v gs <-> chain_holds s' v gs.
Proof.
  induction gs as [|[o t] gs IH]; intros A v; simpl; [tauto|].
  rewrite (eval_coincide t s s') by (intros x Hx; apply A; simpl; apply in_app_iff; left; exact Hx).
  destruct (eval s' t) as [w|]; [|tauto].
  rewrite (IH (fun x Hx => A x ltac:(simpl; apply in_app_iff; right; exact Hx)) w). tauto.
Qed.
Lemma chain_defined_coincide s s' gs : (forall x, In x (flat_map vars_guard gs) -> s x = s' x) ->
  (chain_defined s gs <-> chain_defined s' gs).
Proof.
  induction gs as [|[o t] gs IH]; intros A; simpl; [tauto|].
  rewrite (eval_coincide t s s') by (intros x Hx; apply A; simpl; apply in_app_iff; left; exact Hx).
  rewrite (IH (fun x Hx => A x ltac:(simpl; apply in_app_iff; right; exact Hx))). tauto.
Qed.
Lemma cmp_coincide s s' t gs : (forall x, In x (vars_term t ++ flat_map vars_guard gs) -> s x = s' x) ->
  (cmp_def s t gs <-> cmp_def s' t gs) /\ (cmp_true s t gs <-> cmp_true s' t gs).
Proof.
  intro A. unfold cmp_def, Sat.cmp_true.
  rewrite (eval_coincide t s s') by (intros x Hx; apply A; apply in_app_iff; left; exact Hx).
  assert (A2: forall x, In x (flat_map vars_guard gs) -> s x = s' x) by (intros x Hx; apply A; apply in_app_iff; right; exact Hx).
  rewrite (chain_defined_coincide s s' gs A2). split; [tauto|].
  destruct (eval s' t) as [v|]; [apply chain_holds_coincide; exact A2 | tauto].
Qed.

Lemma lit_sat_sym_eq G H T s sg t : lit_sat G H T s (Lit sg (ASym t)) = sym_atom_sat H T s sg t.
Proof. reflexivity. Qed.
Lemma lit_sat_cmp_eq G H T s sg t gs :
  lit_sat G H T s (Lit sg (ACmp t gs)) = (cmp_def s t gs /\ apply_sign sg (cmp_true s t gs) (cmp_true s t gs)).
Proof. reflexivity. Qed.
Lemma lit_sat_bool_eq G H T s sg b : lit_sat G H T s (Lit sg (ABool b)) = apply_sign sg (b = true) (b = true).
Proof. reflexivity. Qed.

(* symbolic atoms, comparisons, boolean constants: only the variables of the literal matter (G is irrelevant) *)
Theorem lit_sat_coincide_simple G G' H T s s' l : simple_lit_b l = true ->
  (forall x, In x (vars_lit l) -> s x = s' x) -> (lit_sat G H T s l <-> lit_sat G' H T s' l).
Proof.
  intros S A. destruct l as [sg a]. destruct a as [t|t gs|b|lg f es rg|lg es rg|tx]; try discriminate S.
  - rewrite !lit_sat_sym_eq. unfold sym_atom_sat. rewrite (eval_coincide t s s' A). tauto.
  - rewrite !lit_sat_cmp_eq. destruct (cmp_coincide s s' t gs A) as [D C]. destruct sg; simpl; tauto.
  - rewrite !lit_sat_bool_eq. tauto.
Qed.

(* G plays no role for simple literals *)
Lemma lit_sat_simple_G G G' H T s l : simple_lit_b l = true -> (lit_sat G H T s l <-> lit_sat G' H T s l).
Proof. intro S. apply lit_sat_coincide_simple; [exact S | reflexivity]. Qed.

Lemma guard_ok_coincide s s' left g v : (forall x, In x (vars_oguard g) -> s x = s' x) ->
  guard_ok s left g v = guard_ok s' left g v.
Proof. intro A. destruct g as [[o t]|]; [|reflexivity]. simpl. rewrite (eval_coincide t s s' A). reflexivity. Qed.

Lemma agg_holds_coincide s s' lg f rg S S' :
  (forall x, In x (vars_oguard lg ++ vars_oguard rg) -> s x = s' x) -> tup_eq S S' ->
  (agg_holds s lg f rg S <-> agg_holds s' lg f rg S').
Proof.
  intros A E. rewrite (agg_holds_ext sym_lt s lg f rg S S' E). unfold Sat.agg_holds.
  assert (L: forall v, guard_ok s true lg v = guard_ok s' true lg v)
    by (intro v; apply guard_ok_coincide; intros x Hx; apply A; apply in_app_iff; left; exact Hx).
  assert (R: forall v, guard_ok s false rg v = guard_ok s' false rg v)
    by (intro v; apply guard_ok_coincide; intros x Hx; apply A; apply in_app_iff; right; exact Hx).
  split; intros [v [V [B C]]]; exists v; rewrite ?L, ?R in *; auto.
Qed.

(* a local substitution for s can be turned into one for s' that is unchanged on V, as soon as s and s' agree on
   the global variables that occur in V *)
Lemma agree_transfer G (V: list string) s s' th :
  (forall x, In x V -> In x G -> s x = s' x) -> agree_on G s th ->
  exists th', agree_on G s' th' /\ (forall x, In x V -> th' x = th x).
Proof.
  intros A Ag. exists (fun x => if in_dec string_dec x V then th x else s' x). split.
  - intros x Hx. destruct (in_dec string_dec x V) as [i|n]; [|reflexivity].
    rewrite <- (Ag x Hx). symmetry. apply A; assumption.
  - intros x Hx. destruct (in_dec string_dec x V); [reflexivity | contradiction].
Qed.

(* Every literal. The substitution of the enclosing rule is used in two ways: directly by the global part of
   the literal (gvars_lit: the whole of a simple literal, the guards of an aggregate) and, inside aggregate
   elements, only through agree_on G: there the members of G that occur in the literal matter. *)
Definition coincide_dir G (l: lit) : Prop := forall H T s s',
  (forall x, In x (gvars_lit l) -> s x = s' x) ->
  (forall x, In x (vars_lit l) -> In x G -> s x = s' x) ->
  lit_sat G H T s l -> lit_sat G H T s' l.

Lemma lit_sat_coincide_dir G : forall l, coincide_dir G l.
Proof.
  apply (TraverseSpec.lit_ind' (coincide_dir G)); unfold coincide_dir.
  - intros sg t H T s s' A _. apply (lit_sat_coincide_simple G G H T s s' (Lit sg (ASym t)) eq_refl A).
  - intros sg t gs H T s s' A _. apply (lit_sat_coincide_simple G G H T s s' (Lit sg (ACmp t gs)) eq_refl A).
  - intros sg b H T s s' _ _. exact (fun F => F).
  - intros sg lg f es rg IH H T s s' A B.
    assert (INC: forall X s s', (forall x, In x (vars_lit (Lit sg (ABodyAgg lg f es rg))) -> In x G -> s x = s' x) ->
                 forall tv, elems_tuples G X T s es tv -> elems_tuples G X T s' es tv).
    { clear H s s' A B. intros X s s' B tv. rewrite !elems_tuples_iff. intros [e [I' [th [Ag [E C]]]]].
      destruct (agree_transfer G (flat_map vars_term (fst e) ++ flat_map vars_lit (snd e)) s s' th) as [th' [Ag' Eq]];
        [|exact Ag|].
      { intros x Hx HG. apply B; [|exact HG]. simpl. apply in_app_iff. right. apply in_app_iff. left.
        apply in_flat_map. exists e. split; assumption. }
      exists e. split; [exact I'|]. exists th'. split; [exact Ag'|]. split.
      - rewrite <- E. apply eval_list_coincide. intros x Hx. apply Eq. apply in_app_iff. left. exact Hx.
      - rewrite Forall_forall in IH. specialize (IH e I'). rewrite Forall_forall in IH.
        unfold Sat.lits_sat in *. rewrite Forall_forall in *. intros c Hc.
        assert (V: forall x, In x (vars_lit c) -> th x = th' x).
        { intros x Hx. symmetry. apply Eq. apply in_app_iff. right. apply in_flat_map. exists c. split; assumption. }
        apply (IH c Hc X T th th'); [intros x Hx; apply V; apply gvars_sub_vars; exact Hx | intros x Hx _; apply V; exact Hx |].
        apply C. exact Hc. }
    assert (TE: forall X, tup_eq (elems_tuples G X T s es) (elems_tuples G X T s' es)).
    { intros X tv. split; apply INC; [exact B | intros x Hx HG; symmetry; apply B; assumption]. }
    change (atom_sat G H T s sg (ABodyAgg lg f es rg) -> atom_sat G H T s' sg (ABodyAgg lg f es rg)).
    rewrite !atom_sat_bodyagg.
    pose proof (agg_holds_coincide s s' lg f rg _ _ A (TE H)) as KH.
    pose proof (agg_holds_coincide s s' lg f rg _ _ A (TE T)) as KT.
    destruct sg; simpl; tauto.
  - intros sg lg es rg _ H T s s' _ _. exact (fun F => F).
  - intros sg tx H T s s' _ _. exact (fun F => F).
Qed.

Theorem lit_sat_coincide_gen G H T s s' l :
  (forall x, In x (gvars_lit l) -> s x = s' x) ->
  (forall x, In x (vars_lit l) -> In x G -> s x = s' x) ->
  (lit_sat G H T s l <-> lit_sat G H T s' l).
Proof.
  intros A B. split; apply lit_sat_coincide_dir; auto; intros; symmetry; auto.
Qed.

(* the plain form: agreement on all variables of the literal *)
Theorem lit_sat_coincide G H T s s' l :
  (forall x, In x (vars_lit l) -> s x = s' x) -> (lit_sat G H T s l <-> lit_sat G H T s' l).
Proof. intro A. apply lit_sat_coincide_gen; [intros x Hx; apply A; apply gvars_sub_vars; exact Hx | intros x Hx _; apply A; exact Hx]. Qed.

Lemma lits_sat_coincide G H T s s' cs :
  (forall x, In x (flat_map vars_lit cs) -> s x = s' x) -> (lits_sat G H T s cs <-> lits_sat G H T s' cs).
Proof.
  intro A. unfold Sat.lits_sat. rewrite !Forall_forall.
  split; intros F c Hc; (apply (lit_sat_coincide G H T s s' c);
    [intros x Hx; apply A; apply in_flat_map; exists c; split; assumption | apply F; exact Hc]).
Qed.

(* body elements: a conditional literal uses the substitution only through agree_on G *)
Lemma bodyelem_sat_coincide_dir G H T s s' b :
  (forall x, In x (gvars_bodyelem b) -> s x = s' x) ->
  (forall x, In x (vars_bodyelem b) -> In x G -> s x = s' x) ->
  bodyelem_sat G H T s b -> bodyelem_sat G H T s' b.
Proof.
  destruct b as [l|l c]; simpl; intros A B.
  - apply (proj1 (lit_sat_coincide_gen G H T s s' l A B)).
  - intros F th' Ag'.
    destruct (agree_transfer G (vars_condlit (l, c)) s' s th') as [th [Ag Eq]];
      [intros x Hx HG; symmetry; apply B; assumption | exact Ag' |].
    specialize (F th Ag).
    assert (EL: forall X, lit_sat G X T th l <-> lit_sat G X T th' l).
    { intro X. apply lit_sat_coincide. intros x Hx. apply Eq. unfold vars_condlit. simpl. apply in_app_iff. left. exact Hx. }
    assert (EC: forall X, lits_sat G X T th c <-> lits_sat G X T th' c).
    { intro X. apply lits_sat_coincide. intros x Hx. apply Eq. unfold vars_condlit. simpl. apply in_app_iff. right. exact Hx. }
    rewrite <- !EL, <- !EC. exact F.
Qed.

Theorem bodyelem_sat_coincide G H T s s' b :
  (forall x, In x (gvars_bodyelem b) -> s x = s' x) ->
  (forall x, In x (vars_bodyelem b) -> In x G -> s x = s' x) ->
  (bodyelem_sat G H T s b <-> bodyelem_sat G H T s' b).
Proof. intros A B. split; apply bodyelem_sat_coincide_dir; auto; intros; symmetry; auto. Qed.

Theorem body_sat_coincide G H T s s' b :
  (forall x, In x (flat_map gvars_bodyelem b) -> s x = s' x) ->
  (forall x, In x (flat_map vars_bodyelem b) -> In x G -> s x = s' x) ->
  (body_sat G H T s b <-> body_sat G H T s' b).
Proof.
  intros A B. unfold Sat.body_sat. rewrite !Forall_forall.
  split; intros F x Hx; (apply (bodyelem_sat_coincide G H T s s' x);
    [intros y Hy; apply A; apply in_flat_map; exists x; split; assumption
    |intros y Hy HG; apply B; [apply in_flat_map; exists x; split; assumption | exact HG]
    |apply F; exact Hx]).
Qed.

(* heads *)
Lemma choice_elems_ok_coincide_dir G H T s s' es :
  (forall e x, In e es -> In x (vars_condlit e) -> In x G -> s x = s' x) ->
  choice_elems_ok G H T s es -> choice_elems_ok G H T s' es.
Proof.
  intros B F e th' I' Ag' C'.
  destruct (agree_transfer G (vars_condlit e) s' s th') as [th [Ag Eq]];
    [intros x Hx HG; symmetry; apply (B e); assumption | exact Ag' |].
  assert (EL: forall X, lit_sat G X T th (fst e) <-> lit_sat G X T th' (fst e)).
  { intro X. apply lit_sat_coincide. intros x Hx. apply Eq. unfold vars_condlit. apply in_app_iff. left. exact Hx. }
  assert (EC: forall X, lits_sat G X T th (snd e) <-> lits_sat G X T th' (snd e)).
  { intro X. apply lits_sat_coincide. intros x Hx. apply Eq. unfold vars_condlit. apply in_app_iff. right. exact Hx. }
  rewrite <- !EL. apply (F e th I' Ag). apply EC. exact C'.
Qed.

Lemma choice_tuples_coincide_dir G X T s s' es tv :
  (forall e x, In e es -> In x (vars_condlit e) -> In x G -> s x = s' x) ->
  choice_tuples G X T s es tv -> choice_tuples G X T s' es tv.
Proof.
  intros B (e & th & n & args & ext & vs & I' & Ag & E1 & E2 & E3 & C & XA).
  destruct (agree_transfer G (vars_condlit e) s s' th) as [th' [Ag' Eq]];
    [intros x Hx HG; apply (B e); assumption | exact Ag |].
  exists e, th', n, args, ext, vs. repeat split; try assumption.
  - rewrite <- E2. apply eval_list_coincide. intros x Hx. apply Eq. unfold vars_condlit. apply in_app_iff. left.
    rewrite E1. simpl. exact Hx.
  - apply (lits_sat_coincide G X T th th' (snd e)); [|exact C].
    intros x Hx. symmetry. apply Eq. unfold vars_condlit. apply in_app_iff. right. exact Hx.
Qed.

Definition helem_vars (e: helem) := flat_map vars_term (fst e) ++ vars_condlit (snd e).

Lemma headagg_tuples_coincide_dir G X T s s' es tv :
  (forall e x, In e es -> In x (helem_vars e) -> In x G -> s x = s' x) ->
  headagg_tuples G X T s es tv -> headagg_tuples G X T s' es tv.
Proof.
  intros B (e & th & I' & Ag & E & C & L).
  destruct (agree_transfer G (helem_vars e) s s' th) as [th' [Ag' Eq]];
    [intros x Hx HG; apply (B e); assumption | exact Ag |].
  exists e, th'. repeat split; try assumption.
  - rewrite <- E. apply eval_list_coincide. intros x Hx. apply Eq. unfold helem_vars. apply in_app_iff. left. exact Hx.
  - apply (lits_sat_coincide G X T th th' (snd (snd e))); [|exact C].
    intros x Hx. symmetry. apply Eq. unfold helem_vars, vars_condlit. rewrite !in_app_iff. right. right. exact Hx.
  - apply (lit_sat_coincide G X T th th' (fst (snd e))); [|exact L].
    intros x Hx. symmetry. apply Eq. unfold helem_vars, vars_condlit. rewrite !in_app_iff. right. left. exact Hx.
Qed.

Lemma head_sat_coincide_dir G H T s s' h :
  (forall x, In x (gvars_head h) -> s x = s' x) ->
  (forall x, In x (vars_head h) -> In x G -> s x = s' x) ->
  head_sat G H T s h -> head_sat G H T s' h.
Proof.
  destruct h as [l|es|lg es rg|lg f es rg|tx]; simpl; intros A B.
  - apply (proj1 (lit_sat_coincide_gen G H T s s' l A B)).
  - intros (e & th & I' & Ag & C & L).
    destruct (agree_transfer G (vars_condlit e) s s' th) as [th' [Ag' Eq]]; [|exact Ag|].
    { intros x Hx HG. apply B; [|exact HG]. apply in_flat_map. exists e. split; assumption. }
    exists e, th'. repeat split; try assumption.
    + apply (lits_sat_coincide G H T th th' (snd e)); [|exact C].
      intros x Hx. symmetry. apply Eq. unfold vars_condlit. apply in_app_iff. right. exact Hx.
    + apply (lit_sat_coincide G H T th th' (fst e)); [|exact L].
      intros x Hx. symmetry. apply Eq. unfold vars_condlit. apply in_app_iff. left. exact Hx.
  - assert (B': forall (s s': subst), (forall x, In x (vars_oguard lg ++ flat_map vars_condlit es ++ vars_oguard rg) -> In x G -> s x = s' x) ->
                forall e x, In e es -> In x (vars_condlit e) -> In x G -> s x = s' x).
    { intros s0 s0' B0 e x I' Hx HG. apply B0; [|exact HG]. rewrite !in_app_iff. right. left.
      apply in_flat_map. exists e. split; assumption. }
    assert (Bs: forall x, In x (vars_oguard lg ++ flat_map vars_condlit es ++ vars_oguard rg) -> In x G -> s' x = s x)
      by (intros; symmetry; auto).
    assert (TE: forall X, tup_eq (choice_tuples G X T s es) (choice_tuples G X T s' es)).
    { intros X tv. split; apply choice_tuples_coincide_dir; [exact (B' s s' B) | exact (B' s' s Bs)]. }
    intros (F & CT). split; [apply (choice_elems_ok_coincide_dir G H T s s' es (B' s s' B) F)|].
    apply (proj1 (agg_holds_coincide s s' lg FCount rg _ _ A (TE T))); exact CT.
  - assert (B': forall (s s': subst), (forall x, In x (vars_oguard lg ++ flat_map helem_vars es ++ vars_oguard rg) -> In x G -> s x = s' x) ->
                forall e x, In e es -> In x (helem_vars e) -> In x G -> s x = s' x).
    { intros s0 s0' B0 e x I' Hx HG. apply B0; [|exact HG]. rewrite !in_app_iff. right. left.
      apply in_flat_map. exists e. split; assumption. }
    change (forall x, In x (vars_oguard lg ++ flat_map helem_vars es ++ vars_oguard rg) -> In x G -> s x = s' x) in B.
    assert (Bs: forall x, In x (vars_oguard lg ++ flat_map helem_vars es ++ vars_oguard rg) -> In x G -> s' x = s x)
      by (intros; symmetry; auto).
    assert (TE: forall X, tup_eq (headagg_tuples G X T s es) (headagg_tuples G X T s' es)).
    { intros X tv. split; apply headagg_tuples_coincide_dir; [exact (B' s s' B) | exact (B' s' s Bs)]. }
    intros (F & CT). split.
    { apply (choice_elems_ok_coincide_dir G H T s s' (map snd es)); [|exact F].
      intros e x I' Hx HG. apply in_map_iff in I'. destruct I' as [e0 [<- I0]].
      apply (B' s s' B e0); [exact I0 | | exact HG]. unfold helem_vars. apply in_app_iff. right. exact Hx. }
    apply (proj1 (agg_holds_coincide s s' lg f rg _ _ A (TE T))); exact CT.
  - tauto.
Qed.

Theorem head_sat_coincide G H T s s' h :
  (forall x, In x (gvars_head h) -> s x = s' x) ->
  (forall x, In x (vars_head h) -> In x G -> s x = s' x) ->
  (head_sat G H T s h <-> head_sat G H T s' h).
Proof. intros A B. split; apply head_sat_coincide_dir; auto; intros; symmetry; auto. Qed.

End Coincide.

(* ====================================================================================== *)
(* 2. The substitution lemma                                                              *)
(* ====================================================================================== *)
(* The model replaces variables with `vmap_term f` (clingo's transform_ast on Variable nodes); the in-lining
   pass instantiates f with `subst1 x u` = "replace x by u":
       inline_replace_term x u t = vmap_term (subst1 x u) t      (and _lit, _bodyelem, _head likewise). *)
Lemma eval_list_map_forall s s' (f: term -> term) ts :
  Forall (fun t => eval s (f t) = eval s' t) ts -> eval_list s (map f ts) = eval_list s' ts.
Proof. induction 1 as [|t ts E _ IH]; simpl; [reflexivity|]. rewrite E, IH. reflexivity. Qed.

(* simultaneous substitution: if s' x is the value of f x under s, then evaluating the substituted term under s
   is evaluating the term under s' *)
Theorem eval_vmap : forall t (f: string -> term) s s',
  (forall x, In x (vars_term t) -> eval s (f x) = Some (s' x)) -> eval s (vmap_term f t) = eval s' t.
Proof.
  intro t. induction t as [x|c|o t IHt|o l r IHl IHr|l r IHl IHr|n xs e IHxs|xs IHxs] using NormalizeSpec.term_ind';
    intros f s s' A.
  - simpl. apply A. left. reflexivity.
  - reflexivity.
  - simpl. rewrite (IHt f s s' A). reflexivity.
  - simpl. rewrite (IHl f s s'), (IHr f s s'); [reflexivity | |]; intros x Hx; apply A; simpl; apply in_app_iff; auto.
  - reflexivity.
  - simpl vmap_term. rewrite !eval_fun.
    assert (E: eval_list s (map (vmap_term f) xs) = eval_list s' xs).
    { apply eval_list_map_forall. rewrite Forall_forall in *. intros t Ht. apply (IHxs t Ht).
      intros x Hx. apply A. simpl. apply in_flat_map. exists t. split; assumption. }
    rewrite E. reflexivity.
  - reflexivity.
Qed.

Theorem eval_subst s x u v t : eval s u = Some v -> eval s (inline_replace_term x u t) = eval (upd s x v) t.
Proof.
  intro E. unfold inline_replace_term. apply eval_vmap. intros y _. unfold subst1, upd.
  destruct (String.eqb y x); [exact E | reflexivity].
Qed.

Lemma eval_list_none s ts t : In t ts -> eval s t = None -> eval_list s ts = None.
Proof.
  induction ts as [|t0 ts IH]; simpl; intros I' E; [contradiction|]. destruct I' as [->|I'].
  - rewrite E. reflexivity.
  - rewrite (IH I' E). destruct (eval s t0); reflexivity.
Qed.

(* None-consistency: an undefined u makes every term in which x occurs undefined after the replacement *)
Theorem eval_subst_undefined s x u : eval s u = None ->
  forall t, In x (vars_term t) -> eval s (inline_replace_term x u t) = None.
Proof.
  intros E t. unfold inline_replace_term.
  induction t as [y|c|o t IHt|o l r IHl IHr|l r IHl IHr|n xs e IHxs|xs IHxs] using NormalizeSpec.term_ind'; intro I'.
  - simpl in I'. destruct I' as [->|[]]. simpl. unfold subst1. rewrite String.eqb_refl. exact E.
  - destruct I'.
  - simpl. rewrite (IHt I'). reflexivity.
  - simpl in I'. apply in_app_iff in I'. simpl. destruct I' as [I'|I'].
    + rewrite (IHl I'). reflexivity.
    + rewrite (IHr I'). destruct (eval s (vmap_term (subst1 x u) l)) as [[ | | | | ]|]; reflexivity.
  - reflexivity.
  - simpl in I'. apply in_flat_map in I'. destruct I' as [t [Ht Hx]]. simpl vmap_term. rewrite eval_fun.
    rewrite Forall_forall in IHxs.
    rewrite (eval_list_none s (map (vmap_term (subst1 x u)) xs) (vmap_term (subst1 x u) t));
      [reflexivity | apply in_map; exact Ht | apply (IHxs t Ht Hx)].
  - reflexivity.
Qed.

(* the replacement is the identity on terms without x *)
Lemma map_id_forall {A} (f: A -> A) l : Forall (fun x => f x = x) l -> map f l = l.
Proof. induction 1 as [|x l E _ IH]; simpl; [reflexivity|]. rewrite E, IH. reflexivity. Qed.

Lemma subst_term_fresh x u : forall t, ~ In x (vars_term t) -> inline_replace_term x u t = t.
Proof.
  unfold inline_replace_term. intro t.
  induction t as [y|c|o t IHt|o l r IHl IHr|l r IHl IHr|n xs e IHxs|xs IHxs] using NormalizeSpec.term_ind'; intro N; simpl.
  - unfold subst1. destruct (String.eqb y x) eqn:E; [|reflexivity]. apply String.eqb_eq in E. subst. exfalso. apply N. left. reflexivity.
  - reflexivity.
  - rewrite (IHt N). reflexivity.
  - simpl in N. rewrite in_app_iff in N. rewrite IHl, IHr by tauto. reflexivity.
  - simpl in N. rewrite in_app_iff in N. rewrite IHl, IHr by tauto. reflexivity.
  - f_equal. apply map_id_forall. rewrite Forall_forall in *. intros t Ht. apply (IHxs t Ht).
    intro Hx. apply N. simpl. apply in_flat_map. exists t. split; assumption.
  - f_equal. apply map_id_forall. rewrite Forall_forall in *. intros t Ht. apply (IHxs t Ht).
    intro Hx. apply N. simpl. apply in_flat_map. exists t. split; assumption.
Qed.

Lemma subst_terms_fresh x u ts : ~ In x (flat_map vars_term ts) -> map (vmap_term (subst1 x u)) ts = ts.
Proof.
  intro N. apply map_id_forall. apply Forall_forall. intros t Ht. apply (subst_term_fresh x u t).
  intro Hx. apply N. apply in_flat_map. exists t. split; assumption.
Qed.

Lemma simple_vmap f l : simple_lit_b (vmap_lit f l) = simple_lit_b l.
Proof. destruct l as [sg a]. destruct a; reflexivity. Qed.

Section Subst.
Variable sym_lt : sym -> sym -> Prop.
Notation lit_sat := (lit_sat sym_lt).
Notation lits_sat := (lits_sat sym_lt).
Notation bodyelem_sat := (bodyelem_sat sym_lt).
Notation body_sat := (body_sat sym_lt).
Notation head_sat := (head_sat sym_lt).
Notation rule_sat := (rule_sat sym_lt).
Notation stmt_sat := (stmt_sat sym_lt).
Notation chain_holds := (chain_holds sym_lt).
Notation cmp_true := (cmp_true sym_lt).

(* literals: if evaluating substituted terms under s is evaluating the terms under s' ... *)
Lemma chain_holds_vmap f s s' gs : (forall t, eval s (vmap_term f t) = eval s' t) ->
  forall w, chain_holds s w (map (vmap_guard f) gs) <-> chain_holds s' w gs.
Proof.
  intro E. induction gs as [|[o t] gs IH]; intro w; simpl; [tauto|]. rewrite E.
  destruct (eval s' t) as [w'|]; [rewrite IH; tauto | tauto].
Qed.
Lemma chain_defined_vmap f s s' gs : (forall t, eval s (vmap_term f t) = eval s' t) ->
  (chain_defined s (map (vmap_guard f) gs) <-> chain_defined s' gs).
Proof. intro E. induction gs as [|[o t] gs IH]; simpl; [tauto|]. rewrite E, IH. tauto. Qed.

Lemma lit_sat_vmap_simple G H T f s s' l : simple_lit_b l = true ->
  (forall t, eval s (vmap_term f t) = eval s' t) -> (lit_sat G H T s (vmap_lit f l) <-> lit_sat G H T s' l).
Proof.
  intros S E. destruct l as [sg a]. destruct a as [t|t gs|b|lg fn es rg|lg es rg|tx]; try discriminate S.
  - simpl vmap_lit. rewrite !lit_sat_sym_eq. unfold sym_atom_sat. rewrite E. tauto.
  - simpl vmap_lit. rewrite !lit_sat_cmp_eq. unfold cmp_def, Sat.cmp_true. rewrite E.
    rewrite (chain_defined_vmap f s s' gs E).
    assert (C: match eval s' t with Some v => chain_holds s v (map (vmap_guard f) gs) | None => False end <->
               match eval s' t with Some v => chain_holds s' v gs | None => False end).
    { destruct (eval s' t) as [v|]; [apply chain_holds_vmap; exact E | tauto]. }
    destruct sg; simpl; tauto.
  - simpl. tauto.
Qed.

(* ... in particular for the replacement of x by u when u is defined *)
Theorem lit_sat_subst G H T s x u v l : simple_lit_b l = true -> eval s u = Some v ->
  (lit_sat G H T s (inline_replace_lit x u l) <-> lit_sat G H T (upd s x v) l).
Proof.
  intros S E. unfold inline_replace_lit. apply lit_sat_vmap_simple; [exact S|].
  intro t. apply (eval_subst s x u v t E).
Qed.

Lemma chain_defined_subst_undefined s x u gs : eval s u = None -> In x (flat_map vars_guard gs) ->
  ~ chain_defined s (map (vmap_guard (subst1 x u)) gs).
Proof.
  intros E. induction gs as [|[o t] gs IH]; simpl; intro I'; [contradiction|]. apply in_app_iff in I'.
  destruct I' as [I'|I'].
  - intros [D _]. apply D. apply (eval_subst_undefined s x u E t I').
  - intros [_ D]. exact (IH I' D).
Qed.

(* when u is undefined, every simple literal in which x occurs is false after the replacement, whatever its sign *)
Theorem lit_sat_subst_undefined G H T s x u l : simple_lit_b l = true -> eval s u = None ->
  In x (vars_lit l) -> ~ lit_sat G H T s (inline_replace_lit x u l).
Proof.
  intros S E I'. unfold inline_replace_lit. destruct l as [sg a].
  destruct a as [t|t gs|b|lg fn es rg|lg es rg|tx]; try discriminate S.
  - simpl vmap_lit. rewrite lit_sat_sym_eq. unfold sym_atom_sat.
    pose proof (eval_subst_undefined s x u E t I') as U. unfold inline_replace_term in U. rewrite U. tauto.
  - simpl vmap_lit. rewrite lit_sat_cmp_eq. simpl in I'. apply in_app_iff in I'. intros [[D1 D2] _]. destruct I' as [I'|I'].
    + apply D1. apply (eval_subst_undefined s x u E t I').
    + exact (chain_defined_subst_undefined s x u gs E I' D2).
  - destruct I'.
Qed.

(* ====================================================================================== *)
(* 3. Ex-lining                                                                           *)
(* ====================================================================================== *)
Lemma assign_sat G H T s x a : lit_sat G H T s (assign x a) <-> eval s a = Some (s x).
Proof.
  unfold assign. rewrite lit_sat_cmp_eq. unfold cmp_def, Sat.cmp_true. simpl.
  destruct (eval s a) as [w|]; simpl.
  - split.
    + intros [_ [E _]]. rewrite E. reflexivity.
    + intro E. injection E as ->. repeat split; discriminate.
  - split; [intros [[_ [D _]] _]; exfalso; apply D; reflexivity | discriminate].
Qed.

(* The general form: a simple literal l in which x occurs, x not in a. The existential quantifier sits outside
   the sign of the literal, and the witness is unique (the value of a): every sign is fine. *)
Theorem exline_literal_sound_gen G G' H T s x a l :
  simple_lit_b l = true -> In x (vars_lit l) -> ~ In x (vars_term a) ->
  (lit_sat G H T s (inline_replace_lit x a l) <->
   exists v, lit_sat G' H T (upd s x v) l /\ lit_sat G' H T (upd s x v) (assign x a)).
Proof.
  intros S I' N. split.
  - intro L. destruct (eval s a) as [v|] eqn:E.
    + exists v. split.
      * apply (lit_sat_simple_G sym_lt G G' H T _ l S). apply (lit_sat_subst G H T s x a v l S E). exact L.
      * apply assign_sat. rewrite (eval_upd_fresh s x v a N), upd_same. exact E.
    + exfalso. exact (lit_sat_subst_undefined G H T s x a l S E I' L).
  - intros [v [L A]]. apply assign_sat in A. rewrite (eval_upd_fresh s x v a N), upd_same in A.
    apply (lit_sat_subst G H T s x a v l S A). apply (lit_sat_simple_G sym_lt G' G H T _ l S). exact L.
Qed.

(* one argument position of a symbolic atom *)
Lemma subst_position x a sg p pre post e : ~ In x (flat_map vars_term (pre ++ post)) ->
  inline_replace_lit x a (Lit sg (ASym (TFun p (pre ++ TVar x :: post) e))) = Lit sg (ASym (TFun p (pre ++ a :: post) e)).
Proof.
  intro N. rewrite flat_map_app, in_app_iff in N. unfold inline_replace_lit. simpl. rewrite map_app. simpl.
  unfold subst1 at 2. rewrite String.eqb_refl.
  rewrite (subst_terms_fresh x a pre), (subst_terms_fresh x a post) by tauto. reflexivity.
Qed.

Theorem exline_literal_sound G G' H T s sg p pre a post e AUX :
  negb (smem AUX (flat_map vars_term (pre ++ a :: post))) = true ->
  (lit_sat G H T s (Lit sg (ASym (TFun p (pre ++ a :: post) e))) <->
   exists v, lit_sat G' H T (upd s AUX v) (Lit sg (ASym (TFun p (pre ++ TVar AUX :: post) e))) /\
             lit_sat G' H T (upd s AUX v) (Lit NoSign (ACmp (TVar AUX) [(CEq, a)]))).
Proof.
  intro F. apply negb_smem in F. rewrite flat_map_app in F. simpl in F. rewrite !in_app_iff in F.
  rewrite <- (subst_position AUX a sg p pre post e) by (rewrite flat_map_app, in_app_iff; tauto).
  apply exline_literal_sound_gen; [reflexivity | | tauto].
  simpl. rewrite flat_map_app. apply in_app_iff. right. simpl. left. reflexivity.
Qed.

(* ---- rules whose head and body consist of simple literals ---- *)
Definition simple_bodyelem_b (b: bodyelem) : bool := match b with BLit l => simple_lit_b l | BCond _ _ => false end.

Lemma rule_sat_split G H T h b :
  rule_sat G H T h b <->
  (forall s, body_sat G H T s b -> head_sat G H T s h) /\ (forall s, body_sat G T T s b -> head_sat G T T s h).
Proof.
  unfold Sat.rule_sat. split.
  - intro A. split; intro s; apply (A s).
  - intros [A B] s. split; [apply A | apply B].
Qed.

Lemma body_simple_coincide G G' H T s s' B : forallb simple_bodyelem_b B = true ->
  (forall x, In x (flat_map vars_bodyelem B) -> s x = s' x) -> (body_sat G H T s B <-> body_sat G' H T s' B).
Proof.
  intros S A. rewrite forallb_forall in S. unfold Sat.body_sat. rewrite !Forall_forall.
  assert (K: forall b, In b B -> (bodyelem_sat G H T s b <-> bodyelem_sat G' H T s' b)).
  { intros b Hb. specialize (S b Hb). destruct b as [l|l c]; [|discriminate S]. simpl.
    apply lit_sat_coincide_simple; [exact S|]. intros x Hx. apply A. apply in_flat_map. exists (BLit l). split; assumption. }
  split; intros F b Hb; apply (K b Hb); apply F; exact Hb.
Qed.
Lemma body_simple_G G G' H T s B : forallb simple_bodyelem_b B = true -> (body_sat G H T s B <-> body_sat G' H T s B).
Proof. intro S. apply body_simple_coincide; [exact S | reflexivity]. Qed.

Lemma rule_sat_simple_G G G' H T hl B : simple_lit_b hl = true -> forallb simple_bodyelem_b B = true ->
  (rule_sat G H T (HLit hl) B <-> rule_sat G' H T (HLit hl) B).
Proof.
  intros Sh Sb. unfold Sat.rule_sat. simpl.
  split; intros A s; specialize (A s);
    rewrite ?(body_simple_G G G' H T s B Sb), ?(body_simple_G G G' T T s B Sb),
            ?(lit_sat_simple_G sym_lt G G' H T s hl Sh), ?(lit_sat_simple_G sym_lt G G' T T s hl Sh) in *; exact A.
Qed.

(* the implication "body -> head" of one HT component, for a body literal l in which x occurs *)
Lemma exline_imp G H T hl B1 B2 x a l :
  simple_lit_b hl = true -> forallb simple_bodyelem_b B1 = true -> forallb simple_bodyelem_b B2 = true ->
  simple_lit_b l = true -> In x (vars_lit l) ->
  ~ In x (vars_term a) -> ~ In x (vars_lit hl) -> ~ In x (flat_map vars_bodyelem B1) -> ~ In x (flat_map vars_bodyelem B2) ->
  ((forall s, body_sat G H T s (B1 ++ BLit (inline_replace_lit x a l) :: B2) -> lit_sat G H T s hl) <->
   (forall s, body_sat G H T s (B1 ++ BLit l :: BLit (assign x a) :: B2) -> lit_sat G H T s hl)).
Proof.
  intros Sh S1 S2 Sl I' Na Nh N1 N2. split; intros A s Bd.
  - apply NormalizeSpec.body_sat_app in Bd. destruct Bd as [P1 Bd].
    apply NormalizeSpec.body_sat_cons in Bd. destruct Bd as [PL Bd].
    apply NormalizeSpec.body_sat_cons in Bd. destruct Bd as [PE P2]. simpl in PL, PE.
    apply assign_sat in PE. apply A.
    apply NormalizeSpec.body_sat_app. split; [exact P1|]. apply NormalizeSpec.body_sat_cons. split; [|exact P2]. simpl.
    apply (lit_sat_subst G H T s x a (s x) l Sl PE).
    apply (lit_sat_coincide_simple sym_lt G G H T s (upd s x (s x)) l Sl); [|exact PL].
    intros y _. symmetry. apply upd_self.
  - apply NormalizeSpec.body_sat_app in Bd. destruct Bd as [P1 Bd].
    apply NormalizeSpec.body_sat_cons in Bd. destruct Bd as [PL P2]. simpl in PL.
    apply (exline_literal_sound_gen G G H T s x a l Sl I' Na) in PL. destruct PL as [v [PL PE]].
    assert (Fr: forall V, ~ In x V -> forall y, In y V -> s y = upd s x v y).
    { intros V NV y Hy. symmetry. apply upd_other. intro E. subst. contradiction. }
    apply (lit_sat_coincide_simple sym_lt G G H T s (upd s x v) hl Sh (Fr _ Nh)). apply A.
    apply NormalizeSpec.body_sat_app. split; [apply (body_simple_coincide G G H T s (upd s x v) B1 S1 (Fr _ N1)); exact P1|].
    apply NormalizeSpec.body_sat_cons. split; [exact PL|]. apply NormalizeSpec.body_sat_cons. split; [exact PE|].
    apply (body_simple_coincide G G H T s (upd s x v) B2 S2 (Fr _ N2)); exact P2.
Qed.

(* A body literal of ANY sign (positive, `not`, `not not`): the rule with the literal L[x := a] has the same HT
   models as the rule with L and the equality x = a, x fresh.  G and G' are arbitrary (e.g. G' = x :: G). *)
Theorem exline_rule_sound_gen G G' H T hl B1 B2 x a l :
  simple_lit_b hl = true -> forallb simple_bodyelem_b B1 = true -> forallb simple_bodyelem_b B2 = true ->
  simple_lit_b l = true -> In x (vars_lit l) ->
  ~ In x (vars_term a) -> ~ In x (vars_lit hl) -> ~ In x (flat_map vars_bodyelem B1) -> ~ In x (flat_map vars_bodyelem B2) ->
  (rule_sat G H T (HLit hl) (B1 ++ BLit (inline_replace_lit x a l) :: B2) <->
   rule_sat G' H T (HLit hl) (B1 ++ BLit l :: BLit (assign x a) :: B2)).
Proof.
  intros Sh S1 S2 Sl I' Na Nh N1 N2.
  assert (Sb: forallb simple_bodyelem_b (B1 ++ BLit l :: BLit (assign x a) :: B2) = true).
  { rewrite forallb_app. simpl. rewrite S1, S2, Sl. reflexivity. }
  rewrite <- (rule_sat_simple_G G G' H T hl _ Sh Sb). rewrite !rule_sat_split. simpl head_sat.
  rewrite (exline_imp G H T hl B1 B2 x a l Sh S1 S2 Sl I' Na Nh N1 N2).
  rewrite (exline_imp G T T hl B1 B2 x a l Sh S1 S2 Sl I' Na Nh N1 N2). tauto.
Qed.

Theorem exline_rule_sound G G' H T hl B1 B2 sg p pre a post e AUX :
  simple_lit_b hl = true -> forallb simple_bodyelem_b B1 = true -> forallb simple_bodyelem_b B2 = true ->
  negb (smem AUX (vars_lit hl ++ flat_map vars_bodyelem B1 ++ flat_map vars_term (pre ++ a :: post)
                  ++ flat_map vars_bodyelem B2)) = true ->
  (rule_sat G H T (HLit hl) (B1 ++ BLit (Lit sg (ASym (TFun p (pre ++ a :: post) e))) :: B2) <->
   rule_sat G' H T (HLit hl) (B1 ++ BLit (Lit sg (ASym (TFun p (pre ++ TVar AUX :: post) e)))
                                 :: BLit (Lit NoSign (ACmp (TVar AUX) [(CEq, a)])) :: B2)).
Proof.
  intros Sh S1 S2 F. apply negb_smem in F. rewrite !in_app_iff, flat_map_app in F. simpl in F. rewrite !in_app_iff in F.
  rewrite <- (subst_position AUX a sg p pre post e) by (rewrite flat_map_app, in_app_iff; tauto).
  apply exline_rule_sound_gen; try assumption; try tauto.
  simpl. rewrite flat_map_app. apply in_app_iff. right. simpl. left. reflexivity.
Qed.

(* ---- heads.  ngo also ex-lines head atoms: p(X+1) :- B  ~>  p(AUX) :- B, AUX = X+1.
   In Sat.v an undefined head term makes head_sat false, i.e. the ORIGINAL rule is violated by an instance with
   a true body and an undefined head, whereas gringo drops that instance.  Hence only one direction holds
   in this semantics (and the ex-lined rule is the one that agrees with gringo). ---- *)
Theorem exline_head_sound_1 G G' H T x a l B :
  simple_lit_b l = true -> forallb simple_bodyelem_b B = true ->
  rule_sat G H T (HLit (inline_replace_lit x a l)) B -> rule_sat G' H T (HLit l) (B ++ [BLit (assign x a)]).
Proof.
  intros Sl Sb A s. specialize (A s). simpl in A. simpl head_sat.
  assert (K: forall X, (body_sat G X T s B -> lit_sat G X T s (inline_replace_lit x a l)) ->
                       body_sat G' X T s (B ++ [BLit (assign x a)]) -> lit_sat G' X T s l).
  { intros X AX Bd. apply NormalizeSpec.body_sat_app in Bd. destruct Bd as [P PE].
    apply NormalizeSpec.body_sat_one in PE. simpl in PE. apply assign_sat in PE.
    apply (body_simple_G G' G X T s B Sb) in P. specialize (AX P).
    apply (lit_sat_subst G X T s x a (s x) l Sl PE) in AX.
    apply (lit_sat_coincide_simple sym_lt G G' X T (upd s x (s x)) s l Sl); [|exact AX].
    intros y _. apply upd_self. }
  destruct A as [A1 A2]. split; apply K; assumption.
Qed.

End Subst.

(* ---- the converse for heads fails in Sat.v:  p(X+1) :- q(X).  vs  p(AUX) :- q(X), AUX = X+1.  with {q(c)} ---- *)
Definition c_sym : sym := SFun "c" [] true.
Definition T_qc : interp := fun a => a = ("q", [c_sym]).
Definition q_of (t: term) : lit := Lit NoSign (ASym (TFun "q" [t] false)).
Definition p_of (t: term) : lit := Lit NoSign (ASym (TFun "p" [t] false)).
Definition x_plus_1 : term := TBin BPlus (TVar "X") (TSym (SNum 1)).

Section HeadRefuted.
Variable sym_lt : sym -> sym -> Prop.
Notation lit_sat := (lit_sat sym_lt).
Notation body_sat := (body_sat sym_lt).
Notation rule_sat := (rule_sat sym_lt).

Lemma q_of_sat G H T s t v : eval s t = Some v -> (lit_sat G H T s (q_of t) <-> H ("q", [v])).
Proof. intro E. unfold q_of. rewrite lit_sat_sym_eq. unfold sym_atom_sat. rewrite eval_fun. simpl. rewrite E. simpl. tauto. Qed.
Lemma p_of_sat G H T s t v : eval s t = Some v -> (lit_sat G H T s (p_of t) <-> H ("p", [v])).
Proof. intro E. unfold p_of. rewrite lit_sat_sym_eq. unfold sym_atom_sat. rewrite eval_fun. simpl. rewrite E. simpl. tauto. Qed.
Lemma p_of_undefined G H T s t : eval s t = None -> ~ lit_sat G H T s (p_of t).
Proof. intro E. unfold p_of. rewrite lit_sat_sym_eq. unfold sym_atom_sat. rewrite eval_fun. simpl. rewrite E. tauto. Qed.
Lemma T_qc_inv v : T_qc ("q", [v]) -> v = c_sym.
Proof. unfold T_qc. intro E. injection E as ->. reflexivity. Qed.

Theorem exline_head_converse_refuted :
  inline_replace_lit "AUX" x_plus_1 (p_of (TVar "AUX")) = p_of x_plus_1 /\
  negb (smem "AUX" (vars_term x_plus_1 ++ vars_lit (q_of (TVar "X")))) = true /\
  forall G, rule_sat G T_qc T_qc (HLit (p_of (TVar "AUX"))) ([BLit (q_of (TVar "X"))] ++ [BLit (assign "AUX" x_plus_1)]) /\
          ~ rule_sat G T_qc T_qc (HLit (p_of x_plus_1)) [BLit (q_of (TVar "X"))].
Proof.
  split; [reflexivity|]. split; [reflexivity|]. intro G. split.
  - assert (K: forall s, ~ body_sat G T_qc T_qc s ([BLit (q_of (TVar "X"))] ++ [BLit (assign "AUX" x_plus_1)])).
    { intros s Bd. apply NormalizeSpec.body_sat_app in Bd. destruct Bd as [P PE].
      apply NormalizeSpec.body_sat_one in P. apply NormalizeSpec.body_sat_one in PE. simpl in P, PE.
      apply (q_of_sat G T_qc T_qc s (TVar "X") (s "X") eq_refl) in P. apply T_qc_inv in P.
      apply assign_sat in PE. unfold x_plus_1 in PE. simpl in PE. rewrite P in PE. discriminate PE. }
    intro s. split; intro Bd; destruct (K s Bd).
  - intro A. destruct (A (fun _ => c_sym)) as [A1 _]. simpl in A1.
    apply (p_of_undefined G T_qc T_qc (fun _ => c_sym) x_plus_1 eq_refl). apply A1.
    apply NormalizeSpec.body_sat_one. simpl. apply (q_of_sat G T_qc T_qc _ (TVar "X") c_sym eq_refl). reflexivity.
Qed.
End HeadRefuted.

(* ---- the model: Normalize.exline_literal produces exactly that shape ---- *)
Definition is_arith (t: term) : bool := match t with TBin _ _ _ | TUn _ _ => true | _ => false end.
Definition plain_terms (ts: list term) : bool := forallb (fun t => negb (is_arith t)) ts.
(* no argument of the atom is ex-lined *)
Definition plain_lit (l: lit) : bool :=
  match l with Lit _ (ASym (TFun _ args _)) => plain_terms args | _ => true end.
Definition plain_bodyelem (b: bodyelem) : bool := match b with BLit l => plain_lit l | BCond _ _ => false end.

Lemma exline_term_plain t st : is_arith t = false -> exline_term t st = Ok (t, [], st).
Proof. destruct t; simpl; intro E; try reflexivity; discriminate E. Qed.

Lemma exline_terms_plain ts st : plain_terms ts = true -> exline_terms ts st = Ok (ts, [], st).
Proof.
  unfold plain_terms. induction ts as [|t ts IH]; simpl; intro P; [reflexivity|].
  apply andb_true_iff in P. destruct P as [Pt Pts]. apply negb_true_iff in Pt.
  rewrite (exline_term_plain t st Pt). simpl. rewrite (IH Pts). reflexivity.
Qed.

Lemma exline_term_arith a av uv av' : is_arith a = true -> make_unique av AUX_VAR_name = Ok (uv, av') ->
  exline_term a (Ok av) = Ok (TVar uv, [assign uv a], Ok av').
Proof.
  intros A M. destruct a; try discriminate A; simpl; unfold fresh_aux; simpl; rewrite M; reflexivity.
Qed.

Lemma exline_terms_one pre a post av uv av' :
  plain_terms pre = true -> plain_terms post = true -> is_arith a = true ->
  make_unique av AUX_VAR_name = Ok (uv, av') ->
  exline_terms (pre ++ a :: post) (Ok av) = Ok (pre ++ TVar uv :: post, [assign uv a], Ok av').
Proof.
  intros Ppre Ppost A M. unfold plain_terms in Ppre. induction pre as [|t pre IH]; simpl.
  - rewrite (exline_term_arith a av uv av' A M). simpl. rewrite (exline_terms_plain post _ Ppost). reflexivity.
  - simpl in Ppre. apply andb_true_iff in Ppre. destruct Ppre as [Pt Pts]. apply negb_true_iff in Pt.
    rewrite (exline_term_plain t _ Pt). simpl. rewrite (IH Pts). reflexivity.
Qed.

Lemma AUX_not_anon : AUX_VAR_name <> "_".
Proof. unfold AUX_VAR_name. discriminate. Qed.

(* a literal with exactly one arithmetic argument: make_unique hands out a name that is not in `av`
   (make_unique_fresh / make_unique_not_in_rule, Link/GlobalsSpec.v), the argument is replaced by it and the
   equality `name = argument` is returned for the body *)
Theorem exline_literal_shape sg n pre a post e av :
  is_arith a = true -> plain_terms pre = true -> plain_terms post = true ->
  has_pool_lit (Lit sg (ASym (TFun n (pre ++ a :: post) e))) = false ->
  exists uv av', make_unique av AUX_VAR_name = Ok (uv, av') /\ ~ In uv av /\ av' = av ++ [uv] /\
    exline_literal (Lit sg (ASym (TFun n (pre ++ a :: post) e))) (Ok av) =
      Ok (Lit sg (ASym (TFun n (pre ++ TVar uv :: post) e)), [assign uv a], Ok av').
Proof.
  intros A Ppre Ppost NP. destruct (make_unique_total av AUX_VAR_name) as [uv [av' M]]. exists uv, av'.
  split; [exact M|]. split; [exact (make_unique_not_in_rule av _ uv av' AUX_not_anon M)|].
  split; [destruct (make_unique_fresh av _ uv av' AUX_not_anon M) as [_ [_ [E _]]]; exact E|].
  unfold exline_literal. rewrite NP. rewrite (exline_terms_one pre a post av uv av' Ppre Ppost A M). reflexivity.
Qed.

Lemma exline_literal_plain l st : plain_lit l = true -> exline_literal l st = Ok (l, [], st).
Proof.
  destruct l as [sg a]. destruct a as [t| | | | | ]; try reflexivity. destruct t; try reflexivity.
  intro P. unfold exline_literal. destruct (has_pool_lit _); [reflexivity|].
  simpl in P. rewrite (exline_terms_plain _ st P). reflexivity.
Qed.

Lemma exline_body_plain B st : forallb plain_bodyelem B = true -> exline_body B st = Ok (B, st).
Proof.
  induction B as [|b B IH]; simpl; intro P; [reflexivity|]. apply andb_true_iff in P. destruct P as [Pb PB].
  destruct b as [l|l c]; [|discriminate Pb]. simpl in Pb.
  rewrite (exline_literal_plain l st Pb). simpl. rewrite (IH PB). reflexivity.
Qed.

Lemma exline_body_one B1 B2 sg n pre a post e av uv av' :
  forallb plain_bodyelem B1 = true -> forallb plain_bodyelem B2 = true ->
  exline_literal (Lit sg (ASym (TFun n (pre ++ a :: post) e))) (Ok av) =
      Ok (Lit sg (ASym (TFun n (pre ++ TVar uv :: post) e)), [assign uv a], Ok av') ->
  exline_body (B1 ++ BLit (Lit sg (ASym (TFun n (pre ++ a :: post) e))) :: B2) (Ok av) =
  Ok (B1 ++ BLit (Lit sg (ASym (TFun n (pre ++ TVar uv :: post) e))) :: BLit (assign uv a) :: B2, Ok av').
Proof.
  intros P1 P2 E. induction B1 as [|b B1 IH].
  - cbn [app exline_body]. rewrite E. simpl. rewrite (exline_body_plain B2 _ P2). reflexivity.
  - simpl in P1. apply andb_true_iff in P1. destruct P1 as [Pb P1]. destruct b as [l|l c]; [|discriminate Pb].
    cbn [app exline_body]. rewrite (exline_literal_plain l _ Pb). simpl. rewrite (IH P1). reflexivity.
Qed.

Lemma simple_not_theory l : simple_lit_b l = true -> theory_lit l = false.
Proof. destruct l as [sg a]. destruct a; try discriminate; reflexivity. Qed.
Lemma simple_not_opaque ln hl B : simple_lit_b hl = true -> forallb simple_bodyelem_b B = true ->
  opaque_vars (SRule ln (HLit hl) B) = false.
Proof.
  intros Sh Sb. simpl. rewrite (simple_not_theory hl Sh). simpl.
  induction B as [|b B IH]; [reflexivity|]. simpl in *. apply andb_true_iff in Sb. destruct Sb as [S1 S2].
  destruct b as [l|l c]; [|discriminate S1]. simpl. rewrite (simple_not_theory l S1). simpl. apply IH. exact S2.
Qed.

Section ExlineModel.
Variable sym_lt : sym -> sym -> Prop.
Notation stmt_sat := (stmt_sat sym_lt).

(* One application of the model function to a rule with simple literals, one body literal of which (of any sign)
   has exactly one arithmetic argument and nothing else is to be ex-lined: the result is the expected rule, the
   new variable does not occur in the rule, and the two rules have the same HT models. *)
Theorem exline_arithmetic_rule_one_sound ln hl B1 B2 sg n pre a post e :
  simple_lit_b hl = true -> plain_lit hl = true ->
  forallb simple_bodyelem_b B1 = true -> forallb plain_bodyelem B1 = true ->
  forallb simple_bodyelem_b B2 = true -> forallb plain_bodyelem B2 = true ->
  is_arith a = true -> plain_terms pre = true -> plain_terms post = true ->
  has_pool_lit (Lit sg (ASym (TFun n (pre ++ a :: post) e))) = false ->
  let stm := SRule ln (HLit hl) (B1 ++ BLit (Lit sg (ASym (TFun n (pre ++ a :: post) e))) :: B2) in
  exists uv,
    let stm' := SRule ln (HLit hl) (B1 ++ BLit (Lit sg (ASym (TFun n (pre ++ TVar uv :: post) e))) :: BLit (assign uv a) :: B2) in
    exline_arithmetic_rule stm = Ok stm' /\ ~ In uv (vars_stmt stm) /\ forall H T, stmt_sat H T stm <-> stmt_sat H T stm'.
Proof.
  intros Sh Ph S1 P1 S2 P2 A Ppre Ppost NP stm.
  destruct (exline_literal_shape sg n pre a post e (vars_stmt stm) A Ppre Ppost NP) as [uv [av' [M [Fr [_ EL]]]]].
  exists uv. intro stm'.
  assert (Sb: forallb simple_bodyelem_b (B1 ++ BLit (Lit sg (ASym (TFun n (pre ++ a :: post) e))) :: B2) = true).
  { rewrite forallb_app. simpl. rewrite S1, S2. reflexivity. }
  split; [|split; [exact Fr|]].
  - unfold exline_arithmetic_rule. unfold stm at 1. unfold init_vars. fold stm.
    unfold stm at 1. rewrite (simple_not_opaque ln hl _ Sh Sb). fold stm. unfold stm at 1.
    rewrite (exline_literal_plain hl _ Ph). simpl rbind. rewrite app_nil_r.
    change (vars_lit hl ++ flat_map vars_bodyelem (B1 ++ BLit (Lit sg (ASym (TFun n (pre ++ a :: post) e))) :: B2))
      with (vars_stmt stm).
    rewrite (exline_body_one B1 B2 sg n pre a post e _ uv av' P1 P2 EL). reflexivity.
  - intros H T. unfold stm, stm'. simpl stmt_sat.
    apply exline_rule_sound; try assumption.
    apply negb_true_iff. apply smem_false. intro I'. apply Fr. unfold stm. simpl.
    rewrite flat_map_app. simpl. rewrite !in_app_iff in *. tauto.
Qed.
End ExlineModel.

(* non-vacuity:  a(X) :- q(X), not p(X+1, X), r(X).  *)
Definition nv_exline_rule : stmt :=
  SRule 1 (HLit (Lit NoSign (ASym (TFun "a" [TVar "X"] false))))
    ([BLit (q_of (TVar "X"))] ++ BLit (Lit Neg (ASym (TFun "p" ([] ++ x_plus_1 :: [TVar "X"]) false)))
       :: [BLit (Lit NoSign (ASym (TFun "r" [TVar "X"] false)))]).
Example exline_nonvacuous :
  exline_arithmetic_rule nv_exline_rule =
    Ok (SRule 1 (HLit (Lit NoSign (ASym (TFun "a" [TVar "X"] false))))
          [BLit (q_of (TVar "X")); BLit (Lit Neg (ASym (TFun "p" [TVar "AUX"; TVar "X"] false)));
           BLit (assign "AUX" x_plus_1); BLit (Lit NoSign (ASym (TFun "r" [TVar "X"] false)))]) /\
  simple_lit_b (Lit NoSign (ASym (TFun "a" [TVar "X"] false))) = true /\
  plain_lit (Lit NoSign (ASym (TFun "a" [TVar "X"] false))) = true /\
  forallb simple_bodyelem_b [BLit (q_of (TVar "X"))] = true /\ forallb plain_bodyelem [BLit (q_of (TVar "X"))] = true /\
  is_arith x_plus_1 = true /\ plain_terms [TVar "X"] = true /\
  has_pool_lit (Lit Neg (ASym (TFun "p" ([] ++ x_plus_1 :: [TVar "X"]) false))) = false /\
  negb (smem "AUX" (vars_stmt nv_exline_rule)) = true.
Proof. vm_compute. repeat split. Qed.

(* ====================================================================================== *)
(* 4. In-lining                                                                           *)
(* ====================================================================================== *)
Lemma sym_eq_or_ne (a b: sym) : a = b \/ a <> b.
Proof.
  destruct (sym_eqb a b) eqn:E.
  - left. apply CleanupSpec.sym_eqb_eq. exact E.
  - right. intro F. apply CleanupSpec.sym_eqb_eq in F. congruence.
Qed.

Lemma cmp_eqb_eq a b : cmp_eqb a b = true <-> a = b.
Proof. destruct a, b; simpl; split; intro E; try reflexivity; discriminate E. Qed.
Lemma guard_eqb_eq (a b: guard) : guard_eqb a b = true <-> a = b.
Proof.
  destruct a as [o t], b as [o' t']. unfold guard_eqb. simpl. rewrite andb_true_iff, cmp_eqb_eq, CleanupSpec.term_eqb_eq.
  split; [intros [-> ->]; reflexivity | intro E; injection E; auto].
Qed.
(* clingo's == against a comparison literal is Leibniz equality *)
Lemma bodyelem_eqb_cmp b sg t gs : bodyelem_eqb b (BLit (Lit sg (ACmp t gs))) = true -> b = BLit (Lit sg (ACmp t gs)).
Proof.
  destruct b as [[sg' a']|l c]; [|discriminate]. simpl. intro E. apply andb_true_iff in E. destruct E as [E1 E2].
  destruct a' as [t'|t' gs'|b'|lg f es rg|lg es rg|tx]; simpl in E2; try discriminate E2.
  apply andb_true_iff in E2. destruct E2 as [E2 E3].
  apply CleanupSpec.sign_eqb_eq in E1. apply CleanupSpec.term_eqb_eq in E2.
  apply (CleanupSpec.list_eqb_eq guard_eqb guard_eqb_eq) in E3. subst. reflexivity.
Qed.

(* terms whose evaluation never fails: no arithmetic, intervals or pools *)
Fixpoint always_defined (t: term) : bool :=
  match t with
  | TVar _ | TSym _ => true
  | TFun _ args _ => forallb always_defined args
  | _ => false
  end.
Lemma eval_list_defined s ts : Forall (fun t => exists v, eval s t = Some v) ts -> exists vs, eval_list s ts = Some vs.
Proof.
  induction 1 as [|t ts [v E] _ [vs IH]]; simpl; [exists []; reflexivity|]. rewrite E, IH. eexists. reflexivity.
Qed.
Lemma always_defined_eval s : forall t, always_defined t = true -> exists v, eval s t = Some v.
Proof.
  intro t. induction t as [x|c|o t IHt|o l r IHl IHr|l r IHl IHr|n xs e IHxs|xs IHxs] using NormalizeSpec.term_ind';
    intro D; try discriminate D.
  - eexists. reflexivity.
  - eexists. reflexivity.
  - rewrite eval_fun. simpl in D. rewrite forallb_forall in D. rewrite Forall_forall in IHxs.
    destruct (eval_list_defined s xs) as [vs E].
    { apply Forall_forall. intros t Ht. apply (IHxs t Ht). apply D. exact Ht. }
    rewrite E. eexists. reflexivity.
Qed.

(* the side condition under which an undefined t cannot make a difference: either t is always defined, or x occurs
   in a simple literal that stays in the body (which then is undefined, hence false, after the replacement) *)
Definition inline_safe (x: string) (t: term) (B': list bodyelem) : bool :=
  always_defined t || existsb (fun b => smem x (vars_bodyelem b)) B'.

Definition keep_other (blit: bodyelem) (b: bodyelem) : bool := negb (bodyelem_eqb b blit).

Section Inline.
Variable sym_lt : sym -> sym -> Prop.
Notation lit_sat := (lit_sat sym_lt).
Notation bodyelem_sat := (bodyelem_sat sym_lt).
Notation body_sat := (body_sat sym_lt).
Notation head_sat := (head_sat sym_lt).
Notation rule_sat := (rule_sat sym_lt).
Notation stmt_sat := (stmt_sat sym_lt).
Notation cmp_true := (cmp_true sym_lt).

(* the four forms recognised by normalize._equality:  X = t,  t = X,  not X != t,  not t != X *)
Lemma eq_sem_r G H T s x t : lit_sat G H T s (Lit NoSign (ACmp t [(CEq, TVar x)])) <-> eval s t = Some (s x).
Proof.
  rewrite lit_sat_cmp_eq. unfold cmp_def, Sat.cmp_true. simpl. destruct (eval s t) as [w|]; simpl.
  - split; [intros [_ [E _]]; rewrite E; reflexivity | intro E; injection E as ->; repeat split; discriminate].
  - split; [intros [[D _] _]; exfalso; apply D; reflexivity | discriminate].
Qed.
Lemma ne_sem_l G H T s x t : lit_sat G H T s (Lit Neg (ACmp (TVar x) [(CNe, t)])) <-> eval s t = Some (s x).
Proof.
  rewrite lit_sat_cmp_eq. unfold cmp_def, Sat.cmp_true. simpl. destruct (eval s t) as [w|]; simpl.
  - split.
    + intros [_ N]. destruct (sym_eq_or_ne (s x) w) as [->|D]; [reflexivity | exfalso; apply N; split; [exact D | exact I]].
    + intro E. injection E as ->. split; [repeat split; discriminate | intros [N _]; apply N; reflexivity].
  - split; [intros [[_ [D _]] _]; exfalso; apply D; reflexivity | discriminate].
Qed.
Lemma ne_sem_r G H T s x t : lit_sat G H T s (Lit Neg (ACmp t [(CNe, TVar x)])) <-> eval s t = Some (s x).
Proof.
  rewrite lit_sat_cmp_eq. unfold cmp_def, Sat.cmp_true. simpl. destruct (eval s t) as [w|]; simpl.
  - split.
    + intros [_ N]. destruct (sym_eq_or_ne w (s x)) as [->|D]; [reflexivity | exfalso; apply N; split; [exact D | exact I]].
    + intro E. injection E as ->. split; [repeat split; discriminate | intros [N _]; apply N; reflexivity].
  - split; [intros [[D _] _]; exfalso; apply D; reflexivity | discriminate].
Qed.

(* the model's test: a literal accepted by `equality` says exactly "t is defined and its value is the value of x" *)
Theorem equality_sem G H T s l x t : equality l = Some (x, t) -> (lit_sat G H T s l <-> eval s t = Some (s x)).
Proof.
  destruct l as [sg a]. destruct a as [t0|t0 gs|b|lg f es rg|lg es rg|tx]; try discriminate.
  unfold equality. destruct (has_pool_lit _ || has_interval_lit _); [discriminate|].
  destruct gs as [|[o r] [|g gs]]; [destruct t0; discriminate | | destruct t0; destruct r; discriminate].
  assert (FORMS: is_eq_form o sg = true -> (o = CEq /\ sg = NoSign) \/ (o = CNe /\ sg = Neg)).
  { destruct o, sg; simpl; intro E; try discriminate E; auto. }
  destruct t0 as [x0|c|u t1|bo l1 r1|l1 r1|n xs e|xs].
  - (* X o rest *)
    intro E0.
    assert (E1: (if is_eq_form o sg then (if String.eqb x0 "_" then None else Some (x0, r)) else None) = Some (x, t))
      by (destruct r; exact E0).
    clear E0. revert E1.
    destruct (is_eq_form o sg) eqn:F; [|discriminate]. destruct (String.eqb x0 "_"); [discriminate|].
    intro E. injection E as <- <-. destruct (FORMS eq_refl) as [[-> ->]|[-> ->]].
    + apply (assign_sat sym_lt G H T s x0 r).
    + apply ne_sem_l.
  - destruct r; try discriminate. destruct (is_eq_form o sg) eqn:F; [|discriminate]. destruct (String.eqb _ "_"); [discriminate|].
    intro E. injection E as <- <-. destruct (FORMS eq_refl) as [[-> ->]|[-> ->]]; [apply eq_sem_r | apply ne_sem_r].
  - destruct r; try discriminate. destruct (is_eq_form o sg) eqn:F; [|discriminate]. destruct (String.eqb _ "_"); [discriminate|].
    intro E. injection E as <- <-. destruct (FORMS eq_refl) as [[-> ->]|[-> ->]]; [apply eq_sem_r | apply ne_sem_r].
  - destruct r; try discriminate. destruct (is_eq_form o sg) eqn:F; [|discriminate]. destruct (String.eqb _ "_"); [discriminate|].
    intro E. injection E as <- <-. destruct (FORMS eq_refl) as [[-> ->]|[-> ->]]; [apply eq_sem_r | apply ne_sem_r].
  - destruct r; try discriminate. destruct (is_eq_form o sg) eqn:F; [|discriminate]. destruct (String.eqb _ "_"); [discriminate|].
    intro E. injection E as <- <-. destruct (FORMS eq_refl) as [[-> ->]|[-> ->]]; [apply eq_sem_r | apply ne_sem_r].
  - destruct r; try discriminate. destruct (is_eq_form o sg) eqn:F; [|discriminate]. destruct (String.eqb _ "_"); [discriminate|].
    intro E. injection E as <- <-. destruct (FORMS eq_refl) as [[-> ->]|[-> ->]]; [apply eq_sem_r | apply ne_sem_r].
  - destruct r; try discriminate. destruct (is_eq_form o sg) eqn:F; [|discriminate]. destruct (String.eqb _ "_"); [discriminate|].
    intro E. injection E as <- <-. destruct (FORMS eq_refl) as [[-> ->]|[-> ->]]; [apply eq_sem_r | apply ne_sem_r].
Qed.

Lemma equality_is_cmp l x t : equality l = Some (x, t) -> exists sg t0 gs, l = Lit sg (ACmp t0 gs).
Proof. destruct l as [sg a]. destruct a; try discriminate. intros _. eauto. Qed.

(* body = the other literals + the equality *)
Lemma body_split G H T s B E : In (BLit E) B -> (forall b, bodyelem_eqb b (BLit E) = true -> b = BLit E) ->
  (body_sat G H T s B <-> body_sat G H T s (filter (keep_other (BLit E)) B) /\ lit_sat G H T s E).
Proof.
  intros I' L. unfold Sat.body_sat. rewrite !Forall_forall. split.
  - intro F. split.
    + intros b Hb. apply filter_In in Hb. apply F. apply Hb.
    + apply (F (BLit E) I').
  - intros [F PE] b Hb. destruct (keep_other (BLit E) b) eqn:K.
    + apply F. apply filter_In. split; assumption.
    + unfold keep_other in K. apply negb_false_iff in K. rewrite (L b K). exact PE.
Qed.

Lemma body_subst G H T s x t v B : forallb simple_bodyelem_b B = true -> eval s t = Some v ->
  (body_sat G H T s (map (inline_replace_bodyelem x t) B) <-> body_sat G H T (upd s x v) B).
Proof.
  intros S E. rewrite forallb_forall in S. unfold Sat.body_sat. rewrite !Forall_forall. split.
  - intros F b Hb. specialize (S b Hb). destruct b as [l|l c]; [|discriminate S]. simpl.
    apply (lit_sat_subst sym_lt G H T s x t v l S E). apply (F (inline_replace_bodyelem x t (BLit l))). apply in_map. exact Hb.
  - intros F b' Hb'. apply in_map_iff in Hb'. destruct Hb' as [b [<- Hb]]. specialize (S b Hb).
    destruct b as [l|l c]; [|discriminate S]. apply (lit_sat_subst sym_lt G H T s x t v l S E). apply (F (BLit l) Hb).
Qed.

Lemma simple_map_subst x t B : forallb simple_bodyelem_b B = true ->
  forallb simple_bodyelem_b (map (inline_replace_bodyelem x t) B) = true.
Proof.
  induction B as [|b B IH]; simpl; intro S; [reflexivity|]. apply andb_true_iff in S. destruct S as [S1 S2].
  rewrite (IH S2), andb_true_r. destruct b as [l|l c]; [|discriminate S1]. simpl.
  unfold inline_replace_lit. rewrite simple_vmap. exact S1.
Qed.
Lemma simple_filter (p: bodyelem -> bool) B : forallb simple_bodyelem_b B = true -> forallb simple_bodyelem_b (filter p B) = true.
Proof.
  rewrite !forallb_forall. intros S b Hb. apply filter_In in Hb. apply S. apply Hb.
Qed.

(* one HT component; E is any literal that means "t is defined and x has its value" and for which clingo's == is
   Leibniz equality *)
Lemma inline_imp G H T hl B E x t :
  simple_lit_b hl = true -> forallb simple_bodyelem_b B = true ->
  In (BLit E) B ->
  (forall s, lit_sat G H T s E <-> eval s t = Some (s x)) ->
  (forall b, bodyelem_eqb b (BLit E) = true -> b = BLit E) ->
  negb (smem x (vars_term t)) = true ->
  inline_safe x t (filter (keep_other (BLit E)) B) = true ->
  ((forall s, body_sat G H T s B -> lit_sat G H T s hl) <->
   (forall s, body_sat G H T s (map (inline_replace_bodyelem x t) (filter (keep_other (BLit E)) B)) ->
              lit_sat G H T s (inline_replace_lit x t hl))).
Proof.
  intros Sh Sb I' SEM L Nx Safe. apply negb_smem in Nx.
  pose proof (simple_filter (keep_other (BLit E)) B Sb) as Sf.
  split; intros A s Bd.
  - destruct (eval s t) as [v|] eqn:Ev.
    + apply (lit_sat_subst sym_lt G H T s x t v hl Sh Ev). apply A.
      apply (body_split G H T (upd s x v) B E I' L). split.
      * apply (body_subst G H T s x t v _ Sf Ev). exact Bd.
      * apply SEM. rewrite (eval_upd_fresh s x v t Nx), upd_same. exact Ev.
    + exfalso. unfold inline_safe in Safe. apply orb_true_iff in Safe. destruct Safe as [D|Ex].
      * destruct (always_defined_eval s t D) as [v Ev']. congruence.
      * apply existsb_exists in Ex. destruct Ex as [b [Hb Hx]]. apply smem_In in Hx.
        rewrite forallb_forall in Sf. pose proof (Sf b Hb) as S. destruct b as [l|l c]; [|discriminate S].
        unfold Sat.body_sat in Bd. rewrite Forall_forall in Bd.
        apply (lit_sat_subst_undefined sym_lt G H T s x t l S Ev Hx).
        apply (Bd (inline_replace_bodyelem x t (BLit l))). apply in_map. exact Hb.
  - apply (body_split G H T s B E I' L) in Bd. destruct Bd as [Bf PE].
    apply SEM in PE.
    assert (Self: forall V y, In y V -> upd s x (s x) y = s y) by (intros; apply upd_self).
    apply (lit_sat_coincide_simple sym_lt G G H T (upd s x (s x)) s hl Sh (Self _)).
    apply (lit_sat_subst sym_lt G H T s x t (s x) hl Sh PE). apply A.
    apply (body_subst G H T s x t (s x) _ Sf PE).
    apply (body_simple_coincide sym_lt G G H T (upd s x (s x)) s _ Sf (Self _)). exact Bf.
Qed.

Theorem inline_step_sound_gen G G' H T hl B E x t :
  simple_lit_b hl = true -> forallb simple_bodyelem_b B = true ->
  In (BLit E) B ->
  (forall X s, lit_sat G X T s E <-> eval s t = Some (s x)) ->
  (forall b, bodyelem_eqb b (BLit E) = true -> b = BLit E) ->
  negb (smem x (vars_term t)) = true ->
  inline_safe x t (filter (keep_other (BLit E)) B) = true ->
  (rule_sat G H T (HLit hl) B <->
   rule_sat G' H T (HLit (inline_replace_lit x t hl))
            (map (inline_replace_bodyelem x t) (filter (keep_other (BLit E)) B))).
Proof.
  intros Sh Sb I' SEM L Nx Safe.
  assert (Sh': simple_lit_b (inline_replace_lit x t hl) = true) by (unfold inline_replace_lit; rewrite simple_vmap; exact Sh).
  pose proof (simple_map_subst x t _ (simple_filter (keep_other (BLit E)) B Sb)) as Sb'.
  rewrite <- (rule_sat_simple_G sym_lt G G' H T _ _ Sh' Sb'). rewrite !rule_sat_split. simpl head_sat.
  rewrite (inline_imp G H T hl B E x t Sh Sb I' (SEM H) L Nx Safe).
  rewrite (inline_imp G T T hl B E x t Sh Sb I' (SEM T) L Nx Safe). tauto.
Qed.

(* = inline_equality_sound_partial, in the shape of one step of normalize.inline_rule on a rule with simple literals:
   E is a body literal accepted by `equality` (X = t, t = X, not X != t, not t != X); every body literal equal to E
   is removed (the model's / Python's list comprehension) and t replaces X in the head and the remaining body. *)
Theorem inline_equality_sound_partial G G' H T hl B E x t :
  simple_lit_b hl = true -> forallb simple_bodyelem_b B = true ->
  In (BLit E) B -> equality E = Some (x, t) ->
  negb (smem x (vars_term t)) = true ->
  inline_safe x t (filter (keep_other (BLit E)) B) = true ->
  (rule_sat G H T (HLit hl) B <->
   rule_sat G' H T (HLit (inline_replace_lit x t hl))
            (map (inline_replace_bodyelem x t) (filter (keep_other (BLit E)) B))).
Proof.
  intros Sh Sb I' EQ Nx Safe. apply inline_step_sound_gen; try assumption.
  - intros X s. apply (equality_sem G X T s E x t EQ).
  - destruct (equality_is_cmp E x t EQ) as [sg [t0 [gs ->]]]. intro b. apply bodyelem_eqb_cmp.
Qed.

(* the same for a positive literal `X = t` (any t: no restriction on pools, intervals or the name of X) that occurs
   once, in the shape  h :- B1, X = t, B2.   ~>   h[X:=t] :- B1[X:=t], B2[X:=t]. *)
Lemma filter_all {A} (p: A -> bool) l : forallb p l = true -> filter p l = l.
Proof.
  induction l as [|a l IH]; simpl; intro F; [reflexivity|]. apply andb_true_iff in F. destruct F as [F1 F2].
  rewrite F1, (IH F2). reflexivity.
Qed.
Lemma assign_eqb_refl x t : bodyelem_eqb (BLit (assign x t)) (BLit (assign x t)) = true.
Proof.
  unfold assign. simpl. rewrite String.eqb_refl. unfold guard_eqb. simpl. rewrite CleanupSpec.term_eqb_refl. reflexivity.
Qed.

Theorem inline_equality_sound_split G G' H T hl B1 B2 x t :
  simple_lit_b hl = true -> forallb simple_bodyelem_b B1 = true -> forallb simple_bodyelem_b B2 = true ->
  forallb (keep_other (BLit (assign x t))) (B1 ++ B2) = true ->
  negb (smem x (vars_term t)) = true ->
  inline_safe x t (B1 ++ B2) = true ->
  (rule_sat G H T (HLit hl) (B1 ++ BLit (assign x t) :: B2) <->
   rule_sat G' H T (HLit (inline_replace_lit x t hl)) (map (inline_replace_bodyelem x t) (B1 ++ B2))).
Proof.
  intros Sh S1 S2 NoCopy Nx Safe.
  assert (F: filter (keep_other (BLit (assign x t))) (B1 ++ BLit (assign x t) :: B2) = B1 ++ B2).
  { rewrite forallb_app in NoCopy. apply andb_true_iff in NoCopy. destruct NoCopy as [N1 N2].
    rewrite filter_app. simpl. unfold keep_other at 2. rewrite assign_eqb_refl. simpl.
    rewrite (filter_all _ B1 N1), (filter_all _ B2 N2). reflexivity. }
  rewrite <- F. apply inline_step_sound_gen; try assumption.
  - rewrite forallb_app. simpl. rewrite S1, S2. reflexivity.
  - apply in_app_iff. right. left. reflexivity.
  - intros X s. apply assign_sat.
  - intro b. unfold assign. apply bodyelem_eqb_cmp.
  - rewrite F. exact Safe.
Qed.

(* ---- the model's loop ---- *)
Lemma inline_rule_fuel_rule fuel ln h body :
  inline_rule_fuel fuel (SRule ln h body) =
  if negb (existsb (fun b => match equality_bodyelem b with Some _ => true | None => false end) body)
  then Ok (SRule ln h body)
  else if opaque_vars (SRule ln h body) then OutOfFragment
  else match find_inline (vars_stmt (SRule ln h body)) body with
       | None => Ok (SRule ln h body)
       | Some (blit, var, rest) =>
           match fuel with
           | 0 => OutOfFuel
           | S fuel' =>
               inline_rule_fuel fuel' (SRule ln (inline_replace_head var rest h)
                 (map (inline_replace_bodyelem var rest) (filter (fun x => negb (bodyelem_eqb x blit)) body)))
           end
       end.
Proof. destruct fuel; reflexivity. Qed.

Lemma find_inline_spec av body blit var rest : find_inline av body = Some (blit, var, rest) ->
  In blit body /\ equality_bodyelem blit = Some (var, rest).
Proof.
  induction body as [|b body IH]; simpl; [discriminate|].
  destruct (equality_bodyelem b) as [[v r]|] eqn:E.
  - destruct (Nat.ltb 1 (count_name v av)).
    + intro F. injection F as <- <- <-. split; [left; reflexivity | exact E].
    + intro F. destruct (IH F) as [I' E']. split; [right; exact I' | exact E'].
  - intro F. destruct (IH F) as [I' E']. split; [right; exact I' | exact E'].
Qed.

Definition simple_rule_b (stm: stmt) : bool :=
  match stm with SRule _ (HLit hl) b => simple_lit_b hl && forallb simple_bodyelem_b b | _ => false end.

(* the decidable side condition of the whole loop: it follows the loop and checks, at every step, that the rule
   consists of simple literals, that the in-lined variable does not occur in its own definition and that an
   undefined definition cannot make a difference *)
Fixpoint inline_checked (fuel: nat) (stm: stmt) : bool :=
  match stm with
  | SRule ln h body =>
      simple_rule_b stm &&
      match find_inline (vars_stmt stm) body with
      | None => true
      | Some (blit, var, rest) =>
          negb (smem var (vars_term rest)) &&
          inline_safe var rest (filter (keep_other blit) body) &&
          match fuel with
          | 0 => true
          | S fuel' => inline_checked fuel' (SRule ln (inline_replace_head var rest h)
                         (map (inline_replace_bodyelem var rest) (filter (keep_other blit) body)))
          end
      end
  | _ => false
  end.

Theorem inline_rule_sound : forall fuel stm stm',
  inline_checked fuel stm = true -> inline_rule_fuel fuel stm = Ok stm' ->
  forall H T, stmt_sat H T stm <-> stmt_sat H T stm'.
Proof.
  induction fuel as [|fuel IH]; intros stm stm' C R H T.
  - destruct stm as [ln h body| | | | ]; try discriminate C.
    rewrite inline_rule_fuel_rule in R. destruct (negb _); [injection R as <-; tauto|].
    destruct (opaque_vars _); [discriminate R|].
    destruct (find_inline _ body) as [[[blit var] rest]|]; [discriminate R | injection R as <-; tauto].
  - destruct stm as [ln h body| | | | ]; try discriminate C.
    rewrite inline_rule_fuel_rule in R. destruct (negb _); [injection R as <-; tauto|].
    destruct (opaque_vars _); [discriminate R|].
    cbn [inline_checked] in C. apply andb_true_iff in C. destruct C as [Sr C].
    destruct (find_inline (vars_stmt (SRule ln h body)) body) as [[[blit var] rest]|] eqn:F; [|injection R as <-; tauto].
    apply andb_true_iff in C. destruct C as [C C3]. apply andb_true_iff in C. destruct C as [C1 C2].
    destruct (find_inline_spec _ _ _ _ _ F) as [I' EQ].
    destruct blit as [E|l c]; [|discriminate EQ]. simpl in EQ.
    destruct h as [hl| | | | ]; try discriminate Sr. simpl in Sr. apply andb_true_iff in Sr. destruct Sr as [Sh Sb].
    rewrite <- (IH _ stm' C3 R H T). simpl stmt_sat.
    apply (inline_equality_sound_partial _ _ H T hl body E var rest Sh Sb I' EQ C1 C2).
Qed.

Corollary inline_rule_sound' stm stm' :
  inline_checked (S (List.length (stmt_body stm))) stm = true -> inline_rule stm = Ok stm' ->
  forall H T, stmt_sat H T stm <-> stmt_sat H T stm'.
Proof. apply inline_rule_sound. Qed.

End Inline.

(* ====================================================================================== *)
(* 5. Where in-lining is NOT an equivalence (concrete counter-models) and non-vacuity      *)
(* ====================================================================================== *)
Definition a_sym : sym := SFun "a" [] true.
Definition f_a : sym := SFun "f" [a_sym] true.
Definition fX : term := TFun "f" [TVar "X"] false.
Definition x_times_3 : term := TBin BMul (TVar "X") (TSym (SNum 3)).
Definition y_plus_1 : term := TBin BPlus (TVar "Y") (TSym (SNum 1)).
Definition one_div_y : term := TBin BDiv (TSym (SNum 1)) (TVar "Y").
Definition atom_a : lit := Lit NoSign (ASym (TSym a_sym)).
Definition single (n: string) (v: sym) : interp := fun at_ => at_ = (n, [v]).

(* p(X) :- q(X), X = f(X).   ~>   p(f(X)) :- q(f(X)).      (known defect of ngo, C05/C10) *)
Definition self_ref_rule : stmt := SRule 1 (HLit (p_of (TVar "X"))) [BLit (q_of (TVar "X")); BLit (assign "X" fX)].
Definition self_ref_inlined : stmt := SRule 1 (HLit (p_of fX)) [BLit (q_of fX)].
(* p(X) :- q(X), X = X*3.   ~>   p(X*3) :- q(X*3). *)
Definition self_mul_rule : stmt := SRule 1 (HLit (p_of (TVar "X"))) [BLit (q_of (TVar "X")); BLit (assign "X" x_times_3)].
Definition self_mul_inlined : stmt := SRule 1 (HLit (p_of x_times_3)) [BLit (q_of x_times_3)].
(* a :- q(Y), X = Y+1, X = Y+1.   ~>   a :- q(Y).          (both copies are removed, X occurs nowhere else) *)
Definition dup_rule : stmt := SRule 1 (HLit atom_a) [BLit (q_of (TVar "Y")); BLit (assign "X" y_plus_1); BLit (assign "X" y_plus_1)].
Definition dup_inlined : stmt := SRule 1 (HLit atom_a) [BLit (q_of (TVar "Y"))].
(* p(X) :- q(Y), X = Y+1.   ~>   p(Y+1) :- q(Y).           (X only in the head) *)
Definition head_only_rule : stmt := SRule 1 (HLit (p_of (TVar "X"))) [BLit (q_of (TVar "Y")); BLit (assign "X" y_plus_1)].
Definition head_only_inlined : stmt := SRule 1 (HLit (p_of y_plus_1)) [BLit (q_of (TVar "Y"))].
(* a :- q(Y), X = 1/Y, 0 = #count { 1 : r(X) }.   ~>   a :- q(Y), 0 = #count { 1 : r(1/Y) }. *)
Definition count_r (t: term) : bodyelem :=
  BLit (Lit NoSign (ABodyAgg (Some (CEq, TSym (SNum 0))) FCount
                             [([TSym (SNum 1)], [Lit NoSign (ASym (TFun "r" [t] false))])] None)).
Definition agg_rule : stmt := SRule 1 (HLit atom_a) [BLit (q_of (TVar "Y")); BLit (assign "X" one_div_y); count_r (TVar "X")].
Definition agg_inlined : stmt := SRule 1 (HLit atom_a) [BLit (q_of (TVar "Y")); count_r one_div_y].

Example inline_model_outputs :
  inline_rule self_ref_rule = Ok self_ref_inlined /\ inline_rule self_mul_rule = Ok self_mul_inlined /\
  inline_rule dup_rule = Ok dup_inlined /\ inline_rule head_only_rule = Ok head_only_inlined /\
  inline_rule agg_rule = Ok agg_inlined.
Proof. vm_compute. repeat split. Qed.

(* the checker rejects all of them, each for the intended reason *)
Example inline_checked_rejects :
  negb (smem "X" (vars_term fX)) = false /\ negb (smem "X" (vars_term x_times_3)) = false /\
  inline_safe "X" y_plus_1 [BLit (q_of (TVar "Y"))] = false /\
  simple_rule_b agg_rule = false /\
  inline_checked 3 self_ref_rule = false /\ inline_checked 3 self_mul_rule = false /\
  inline_checked 4 dup_rule = false /\ inline_checked 3 head_only_rule = false /\ inline_checked 4 agg_rule = false.
Proof. vm_compute. repeat split. Qed.

(* non-vacuity:  p(X,Z) :- q(Y), X = Y+1, r(X), Z = f(Y).   ~>   p(Y+1,f(Y)) :- q(Y), r(Y+1).
   (first step: X occurs in r(X); second step: f(Y) is always defined) *)
Definition nv_inline_rule : stmt :=
  SRule 1 (HLit (Lit NoSign (ASym (TFun "p" [TVar "X"; TVar "Z"] false))))
    [BLit (q_of (TVar "Y")); BLit (assign "X" y_plus_1); BLit (Lit NoSign (ASym (TFun "r" [TVar "X"] false)));
     BLit (assign "Z" (TFun "f" [TVar "Y"] false))].
Example inline_nonvacuous :
  inline_checked (S (List.length (stmt_body nv_inline_rule))) nv_inline_rule = true /\
  inline_rule nv_inline_rule =
    Ok (SRule 1 (HLit (Lit NoSign (ASym (TFun "p" [y_plus_1; TFun "f" [TVar "Y"] false] false))))
          [BLit (q_of (TVar "Y")); BLit (Lit NoSign (ASym (TFun "r" [y_plus_1] false)))]).
Proof. vm_compute. split; reflexivity. Qed.

(* the side conditions of inline_equality_sound_split / inline_step_sound_gen hold on
     p(X) :- q(Y), X = Y+1, r(X).       (undefined Y+1 is caught by r(Y+1))
     p(X) :- q(Y), X = f(Y).            (f(Y) is always defined)                                       *)
Example inline_split_nonvacuous :
  let r_x := BLit (Lit NoSign (ASym (TFun "r" [TVar "X"] false))) in
  forallb simple_bodyelem_b [BLit (q_of (TVar "Y"))] = true /\ forallb simple_bodyelem_b [r_x] = true /\
  forallb (keep_other (BLit (assign "X" y_plus_1))) ([BLit (q_of (TVar "Y"))] ++ [r_x]) = true /\
  negb (smem "X" (vars_term y_plus_1)) = true /\
  inline_safe "X" y_plus_1 ([BLit (q_of (TVar "Y"))] ++ [r_x]) = true /\
  always_defined y_plus_1 = false /\
  inline_safe "X" (TFun "f" [TVar "Y"] false) ([BLit (q_of (TVar "Y"))] ++ []) = true.
Proof. vm_compute. repeat split. Qed.

Section Refuted.
Variable sym_lt : sym -> sym -> Prop.
Notation lit_sat := (lit_sat sym_lt).
Notation body_sat := (body_sat sym_lt).
Notation rule_sat := (rule_sat sym_lt).
Notation stmt_sat := (stmt_sat sym_lt).

Ltac qsat P s t v :=
  let Q := fresh "Q" in pose proof (fun G H T => proj1 (q_of_sat sym_lt G H T s t v eq_refl)) as Q; apply Q in P; clear Q.
Ltac psat P s t v :=
  let Q := fresh "Q" in pose proof (fun G H T => proj1 (p_of_sat sym_lt G H T s t v eq_refl)) as Q; apply Q in P; clear Q.

Lemma single_inv n v w : single n v (n, [w]) -> w = v.
Proof. unfold single. intro E. injection E as ->. reflexivity. Qed.

Lemma atom_a_sat G H T s : lit_sat G H T s atom_a <-> H ("a", []).
Proof. unfold atom_a. rewrite lit_sat_sym_eq. unfold sym_atom_sat. simpl. tauto. Qed.

(* rules whose body can never be true are satisfied *)
Lemma rule_sat_no_body G T h b : (forall s, ~ body_sat G T T s b) -> rule_sat G T T h b.
Proof. intros K s. split; intro Bd; destruct (K s Bd). Qed.

(* a rule with a true body and a false head at s (total interpretation) is violated *)
Lemma rule_unsat_at G T h b s : body_sat G T T s b -> ~ head_sat sym_lt G T T s h -> ~ rule_sat G T T h b.
Proof. intros Bd Nh A. destruct (A s) as [A1 _]. exact (Nh (A1 Bd)). Qed.

Lemma body2 G H T s l1 l2 : body_sat G H T s [BLit l1; BLit l2] <-> lit_sat G H T s l1 /\ lit_sat G H T s l2.
Proof. rewrite NormalizeSpec.body_sat_cons, NormalizeSpec.body_sat_one. simpl. tauto. Qed.
Lemma body1 G H T s l1 : body_sat G H T s [BLit l1] <-> lit_sat G H T s l1.
Proof. rewrite NormalizeSpec.body_sat_one. simpl. tauto. Qed.

(* X occurs in its own definition: {q(f(a))} satisfies the original rule (its body is never true) but not the
   in-lined one (X = a: q(f(a)) holds, p(f(a)) does not) *)
Theorem inline_self_reference_refuted :
  inline_rule self_ref_rule = Ok self_ref_inlined /\
  stmt_sat (single "q" f_a) (single "q" f_a) self_ref_rule /\
  ~ stmt_sat (single "q" f_a) (single "q" f_a) self_ref_inlined.
Proof.
  split; [vm_compute; reflexivity|]. split.
  - unfold Sat.stmt_sat, self_ref_rule. apply rule_sat_no_body. intros s Bd.
    apply body2 in Bd. destruct Bd as [P PE].
    qsat P s (TVar "X") (s "X"). apply single_inv in P.
    apply assign_sat in PE. unfold fX in PE. rewrite eval_fun in PE. simpl in PE. rewrite P in PE. discriminate PE.
  - unfold Sat.stmt_sat, self_ref_inlined. apply (rule_unsat_at _ _ _ _ (fun _ => a_sym)).
    + apply body1. apply (q_of_sat sym_lt _ _ _ (fun _ : string => a_sym) fX f_a eq_refl). reflexivity.
    + simpl. intro P. psat P (fun _ : string => a_sym) fX f_a. discriminate P.
Qed.

(* the arithmetic variant: {q(3)}; X = 1 in the in-lined rule *)
Theorem inline_self_reference_mul_refuted :
  inline_rule self_mul_rule = Ok self_mul_inlined /\
  stmt_sat (single "q" (SNum 3)) (single "q" (SNum 3)) self_mul_rule /\
  ~ stmt_sat (single "q" (SNum 3)) (single "q" (SNum 3)) self_mul_inlined.
Proof.
  split; [vm_compute; reflexivity|]. split.
  - unfold Sat.stmt_sat, self_mul_rule. apply rule_sat_no_body. intros s Bd.
    apply body2 in Bd. destruct Bd as [P PE].
    qsat P s (TVar "X") (s "X"). apply single_inv in P.
    apply assign_sat in PE. unfold x_times_3 in PE. simpl in PE. rewrite P in PE. vm_compute in PE. discriminate PE.
  - unfold Sat.stmt_sat, self_mul_inlined. apply (rule_unsat_at _ _ _ _ (fun _ => SNum 1)).
    + apply body1. apply (q_of_sat sym_lt _ _ _ (fun _ : string => SNum 1) x_times_3 (SNum 3) eq_refl). reflexivity.
    + simpl. intro P. psat P (fun _ : string => SNum 1) x_times_3 (SNum 3). discriminate P.
Qed.

(* X does not occur in t, but t may be undefined and X occurs only in (copies of) the removed equality:
   {q(c)}: Y+1 is undefined for Y = c, the original instance is dropped, the in-lined rule derives a.
   Confirmed with clingo 5.8.2 and the real ngo: `q(c). a :- q(Y), X = Y+1, X = Y+1.` has the answer set {q(c)},
   ngo's result `a :- q(Y).` gives {a, q(c)}. *)
Theorem inline_duplicate_equality_refuted :
  inline_rule dup_rule = Ok dup_inlined /\
  negb (smem "X" (vars_term y_plus_1)) = true /\
  stmt_sat (single "q" c_sym) (single "q" c_sym) dup_rule /\
  ~ stmt_sat (single "q" c_sym) (single "q" c_sym) dup_inlined.
Proof.
  split; [vm_compute; reflexivity|]. split; [reflexivity|]. split.
  - unfold Sat.stmt_sat, dup_rule. apply rule_sat_no_body. intros s Bd.
    apply NormalizeSpec.body_sat_cons in Bd. destruct Bd as [P Bd]. apply body2 in Bd. destruct Bd as [PE _]. simpl in P.
    qsat P s (TVar "Y") (s "Y"). apply single_inv in P.
    apply assign_sat in PE. unfold y_plus_1 in PE. simpl in PE. rewrite P in PE. discriminate PE.
  - unfold Sat.stmt_sat, dup_inlined. apply (rule_unsat_at _ _ _ _ (fun _ => c_sym)).
    + apply body1. apply (q_of_sat sym_lt _ _ _ (fun _ : string => c_sym) (TVar "Y") c_sym eq_refl). reflexivity.
    + simpl. intro P. apply atom_a_sat in P. discriminate P.
Qed.

(* X only in the head: in Sat.v (an undefined head atom is a false head) the in-lined rule is violated by {q(c)}
   while the original is satisfied.  gringo drops the instance with the undefined head, so for clingo the two rules
   agree here: this one is an artefact of Sat.head_sat, not a defect of ngo. *)
Theorem inline_head_only_refuted :
  inline_rule head_only_rule = Ok head_only_inlined /\
  stmt_sat (single "q" c_sym) (single "q" c_sym) head_only_rule /\
  ~ stmt_sat (single "q" c_sym) (single "q" c_sym) head_only_inlined.
Proof.
  split; [vm_compute; reflexivity|]. split.
  - unfold Sat.stmt_sat, head_only_rule. apply rule_sat_no_body. intros s Bd.
    apply body2 in Bd. destruct Bd as [P PE].
    qsat P s (TVar "Y") (s "Y"). apply single_inv in P.
    apply assign_sat in PE. unfold y_plus_1 in PE. simpl in PE. rewrite P in PE. discriminate PE.
  - unfold Sat.stmt_sat, head_only_inlined. apply (rule_unsat_at _ _ _ _ (fun _ => c_sym)).
    + apply body1. apply (q_of_sat sym_lt _ _ _ (fun _ : string => c_sym) (TVar "Y") c_sym eq_refl). reflexivity.
    + simpl. apply (p_of_undefined sym_lt). reflexivity.
Qed.

(* X occurs only inside an aggregate element: after in-lining, the undefined 1/Y only empties the aggregate
   (0 = #count{} holds) instead of dropping the rule instance.  {q(0)} satisfies the original rule, not the result.
   Confirmed with clingo 5.8.2 and the real ngo: `q(0). a :- q(Y), X = 1/Y, #count{1 : r(X)} = 0.` has the
   answer set {q(0)}; ngo's result `a :- q(Y); 0 = #count { 1: r((1/Y)) }.` gives {a, q(0)}.  The same happens for
   conditional literals (`b : r(X)`). *)
Theorem inline_into_aggregate_refuted :
  inline_rule agg_rule = Ok agg_inlined /\
  negb (smem "X" (vars_term one_div_y)) = true /\
  stmt_sat (single "q" (SNum 0)) (single "q" (SNum 0)) agg_rule /\
  ~ stmt_sat (single "q" (SNum 0)) (single "q" (SNum 0)) agg_inlined.
Proof.
  split; [vm_compute; reflexivity|]. split; [reflexivity|]. split.
  - unfold Sat.stmt_sat, agg_rule. apply rule_sat_no_body. intros s Bd.
    apply NormalizeSpec.body_sat_cons in Bd. destruct Bd as [P Bd].
    apply NormalizeSpec.body_sat_cons in Bd. destruct Bd as [PE _]. simpl in P, PE.
    qsat P s (TVar "Y") (s "Y"). apply single_inv in P.
    apply assign_sat in PE. unfold one_div_y in PE. simpl in PE. rewrite P in PE. discriminate PE.
  - unfold Sat.stmt_sat, agg_inlined. apply (rule_unsat_at _ _ _ _ (fun _ => SNum 0)).
    + apply NormalizeSpec.body_sat_cons. split; [simpl; apply (q_of_sat sym_lt _ _ _ (fun _ : string => SNum 0) (TVar "Y") (SNum 0) eq_refl); reflexivity|].
      apply NormalizeSpec.body_sat_one. unfold count_r.
      set (G := gvars_rule _ _). set (T := single "q" (SNum 0)). set (s := fun _ : string => SNum 0).
      change (atom_sat sym_lt G T T s NoSign
                (ABodyAgg (Some (CEq, TSym (SNum 0))) FCount
                   [([TSym (SNum 1)], [Lit NoSign (ASym (TFun "r" [one_div_y] false))])] None)).
      rewrite atom_sat_bodyagg. simpl apply_sign.
      assert (Empty: forall tv, ~ elems_tuples sym_lt G T T s [([TSym (SNum 1)], [Lit NoSign (ASym (TFun "r" [one_div_y] false))])] tv).
      { intros tv S. apply NormalizeSpec.elems_tuples_iff in S. destruct S as [e [[<-|[]] [th [_ [_ C]]]]]. simpl in C.
        apply NormalizeSpec.lits_sat_one in C. rewrite lit_sat_sym_eq in C. unfold sym_atom_sat in C.
        rewrite eval_fun in C. unfold one_div_y in C. simpl in C.
        destruct (th "Y") as [ |z|str|n args p| ]; try exact C.
        destruct (Z.eqb z 0); simpl in C; [exact C|]. unfold T, single in C. discriminate C. }
      assert (AH: agg_holds sym_lt s (Some (CEq, TSym (SNum 0))) FCount None
                    (elems_tuples sym_lt G T T s [([TSym (SNum 1)], [Lit NoSign (ASym (TFun "r" [one_div_y] false))])])).
      { exists (SNum 0). split; [|split; [simpl; reflexivity | exact I]].
        exists []. split; [|reflexivity]. split; [constructor|]. intro tv. split; [intros [] | intro S; exact (Empty tv S)]. }
      split; exact AH.
    + simpl. intro P. apply atom_a_sat in P. discriminate P.
Qed.
End Refuted.

(* ====================================================================================== *)
(* Assumptions                                                                            *)
(* ====================================================================================== *)
Print Assumptions eval_coincide.
Print Assumptions lit_sat_coincide_simple.
Print Assumptions lit_sat_coincide_gen.
Print Assumptions lit_sat_coincide.
Print Assumptions bodyelem_sat_coincide.
Print Assumptions body_sat_coincide.
Print Assumptions head_sat_coincide.
Print Assumptions eval_vmap.
Print Assumptions eval_subst.
Print Assumptions eval_subst_undefined.
Print Assumptions lit_sat_subst.
Print Assumptions lit_sat_subst_undefined.
Print Assumptions exline_literal_sound_gen.
Print Assumptions exline_literal_sound.
Print Assumptions exline_rule_sound_gen.
Print Assumptions exline_rule_sound.
Print Assumptions exline_head_sound_1.
Print Assumptions exline_head_converse_refuted.
Print Assumptions exline_literal_shape.
Print Assumptions exline_arithmetic_rule_one_sound.
Print Assumptions equality_sem.
Print Assumptions inline_step_sound_gen.
Print Assumptions inline_equality_sound_partial.
Print Assumptions inline_equality_sound_split.
Print Assumptions inline_rule_sound.
Print Assumptions inline_self_reference_refuted.
Print Assumptions inline_self_reference_mul_refuted.
Print Assumptions inline_duplicate_equality_refuted.
Print Assumptions inline_head_only_refuted.
Print Assumptions inline_into_aggregate_refuted.
