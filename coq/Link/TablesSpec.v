(* Theorems over the generated Gen/Tables.v: the comparison tables of utils/ast.py mean what their names say. *)
From Coq Require Import List String ZArith Bool Lia.
From NGO Require Import Syntax.Ast Sem.Sym Gen.Tables.
Import ListNotations.

Section Tables.
Variable sym_lt : sym -> sym -> Prop.
Hypothesis ord : sym_order sym_lt.
Notation cmp_holds := (cmp_holds sym_lt).

Lemma lt_asym a b : sym_lt a b -> ~ sym_lt b a.
Proof. intros X Y. exact (lt_irrefl _ ord a (lt_trans _ ord _ _ _ X Y)). Qed.
Lemma lt_neq a b : sym_lt a b -> a <> b.
Proof. intros X E. subst. exact (lt_irrefl _ ord b X). Qed.

Theorem negate_correct_proof : forall o a b, cmp_holds (negate_comparison o) a b <-> ~ cmp_holds o a b.
Proof.
  intros o a b. destruct (lt_total _ ord a b) as [L|[E|G]]; destruct o; simpl.
  all: try (subst; pose proof (lt_irrefl _ ord b)).
  all: try (pose proof (lt_asym _ _ L); pose proof (lt_neq _ _ L)).
  all: try (pose proof (lt_asym _ _ G); pose proof (lt_neq _ _ G)).
  all: try tauto.
  all: split; try tauto; try congruence; try (intros; intuition congruence).
Qed.

Theorem rhs2lhs_correct_proof : forall o a b, cmp_holds o a b <-> cmp_holds (rhs2lhs_comparison o) b a.
Proof. intros o a b. destruct o; simpl; split; try tauto; try congruence; intuition congruence. Qed.

Theorem compare_total_proof : forall x o y, compare x o y <> None.
Proof. intros x o y. destruct o; vm_compute; discriminate. Qed.

Theorem compare_correct_proof : forall x o y b, compare x o y = Some b ->
  (b = true <-> cmp_holds o (SNum x) (SNum y)).
Proof.
  intros x o y b. pose proof (lt_num _ ord) as LN.
  destruct o; unfold compare; simpl; intro E; injection E as <-.
  - rewrite Z.eqb_eq. split; [intros ->; reflexivity | intro X; injection X; auto].
  - rewrite negb_true_iff, Z.eqb_neq. split; [intros N X; injection X; auto | intros N X; apply N; congruence].
  - rewrite Z.ltb_lt, LN. tauto.
  - rewrite Z.leb_le, LN. split; [intro L; destruct (Z.eq_dec x y); [right; congruence | left; lia] | intros [L|X]; [lia | injection X; lia]].
  - rewrite Z.gtb_lt, LN. tauto.
  - rewrite Z.geb_le, LN. split; [intro L; destruct (Z.eq_dec x y); [right; congruence | left; lia] | intros [L|X]; [lia | injection X; lia]].
Qed.

(* bounds are stored as right guards:  <aggregate value> c <term> *)
Definition bound_holds (v: Z) (g: guard) : Prop :=
  match g with (c, TSym w) => cmp_holds c (SNum v) w | _ => True end.

Theorem guaranteed_leq_sound_proof : forall bounds n, guaranteed_leq bounds n = true ->
  forall v, Forall (bound_holds v) bounds -> (v <= n)%Z.
Proof.
  pose proof (lt_num _ ord) as LN.
  induction bounds as [|[c t] r IH]; intros n G v F; simpl in G; [discriminate|].
  inversion F as [|? ? B F']; subst.
  destruct t as [x|s|o t|o l r0|l r0|nm args e|alts]; try (apply (IH n G v F')).
  destruct s as [|k|str|nm args p|]; try (apply (IH n G v F')).
  simpl in B.
  destruct (cmp_eqb c CLe || cmp_eqb c CEq) eqn:E1.
  - apply Z.leb_le in G. destruct c; simpl in E1; try discriminate; simpl in B.
    + injection B as ->. exact G.
    + destruct B as [L|X]; [apply LN in L; lia | injection X as ->; exact G].
  - destruct (cmp_eqb c CLt) eqn:E2.
    + apply Z.leb_le in G. destruct c; simpl in E2; try discriminate. simpl in B. apply LN in B. lia.
    + apply (IH n G v F').
Qed.

Theorem guaranteed_geq_sound_proof : forall bounds n, guaranteed_geq bounds n = true ->
  forall v, Forall (bound_holds v) bounds -> (v >= n)%Z.
Proof.
  pose proof (lt_num _ ord) as LN.
  induction bounds as [|[c t] r IH]; intros n G v F; simpl in G; [discriminate|].
  inversion F as [|? ? B F']; subst.
  destruct t as [x|s|o t|o l r0|l r0|nm args e|alts]; try (apply (IH n G v F')).
  destruct s as [|k|str|nm args p|]; try (apply (IH n G v F')).
  simpl in B.
  destruct (cmp_eqb c CGe || cmp_eqb c CEq) eqn:E1.
  - apply Z.geb_le in G. destruct c; simpl in E1; try discriminate; simpl in B.
    + injection B as ->. lia.
    + destruct B as [L|X]; [apply LN in L; lia | injection X as ->; lia].
  - destruct (cmp_eqb c CGt) eqn:E2.
    + apply Z.geb_le in G. destruct c; simpl in E2; try discriminate. simpl in B. apply LN in B. lia.
    + apply (IH n G v F').
Qed.
End Tables.
