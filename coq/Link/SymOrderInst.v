(* clingo's concrete symbol order (Syntax/Order.v, validated against clingo.Symbol.__lt__ by correspondence)
   is an instance of the abstract sym_order all semantic theorems are parameterised with. *)
From Coq Require Import List String ZArith Bool Lia.
From NGO Require Import Syntax.Ast Syntax.Order Sem.Sym Link.OrderSpec.
Import ListNotations.

Definition clingo_lt (a b: sym) : Prop := sym_compare a b = Lt.

Theorem clingo_sym_order_proof : sym_order clingo_lt.
Proof.
  unfold clingo_lt. constructor.
  - intros a H. rewrite sym_compare_refl in H. discriminate.
  - intros a b c. apply sym_compare_lt_trans.
  - intros a b. apply sym_compare_total.
  - intros x y. simpl. apply Z.compare_lt_iff.
  - intros a Na. destruct a as [|z|s|n [|x xs] [|]|]; try reflexivity. congruence.
  - intros a Na. destruct a as [|z|s|n [|x xs] [|]|]; try reflexivity. congruence.
Qed.
