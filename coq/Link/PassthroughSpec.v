(* Link/PassthroughSpec.v -- property C07, part "statements that are neither rules nor optimisation
   statements are passed through unchanged and in order", for the passes that Link/CleanupSpec.v,
   Link/ProjectionSpec.v and Link/NormalizeSpec.v do not cover, and for their composition Model/Api.v;
   together with what each pass does to the naming state (UniqueNames).

   non_rule st        = st is  #show p/n.  |  #show t : body.  |  any opaque statement (SOther)
   non_rule_strict st = st is  #show p/n.  |  any opaque statement

   PASS-THROUGH   (P out prg  :=  filter non_rule out = filter non_rule prg)
     exline_arithmetic / inline_arithmetic   P, statement by statement     exline_arithmetic_pres, inline_arithmetic_pres
     UnusedTranslator        P FALSE: #show-term bodies are rewritten       unused_show_term_rewritten (counterexample)
                             true for non_rule_strict                       unused_execute_passthrough
                             P when the atoms of all #show-term bodies are
                             over declared input/output predicates          unused_execute_passthrough_declared
                             (holds for outs = auto_detect_output prg)      unused_execute_passthrough_auto
     LiteralDuplication      P, and the shape of the output                 dup_execute_passthrough, dup_execute2_spec
     SymmetryTranslator      P                                              symmetry_execute_passthrough
     InlineTranslator        P                                              inline_run_execute_passthrough
     SumAggregator           P (any set order, any cell sharing)            sum_execute_passthrough
     MinMaxAggregator        P                                              minmax_execute_passthrough
     Api.run_pass            non_rule_strict; P unless class = Unused       run_pass_passthrough(_show_terms/_declared)
     Api.optimize            non_rule_strict w.r.t. the source program      optimize_passthrough
                             P w.r.t. preprocess(prg) without "unused", or
                             with declared #show-term bodies                optimize_passthrough_show_terms/_declared
     preprocess              non_rule_strict, unconditionally               preprocess_passthrough_strict

   NAMING (freshness)
     names_log un outs un' := un' is reached from un by a history of new_auxpredicate / new_predicate
     requests that returned outs;  names_log_fresh: outs pairwise distinct, none known in un, all known in un'.
     UnusedTranslator        self.new_names IS the log of its new_predicate calls        unused_execute_fresh
     LiteralDuplication      the heads of all inserted rules are the log                 dup_execute2_spec
     DomainPredicates        every method only extends the naming state by a history     mhoare, dp_init_names_ext
     Symmetry/MinMax/Sum     the state after execute extends the constructor's state by
                             a history (also when execute raises)                        *_execute_names
     Inline                  execute never asks for a name                               inline_init_names
   Stdlib only, no axioms. *)
From Coq Require Import List String ZArith Bool Arith Lia.
From NGO Require Import Syntax.Ast Model.Traverse Model.Globals.
From NGO Require Import Link.GlobalsSpec.
From NGO Require Link.TraverseSpec Link.CleanupSpec Link.ProjectionSpec Link.NormalizeSpec.
From NGO Require Model.Normalize Model.Dependency Model.Unused Model.UnusedExecute Model.Duplication Model.Symmetry
                 Model.Inline Model.SumChains Model.MinMax Model.Cleanup Model.CleanupExecute Model.Projection
                 Model.ProjectionExecute Model.Api Gen.Cli.
Import ListNotations.
Open Scope list_scope.

(* ====================================================================================== *)
(** * 0. Statement kinds, pass-through relations, generic list lemmas *)

Definition non_rule (st: stmt) : bool :=
  match st with SShowSig _ _ _ | SShowTerm _ _ | SOther _ _ => true | SRule _ _ _ | SMin _ _ _ _ _ => false end.
(* the statement kinds that every pass leaves alone: #show p/n. and the opaque kinds *)
Definition non_rule_strict (st: stmt) : bool :=
  match st with SShowSig _ _ _ | SOther _ _ => true | _ => false end.

Definition kind (st: stmt) : nat :=
  match st with SRule _ _ _ => 0 | SMin _ _ _ _ _ => 1 | SShowSig _ _ _ => 2 | SShowTerm _ _ => 3 | SOther _ _ => 4 end.

Lemma kind_non_rule a b : kind a = kind b -> non_rule a = non_rule b.
Proof. destruct a, b; simpl; intros E; try discriminate; reflexivity. Qed.
Lemma kind_non_rule_strict a b : kind a = kind b -> non_rule_strict a = non_rule_strict b.
Proof. destruct a, b; simpl; intros E; try discriminate; reflexivity. Qed.
Lemma strict_non_rule a : non_rule_strict a = true -> non_rule a = true.
Proof. destruct a; simpl; congruence. Qed.
Lemma stmt_eqb_kind a b : stmt_eqb a b = true -> kind a = kind b.
Proof. destruct a, b; simpl; intros E; try discriminate; reflexivity. Qed.

Lemma rbind_Ok {A B} (r: result A) (f: A -> result B) b :
  rbind r f = Ok b -> exists a, r = Ok a /\ f a = Ok b.
Proof. destruct r; simpl; intros E; try discriminate. eauto. Qed.

Ltac rb H := let x := fresh "x" in let E := fresh "E" in
  apply rbind_Ok in H; destruct H as [x [E H]].

Section Keep.
  (* K is one of the two classes above: it only depends on the kind of the statement *)
  Variable K : stmt -> bool.
  Hypothesis K_kind : forall a b, kind a = kind b -> K a = K b.

  (* b is what a pass made of a: same kind of statement, and untouched when a is in the class K *)
  Definition pres (a b: stmt) : Prop := kind b = kind a /\ (K a = true -> b = a).

  Lemma pres_refl a : pres a a.
  Proof. split; auto. Qed.
  Lemma pres_trans a b c : pres a b -> pres b c -> pres a c.
  Proof.
    intros [k1 e1] [k2 e2]. split; [congruence|]. intros Ka.
    rewrite <- (e1 Ka). apply e2. rewrite (e1 Ka). exact Ka.
  Qed.
  Lemma pres_K a b : pres a b -> K b = K a.
  Proof. intros [k _]. apply K_kind. exact k. Qed.

  Lemma Forall2_pres_refl l : Forall2 pres l l.
  Proof. induction l; constructor; auto using pres_refl. Qed.
  Lemma Forall2_pres_trans l1 : forall l2 l3, Forall2 pres l1 l2 -> Forall2 pres l2 l3 -> Forall2 pres l1 l3.
  Proof.
    induction l1; intros l2 l3 H1 H2; inversion H1; subst; inversion H2; subst; constructor.
    - eapply pres_trans; eassumption.
    - eapply IHl1; eassumption.
  Qed.

  Lemma Forall2_pres_filter l l' : Forall2 pres l l' -> filter K l' = filter K l.
  Proof.
    induction 1 as [|a b l l' P _ IH]; [reflexivity|]. simpl.
    rewrite (pres_K _ _ P). destruct (K a) eqn:Ka.
    - destruct P as [_ e]. rewrite (e Ka), IH. reflexivity.
    - exact IH.
  Qed.

  (* a statement replaced by a block of statements *)
  Definition pres_blk (a: stmt) (blk: list stmt) : Prop := filter K blk = filter K [a].

  Lemma pres_blk_single a b : pres a b -> pres_blk a [b].
  Proof. intros P. unfold pres_blk. apply Forall2_pres_filter. constructor; [exact P | constructor]. Qed.

  Lemma Forall2_blk_filter l blks : Forall2 pres_blk l blks -> filter K (List.concat blks) = filter K l.
  Proof.
    induction 1 as [|a blk l blks P _ IH]; [reflexivity|].
    simpl List.concat. rewrite filter_app, IH, P. simpl. destruct (K a); reflexivity.
  Qed.

  Lemma filter_filter_keep (p: stmt -> bool) l :
    (forall s, K s = true -> p s = true) -> filter K (filter p l) = filter K l.
  Proof.
    intros Hp. induction l as [|s l IH]; [reflexivity|]. simpl.
    destruct (p s) eqn:Ps; simpl; destruct (K s) eqn:Ks; try rewrite IH; try reflexivity.
    rewrite (Hp s Ks) in Ps. discriminate.
  Qed.

  Lemma filter_none l : Forall (fun s => K s = false) l -> filter K l = [].
  Proof. induction 1 as [|s l Ks _ IH]; [reflexivity|]. simpl. rewrite Ks. exact IH. Qed.
End Keep.

Arguments pres K a b : clear implicits.
Arguments pres_blk K a blk : clear implicits.

Lemma pres_strict_of_non_rule a b : pres non_rule a b -> pres non_rule_strict a b.
Proof. intros [k e]. split; [exact k|]. intros S. apply e, strict_non_rule, S. Qed.

Lemma Forall2_nth_error {A B} (R: A -> B -> Prop) l l' : Forall2 R l l' ->
  forall i b, nth_error l' i = Some b -> exists a, nth_error l i = Some a /\ R a b.
Proof.
  induction 1 as [|a b l l' r _ IH]; intros i y N; destruct i; simpl in N; try discriminate.
  - injection N as <-. exists a. split; [reflexivity | exact r].
  - apply IH. exact N.
Qed.

Lemma fold_result_inv {A X} (G: result A -> X -> result A) (Inv: A -> A -> Prop) :
  (forall a, Inv a a) -> (forall a b c, Inv a b -> Inv b c -> Inv a c) ->
  forall l,
  (forall r x a', In x l -> G r x = Ok a' -> exists a, r = Ok a /\ Inv a a') ->
  forall r a', fold_left G l r = Ok a' -> exists a, r = Ok a /\ Inv a a'.
Proof.
  intros Hrefl Htrans. induction l as [|x l IH]; intros H r a' E; simpl in E.
  - exists a'. split; [exact E | apply Hrefl].
  - apply IH in E; [| intros; eapply H; [right|]; eassumption]. destruct E as [a1 [E1 I1]].
    apply H in E1; [| left; reflexivity]. destruct E1 as [a [E0 I0]]. exists a. split; [exact E0|].
    eapply Htrans; eassumption.
Qed.

(* the three copies of `rmap` (Normalize, Unused, Inline) and Duplication.rmapM are the same function *)
Lemma rmap_Forall2 {A B} (f: A -> result B) (R: A -> B -> Prop) :
  forall l l', Normalize.rmap f l = Ok l' -> (forall a b, In a l -> f a = Ok b -> R a b) -> Forall2 R l l'.
Proof.
  induction l as [|a l IH]; intros l' E H; simpl in E.
  - injection E as <-. constructor.
  - rb E. rb E. injection E as <-. constructor.
    + apply H; [left; reflexivity | assumption].
    + apply IH; [assumption|]. intros; apply H; [right|]; assumption.
Qed.

(* ====================================================================================== *)
(** * Histories of naming requests *)

Lemma run_requests_app : forall a st b st1 o1 st2 o2,
  run_requests st a = Ok (st1, o1) -> run_requests st1 b = Ok (st2, o2) ->
  run_requests st (a ++ b) = Ok (st2, o1 ++ o2).
Proof.
  induction a as [|r a IH]; intros st b st1 o1 st2 o2 E1 E2; simpl in *.
  - injection E1 as <- <-. exact E2.
  - rb E1. rb E1. destruct x0 as [st1' o1']. injection E1 as <- <-. rewrite E. simpl.
    rewrite (IH _ _ _ _ _ _ E0 E2). reflexivity.
Qed.

(* un' is reached from un by a history of new_auxpredicate / new_predicate calls that returned outs *)
Definition names_log (un: unames) (outs: list pred) (un': unames) : Prop :=
  exists rs, run_requests un rs = Ok (un', outs).
Definition names_ext (un un': unames) : Prop := exists outs, names_log un outs un'.

Lemma names_log_nil un : names_log un [] un.
Proof. exists []. reflexivity. Qed.
Lemma names_log_app un o1 un1 o2 un2 : names_log un o1 un1 -> names_log un1 o2 un2 -> names_log un (o1 ++ o2) un2.
Proof. intros [r1 E1] [r2 E2]. exists (r1 ++ r2). eapply run_requests_app; eassumption. Qed.
Lemma names_log_one un r p un' : run_request un r = Ok (p, un') -> names_log un [p] un'.
Proof. intros E. exists [r]. simpl. rewrite E. reflexivity. Qed.

Lemma names_ext_refl un : names_ext un un.
Proof. exists []. apply names_log_nil. Qed.
Lemma names_ext_trans a b c : names_ext a b -> names_ext b c -> names_ext a c.
Proof. intros [o1 H1] [o2 H2]. exists (o1 ++ o2). eapply names_log_app; eassumption. Qed.
Lemma names_ext_aux un ar p un' : new_auxpredicate un ar = Ok (p, un') -> names_ext un un'.
Proof. intros E. exists [p]. apply (names_log_one un (NewAux ar)). exact E. Qed.
Lemma names_ext_pred un sim ar p un' : new_predicate un sim ar = Ok (p, un') -> names_ext un un'.
Proof. intros E. exists [p]. apply (names_log_one un (NewPred sim ar)). exact E. Qed.

(* what a log means: the names handed out are pairwise distinct, none of them was known at the start
   (in particular none is a predicate the naming state was initialised with), all stay known *)
Lemma names_log_fresh un outs un' : names_log un outs un' ->
  NoDup outs /\ (forall p, In p outs -> ~ In p (known un)) /\ incl (known un) (known un') /\ incl outs (known un').
Proof. intros [rs E]. eapply run_requests_distinct. exact E. Qed.

Lemma names_ext_incl un un' : names_ext un un' -> incl (known un) (known un').
Proof. intros [o H]. apply names_log_fresh in H. tauto. Qed.

(* a name handed out later than un' is not known in un either *)
Lemma names_ext_later_fresh un un1 r p un2 :
  names_ext un un1 -> run_request un1 r = Ok (p, un2) -> ~ In p (known un) /\ names_ext un un2.
Proof.
  intros H E. split.
  - intros Hp. apply names_ext_incl in H. apply run_request_fresh in E. destruct E as [F _]. apply F, H, Hp.
  - eapply names_ext_trans; [exact H|]. exists [p]. eapply names_log_one. exact E.
Qed.

(* ====================================================================================== *)
(** * 1. exline_arithmetic / inline_arithmetic (first line of several `execute` methods) *)

Lemma exline_arithmetic_rule_pres s s' : Normalize.exline_arithmetic_rule s = Ok s' -> pres non_rule s s'.
Proof.
  unfold Normalize.exline_arithmetic_rule. destruct s as [ln h b|ln w p ts b|n a p|t b|k x]; intros E;
    try (injection E as <-; apply pres_refl).
  - rb E. destruct x as [[nh body] st]. rb E. destruct x as [nb st']. injection E as <-. split; [reflexivity | discriminate].
  - rb E. unfold Normalize.exline_minimize_terms in E0.
    rb E0. destruct x0 as [[w' c1] uv1]. rb E0. destruct x0 as [[p' c2] uv2]. rb E0. destruct x0 as [[ts' c3] uv3].
    injection E0 as <-. rb E. destruct x as [nb st']. injection E as <-. split; [reflexivity | discriminate].
Qed.

Lemma exline_arithmetic_pres prg out : Normalize.exline_arithmetic prg = Ok out -> Forall2 (pres non_rule) prg out.
Proof.
  intros E. eapply rmap_Forall2; [exact E|]. intros a b _. apply exline_arithmetic_rule_pres.
Qed.

Lemma inline_rule_fuel_pres : forall fuel s s', Normalize.inline_rule_fuel fuel s = Ok s' -> pres non_rule s s'.
Proof.
  induction fuel as [|f IH]; intros s s' E.
  - destruct s; simpl in E; try (injection E as <-; apply pres_refl);
      repeat match type of E with
             | (if ?c then _ else _) = _ => destruct c
             | match ?c with _ => _ end = _ => destruct c
             | let '(_, _) := ?c in _ => destruct c
             end; try discriminate; try (injection E as <-; apply pres_refl).
  - destruct s; cbn [Normalize.inline_rule_fuel] in E; try (injection E as <-; apply pres_refl).
    + destruct (negb _); [injection E as <-; apply pres_refl|].
      destruct (opaque_vars _); [discriminate|].
      destruct (Normalize.find_inline _ _) as [[[bl var] rest]|]; [|injection E as <-; apply pres_refl].
      apply IH in E. destruct E as [k _]. split; [exact k | discriminate].
    + destruct (negb _); [injection E as <-; apply pres_refl|].
      destruct (opaque_vars _); [discriminate|].
      destruct (Normalize.find_inline _ _) as [[[bl var] rest]|]; [|injection E as <-; apply pres_refl].
      apply IH in E. destruct E as [k _]. split; [exact k | discriminate].
Qed.

Lemma inline_arithmetic_stm_pres s s' : Normalize.inline_arithmetic_stm s = Ok s' -> pres non_rule s s'.
Proof.
  unfold Normalize.inline_arithmetic_stm. intros E. rb E. rb E.
  apply inline_rule_fuel_pres in E0.
  eapply pres_trans; [exact E0|]. eapply pres_trans with (b := x0).
  - unfold Normalize.inline_aggregates, Normalize.inline_aggregates_with in E1.
    destruct x; try (injection E1 as <-; apply pres_refl); rb E1; injection E1 as <-; split; (reflexivity || discriminate).
  - unfold Normalize.inline_conditionals, Normalize.inline_conditionals_with in E.
    destruct x0; try (injection E as <-; apply pres_refl); rb E; injection E as <-; split; (reflexivity || discriminate).
Qed.

Lemma inline_arithmetic_pres prg out : Normalize.inline_arithmetic prg = Ok out -> Forall2 (pres non_rule) prg out.
Proof.
  intros E. eapply rmap_Forall2; [exact E|]. intros a b _. apply inline_arithmetic_stm_pres.
Qed.


Module PtUnused.
(* ====================================================================================== *)
(** * 2. UnusedTranslator *)
Import Unused.

Lemma smapM_spec {S A B} (g: A -> S -> result (B * S)) (I: S -> Prop) (R: A -> B -> Prop) :
  forall l,
  (forall a st r, In a l -> g a st = Ok r -> I st -> I (snd r) /\ R a (fst r)) ->
  forall st r, smapM g l st = Ok r -> I st -> I (snd r) /\ Forall2 R l (fst r).
Proof.
  induction l as [|a l IH]; intros Hg st r E Ist; simpl in E.
  - injection E as <-. split; [exact Ist | constructor].
  - rb E. rb E. injection E as <-. simpl.
    destruct (Hg a st x (or_introl eq_refl) E0 Ist) as [I1 R1].
    destruct (IH (fun a st r Ha => Hg a st r (or_intror Ha)) _ _ E1 I1) as [I2 R2].
    split; [exact I2 | constructor; assumption].
Qed.

Section TrInv.
  Context {S: Type} (f: term -> S -> result (term * S)) (I: S -> Prop).
  Hypothesis Hf : forall t st r, f t st = Ok r -> I st -> I (snd r).

  Lemma smapM_inv {A B} (g: A -> S -> result (B * S)) l :
    (forall a st r, In a l -> g a st = Ok r -> I st -> I (snd r)) ->
    forall st r, smapM g l st = Ok r -> I st -> I (snd r).
  Proof.
    intros Hg st r E Ist.
    apply (smapM_spec g I (fun _ _ => True) l (fun a st r Ha Er Is => conj (Hg a st r Ha Er Is) Logic.I) st r E Ist).
  Qed.

  Lemma tr_lit_inv : forall l st r, tr_lit f l st = Ok r -> I st -> I (snd r).
  Proof.
    apply (TraverseSpec.lit_ind' (fun l => forall st r, tr_lit f l st = Ok r -> I st -> I (snd r))).
    - intros s t st r E Ist. cbn in E. rb E. rb E0. injection E0 as <-. injection E as <-. simpl. eapply Hf; eassumption.
    - intros s t gs st r E Ist. cbn in E. injection E as <-. exact Ist.
    - intros s b st r E Ist. cbn in E. injection E as <-. exact Ist.
    - intros s lg fn es rg IH st r E Ist. cbn in E. rb E. rb E0. injection E0 as <-. injection E as <-. simpl.
      eapply smapM_inv; [| exact E1 | exact Ist].
      intros e st1 r1 He E2 I1. rb E2. injection E2 as <-. simpl.
      rewrite Forall_forall in IH. specialize (IH e He). rewrite Forall_forall in IH.
      eapply smapM_inv; [| exact E | exact I1]. intros c st2 r2 Hc. apply IH. exact Hc.
    - intros s lg es rg IH st r E Ist. cbn in E. rb E. rb E0. injection E0 as <-. injection E as <-. simpl.
      eapply smapM_inv; [| exact E1 | exact Ist].
      intros e st1 r1 He E2 I1. rb E2. rb E2. injection E2 as <-. simpl.
      rewrite Forall_forall in IH. destruct (IH e He) as [IH1 IH2]. rewrite Forall_forall in IH2.
      eapply smapM_inv; [| exact E0 | eapply IH1; eassumption]. intros c st2 r2 Hc. apply IH2. exact Hc.
    - intros s t st r E Ist. cbn in E. injection E as <-. exact Ist.
  Qed.

  Lemma tr_lits_inv ls st r : tr_lits f ls st = Ok r -> I st -> I (snd r).
  Proof. unfold tr_lits. apply smapM_inv. intros a st0 r0 _. apply tr_lit_inv. Qed.

  Lemma tr_condlit_inv c st r : tr_condlit f c st = Ok r -> I st -> I (snd r).
  Proof.
    unfold tr_condlit. intros E Ist. rb E. rb E. injection E as <-. simpl.
    eapply tr_lits_inv; [exact E1|]. eapply tr_lit_inv; eassumption.
  Qed.

  Lemma tr_bodyelem_inv b st r : tr_bodyelem f b st = Ok r -> I st -> I (snd r).
  Proof.
    destruct b; simpl; intros E Ist; rb E; injection E as <-; simpl.
    - eapply tr_lit_inv; eassumption.
    - eapply tr_condlit_inv; eassumption.
  Qed.

  Lemma tr_body_inv b st r : tr_body f b st = Ok r -> I st -> I (snd r).
  Proof. unfold tr_body. apply smapM_inv. intros a st0 r0 _. apply tr_bodyelem_inv. Qed.

  Lemma tr_head_inv h st r : tr_head f h st = Ok r -> I st -> I (snd r).
  Proof.
    destruct h; simpl; intros E Ist; try (rb E; injection E as <-; simpl).
    - eapply tr_lit_inv; eassumption.
    - eapply smapM_inv; [| exact E0 | exact Ist]. intros a st0 r0 _. apply tr_condlit_inv.
    - eapply smapM_inv; [| exact E0 | exact Ist]. intros a st0 r0 _. apply tr_condlit_inv.
    - eapply smapM_inv; [| exact E0 | exact Ist]. intros a st0 r0 _ E1 I1. rb E1. injection E1 as <-. simpl.
      eapply tr_condlit_inv; eassumption.
    - injection E as <-. exact Ist.
  Qed.

  (* the statement keeps its kind; #show p/n. and opaque statements are returned as they are *)
  Lemma tr_stmt_spec s st r : tr_stmt f s st = Ok r -> I st -> I (snd r) /\ pres non_rule_strict s (fst r).
  Proof.
    destruct s; simpl; intros E Ist.
    - rb E. rb E. injection E as <-. simpl. split; [| split; [reflexivity | discriminate]].
      eapply tr_body_inv; [exact E1|]. eapply tr_head_inv; eassumption.
    - rb E. injection E as <-. simpl. split; [| split; [reflexivity | discriminate]].
      eapply tr_body_inv; eassumption.
    - injection E as <-. split; [exact Ist | apply pres_refl].
    - rb E. injection E as <-. simpl. split; [| split; [reflexivity | discriminate]].
      eapply tr_body_inv; eassumption.
    - injection E as <-. split; [exact Ist | apply pres_refl].
  Qed.

  Lemma tr_prog_spec prg st r : tr_prog f prg st = Ok r -> I st -> I (snd r) /\ Forall2 (pres non_rule_strict) prg (fst r).
  Proof. unfold tr_prog. apply smapM_spec. intros a st0 r0 _. apply tr_stmt_spec. Qed.
End TrInv.

Ltac break E :=
  repeat (first
    [ discriminate E
    | match type of E with
      | rbind _ _ = Ok _ => let x := fresh "x" in let E' := fresh "E" in
                            apply rbind_Ok in E; destruct E as [x [E' E]]
      | (if ?c then _ else _) = _ => let C := fresh "C" in destruct c eqn:C
      | match ?c with _ => _ end = _ => let C := fresh "C" in destruct c eqn:C
      end ]).

Lemma anonymize_stm_pres s s' : _anonymize_stm s = Ok s' -> pres non_rule s s'.
Proof.
  destruct s; simpl; intros E; try (injection E as <-; apply pres_refl);
    break E; injection E as <-; split; (reflexivity || discriminate).
Qed.

Lemma anonymize_variables_pres prg out : _anonymize_variables prg = Ok out -> Forall2 (pres non_rule) prg out.
Proof.
  intros E. eapply rmap_Forall2; [exact E|]. intros a b _. apply anonymize_stm_pres.
Qed.

Lemma project_unused_pres st prg r : project_unused st prg = Ok r -> Forall2 (pres non_rule_strict) prg (fst r).
Proof.
  unfold project_unused. destruct (negb _); [discriminate|]. intros E.
  apply (smapM_spec _project_unused_stm (fun _ => True) (pres non_rule_strict) prg) with (st := st); [| exact E | exact I].
  intros a st0 r0 _ E0 _. unfold _project_unused_stm in E0.
  split; [exact I|]. eapply (tr_stmt_spec transform (fun _ => True)); [| exact E0 | exact I]. auto.
Qed.

Lemma remove_unused_filter K st prg : (forall s, K s = true -> kind s <> 0) ->
  filter K (remove_unused st prg) = filter K prg.
Proof.
  intros HK. unfold remove_unused. apply filter_filter_keep. intros s Ks. specialize (HK s Ks).
  destruct s; try reflexivity. exfalso. apply HK. reflexivity.
Qed.

(* ---------- remove_single_copies ---------- *)
Definition rule_at (prg: list stmt) (i: nat) : Prop := exists s, nth_error prg i = Some s /\ kind s = 0.

Lemma index_stmt_spec x : forall prg i n, index_stmt x prg i = Some n ->
  i <= n /\ exists s, nth_error prg (n - i) = Some s /\ stmt_eqb s x = true.
Proof.
  induction prg as [|s prg IH]; intros i n E; simpl in E; [discriminate|].
  destruct (stmt_eqb s x) eqn:Es.
  - injection E as <-. split; [lia|]. rewrite Nat.sub_diag. exists s. split; [reflexivity | exact Es].
  - apply IH in E. destruct E as [L [s' [N Q]]]. split; [lia|]. exists s'. split; [| exact Q].
    replace (n - i) with (S (n - S i)) by lia. exact N.
Qed.

Lemma mapper_init_rule_id av rid args sym m : mapper_init av rid args sym = Ok m -> rule_id m = rid.
Proof. unfold mapper_init. intros E. break E. injection E as <-. reflexivity. Qed.

Lemma single_copy_mapper_rule ins outs prg rd hd m :
  single_copy_mapper ins outs prg rd hd = Ok (Some m) -> rule_at prg (rule_id m).
Proof.
  unfold single_copy_mapper. intros E. break E; try (injection E as E; discriminate E).
  injection E as <-. apply mapper_init_rule_id in E1. rewrite E1.
  match goal with H: index_stmt _ _ 0 = Some _ |- _ => apply index_stmt_spec in H; destruct H as [_ [s' [N Q]]] end.
  rewrite Nat.sub_0_r in N. exists s'. split; [exact N|]. apply stmt_eqb_kind in Q. exact Q.
Qed.

Definition mapping_ok (prg: list stmt) (mp: mapping) : Prop := Forall (fun pm => rule_at prg (rule_id (snd pm))) mp.

Lemma mapping_set_ok prg p m mp : rule_at prg (rule_id m) -> mapping_ok prg mp -> mapping_ok prg (mapping_set p m mp).
Proof.
  intros Hm. induction 1 as [|[q y] mp Hy Hmp IH]; simpl.
  - constructor; [exact Hm | constructor].
  - destruct (pred_eqb p q); constructor; simpl; auto.
Qed.

Lemma mapping_lookup_ok prg p mp m : mapping_ok prg mp -> mapping_lookup p mp = Some m -> rule_at prg (rule_id m).
Proof.
  induction 1 as [|[q y] mp Hy _ IH]; simpl; [discriminate|].
  destruct (pred_eqb p q); [intros E; injection E as <-; exact Hy | exact IH].
Qed.

Lemma single_copy_mapping_ok ins outs prg mp : single_copy_mapping ins outs prg = Ok mp -> mapping_ok prg mp.
Proof.
  unfold single_copy_mapping. generalize (RuleDependency prg) at 1 2. intros rd.
  assert (G: forall hs acc, fold_left (fun acc hd =>
    rbind acc (fun mp =>
    rbind (single_copy_mapper ins outs prg rd hd) (fun om =>
    match om with Some m => Ok (mapping_set hd m mp) | None => Ok mp end))) hs acc = Ok mp ->
    exists mp0, acc = Ok mp0 /\ (mapping_ok prg mp0 -> mapping_ok prg mp)).
  { induction hs as [|hd hs IH]; intros acc E; simpl in E.
    - exists mp. split; [exact E | auto].
    - apply IH in E. destruct E as [mp1 [E H1]]. rb E. rb E. exists x. split; [exact E0|].
      intros Hx. apply H1. destruct x0 as [m|]; injection E as <-; [| exact Hx].
      apply mapping_set_ok; [| exact Hx]. eapply single_copy_mapper_rule; eassumption. }
  intros E. apply G in E. destruct E as [mp0 [E H]]. injection E as <-. apply H. constructor.
Qed.

Lemma nmem_In n l : nmem n l = true <-> In n l.
Proof.
  unfold nmem. rewrite existsb_exists. split.
  - intros [x [Hx E]]. apply Nat.eqb_eq in E. subst. exact Hx.
  - intros H. exists n. split; [exact H | apply Nat.eqb_refl].
Qed.
Lemma nadd_In n l x : In x (nadd n l) <-> x = n \/ In x l.
Proof.
  unfold nadd. destruct (nmem n l) eqn:E.
  - apply nmem_In in E. split; [auto | intros [-> | H]; auto].
  - rewrite in_app_iff. simpl. intuition.
Qed.

Lemma sc_convert_inv prg mp : mapping_ok prg mp ->
  forall t (u: list nat) r, sc_convert mp t u = Ok r -> (forall i, In i u -> rule_at prg i) -> forall i, In i (snd r) -> rule_at prg i.
Proof.
  intros Hmp t u r E Hu. unfold sc_convert in E. destruct t; try discriminate.
  destruct (mapping_lookup _ mp) as [m|] eqn:L; injection E as <-; simpl; [| exact Hu].
  intros i Hi. apply nadd_In in Hi. destruct Hi as [-> | Hi]; [| auto].
  eapply mapping_lookup_ok; eassumption.
Qed.

Lemma drop_indices_filter K (used_: list nat) : forall l k,
  (forall i s, nth_error l i = Some s -> In (k + i) used_ -> K s = false) ->
  filter K (flat_map (fun ix : nat * stmt => if nmem (fst ix) used_ then [] else [snd ix]) (combine (seq k (List.length l)) l))
  = filter K l.
Proof.
  induction l as [|s l IH]; intros k H; [reflexivity|]. simpl.
  rewrite filter_app, IH.
  - destruct (nmem k used_) eqn:M; [| simpl; destruct (K s); reflexivity]. simpl.
    rewrite (H 0 s eq_refl); [reflexivity|]. rewrite Nat.add_0_r. apply nmem_In. exact M.
  - intros i s' N Hi. apply (H (S i) s' N). replace (k + S i) with (S k + i) by lia. exact Hi.
Qed.

Lemma remove_single_copies_filter ins outs prg out :
  remove_single_copies ins outs prg = Ok out -> filter non_rule_strict out = filter non_rule_strict prg.
Proof.
  unfold remove_single_copies. destruct (negb _); [discriminate|]. intros E. rb E. rb E. injection E as <-.
  apply single_copy_mapping_ok in E0.
  destruct (tr_prog_spec (sc_convert x) (fun u => forall i, In i u -> rule_at prg i)
              (sc_convert_inv prg x E0) prg [] x0 E1) as [Hu HF]; [intros i []|].
  unfold enumerate. rewrite drop_indices_filter.
  - apply Forall2_pres_filter; [exact kind_non_rule_strict | exact HF].
  - intros i s N Hi. simpl in Hi. destruct (Hu i Hi) as [s0 [N0 K0]].
    destruct (Forall2_nth_error _ _ _ HF i s N) as [a [Na [Ka _]]].
    rewrite Na in N0. injection N0 as ->. destruct s; simpl in *; congruence.
Qed.

(* ---------- the loop ---------- *)
Lemma execute_step_filter ins outs st new_prg prg prg1 st' :
  execute_step ins outs st new_prg = Ok (prg, prg1, st') ->
  filter non_rule_strict prg = filter non_rule_strict new_prg.
Proof.
  unfold execute_step. intros E. rb E. rb E. rb E. rb E. injection E as <- <- <-.
  apply remove_single_copies_filter in E3. rewrite E3.
  rewrite remove_unused_filter by (intros s; destruct s; simpl; congruence).
  apply project_unused_pres in E2. apply anonymize_variables_pres in E0.
  rewrite (Forall2_pres_filter _ kind_non_rule_strict _ _ E2).
  apply (Forall2_pres_filter _ kind_non_rule_strict).
  clear - E0. induction E0; constructor; auto using pres_strict_of_non_rule.
Qed.

Lemma unused_execute_loop_filter : forall fuel ins outs st new_prg out st',
  execute_loop fuel ins outs st new_prg = Ok (out, st') ->
  filter non_rule_strict out = filter non_rule_strict new_prg.
Proof.
  induction fuel as [|fuel IH]; intros ins outs st new_prg out st' E; simpl in E; [discriminate|].
  rb E. destruct x as [[prg prg1] st1]. apply execute_step_filter in E0.
  destruct (list_eqb stmt_eqb prg prg1).
  - injection E as <- <-. exact E0.
  - apply IH in E. congruence.
Qed.

Theorem unused_execute_core_passthrough : forall ctor_prg ins outs prg out,
  Unused.execute_core ctor_prg ins outs prg = Ok out ->
  filter non_rule_strict out = filter non_rule_strict prg.
Proof.
  intros ctor_prg ins outs prg out E. unfold execute_core, execute_core_st in E. rb E. injection E as <-.
  destruct x as [o st']. eapply unused_execute_loop_filter. exact E0.
Qed.

Theorem unused_execute_passthrough : forall ctor_prg ins outs prg out,
  UnusedExecute.execute ctor_prg ins outs prg = Ok out ->
  filter non_rule_strict out = filter non_rule_strict prg.
Proof.
  intros ctor_prg ins outs prg out E. unfold UnusedExecute.execute, UnusedExecute.execute_st in E.
  rb E. injection E as <-. rb E0. destruct x as [o st']. unfold execute_core_st in E0.
  apply unused_execute_loop_filter in E0. simpl. rewrite E0.
  apply exline_arithmetic_pres in E. apply (Forall2_pres_filter _ kind_non_rule_strict).
  clear - E. induction E; constructor; auto using pres_strict_of_non_rule.
Qed.

(* ---------- the predicate names invented by UnusedTranslator ---------- *)
(* self.new_names is the log of the calls of new_predicate: entry ((orig, new), name) records the call
   new_predicate(new.name, new.arity) that returned (name, new.arity) *)
Definition nn_req (e: (pred * pred) * string) : req := NewPred (fst (snd (fst e))) (snd (snd (fst e))).
Definition nn_pred (e: (pred * pred) * string) : pred := (snd e, snd (snd (fst e))).

Definition utr (st st': ustate) : Prop :=
  exists added, new_names st' = new_names st ++ added /\
    run_requests (unique_names st) (map nn_req added) = Ok (unique_names st', map nn_pred added).

Lemma utr_refl st : utr st st.
Proof. exists []. split; [symmetry; apply app_nil_r | reflexivity]. Qed.
Lemma utr_trans a b c : utr a b -> utr b c -> utr a c.
Proof.
  intros [x [Hx Rx]] [y [Hy Ry]]. exists (x ++ y). split.
  - rewrite Hy, Hx, app_assoc. reflexivity.
  - rewrite !map_app. eapply run_requests_app; eassumption.
Qed.
Lemma utr_fields a b : unique_names a = unique_names b -> new_names a = new_names b -> utr a b.
Proof. intros E1 E2. exists []. split; [rewrite E2; symmetry; apply app_nil_r | simpl; rewrite E1; reflexivity]. Qed.

Lemma new_name_utr st o n r : _new_name st o n = Ok r -> utr st (snd r).
Proof.
  unfold _new_name. destruct (names_lookup _ _); intros E.
  - injection E as <-. apply utr_refl.
  - rb E. injection E as <-. simpl. destruct x as [p un']. simpl.
    exists [((o, n), fst p)]. split; [reflexivity|]. simpl. unfold nn_req, nn_pred. simpl. rewrite E0. simpl.
    apply new_predicate_fresh in E0. destruct E0 as [_ [_ [_ <-]]]. destruct p; reflexivity.
Qed.

Lemma transform_utr t st r : transform t st = Ok r -> utr st (snd r).
Proof.
  destruct t; simpl; intros E; try (injection E as <-; apply utr_refl).
  match type of E with context [_new_name ?s _ _] => set (st1 := s) in * end.
  assert (F: utr st st1) by (apply utr_fields; subst st1; destruct args; reflexivity).
  destruct (negb _).
  - rb E. injection E as <-. simpl. eapply utr_trans; [exact F|]. eapply new_name_utr. exact E0.
  - injection E as <-. exact F.
Qed.

Lemma project_unused_utr st0 st prg r : project_unused st prg = Ok r -> utr st0 st -> utr st0 (snd r).
Proof.
  unfold project_unused. destruct (negb _); [discriminate|]. intros E H.
  eapply (smapM_inv (utr st0)); [| exact E | exact H].
  intros a s1 r1 _ E1 H1. unfold _project_unused_stm in E1.
  eapply (tr_stmt_spec transform (utr st0)); [| exact E1 | exact H1].
  intros t s2 r2 E2 H2. eapply utr_trans; [exact H2|]. eapply transform_utr. exact E2.
Qed.

Lemma execute_step_utr ins outs st new_prg prg prg1 st' :
  execute_step ins outs st new_prg = Ok (prg, prg1, st') -> utr st st'.
Proof.
  unfold execute_step. intros E. rb E. rb E. rb E. rb E. injection E as _ _ <-.
  eapply project_unused_utr; [exact E2|].
  unfold analyze_usage in E1. rb E1. injection E1 as <-. apply utr_fields; reflexivity.
Qed.

Lemma unused_execute_loop_utr : forall fuel ins outs st new_prg out st',
  execute_loop fuel ins outs st new_prg = Ok (out, st') -> utr st st'.
Proof.
  induction fuel as [|fuel IH]; intros ins outs st new_prg out st' E; simpl in E; [discriminate|].
  rb E. destruct x as [[prg prg1] st1]. apply execute_step_utr in E0.
  destruct (list_eqb stmt_eqb prg prg1).
  - injection E as _ <-. exact E0.
  - apply IH in E. eapply utr_trans; eassumption.
Qed.

(* freshness, in the style of ProjectionSpec.execute_core_fresh_aux_proof: the names recorded in
   self.new_names after execute are the answers of one history of new_predicate requests against the
   UniqueNames object of the constructor; hence pairwise distinct, none of them among the input
   predicates or the predicates of the constructor's program, all remembered *)
Theorem unused_execute_fresh : forall ctor_prg ins outs prg out st',
  UnusedExecute.execute_st ins outs (init_state ctor_prg ins) prg = Ok (out, st') ->
  let invented := map nn_pred (new_names st') in
  run_requests (init_names ctor_prg ins) (map nn_req (new_names st')) = Ok (unique_names st', invented) /\
  NoDup invented /\
  (forall p, In p invented ->
     ~ In p (known (init_names ctor_prg ins)) /\ ~ In p ins /\
     (forall s, In s ctor_prg -> ~ In p (map snd (predicates all_signs s)))) /\
  incl invented (known (unique_names st')).
Proof.
  intros ctor_prg ins outs prg out st' E. unfold UnusedExecute.execute_st in E. rb E.
  unfold execute_core_st in E. apply unused_execute_loop_utr in E.
  destruct E as [added [Hn R]]. simpl in Hn, R. cbv zeta. rewrite Hn.
  split; [exact R|]. apply run_requests_distinct in R. destruct R as [ND [F [_ Hin]]].
  repeat split; try assumption.
  - apply F. assumption.
  - intros Hi. apply (F p H). apply unique_names_init_known. left. exact Hi.
  - intros s Hs Hp. apply (F p H). apply unique_names_init_known. right. exists s. auto.
Qed.

(* the same for the loop alone, from any state *)
Theorem unused_execute_core_fresh : forall ins outs st prg out st',
  Unused.execute_core_st ins outs st prg = Ok (out, st') ->
  exists added, new_names st' = new_names st ++ added /\
    run_requests (unique_names st) (map nn_req added) = Ok (unique_names st', map nn_pred added) /\
    NoDup (map nn_pred added) /\ (forall p, In p (map nn_pred added) -> ~ In p (known (unique_names st))) /\
    incl (known (unique_names st)) (known (unique_names st')).
Proof.
  intros ins outs st prg out st' E. unfold execute_core_st in E. apply unused_execute_loop_utr in E.
  destruct E as [added [Hn R]]. exists added. split; [exact Hn|]. split; [exact R|].
  apply run_requests_distinct in R. tauto.
Qed.

(* ---------- counterexample: #show terms are rewritten ---------- *)
Local Open Scope string_scope.
Definition ce_d1 : stmt := SRule 1 (HLit (Lit NoSign (ASym (TFun "d" [TSym (SNum 1)] false)))) [].
Definition ce_show : stmt := SShowTerm (TFun "c" [TVar "X"] false) [BLit (Lit NoSign (ASym (TFun "d" [TVar "X"] false)))].
(* d(1).  #show c(X) : d(X).   with no declared output predicate becomes   #show c(X) : d. *)
Example unused_show_term_rewritten :
  UnusedExecute.execute [ce_d1; ce_show] [] [] [ce_d1; ce_show]
  = Ok [SShowTerm (TFun "c" [TVar "X"] false) [BLit (Lit NoSign (ASym (TFun "d" [] false)))]].
Proof. vm_compute. reflexivity. Qed.
Example unused_passthrough_false_for_show_term :
  exists ctor ins outs prg out, UnusedExecute.execute ctor ins outs prg = Ok out /\
    filter non_rule out <> filter non_rule prg.
Proof.
  exists [ce_d1; ce_show], [], [], [ce_d1; ce_show]. eexists. split; [exact unused_show_term_rewritten|].
  simpl. intros H. discriminate H.
Qed.
(* with d/1 declared as output (what auto_detect_output does) the statement survives *)
Example unused_show_term_kept_when_declared :
  auto_detect_output [ce_d1; ce_show] = [("d", 1)] /\
  UnusedExecute.execute [ce_d1; ce_show] [] [("d", 1)] [ce_d1; ce_show] = Ok [ce_d1; ce_show].
Proof. split; vm_compute; reflexivity. Qed.
Local Close Scope string_scope.

(* ====================================================================================== *)
(** * 2b. UnusedTranslator: #show terms survive when the predicates of their bodies are declared *)

(* generic: a symbol transformer that is the identity on `good` symbols is the identity on every
   node all of whose symbolic atoms are good *)
Section TrId.
  Context {S: Type} (f: term -> S -> result (term * S)) (I: S -> Prop) (good: term -> Prop).
  Hypothesis Hf : forall t st r, f t st = Ok r -> I st -> I (snd r) /\ (good t -> fst r = t).

  Lemma smapM_id {A} (g: A -> S -> result (A * S)) l :
    (forall a st r, In a l -> g a st = Ok r -> I st -> I (snd r) /\ fst r = a) ->
    forall st r, smapM g l st = Ok r -> I st -> I (snd r) /\ fst r = l.
  Proof.
    intros Hg st r E Ist.
    destruct (smapM_spec g I (fun a b => b = a) l Hg st r E Ist) as [I' F]. split; [exact I'|].
    clear - F. induction F; [reflexivity | subst; f_equal; assumption].
  Qed.

  Definition all_good_lit (l: lit) : Prop := forall t, In t (Dependency.symatoms_lit l) -> good t.

  Lemma tr_lit_id : forall l, all_good_lit l -> forall st r, tr_lit f l st = Ok r -> I st -> I (snd r) /\ fst r = l.
  Proof.
    apply (TraverseSpec.lit_ind' (fun l => all_good_lit l -> forall st r, tr_lit f l st = Ok r -> I st -> I (snd r) /\ fst r = l)).
    - intros s t G st r E Ist. cbn in E. rb E. rb E0. injection E0 as <-. injection E as <-. simpl.
      destruct (Hf _ _ _ E1 Ist) as [I' Ht]. split; [exact I'|]. rewrite Ht; [reflexivity|]. apply G. left. reflexivity.
    - intros s t gs _ st r E Ist. cbn in E. injection E as <-. split; [exact Ist | reflexivity].
    - intros s b _ st r E Ist. cbn in E. injection E as <-. split; [exact Ist | reflexivity].
    - intros s lg fn es rg IH G st r E Ist. cbn in E. rb E. rb E0. injection E0 as <-. injection E as <-. simpl.
      match type of E1 with smapM ?g _ _ = _ => destruct (smapM_id g es) with (st := st) (r := x0) as [I' Fe]; [| exact E1 | exact Ist |] end.
      + intros e st1 r1 He E2 I1. rb E2. injection E2 as <-. simpl.
        rewrite Forall_forall in IH. specialize (IH e He). rewrite Forall_forall in IH.
        destruct (smapM_id (tr_lit f) (snd e)) with (st := st1) (r := x) as [I2 F2]; [| exact E | exact I1 |].
        * intros c st2 r2 Hc. apply IH; [exact Hc|]. intros t Ht. apply G. cbn.
          apply in_flat_map. exists e. split; [exact He|]. apply in_flat_map. exists c. split; [exact Hc | exact Ht].
        * split; [exact I2|]. rewrite F2. destruct e; reflexivity.
      + split; [exact I'|]. rewrite Fe. reflexivity.
    - intros s lg es rg IH G st r E Ist. cbn in E. rb E. rb E0. injection E0 as <-. injection E as <-. simpl.
      match type of E1 with smapM ?g _ _ = _ => destruct (smapM_id g es) with (st := st) (r := x0) as [I' Fe]; [| exact E1 | exact Ist |] end.
      + intros e st1 r1 He E2 I1. rb E2. rb E2. injection E2 as <-. simpl.
        rewrite Forall_forall in IH. destruct (IH e He) as [IH1 IH2]. rewrite Forall_forall in IH2.
        destruct (IH1) with (st := st1) (r := x) as [I2 F2]; [| exact E | exact I1 |].
        * intros t Ht. apply G. cbn. apply in_flat_map. exists e. split; [exact He|]. apply in_or_app. left. exact Ht.
        * destruct (smapM_id (tr_lit f) (snd e)) with (st := snd x) (r := x1) as [I3 F3]; [| exact E0 | exact I2 |].
          -- intros c st2 r2 Hc. apply IH2; [exact Hc|]. intros t Ht. apply G. cbn.
             apply in_flat_map. exists e. split; [exact He|]. apply in_or_app. right.
             apply in_flat_map. exists c. split; [exact Hc | exact Ht].
          -- split; [exact I3|]. rewrite F2, F3. destruct e; reflexivity.
      + split; [exact I'|]. rewrite Fe. reflexivity.
    - intros s t _ st r E Ist. cbn in E. injection E as <-. split; [exact Ist | reflexivity].
  Qed.

  Definition all_good_body (b: list bodyelem) : Prop :=
    forall t, In t (flat_map Dependency.symatoms_bodyelem b) -> good t.

  Lemma tr_body_id b : all_good_body b -> forall st r, tr_body f b st = Ok r -> I st -> I (snd r) /\ fst r = b.
  Proof.
    intros G. unfold tr_body. apply smapM_id. intros be st r Hx E Ist.
    assert (Gx: forall t, In t (Dependency.symatoms_bodyelem be) -> good t).
    { intros t Ht. apply G. apply in_flat_map. exists be. split; assumption. }
    destruct be as [l|l c]; simpl in E.
    - rb E. injection E as <-. simpl. destruct (tr_lit_id l Gx _ _ E0 Ist) as [I1 F1]. rewrite F1. auto.
    - rb E. injection E as <-. simpl. unfold tr_condlit in E0. rb E0. rb E0. injection E0 as <-. simpl in *.
      destruct (tr_lit_id l) with (st := st) (r := x0) as [I1 F1]; [| exact E | exact Ist |].
      { intros t Ht. apply Gx. apply in_or_app. left. exact Ht. }
      destruct (smapM_id (tr_lit f) c) with (st := snd x0) (r := x1) as [I2 F2]; [| exact E1 | exact I1 |].
      { intros a st2 r2 Ha. apply tr_lit_id. intros t Ht. apply Gx. apply in_or_app. right.
        apply in_flat_map. exists a. split; assumption. }
      rewrite F1, F2. auto.
  Qed.

  (* statements: a #show term whose body is good is returned unchanged *)
  Definition show_good (s: stmt) : Prop := match s with SShowTerm _ b => all_good_body b | _ => True end.

  Lemma tr_stmt_id s st r : show_good s -> tr_stmt f s st = Ok r -> I st -> I (snd r) /\ pres non_rule s (fst r).
  Proof.
    intros G E Ist.
    assert (Hf': forall t st r, f t st = Ok r -> I st -> I (snd r)) by (intros; eapply Hf; eassumption).
    destruct (tr_stmt_spec f I Hf' s st r E Ist) as [I' [k e]]. split; [exact I'|]. split; [exact k|].
    destruct s; try discriminate; intros _.
    - apply e. reflexivity.
    - simpl in E. rb E. injection E as <-. simpl. destruct (tr_body_id b G _ _ E0 Ist) as [_ F]. rewrite F. reflexivity.
    - apply e. reflexivity.
  Qed.

  Lemma tr_prog_id prg st r : (forall s, In s prg -> show_good s) ->
    tr_prog f prg st = Ok r -> I st -> I (snd r) /\ Forall2 (pres non_rule) prg (fst r).
  Proof.
    intros G. unfold tr_prog. apply smapM_spec. intros a st0 r0 Ha. apply tr_stmt_id. apply G, Ha.
  Qed.
End TrId.

Lemma pred_eqb_refl p : pred_eqb p p = true.
Proof. apply pred_eqb_eq. reflexivity. Qed.
Lemma pred_eqb_neq p q : p <> q -> pred_eqb p q = false.
Proof. intros N. destruct (pred_eqb p q) eqn:E; [apply pred_eqb_eq in E; contradiction | reflexivity]. Qed.

(* ---------- used_positions ---------- *)
Lemma pos_lookup_app p d e : pos_lookup p (d ++ e) = match pos_lookup p d with Some s => Some s | None => pos_lookup p e end.
Proof. induction d as [|[q s] d IH]; simpl; [reflexivity|]. destruct (pred_eqb p q); [reflexivity | exact IH]. Qed.

Lemma pos_get_touch p q d : pos_get p (pos_touch q d) = pos_get p d.
Proof.
  unfold pos_touch. destruct (pos_lookup q d) eqn:L; [reflexivity|]. unfold pos_get. rewrite pos_lookup_app.
  destruct (pos_lookup p d); [reflexivity|]. simpl. destruct (pred_eqb p q); reflexivity.
Qed.
Lemma pos_lookup_touch q d : pos_lookup q (pos_touch q d) <> None.
Proof.
  unfold pos_touch. destruct (pos_lookup q d) eqn:L; [rewrite L; discriminate|]. rewrite pos_lookup_app, L. simpl.
  rewrite pred_eqb_refl. discriminate.
Qed.

Lemma pos_get_set p q s d : pos_lookup q d <> None ->
  pos_get p (pos_set q s d) = if pred_eqb p q then s else pos_get p d.
Proof.
  unfold pos_get. induction d as [|[k s'] d IH]; simpl; intros H; [contradiction|].
  destruct (pred_eq_dec q k) as [->|Nqk].
  - rewrite pred_eqb_refl. simpl. destruct (pred_eq_dec p k) as [->|Npk].
    + rewrite pred_eqb_refl. reflexivity.
    + rewrite (pred_eqb_neq _ _ Npk). reflexivity.
  - rewrite (pred_eqb_neq _ _ Nqk) in *. simpl. destruct (pred_eq_dec p k) as [->|Npk].
    + rewrite pred_eqb_refl. rewrite (pred_eqb_neq k q); [reflexivity | congruence].
    + rewrite (pred_eqb_neq _ _ Npk). apply IH. exact H.
Qed.

Lemma fold_nadd_In is_ : forall s0 i, In i (fold_left (fun s i => nadd i s) is_ s0) <-> In i is_ \/ In i s0.
Proof.
  induction is_ as [|j is_ IH]; intros s0 i; simpl; [tauto|]. rewrite IH, nadd_In. intuition.
Qed.

Lemma pos_update_In p' p is_ d i :
  (p' = p /\ In i is_) \/ In i (pos_get p' d) -> In i (pos_get p' (pos_update p is_ d)).
Proof.
  intros H. unfold pos_update. rewrite pos_get_set by apply pos_lookup_touch.
  destruct (pred_eq_dec p' p) as [->|N].
  - rewrite pred_eqb_refl. apply fold_nadd_In. rewrite pos_get_touch. tauto.
  - rewrite (pred_eqb_neq _ _ N), pos_get_touch. destruct H as [[E _] | H]; [contradiction | exact H].
Qed.

Lemma fold_add_signature_In : forall l acc p i,
  (In p l /\ i < snd p) \/ In i (pos_get p (snd acc)) ->
  In i (pos_get p (snd (fold_left add_signature l acc))).
Proof.
  induction l as [|q l IH]; intros acc p i H; simpl.
  - destruct H as [[[] _] | H]; exact H.
  - apply IH. destruct H as [[[<- | Hl] Hi] | H].
    + right. simpl. apply pos_update_In. left. split; [reflexivity|]. apply in_seq. lia.
    + left. auto.
    + right. simpl. apply pos_update_In. right. exact H.
Qed.

Lemma keep_all_args (keep: list nat) : forall (args: list term) k,
  (forall i, i < List.length args -> In (k + i) keep) ->
  flat_map (fun ia : nat * term => if nmem (fst ia) keep then [snd ia] else []) (combine (seq k (List.length args)) args) = args.
Proof.
  induction args as [|a args IH]; intros k H; [reflexivity|]. simpl.
  assert (M: nmem k keep = true). { apply nmem_In. rewrite <- (Nat.add_0_r k). apply H. simpl. lia. }
  rewrite M. simpl. f_equal. apply IH. intros i Hi. replace (S k + i) with (k + S i) by lia. apply H. simpl. lia.
Qed.

Section Declared.
  Variables ins outs : list pred.
  Definition decl (p: pred) : Prop := In p (ins ++ outs).
  (* the symbol of an atom over a declared (input or output) predicate; other symbols do not matter *)
  Definition good_decl (t: term) : Prop :=
    match t with TFun n args _ => decl (n, List.length args) | _ => True end.
  (* every atom in the body of every #show term is over a declared predicate *)
  Definition shows_declared (prg: list stmt) : Prop := forall s, In s prg -> show_good good_decl s.

  Definition full (st: ustate) : Prop :=
    forall p i, decl p -> i < snd p -> In i (pos_get p (used_positions st)).

  Lemma analyze_usage_full st prg st' : analyze_usage ins outs st prg = Ok st' -> full st'.
  Proof.
    unfold analyze_usage. intros E. rb E. injection E as <-. unfold analyze_usage_prg in E0.
    destruct (negb _); [discriminate|]. rb E0. injection E0 as <-.
    intros p i Hp Hi. simpl. apply fold_add_signature_In. left. split; [exact Hp | exact Hi].
  Qed.

  Lemma transform_decl t st r : transform t st = Ok r -> full st -> full (snd r) /\ (good_decl t -> fst r = t).
  Proof.
    destruct t; simpl; intros E F; try (injection E as <-; split; [exact F | reflexivity]).
    match type of E with context [_new_name ?s _ _] => set (st1 := s) in * end.
    assert (F1: full st1).
    { subst st1. destruct args; [exact F|]. intros p i Hp Hi. simpl. rewrite pos_get_touch. apply F; assumption. }
    destruct (negb _) eqn:Neq.
    - rb E. injection E as <-. simpl. split.
      + unfold _new_name in E0. destruct (names_lookup _ _); [injection E0 as <-; exact F1|]. rb E0. injection E0 as <-.
        intros p i Hp Hi. simpl. apply F1; assumption.
      + intros G. exfalso. apply negb_true_iff in Neq.
        rewrite (keep_all_args _ args 0) in Neq.
        * rewrite (proj2 (CleanupSpec.list_eqb_term_eq args args) eq_refl) in Neq. discriminate.
        * intros i Hi. simpl. apply (F1 (name, List.length args) i G). exact Hi.
    - injection E as <-. split; [exact F1 | reflexivity].
  Qed.

  Lemma project_unused_declared st prg r : shows_declared prg -> full st ->
    project_unused st prg = Ok r -> Forall2 (pres non_rule) prg (fst r).
  Proof.
    intros G F E. unfold project_unused in E. destruct (negb _); [discriminate|].
    apply (smapM_spec _project_unused_stm full (pres non_rule) prg) with (st := st); [| exact E | exact F].
    intros a st0 r0 Ha E0 F0. unfold _project_unused_stm in E0.
    eapply (tr_stmt_id transform full good_decl transform_decl); [apply G, Ha | exact E0 | exact F0].
  Qed.

  (* ---------- remove_single_copies ---------- *)
  Definition mapping_undecl (mp: mapping) : Prop := forall p m, mapping_lookup p mp = Some m -> ~ decl p.

  Lemma mapping_lookup_set p hd m mp x : mapping_lookup p (mapping_set hd m mp) = Some x ->
    p = hd \/ mapping_lookup p mp = Some x.
  Proof.
    induction mp as [|[q y] mp IH]; simpl.
    - destruct (pred_eqb p hd) eqn:E; [apply pred_eqb_eq in E; auto | discriminate].
    - destruct (pred_eq_dec hd q) as [->|N].
      + rewrite pred_eqb_refl. simpl. destruct (pred_eqb p q) eqn:E; [apply pred_eqb_eq in E; auto | auto].
      + rewrite (pred_eqb_neq _ _ N). simpl. destruct (pred_eqb p q); [auto | exact IH].
  Qed.

  Lemma single_copy_mapper_undecl prg rd hd m : single_copy_mapper ins outs prg rd hd = Ok (Some m) -> ~ decl hd.
  Proof.
    unfold single_copy_mapper. destruct (_ || _) eqn:O; [intros E; injection E as E; discriminate E|]. intros _.
    apply orb_false_iff in O. destruct O as [O1 O2]. apply pmem_false in O1. apply pmem_false in O2.
    unfold decl. rewrite in_app_iff. tauto.
  Qed.

  Lemma single_copy_mapping_undecl prg mp : single_copy_mapping ins outs prg = Ok mp -> mapping_undecl mp.
  Proof.
    unfold single_copy_mapping. generalize (RuleDependency prg) at 1 2. intros rd E.
    apply (fold_result_inv _ (fun a b : mapping => mapping_undecl a -> mapping_undecl b)) in E; auto.
    - destruct E as [mp0 [E H]]. injection E as <-. apply H. intros p m L. discriminate L.
    - intros r hd a' _ E0. rb E0. rb E0. exists x. split; [exact E1|]. intros Hx.
      destruct x0 as [m|]; injection E0 as <-; [| exact Hx].
      intros p y L. apply mapping_lookup_set in L. destruct L as [-> | L]; [| eapply Hx; exact L].
      eapply single_copy_mapper_undecl. exact E2.
  Qed.

  Lemma sc_convert_decl mp : mapping_undecl mp -> forall t (u: list nat) r,
    sc_convert mp t u = Ok r -> True -> True /\ (good_decl t -> fst r = t).
  Proof.
    intros Hmp t u r E _. split; [exact I|]. unfold sc_convert in E. destruct t; try discriminate. simpl.
    destruct (mapping_lookup _ mp) as [m|] eqn:L; [| injection E as <-; reflexivity].
    intros G. exfalso. eapply Hmp; eassumption.
  Qed.

  Lemma remove_single_copies_declared prg out : shows_declared prg ->
    remove_single_copies ins outs prg = Ok out -> filter non_rule out = filter non_rule prg.
  Proof.
    intros G. unfold remove_single_copies. destruct (negb _); [discriminate|]. intros E. rb E. rb E. injection E as <-.
    pose proof (single_copy_mapping_ok _ _ _ _ E0) as Hok. apply single_copy_mapping_undecl in E0.
    destruct (tr_prog_spec (sc_convert x) (fun u => forall i, In i u -> rule_at prg i)
                (sc_convert_inv prg x Hok) prg [] x0 E1) as [Hu _]; [intros i []|].
    destruct (tr_prog_id (sc_convert x) (fun _ => True) good_decl (sc_convert_decl x E0) prg [] x0 G E1 I) as [_ HF].
    unfold enumerate. rewrite drop_indices_filter.
    - apply Forall2_pres_filter; [exact kind_non_rule | exact HF].
    - intros i s N Hi. simpl in Hi. destruct (Hu i Hi) as [s0 [N0 K0]].
      destruct (Forall2_nth_error _ _ _ HF i s N) as [a [Na [Ka _]]].
      rewrite Na in N0. injection N0 as ->. destruct s; simpl in *; congruence.
  Qed.

  (* ---------- the loop ---------- *)
  Lemma shows_declared_transfer prg prg' : filter non_rule prg' = filter non_rule prg ->
    shows_declared prg -> shows_declared prg'.
  Proof.
    intros E G s Hs. destruct s; try exact I. apply (G (SShowTerm t b)).
    assert (H: In (SShowTerm t b) (filter non_rule prg')) by (apply filter_In; split; [exact Hs | reflexivity]).
    rewrite E in H. apply filter_In in H. tauto.
  Qed.

  Lemma execute_step_declared st new_prg prg prg1 st' : shows_declared new_prg ->
    execute_step ins outs st new_prg = Ok (prg, prg1, st') -> filter non_rule prg = filter non_rule new_prg.
  Proof.
    intros G E. unfold execute_step in E. rb E. rb E. rb E. rb E. injection E as <- <- <-.
    apply anonymize_variables_pres in E0. pose proof (Forall2_pres_filter _ kind_non_rule _ _ E0) as F0.
    pose proof (shows_declared_transfer _ _ F0 G) as G1.
    apply analyze_usage_full in E1.
    pose proof (project_unused_declared _ _ _ G1 E1 E2) as P2.
    pose proof (Forall2_pres_filter _ kind_non_rule _ _ P2) as F2.
    assert (F3: filter non_rule (remove_unused (snd x1) (fst x1)) = filter non_rule x).
    { rewrite remove_unused_filter by (intros s; destruct s; simpl; congruence). exact F2. }
    rewrite (remove_single_copies_declared _ _ (shows_declared_transfer _ _ F3 G1) E3). congruence.
  Qed.

  Lemma execute_loop_declared : forall fuel st new_prg out st', shows_declared new_prg ->
    execute_loop fuel ins outs st new_prg = Ok (out, st') -> filter non_rule out = filter non_rule new_prg.
  Proof.
    induction fuel as [|fuel IH]; intros st new_prg out st' G E; simpl in E; [discriminate|].
    rb E. destruct x as [[prg prg1] st1]. apply (execute_step_declared _ _ _ _ _ G) in E0.
    destruct (list_eqb stmt_eqb prg prg1).
    - injection E as <- <-. exact E0.
    - apply IH in E; [congruence|]. eapply shows_declared_transfer; eassumption.
  Qed.

  (* strongest true variant for #show terms: when every atom inside the bodies of the #show terms is
     over an input or output predicate, UnusedTranslator passes all non-rule statements through *)
  Theorem unused_execute_passthrough_declared : forall ctor_prg prg out,
    shows_declared prg ->
    UnusedExecute.execute ctor_prg ins outs prg = Ok out -> filter non_rule out = filter non_rule prg.
  Proof.
    intros ctor_prg prg out G E. unfold UnusedExecute.execute, UnusedExecute.execute_st in E.
    rb E. injection E as <-. rb E0. destruct x as [o st']. unfold execute_core_st in E0.
    apply exline_arithmetic_pres in E. pose proof (Forall2_pres_filter _ kind_non_rule _ _ E) as F.
    apply execute_loop_declared in E0; [simpl; congruence|]. eapply shows_declared_transfer; eassumption.
  Qed.
End Declared.

(* ---------- the hypothesis holds for the output predicates that ngo detects itself ---------- *)
Lemma symatoms_lit_predicates n args e : forall l,
  In (TFun n args e) (Dependency.symatoms_lit l) -> In (n, List.length args) (map snd (literal_predicate all_signs l)).
Proof.
  apply (TraverseSpec.lit_ind' (fun l => In (TFun n args e) (Dependency.symatoms_lit l) ->
                                         In (n, List.length args) (map snd (literal_predicate all_signs l)))).
  - intros s t H. cbn in H. destruct H as [-> | []]. rewrite TraverseSpec.lp_fun, TraverseSpec.in_signs_all. left. reflexivity.
  - intros s t gs H. cbn in H. contradiction.
  - intros s b H. cbn in H. contradiction.
  - intros s lg f es rg IH H. cbn in H. apply in_flat_map in H. destruct H as [el [He H]].
    apply in_flat_map in H. destruct H as [c [Hc H]].
    rewrite Forall_forall in IH. specialize (IH el He). rewrite Forall_forall in IH. specialize (IH c Hc H).
    rewrite TraverseSpec.lp_bagg. apply TraverseSpec.in_msf. exists el. split; [exact He|]. apply TraverseSpec.in_msf. exists c. split; assumption.
  - intros s lg es rg IH H. cbn in H. apply in_flat_map in H. destruct H as [el [He H]].
    rewrite Forall_forall in IH. destruct (IH el He) as [IH1 IH2]. rewrite Forall_forall in IH2.
    rewrite TraverseSpec.lp_agg. apply TraverseSpec.in_msf. exists el. split; [exact He|].
    apply in_app_or in H. destruct H as [H | H].
    + apply TraverseSpec.in_msa. left. apply TraverseSpec.in_msa. left. apply IH1, H.
    + apply in_flat_map in H. destruct H as [c [Hc H]].
      apply TraverseSpec.in_msa. right. apply TraverseSpec.in_msf. exists c. split; [exact Hc | apply IH2; assumption].
  - intros s t H. cbn in H. contradiction.
Qed.

Lemma symatoms_bodyelem_predicates n args e x :
  In (TFun n args e) (Dependency.symatoms_bodyelem x) -> In (n, List.length args) (map snd (bodyelem_predicates all_signs x)).
Proof.
  destruct x as [l|l c]; simpl; intros H.
  - apply symatoms_lit_predicates in H. exact H.
  - unfold condlit_predicate. simpl. apply TraverseSpec.in_msa. apply in_app_or in H. destruct H as [H | H].
    + left. eapply symatoms_lit_predicates. exact H.
    + right. apply in_flat_map in H. destruct H as [c0 [Hc H]]. apply TraverseSpec.in_msf. exists c0.
      split; [exact Hc | eapply symatoms_lit_predicates; exact H].
Qed.

Lemma pinsert_In x l p : In p (pinsert x l) <-> p = x \/ In p l.
Proof.
  induction l as [|y l IH]; simpl; [intuition|]. destruct (pred_leb x y); simpl; [intuition|]. rewrite IH. intuition.
Qed.
Lemma psort_In l p : In p (psort l) <-> In p l.
Proof. induction l as [|x l IH]; simpl; [tauto|]. rewrite pinsert_In, IH. intuition. Qed.

Lemma auto_detect_output_show prg t b p :
  In (SShowTerm t b) prg -> In p (map snd (flat_map (bodyelem_predicates all_signs) b)) -> In p (auto_detect_output prg).
Proof.
  intros Hs Hp. unfold auto_detect_output. apply psort_In.
  match goal with |- In p (fold_left ?F prg []) =>
    assert (G: forall l acc, In p acc \/ In (SShowTerm t b) l -> In p (fold_left F l acc)) end.
  { induction l as [|s l IH]; intros acc H; simpl.
    - destruct H as [H | []]. exact H.
    - apply IH. destruct H as [H | [-> | H]].
      + left. destruct s; try exact H; [apply padd_In | apply padd_all_In]; right; exact H.
      + left. cbv beta iota. apply padd_all_In. left. exact Hp.
      + right. exact H. }
  apply G. right. exact Hs.
Qed.

Theorem shows_declared_auto_detect : forall ins prg, shows_declared ins (auto_detect_output prg) prg.
Proof.
  intros ins prg s Hs. destruct s; try exact I. intros u Hu. destruct u; try exact I. simpl.
  unfold decl. apply in_or_app. right. eapply auto_detect_output_show; [exact Hs|].
  apply in_flat_map in Hu. destruct Hu as [x [Hx Hu]]. apply TraverseSpec.in_msf. exists x. split; [exact Hx|].
  eapply symatoms_bodyelem_predicates. exact Hu.
Qed.

Corollary unused_execute_passthrough_auto : forall ctor_prg ins prg out,
  UnusedExecute.execute ctor_prg ins (auto_detect_output prg) prg = Ok out -> filter non_rule out = filter non_rule prg.
Proof. intros ctor_prg ins prg out. apply unused_execute_passthrough_declared. apply shows_declared_auto_detect. Qed.

End PtUnused.

Module PtDep.
(* ====================================================================================== *)
(** * 3. DomainPredicates (ngo/dependency.py): the state monad, naming, generated rules *)
Import Dependency.

(* the UniqueNames object inside the DomainPredicates state only moves by naming requests *)
Definition dext (st st': dstate) : Prop := names_ext (unique_names st) (unique_names st').
Lemma dext_refl st : dext st st. Proof. apply names_ext_refl. Qed.
Lemma dext_trans a b c : dext a b -> dext b c -> dext a c. Proof. apply names_ext_trans. Qed.
Lemma dext_same a b : unique_names a = unique_names b -> dext a b.
Proof. unfold dext. intros ->. apply names_ext_refl. Qed.

Definition all_rules (l: list stmt) : Prop := Forall (fun s => kind s = 0) l.
Lemma all_rules_app a b : all_rules a -> all_rules b -> all_rules (a ++ b).
Proof. unfold all_rules. intros. apply Forall_app. split; assumption. Qed.
Lemma all_rules_filter K l : (forall s, kind s = 0 -> K s = false) -> all_rules l -> filter K l = [].
Proof. intros HK H. apply filter_none. eapply Forall_impl; [| exact H]. exact HK. Qed.

(* Hoare triple: whatever the outcome (also an exception), the naming state is an extension; a
   returned value satisfies P *)
Definition mhoare {A} (m: M A) (P: A -> Prop) : Prop :=
  forall st st' r, m st = (st', r) -> dext st st' /\ forall a, r = Ok a -> P a.

Lemma mhoare_ret {A} (a: A) (P: A -> Prop) : P a -> mhoare (mret a) P.
Proof. intros Pa st st' r E. injection E as <- <-. split; [apply dext_refl|]. intros a0 E. injection E as <-. exact Pa. Qed.
Lemma mhoare_lift {A} (x: result A) (P: A -> Prop) : (forall a, x = Ok a -> P a) -> mhoare (mlift x) P.
Proof. intros H st st' r E. injection E as <- <-. split; [apply dext_refl | exact H]. Qed.
Lemma mhoare_raise {A} k (P: A -> Prop) : mhoare (mraise k) P.
Proof. intros st st' r E. injection E as <- <-. split; [apply dext_refl | discriminate]. Qed.
Lemma mhoare_read {A} (g: dstate -> result A) (P: A -> Prop) :
  (forall st a, g st = Ok a -> P a) -> mhoare (fun st => (st, g st)) P.
Proof. intros H st st' r E. injection E as <- <-. split; [apply dext_refl | apply H]. Qed.
Lemma mhoare_weaken {A} (m: M A) (P Q: A -> Prop) : mhoare m P -> (forall a, P a -> Q a) -> mhoare m Q.
Proof. intros H PQ st st' r E. destruct (H _ _ _ E) as [D Pa]. split; [exact D|]. intros a Ea. apply PQ, Pa, Ea. Qed.
Lemma mhoare_bind {A B} (m: M A) (f: A -> M B) (P: A -> Prop) (Q: B -> Prop) :
  mhoare m P -> (forall a, P a -> mhoare (f a) Q) -> mhoare (mbind m f) Q.
Proof.
  intros Hm Hf st st' r E. unfold mbind in E. destruct (m st) as [st1 [a| | |]] eqn:Em;
    destruct (Hm _ _ _ Em) as [D1 Pa];
    try (injection E as <- <-; split; [exact D1 | discriminate]).
  destruct (Hf a (Pa a eq_refl) _ _ _ E) as [D2 Qb]. split; [eapply dext_trans; eassumption | exact Qb].
Qed.
Lemma mhoare_true {A} (m: M A) (P: A -> Prop) : mhoare m P -> mhoare m (fun _ => True).
Proof. intros H. eapply mhoare_weaken; [exact H | auto]. Qed.

Lemma mhoare_mconcat {A B} (f: A -> M (list B)) (Q: B -> Prop) l :
  (forall x, In x l -> mhoare (f x) (Forall Q)) -> mhoare (mconcat f l) (Forall Q).
Proof.
  induction l as [|x l IH]; intros H; simpl.
  - apply mhoare_ret. constructor.
  - eapply mhoare_bind; [apply H; left; reflexivity|]. intros ys Hys.
    eapply mhoare_bind; [apply IH; intros; apply H; right; assumption|]. intros zs Hzs.
    apply mhoare_ret. apply Forall_app. split; assumption.
Qed.

(* a state function given by cases *)
Lemma mhoare_run {A} (m: M A) (P: A -> Prop) st st' r :
  mhoare m P -> m st = (st', r) -> dext st st' /\ forall a, r = Ok a -> P a.
Proof. intros H. apply H. Qed.

(* ---------- the naming functions ---------- *)
Lemma predicate__hoare name ar : mhoare (predicate_ name ar) (fun _ => True).
Proof.
  intros st st' r E. unfold predicate_ in E. destruct (alookup _ _ _).
  - injection E as <- <-. split; [apply dext_refl | auto].
  - destruct (new_predicate _ _ _) as [[p un]| | |] eqn:N; injection E as <- <-;
      try (split; [apply dext_refl | auto]).
    split; [| auto]. unfold dext. simpl. eapply names_ext_pred. exact N.
Qed.

Lemma anon_named_hoare prefix ap pos k : mhoare (anon_named prefix ap pos k) (fun _ => True).
Proof.
  intros st st' r E. unfold anon_named in E.
  destruct (domain_predicate st (fst ap)); try (injection E as <- <-; split; [apply dext_refl | auto]).
  destruct (anon_arity ap k); try (injection E as <- <-; split; [apply dext_refl | auto]).
  eapply predicate__hoare. exact E.
Qed.

Lemma chain_pred_hoare ap pos mx : mhoare (chain_pred ap pos mx) (fun _ => True).
Proof.
  intros st st' r E. unfold chain_pred in E.
  repeat match type of E with
         | (match ?c with _ => _ end) _ = _ => destruct c
         | (match ?c with _ => _ end) = _ => destruct c
         | (if ?c then _ else _) _ = _ => destruct c
         | (if ?c then _ else _) = _ => destruct c
         end;
  try (injection E as <- <-; split; [apply dext_refl | auto]);
  try (eapply predicate__hoare; exact E).
Qed.

(* ---------- create_domain and the chain / next rules: only rules are generated ---------- *)
Lemma create_domain_hoare : forall fuel p, mhoare (create_domain fuel p) all_rules.
Proof.
  induction fuel as [|f IH]; intros p; [apply mhoare_lift; discriminate|].
  intros st st' r E. cbn [create_domain] in E.
  destruct (pmem p (created_domain st)); [injection E as <- <-; split; [apply dext_refl|]; intros a Ea; injection Ea as <-; constructor|].
  set (st0 := set_created st (padd p (created_domain st))) in *.
  assert (D0: dext st st0) by (apply dext_same; reflexivity).
  destruct (negb (has_domain st0 p)); [injection E as <- <-; split; [exact D0 | discriminate]|].
  destruct (is_static st0 p); [injection E as <- <-; split; [exact D0|]; intros a Ea; injection Ea as <-; constructor|].
  destruct (alookup pred_eqb p (domain_rules st0)) as [rules|]; [| injection E as <- <-; split; [exact D0 | discriminate]].
  match type of E with ?m st0 = _ => assert (H: mhoare m all_rules) end.
  { apply mhoare_mconcat. intros [h condition] _.
    eapply mhoare_bind; [apply mhoare_read with (P := fun _ => True); auto|]. intros d _.
    eapply mhoare_bind; [apply mhoare_lift with (P := fun _ => True); auto|]. intros args _.
    eapply mhoare_bind with (P := all_rules).
    - apply mhoare_mconcat. intros node _. apply mhoare_mconcat. intros symbol _.
      eapply mhoare_bind; [apply mhoare_lift with (P := fun _ => True); auto|]. intros dom_pred _.
      intros s1 s2 r1 E1. destruct (orig_preds s1 dom_pred) as [|o ?].
      + injection E1 as <- <-. split; [apply dext_refl|]. intros a Ea. injection Ea as <-. constructor.
      + eapply IH. exact E1.
    - intros pre Hpre. apply mhoare_ret. apply all_rules_app; [exact Hpre|]. constructor; [reflexivity | constructor]. }
  destruct (H _ _ _ E) as [D1 Q]. split; [exact (dext_trans _ _ _ D0 D1) | exact Q].
Qed.

Lemma create_domain_top_hoare p : mhoare (create_domain_top p) all_rules.
Proof. intros st st' r E. unfold create_domain_top in E. eapply create_domain_hoare. exact E. Qed.

Lemma create_chain_pred_hoare ap pos mx : mhoare (create_chain_pred_for_annotated_pred ap pos mx) all_rules.
Proof.
  unfold create_chain_pred_for_annotated_pred. destruct (negb _); [apply mhoare_raise|].
  eapply mhoare_bind; [apply anon_named_hoare|]. intros np _.
  eapply mhoare_bind; [apply chain_pred_hoare|]. intros cp _.
  apply mhoare_ret. repeat constructor.
Qed.

Lemma create_next_pred_hoare ap pos : mhoare (create_next_pred_for_annotated_pred ap pos) all_rules.
Proof.
  intros st st' r E. unfold create_next_pred_for_annotated_pred in E.
  destruct (negb _); [injection E as <- <-; split; [apply dext_refl | discriminate]|].
  destruct (Nat.leb _ _); [injection E as <- <-; split; [apply dext_refl | discriminate]|].
  revert E. apply mhoare_run.
  eapply mhoare_bind; [apply anon_named_hoare|]. intros p1 _.
  eapply mhoare_bind; [apply anon_named_hoare|]. intros p2 _.
  eapply mhoare_bind; [apply anon_named_hoare|]. intros p3 _.
  eapply mhoare_bind; [apply mhoare_read with (P := fun _ => True); auto|]. intros d _.
  apply mhoare_ret. repeat constructor.
Qed.

(* ---------- the constructor ---------- *)
Lemma adr_step_dext st pr st' : adr_step st pr = Ok st' -> dext st st'.
Proof.
  unfold adr_step. destruct pr as [p rules]. intros E.
  destruct (ahas _ _ _); [injection E as <-; apply dext_refl|].
  destruct (negb _); [injection E as <-; apply dext_refl|].
  destruct (existsb _ _); [discriminate|].
  match type of E with context [dom_named_predicate ?a ?b ?s] => destruct (dom_named_predicate a b s) as [st2 r] eqn:P end.
  unfold dom_named_predicate in P. apply predicate__hoare in P. destruct P as [D _].
  destruct r; try discriminate. injection E as <-. unfold dext in *. simpl in *. exact D.
Qed.

Lemma adr_fold_dext filtered : forall r st', fold_left (fun acc pr => rbind acc (fun st => adr_step st pr)) filtered r = Ok st' ->
  exists st, r = Ok st /\ dext st st'.
Proof.
  apply (fold_result_inv _ dext dext_refl dext_trans). intros r x a' _ E. rb E. exists x0. split; [exact E0|].
  eapply adr_step_dext. exact E.
Qed.

Lemma adr_loop_dext : forall fuel st filtered st', adr_loop fuel st filtered = Ok st' -> dext st st'.
Proof.
  induction fuel as [|f IH]; intros st filtered st' E; simpl in E; [discriminate|].
  rb E. apply adr_fold_dext in E0. destruct E0 as [s0 [E0 D]]. injection E0 as <-.
  destruct (Nat.eqb _ _); [injection E as <-; exact D|]. apply IH in E. eapply dext_trans; eassumption.
Qed.

Lemma add_domain_rules_dext st drs st' : add_domain_rules st drs = Ok st' -> dext st st'.
Proof. unfold add_domain_rules. intros E. rb E. eapply adr_loop_dext. exact E. Qed.

Lemma add_domain_rule_dext st p c st' : add_domain_rule st p c = Ok st' -> dext st st'.
Proof. unfold add_domain_rule. intros E. apply add_domain_rules_dext in E. exact E. Qed.

Theorem dp_init_names_ext un prg st : dp_init un prg = Ok st -> names_ext un (unique_names st).
Proof.
  unfold dp_init. destruct (negb _); [discriminate|]. intros E. rb E. unfold compute_domains in E. rb E.
  apply add_domain_rules_dext in E. exact E.
Qed.

Lemma mhoare_mconcat_blk (K: stmt -> bool) (f: stmt -> M (list stmt)) l :
  (forall x, In x l -> mhoare (f x) (pres_blk K x)) ->
  mhoare (mconcat f l) (fun out => filter K out = filter K l).
Proof.
  induction l as [|x l IH]; intros H; simpl mconcat.
  - apply mhoare_ret. reflexivity.
  - eapply mhoare_bind; [apply H; left; reflexivity|]. intros ys Hys.
    eapply mhoare_bind; [apply IH; intros; apply H; right; assumption|]. intros zs Hzs.
    apply mhoare_ret. rewrite filter_app, Hys, Hzs. simpl. destruct (K x); reflexivity.
Qed.

End PtDep.

Module PtDup.
Import PtDep.
(* ====================================================================================== *)
(** * 4. LiteralDuplicationTranslator *)
Import Duplication.

(* what `process` may do to a line of the program: nothing, or replace the body of a rule / minimize *)
Definition upd (a b: stmt) : Prop := b = a \/ (kind a <= 1 /\ exists body, b = stmt_update_body a body).

Lemma upd_refl a : upd a a. Proof. left. reflexivity. Qed.
Lemma upd_kind a b : upd a b -> kind b = kind a.
Proof. intros [-> | [_ [body ->]]]; [reflexivity | destruct a; reflexivity]. Qed.
Lemma upd_trans a b c : upd a b -> upd b c -> upd a c.
Proof.
  intros [-> | [Ka [b1 ->]]]; [auto|]. intros [-> | [Kb [b2 ->]]].
  - right. split; [exact Ka | eauto].
  - right. split; [exact Ka|]. exists b2. destruct a; simpl in *; try lia; reflexivity.
Qed.
Lemma upd_pres a b : upd a b -> pres non_rule a b.
Proof.
  intros H. split; [apply upd_kind, H|]. destruct H as [-> | [Ka [body ->]]]; [auto|].
  destruct a; simpl in *; try lia; discriminate.
Qed.
Lemma Forall2_upd_refl l : Forall2 upd l l.
Proof. induction l; constructor; auto using upd_refl. Qed.

(* an auxiliary rule whose head predicate is one of auxs *)
Definition aux_rule_of (auxs: list pred) (r: stmt) : Prop :=
  exists a bound lits, r = SRule LOC_line (HLit (aux_lit a bound)) lits /\ In (a, List.length bound) auxs.
Lemma aux_rule_of_incl auxs auxs' r : incl auxs auxs' -> aux_rule_of auxs r -> aux_rule_of auxs' r.
Proof. intros Hi [a [b [l [E H]]]]. exists a, b, l. split; [exact E | apply Hi, H]. Qed.
Lemma aux_rule_of_upd auxs r r' : upd r r' -> aux_rule_of auxs r -> aux_rule_of auxs r'.
Proof.
  intros [-> | [_ [body ->]]]; [auto|]. intros [a [b [l [-> H]]]]. exists a, b, body. split; [reflexivity | exact H].
Qed.
Lemma aux_rule_of_kind auxs r : aux_rule_of auxs r -> kind r = 0.
Proof. intros [a [b [l [-> _]]]]. reflexivity. Qed.

(* ---------- LiteralCollector: the rule ids only point at rules and minimize statements ---------- *)
Definition rm_at (prg: list stmt) (i: nat) : Prop := exists s, nth_error prg i = Some s /\ kind s <= 1.
Definition occ_ok (prg: list stmt) (m: occmap) : Prop :=
  Forall (fun e : list bodyelem * list rebuilder => Forall (fun rb => rm_at prg (rb_ruleid rb)) (snd e)) m.

Lemma occ_add_ok prg k rb m : rm_at prg (rb_ruleid rb) -> occ_ok prg m -> occ_ok prg (occ_add k rb m).
Proof.
  intros Hrb. induction 1 as [|[k' l] m Hl Hm IH]; simpl.
  - constructor; [constructor; [exact Hrb | constructor] | constructor].
  - destruct (key_eqb k k'); constructor; simpl; auto.
    apply Forall_app. split; [exact Hl | constructor; [exact Hrb | constructor]].
Qed.

Definition okimp (prg: list stmt) (a b: occmap) : Prop := occ_ok prg a -> occ_ok prg b.
Lemma okimp_refl prg a : okimp prg a a. Proof. unfold okimp; auto. Qed.
Lemma okimp_trans prg a b c : okimp prg a b -> okimp prg b c -> okimp prg a c. Proof. unfold okimp; auto. Qed.

Lemma add_subsets_ok prg size index sub subsub elems r m' : rm_at prg index ->
  fold_left (fun (acc: result occmap) (original_subset: list bodyelem) =>
               rbind acc (fun m =>
               rbind (Binding.collect_binding_information_body original_subset None) (fun bu =>
               if Binding.nonempty (snd bu) then Ok m else
               let '(new_subset, oldvars2newvars) := anonymize_variables original_subset in
               Ok (occ_add new_subset
                           (mk_rb index sub subsub original_subset new_subset oldvars2newvars
                                  (invert oldvars2newvars)) m))))
            (combinations elems size) r = Ok m' ->
  exists m, r = Ok m /\ okimp prg m m'.
Proof.
  intros Hi. apply (fold_result_inv _ (okimp prg) (okimp_refl prg) (okimp_trans prg)).
  intros r0 x a' _ E. rb E. exists x0. split; [exact E0|]. rb E.
  destruct (Binding.nonempty _); [injection E as <-; apply okimp_refl|].
  destruct (anonymize_variables x) as [ns o2n]. injection E as <-. intros H. apply occ_add_ok; [exact Hi | exact H].
Qed.

Lemma add_subsets_ok' prg size index sub subsub elems m m' : rm_at prg index ->
  add_subsets size index sub subsub elems m = Ok m' -> okimp prg m m'.
Proof.
  intros Hi E. unfold add_subsets in E. eapply add_subsets_ok in E; [| exact Hi].
  destruct E as [m0 [E H]]. injection E as <-. exact H.
Qed.

Lemma from_conditionals_ok prg size index body m m' : rm_at prg index ->
  add_occurences_from_conditionals size index body m = Ok m' -> okimp prg m m'.
Proof.
  intros Hi E. unfold add_occurences_from_conditionals in E.
  apply (fold_result_inv _ (okimp prg) (okimp_refl prg) (okimp_trans prg)) in E.
  - destruct E as [m0 [E H]]. injection E as <-. exact H.
  - intros r x a' _ E0. destruct x; [exists a'; split; [exact E0 | apply okimp_refl]|].
    rb E0. exists x. split; [exact E1|]. eapply add_subsets_ok'; eassumption.
Qed.

Lemma from_body_aggregate_ok prg size index body m m' : rm_at prg index ->
  add_occurences_from_body_aggregate size index body m = Ok m' -> okimp prg m m'.
Proof.
  intros Hi E. unfold add_occurences_from_body_aggregate in E.
  apply (fold_result_inv _ (okimp prg) (okimp_refl prg) (okimp_trans prg)) in E.
  - destruct E as [m0 [E H]]. injection E as <-. exact H.
  - intros r x a' _ E0.
    destruct x as [[s [t|t gs|b|lg f es rg|lg es rg|t]]|l c]; try (exists a'; split; [exact E0 | apply okimp_refl]).
    apply (fold_result_inv _ (okimp prg) (okimp_refl prg) (okimp_trans prg)) in E0; [exact E0|].
    intros r1 e a1 _ E1. rb E1. exists x. split; [exact E2|]. eapply add_subsets_ok'; eassumption.
Qed.

Lemma collect_loop_ok full size : forall prg index m m',
  collect_loop size index prg m = Ok m' ->
  (forall j s, nth_error prg j = Some s -> kind s <= 1 -> rm_at full (index + j)) ->
  okimp full m m'.
Proof.
  induction prg as [|stm prg IH]; intros index m m' E H; simpl in E.
  - injection E as <-. apply okimp_refl.
  - rb E. apply IH in E; [| intros j s N Ks; replace (S index + j) with (index + S j) by lia; apply (H (S j) s); assumption].
    eapply okimp_trans; [| exact E]. clear E.
    destruct stm; try (injection E0 as <-; apply okimp_refl).
    + assert (Hi: rm_at full index) by (rewrite <- (Nat.add_0_r index); apply (H 0 _ eq_refl); simpl; lia).
      rb E0. rb E0.
      eapply okimp_trans; [eapply add_subsets_ok'; [exact Hi | exact E]|].
      eapply okimp_trans; [eapply from_conditionals_ok; [exact Hi | exact E1]|].
      eapply from_body_aggregate_ok; [exact Hi | exact E0].
    + assert (Hi: rm_at full index) by (rewrite <- (Nat.add_0_r index); apply (H 0 _ eq_refl); simpl; lia).
      eapply add_subsets_ok'; [exact Hi | exact E0].
Qed.

Lemma filter_occurences_ok prg : forall m m', filter_occurences m = Ok m' -> occ_ok prg m -> occ_ok prg m'.
Proof.
  induction m as [|[k l] m IH]; intros m' E H; simpl in E.
  - injection E as <-. constructor.
  - rb E. rb E. injection E as <-. inversion H; subst. destruct x; [constructor; [assumption | eapply IH; eassumption] | eapply IH; eassumption].
Qed.

Lemma collect_occurences_ok size prg occ : collect_occurences size prg = Ok occ -> occ_ok prg occ.
Proof.
  unfold collect_occurences, collect_unfiltered. intros E. rb E. destruct (existsb _ _); [discriminate|].
  eapply filter_occurences_ok; [exact E|]. eapply collect_loop_ok; [exact E0 | | constructor].
  intros j s N Ks. exists s. split; [exact N | exact Ks].
Qed.

(* ---------- process ---------- *)
Definition add_ok (auxs: list pred) (add: list (nat * list stmt)) : Prop :=
  Forall (fun kv : nat * list stmt => Forall (aux_rule_of auxs) (snd kv)) add.

Lemma add_ok_incl auxs auxs' add : incl auxs auxs' -> add_ok auxs add -> add_ok auxs' add.
Proof.
  intros Hi H. eapply Forall_impl; [| exact H]. intros kv Hk. eapply Forall_impl; [| exact Hk].
  intros r. apply aux_rule_of_incl. exact Hi.
Qed.
Lemma add_additional_ok auxs k r add : aux_rule_of auxs r -> add_ok auxs add -> add_ok auxs (add_additional k r add).
Proof.
  intros Hr. induction 1 as [|[k' l] m Hl Hm IH]; simpl.
  - constructor; [constructor; [exact Hr | constructor] | constructor].
  - destruct (Nat.eqb k k'); constructor; simpl; auto.
    apply Forall_app. split; [exact Hl | constructor; [exact Hr | constructor]].
Qed.

(* invariant of one `process` run on prg0, started with the naming state reached by the log auxs0 *)
Definition PInv (prg0: list stmt) (names0: unames) (auxs0: list pred) (st: pstate) : Prop :=
  exists auxs, incl auxs0 auxs /\ names_log names0 auxs (ps_names st) /\ add_ok auxs (ps_add st) /\
               Forall2 upd prg0 (ps_prg st).

Lemma set_nth_upd : forall l0 l i x y, Forall2 upd l0 l -> nth_error l i = Some x -> upd x y ->
  Forall2 upd l0 (set_nth i y l).
Proof.
  intros l0 l i x y H. revert i. induction H as [|a b l0 l Hab H IH]; intros i N U; destruct i; simpl in *; try discriminate.
  - injection N as ->. constructor; [eapply upd_trans; eassumption | exact H].
  - constructor; [exact Hab | apply IH; assumption].
Qed.

Lemma process_builder_inv prg0 names0 auxs0 aux_name bound st rb st' :
  process_builder aux_name bound st rb = Ok st' -> rm_at prg0 (rb_ruleid rb) ->
  PInv prg0 names0 auxs0 st -> PInv prg0 names0 auxs0 st'.
Proof.
  unfold process_builder. intros E Hrm HI. destruct (nmem _ _); [injection E as <-; exact HI|].
  destruct (nth_error (ps_prg st) (rb_ruleid rb)) as [rule|] eqn:N; [|discriminate]. rb E.
  destruct HI as [auxs [Hi [Hl [Ha HF]]]].
  destruct x; injection E as <-; exists auxs; simpl; repeat split; try assumption.
  eapply set_nth_upd; [exact HF | exact N|].
  destruct (Forall2_nth_error _ _ _ HF _ _ N) as [s0 [N0 U0]]. destruct Hrm as [s1 [N1 K1]].
  rewrite N0 in N1. injection N1 as <-. right. split; [rewrite (upd_kind _ _ U0); exact K1 | eauto].
Qed.

Definition pimp prg0 names0 auxs0 (a b: pstate) : Prop := PInv prg0 names0 auxs0 a -> PInv prg0 names0 auxs0 b.

Lemma process_entry_inv prg0 names0 auxs0 st entry st' :
  process_entry st entry = Ok st' -> Forall (fun rb => rm_at prg0 (rb_ruleid rb)) (snd entry) ->
  PInv prg0 names0 auxs0 st -> PInv prg0 names0 auxs0 st'.
Proof.
  unfold process_entry. destruct entry as [literal_set rulebuilding]. simpl. intros E Hrb HI.
  destruct (negb _); [injection E as <-; exact HI|].
  destruct (existsb _ _); [injection E as <-; exact HI|].
  destruct (Nat.leb _ _); [injection E as <-; exact HI|].
  rb E. rb E. destruct x0 as [p names1]. simpl in E.
  set (bound := Order.sort_strings_as_vars (fst x)) in *.
  apply (fold_result_inv _ (pimp prg0 names0 auxs0)) in E.
  - destruct E as [st1 [E H]]. injection E as <-. apply H. clear H.
    destruct HI as [auxs [Hi [Hl [Ha HF]]]]. exists (auxs ++ [p]). simpl. repeat split.
    + intros q Hq. apply in_or_app. left. apply Hi, Hq.
    + eapply names_log_app; [exact Hl|]. apply (names_log_one _ (NewAux (List.length bound))). exact E1.
    + apply add_additional_ok.
      * exists (fst p), bound, literal_set. split; [reflexivity|]. apply in_or_app. right. left.
        apply new_auxpredicate_fresh in E1. destruct E1 as [_ [_ [_ <-]]]. destruct p; reflexivity.
      * eapply add_ok_incl; [| exact Ha]. intros q Hq. apply in_or_app. left. exact Hq.
    + exact HF.
  - unfold pimp; auto.
  - unfold pimp; auto.
  - intros r rb a' Hin E2. rb E2. exists x0. split; [exact E3|]. intros H.
    eapply process_builder_inv; [exact E2 | | exact H]. rewrite Forall_forall in Hrb. apply Hrb, Hin.
Qed.

Lemma process_inv prg0 names0 auxs0 occ names st :
  process occ prg0 names = Ok st -> occ_ok prg0 occ -> names_log names0 auxs0 names ->
  PInv prg0 names0 auxs0 st.
Proof.
  unfold process. intros E Hocc Hl.
  apply (fold_result_inv _ (pimp prg0 names0 auxs0)) in E.
  - destruct E as [st1 [E H]]. injection E as <-. apply H.
    exists auxs0. simpl. repeat split; [apply incl_refl | exact Hl | constructor | apply Forall2_upd_refl].
  - unfold pimp; auto.
  - unfold pimp; auto.
  - intros r entry a' Hin E2. rb E2. exists x. split; [exact E0|]. intros H.
    eapply process_entry_inv; [exact E2 | | exact H]. unfold occ_ok in Hocc. rewrite Forall_forall in Hocc. apply Hocc, Hin.
Qed.

Lemma collect_and_process_inv names0 auxs0 size prg names st :
  collect_and_process size prg names = Ok st -> names_log names0 auxs0 names -> PInv prg names0 auxs0 st.
Proof.
  unfold collect_and_process. intros E Hl. rb E. eapply process_inv; [exact E | | exact Hl].
  eapply collect_occurences_ok. exact E0.
Qed.

(* ---------- the rows of execute ---------- *)
Definition main_row (s: stmt) (rw: row) : Prop := r_old rw = s /\ pres non_rule s (r_new rw).
Definition aux_row (auxs: list pred) (rw: row) : Prop := r_restore rw = false /\ aux_rule_of auxs (r_new rw).

(* rows = the lines of prg (possibly rewritten) with auxiliary rules in between *)
Inductive interleave (auxs: list pred) : list stmt -> list row -> Prop :=
| il_nil : interleave auxs [] []
| il_aux : forall prg rw rows, aux_row auxs rw -> interleave auxs prg rows -> interleave auxs prg (rw :: rows)
| il_main : forall s prg rw rows, main_row s rw -> interleave auxs prg rows -> interleave auxs (s :: prg) (rw :: rows).

Lemma interleave_app_aux auxs prg pre rows :
  Forall (aux_row auxs) pre -> interleave auxs prg rows -> interleave auxs prg (pre ++ rows).
Proof. induction 1; simpl; intros Hil; [exact Hil | apply il_aux; auto]. Qed.

Lemma lookup_additional_ok auxs i add : add_ok auxs add -> Forall (aux_rule_of auxs) (lookup_additional i add).
Proof.
  unfold lookup_additional. induction 1 as [|kv add Hk _ IH]; simpl; [constructor|].
  apply Forall_app. split; [destruct (Nat.eqb _ _); [exact Hk | constructor] | exact IH].
Qed.

Lemma merge_rows_interleave auxs auxs' changed add : incl auxs auxs' -> add_ok auxs' add ->
  forall prg rows, interleave auxs prg rows ->
  forall np i, Forall2 upd (map r_new rows) np ->
  interleave auxs' prg (merge_rows i rows np changed add).
Proof.
  intros Hi Ha prg rows H. induction H as [|prg rw rows Hrw H IH|s prg rw rows Hrw H IH]; intros np i HF.
  - inversion HF; subst. simpl. constructor.
  - simpl in HF. inversion HF as [|a b l l' Hab HF']; subst. simpl.
    apply interleave_app_aux.
    + apply Forall_map. eapply Forall_impl; [| apply lookup_additional_ok; exact Ha].
      intros r Hr. split; [reflexivity | exact Hr].
    + apply il_aux; [| apply IH; exact HF']. destruct Hrw as [Hre Hau]. split; simpl.
      * rewrite Hre. destruct (nmem i changed); reflexivity.
      * eapply aux_rule_of_upd; [exact Hab|]. eapply aux_rule_of_incl; eassumption.
  - simpl in HF. inversion HF as [|a b l l' Hab HF']; subst. simpl.
    apply interleave_app_aux.
    + apply Forall_map. eapply Forall_impl; [| apply lookup_additional_ok; exact Ha].
      intros r Hr. split; [reflexivity | exact Hr].
    + apply il_main; [| apply IH; exact HF']. destruct Hrw as [Ho Hp]. split; simpl; [exact Ho|].
      eapply pres_trans; [exact Hp | apply upd_pres; exact Hab].
Qed.

Lemma execute_loop_eq fuel size names rows :
  execute_loop fuel size names rows =
  if Nat.leb size 1 then Ok rows else
  match fuel with
  | 0 => OutOfFuel
  | S fuel' =>
      rbind (collect_and_process size (map r_new rows) names) (fun st =>
      let size' := match ps_changed st with [] => size - 1 | _ => size end in
      execute_loop fuel' size' (ps_names st) (merge_rows 0 rows (ps_prg st) (ps_changed st) (ps_add st)))
  end.
Proof. destruct fuel; reflexivity. Qed.

Lemma dup_execute_loop_inv names0 prg : forall fuel size names rows rows' auxs,
  execute_loop fuel size names rows = Ok rows' ->
  names_log names0 auxs names -> interleave auxs prg rows ->
  exists auxs' names', names_log names0 auxs' names' /\ incl auxs auxs' /\ interleave auxs' prg rows'.
Proof.
  induction fuel as [|fuel IH]; intros size names rows rows' auxs E Hl Hil; rewrite execute_loop_eq in E;
    (destruct (Nat.leb size 1); [injection E as <-; exists auxs, names; repeat split; [exact Hl | apply incl_refl | exact Hil]|]);
    [discriminate|].
  rb E. cbv zeta in E.
  destruct (collect_and_process_inv names0 auxs _ _ _ _ E0 Hl) as [auxs1 [Hi [Hl1 [Ha HF]]]].
  eapply IH in E; [| exact Hl1 | eapply merge_rows_interleave; [exact Hi | exact Ha | exact Hil | exact HF]].
  destruct E as [auxs2 [names2 [Hl2 [Hi2 Hil2]]]]. exists auxs2, names2. repeat split; try assumption.
  intros q Hq. apply Hi2, Hi, Hq.
Qed.

(* ---------- execute ---------- *)
Lemma replace_assignments_pres s s' : replace_assignments s = Ok s' -> pres non_rule s s'.
Proof.
  unfold replace_assignments. destruct s; intros E; try (injection E as <-; apply pres_refl);
    (destruct (opaque_vars _); [discriminate|]); rb E; destruct x as [[body substs] removal]; injection E as <-;
    split; (reflexivity || discriminate).
Qed.

Lemma prepare_pres : forall prg ms np ms', prepare prg ms = Ok (np, ms') -> Forall2 (pres non_rule) prg np.
Proof.
  induction prg as [|s prg IH]; intros ms np ms' E; simpl in E.
  - injection E as <- <-. constructor.
  - rb E. rb E. rb E. injection E as <- <-. destruct x1 as [np' ms'']. simpl. constructor.
    + apply replace_assignments_pres. exact E0.
    + eapply IH. exact E2.
Qed.

Lemma initial_rows_interleave prg np : Forall2 (pres non_rule) prg np ->
  interleave [] prg (map (fun p => mk_row (fst p) (snd p) true) (combine np prg)).
Proof.
  induction 1 as [|s n prg np P _ IH]; simpl; [constructor|].
  apply il_main; [split; [reflexivity | exact P] | exact IH].
Qed.

(* the result: the statements of prg in order (a rule / minimize statement possibly rewritten, any
   other statement untouched), with auxiliary rules over the predicates auxs in between *)
Inductive shuffle (auxs: list pred) : list stmt -> list stmt -> Prop :=
| sh_nil : shuffle auxs [] []
| sh_aux : forall prg r out, aux_rule_of auxs r -> shuffle auxs prg out -> shuffle auxs prg (r :: out)
| sh_main : forall s prg s' out, pres non_rule s s' -> shuffle auxs prg out -> shuffle auxs (s :: prg) (s' :: out).

Lemma interleave_shuffle auxs prg rows : interleave auxs prg rows ->
  shuffle auxs prg (map (fun rw => if r_restore rw then r_old rw else r_new rw) rows).
Proof.
  induction 1 as [|prg rw rows [Hre Hau] _ IH|s prg rw rows [Ho Hp] _ IH]; simpl.
  - constructor.
  - rewrite Hre. apply sh_aux; assumption.
  - apply sh_main; [| exact IH]. destruct (r_restore rw); [rewrite Ho; apply pres_refl | exact Hp].
Qed.

Lemma shuffle_filter auxs prg out : shuffle auxs prg out -> filter non_rule out = filter non_rule prg.
Proof.
  induction 1 as [|prg r out Hr _ IH|s prg s' out P _ IH]; simpl.
  - reflexivity.
  - destruct Hr as [a [b [l [-> _]]]]. simpl. exact IH.
  - rewrite (pres_K _ kind_non_rule _ _ P). destruct (non_rule s) eqn:Ks; [| exact IH].
    destruct P as [_ e]. rewrite (e Ks), IH. reflexivity.
Qed.

Theorem dup_execute_with_spec : forall names prg out flags,
  execute_with names prg = Ok (out, flags) ->
  exists auxs names', names_log names auxs names' /\ shuffle auxs prg out.
Proof.
  intros names prg out flags E. unfold execute_with in E. destruct (existsb _ _); [discriminate|].
  rb E. destruct x as [np ms]. rb E. injection E as <- _.
  apply prepare_pres in E0. apply initial_rows_interleave in E0.
  destruct (dup_execute_loop_inv names prg _ _ _ _ _ [] E1 (names_log_nil names) E0) as [auxs [names' [Hl [_ Hil]]]].
  exists auxs, names'. split; [exact Hl | apply interleave_shuffle; exact Hil].
Qed.

(* pass-through and freshness for LiteralDuplicationTranslator(ctor_prg, ins).execute(prg) *)
Theorem dup_execute2_spec : forall ctor_prg ins prg out,
  execute2 ctor_prg ins prg = Ok out ->
  filter non_rule out = filter non_rule prg /\
  exists auxs names names',
    names_ext (init_names ctor_prg ins) names /\ names_log names auxs names' /\ shuffle auxs prg out /\
    NoDup auxs /\
    (forall p, In p auxs ->
       ~ In p (known (init_names ctor_prg ins)) /\ ~ In p ins /\
       (forall s, In s ctor_prg -> ~ In p (map snd (predicates all_signs s)))).
Proof.
  intros ctor_prg ins prg out E. unfold execute2 in E. destruct (existsb _ _); [discriminate|].
  rb E. rb E. injection E as <-. destruct x0 as [out flags]. simpl.
  apply dup_execute_with_spec in E1. destruct E1 as [auxs [names' [Hl Hs]]].
  split; [eapply shuffle_filter; exact Hs|].
  unfold translator_init in E0. rb E0. injection E0 as <-. apply dp_init_names_ext in E.
  exists auxs, (Dependency.unique_names x0), names'. split; [exact E|]. split; [exact Hl|]. split; [exact Hs|].
  destruct (names_log_fresh _ _ _ Hl) as [ND [F _]]. split; [exact ND|].
  intros p Hp. assert (N: ~ In p (known (init_names ctor_prg ins))).
  { intros Hk. apply (F p Hp). apply (names_ext_incl _ _ E). exact Hk. }
  split; [exact N|]. split.
  - intros Hi. apply N. apply unique_names_init_known. left. exact Hi.
  - intros s Hs' Hq. apply N. apply unique_names_init_known. right. exists s. auto.
Qed.

Theorem dup_execute_passthrough : forall prg ins out,
  Duplication.execute prg ins = Ok out -> filter non_rule out = filter non_rule prg.
Proof. intros prg ins out E. unfold Duplication.execute in E. apply dup_execute2_spec in E. tauto. Qed.

End PtDup.

Module PtSym.
Import PtDep.
(* ====================================================================================== *)
(** * 5. SymmetryTranslator *)
Import Dependency Symmetry.

Definition rule_or_min (s: stmt) : Prop := kind s <= 1.
Lemma all_rules_rule_or_min l : all_rules l -> Forall rule_or_min l.
Proof. apply Forall_impl. intros s E. unfold rule_or_min. rewrite E. lia. Qed.

Lemma mhoare_mmap {A B} (f: A -> M B) (Q: B -> Prop) l :
  (forall x, In x l -> mhoare (f x) Q) -> mhoare (mmap f l) (Forall Q).
Proof.
  induction l as [|x l IH]; intros H; simpl.
  - apply mhoare_ret. constructor.
  - eapply mhoare_bind; [apply H; left; reflexivity|]. intros y Hy.
    eapply mhoare_bind; [apply IH; intros; apply H; right; assumption|]. intros ys Hys.
    apply mhoare_ret. constructor; assumption.
Qed.

Lemma mhoare_mfoldl {A B} (f: B -> A -> M B) (Inv: B -> Prop) l :
  (forall b x, In x l -> Inv b -> mhoare (f b x) Inv) -> forall b, Inv b -> mhoare (mfoldl f l b) Inv.
Proof.
  induction l as [|x l IH]; intros H b Hb; simpl.
  - apply mhoare_ret. exact Hb.
  - eapply mhoare_bind; [apply H; [left; reflexivity | exact Hb]|]. intros b' Hb'.
    apply IH; [intros; apply H; [right|]; assumption | exact Hb'].
Qed.

Lemma replace_simple_assignments_pres s s' : replace_simple_assignments s = Ok s' -> pres non_rule s s'.
Proof.
  unfold replace_simple_assignments. destruct s; intros E; try (injection E as <-; apply pres_refl);
    (destruct (andb _ _); [discriminate|]); destruct (rsa_body b) as [edges aux_body]; injection E as <-;
    split; (reflexivity || discriminate).
Qed.

Lemma m_new_auxpredicate_hoare ar : mhoare (m_new_auxpredicate ar) (fun _ => True).
Proof.
  intros st st' r E. unfold m_new_auxpredicate in E.
  destruct (new_auxpredicate _ _) as [[p un]| | |] eqn:N; injection E as <- <-;
    try (split; [apply dext_refl | auto]).
  split; [| auto]. unfold dext. simpl. eapply names_ext_aux. exact N.
Qed.

(* ---------- bundles only carry rules ---------- *)
Definition bundle_ok (b: bundle) : Prop := all_rules (b_aux b).

Lemma create_count_hoare sym rules : all_rules rules ->
  mhoare (create_count sym rules) (fun r => all_rules (snd r)).
Proof.
  intros Hr. unfold create_count. destruct (sym_literals sym) as [|[s [t|t gs|b|lg f es rg|lg es rg|t]] ?];
    try apply mhoare_raise.
  destruct t; try apply mhoare_raise.
  eapply mhoare_bind with (P := fun r : string * list stmt => all_rules (snd r)).
  - intros st st' r E. destruct (has_domain st _).
    + revert E. apply mhoare_run.
      eapply mhoare_bind; [apply create_domain_top_hoare|]. intros rs Hrs.
      eapply mhoare_bind; [apply mhoare_read with (P := fun _ => True); auto|]. intros d _.
      apply mhoare_ret. exact Hrs.
    + injection E as <- <-. split; [apply dext_refl|]. intros a Ea. injection Ea as <-. constructor.
  - intros [name' rs] Hrs. apply mhoare_ret. simpl. apply all_rules_app; assumption.
Qed.

Lemma init_complex_hoare in_agg syms : mhoare (init_complex in_agg syms) bundle_ok.
Proof.
  unfold init_complex. apply mhoare_mfoldl; [| constructor].
  intros b sym _ Hb. destruct in_agg.
  - eapply mhoare_bind; [apply create_count_hoare; exact Hb|]. intros [aux_body rules] Hr. simpl in Hr.
    destruct aux_body as [|[s [t|t gs|bb|lg f es rg|lg es rg|t]] ?]; try apply mhoare_raise.
    destruct t; try apply mhoare_raise.
    eapply mhoare_bind; [apply mhoare_lift with (P := fun _ => True); auto|]. intros args0 _.
    eapply mhoare_bind; [apply m_new_auxpredicate_hoare|]. intros p _.
    apply mhoare_ret. unfold bundle_ok. simpl. apply all_rules_app; [exact Hr|]. constructor; [reflexivity | constructor].
  - eapply mhoare_bind; [apply create_count_hoare; exact Hb|]. intros [lits rules] Hr. simpl in Hr.
    apply mhoare_ret. exact Hr.
Qed.

Lemma init_simple_ok syms b : init_simple syms = Ok b -> bundle_ok b.
Proof.
  unfold init_simple. intros E. destruct (negb _); [injection E as <-; constructor|].
  destruct syms as [|sym ?]; [discriminate|]. destruct (strict_neq sym) as [|[n lits] ?]; [discriminate|].
  rb E. destruct x as [rem collect]. injection E as <-. constructor.
Qed.

Lemma make_bundle_hoare in_agg syms : mhoare (make_bundle in_agg syms) bundle_ok.
Proof.
  unfold make_bundle. destruct (andb _ _); [apply init_complex_hoare|].
  apply mhoare_lift. apply init_simple_ok.
Qed.

Lemma largest_symmetric_group_hoare body gv rest in_agg :
  mhoare (largest_symmetric_group body gv rest in_agg) (Forall bundle_ok).
Proof.
  unfold largest_symmetric_group.
  eapply mhoare_bind; [apply mhoare_lift with (P := fun _ => True); auto|]. intros groups _.
  apply mhoare_mmap. intros x _. apply make_bundle_hoare.
Qed.

(* ---------- _process_aggregates / _process_stm / _process ---------- *)
Lemma set_body_kind stm b : kind (set_body stm b) = kind stm.
Proof. destruct stm; reflexivity. Qed.

Lemma process_element_hoare stm ret elem : all_rules ret ->
  mhoare (process_element stm ret elem) (fun r => all_rules (snd r)).
Proof.
  intros Hret. unfold process_element.
  eapply mhoare_bind; [apply mhoare_lift with (P := fun _ => True); auto|]. intros gv _.
  eapply mhoare_bind; [apply largest_symmetric_group_hoare|]. intros bundles Hb.
  eapply mhoare_bind with (P := fun r : list bodyelem * list stmt => all_rules (snd r)).
  - apply mhoare_lift. intros a E.
    apply (fold_result_inv _ (fun x y : list bodyelem * list stmt => all_rules (snd x) -> all_rules (snd y))) in E; auto.
    + destruct E as [a0 [E H]]. injection E as <-. apply H. exact Hret.
    + intros r b a' Hin E0. rb E0. destruct x as [cond ret0]. exists (cond, ret0). split; [exact E1|].
      rb E0. injection E0 as <-. simpl. intros H. apply all_rules_app; [exact H|].
      rewrite Forall_forall in Hb. apply Hb, Hin.
  - intros [cond ret'] H. apply mhoare_ret. exact H.
Qed.

Lemma process_aggregates_hoare stm : rule_or_min stm -> mhoare (process_aggregates stm) (Forall rule_or_min).
Proof.
  intros Hk. unfold process_aggregates.
  eapply mhoare_bind with (P := fun r : list stmt * list bodyelem => all_rules (fst r)).
  - apply mhoare_mfoldl; [| constructor]. intros [ret newbody] blit _ Hret. simpl in Hret.
    destruct blit as [[s [t|t gs|b|lg f es rg|lg es rg|t]]|l c]; try (apply mhoare_ret; exact Hret).
    eapply mhoare_bind with (P := fun r : list stmt * list belem => all_rules (fst r)).
    + apply mhoare_mfoldl; [| exact Hret]. intros acc2 elem _ Hacc.
      eapply mhoare_bind; [apply process_element_hoare; exact Hacc|]. intros [e' ret'] Hr. apply mhoare_ret. exact Hr.
    + intros [ret' ne] Hr. apply mhoare_ret. exact Hr.
  - intros [ret newbody] Hret. apply mhoare_ret. apply Forall_app. split.
    + apply all_rules_rule_or_min. exact Hret.
    + constructor; [| constructor]. unfold rule_or_min. rewrite set_body_kind. exact Hk.
Qed.

Lemma process_stm_hoare stm : rule_or_min stm -> mhoare (process_stm stm) (Forall rule_or_min).
Proof.
  intros Hk. unfold process_stm.
  eapply mhoare_bind; [apply mhoare_lift with (P := fun _ => True); auto|]. intros gv _.
  eapply mhoare_bind; [apply largest_symmetric_group_hoare|]. intros bundles Hb.
  eapply mhoare_bind with (P := fun r : list bodyelem * list stmt => all_rules (snd r)).
  - apply mhoare_lift. intros a E.
    apply (fold_result_inv _ (fun x y : list bodyelem * list stmt => all_rules (snd x) -> all_rules (snd y))) in E; auto.
    + destruct E as [a0 [E H]]. injection E as <-. apply H. constructor.
    + intros r b a' Hin E0. rb E0. destruct x as [body ret0]. exists (body, ret0). split; [exact E1|].
      destruct (bundle_empty b); [injection E0 as <-; auto|].
      rb E0. injection E0 as <-. simpl. intros H. apply all_rules_app; [exact H|].
      rewrite Forall_forall in Hb. apply Hb, Hin.
  - intros [body ret] H. apply mhoare_ret. apply Forall_app. split.
    + apply all_rules_rule_or_min. exact H.
    + constructor; [| constructor]. unfold rule_or_min. rewrite set_body_kind. exact Hk.
Qed.

Lemma process_hoare stm : rule_or_min stm -> mhoare (process stm) (Forall rule_or_min).
Proof.
  intros Hk. unfold process.
  eapply mhoare_bind; [apply process_aggregates_hoare; exact Hk|]. intros l Hl.
  apply mhoare_mconcat. intros x Hx. apply process_stm_hoare. rewrite Forall_forall in Hl. apply Hl, Hx.
Qed.

Lemma rule_or_min_filter l : Forall rule_or_min l -> filter non_rule l = [].
Proof. intros H. apply filter_none. eapply Forall_impl; [| exact H]. intros s. destruct s; simpl; unfold rule_or_min; simpl; (reflexivity || lia). Qed.

Lemma execute_m_hoare orig : mhoare (execute_m orig) (fun out => filter non_rule out = filter non_rule orig).
Proof.
  unfold execute_m.
  eapply mhoare_bind with (P := fun p1 => Forall2 (pres non_rule) orig p1).
  - apply mhoare_lift. intros p1 E. eapply rmap_Forall2; [exact E|]. intros a b _ Eb. cbv beta in Eb.
    destruct (is_rule_or_min a); [apply replace_simple_assignments_pres; exact Eb | injection Eb as <-; apply pres_refl].
  - intros p1 H1. rewrite <- (Forall2_pres_filter _ kind_non_rule _ _ H1).
    apply mhoare_mconcat_blk. intros x _. unfold pres_blk. destruct (is_rule_or_min x) eqn:Kx.
    + eapply mhoare_weaken; [apply process_hoare; destruct x; simpl in *; unfold rule_or_min; simpl; (lia || discriminate)|].
      intros l Hl. rewrite (rule_or_min_filter _ Hl). destruct x; simpl in *; (reflexivity || discriminate).
    + apply mhoare_ret. reflexivity.
Qed.

Theorem symmetry_execute_passthrough : forall ctor_prg ins prg out,
  Symmetry.execute ctor_prg ins prg = Ok out -> filter non_rule out = filter non_rule prg.
Proof.
  intros ctor_prg ins prg out E. unfold Symmetry.execute in E. rb E.
  destruct (execute_m prg x) as [st' r] eqn:M. simpl in E. subst r.
  destruct (execute_m_hoare prg _ _ _ M) as [_ H]. apply H. reflexivity.
Qed.

(* naming: whatever execute does (also when it raises), the UniqueNames object it ends with is reached
   from the one of the constructor by a history of new_predicate / new_auxpredicate requests *)
Theorem symmetry_execute_names : forall ctor_prg ins prg st st' r,
  init_translator ctor_prg ins = Ok st -> execute_m prg st = (st', r) ->
  names_ext (init_names ctor_prg ins) (unique_names st) /\ names_ext (unique_names st) (unique_names st') /\
  incl (known (init_names ctor_prg ins)) (known (unique_names st')).
Proof.
  intros ctor_prg ins prg st st' r E M. unfold init_translator in E. apply dp_init_names_ext in E.
  destruct (execute_m_hoare prg _ _ _ M) as [D _]. split; [exact E|]. split; [exact D|].
  apply names_ext_incl. eapply names_ext_trans; eassumption.
Qed.

(* the only direct naming call of symmetry.py: the auxiliary predicate is new w.r.t. the current state *)
Theorem symmetry_new_aux_fresh : forall ar st st' p,
  m_new_auxpredicate ar st = (st', Ok p) ->
  ~ In p (known (unique_names st)) /\ In p (known (unique_names st')) /\ snd p = ar.
Proof.
  intros ar st st' p E. unfold m_new_auxpredicate in E.
  destruct (new_auxpredicate _ _) as [[q un]| | |] eqn:N; try discriminate. injection E as <- <-.
  apply new_auxpredicate_fresh in N. simpl. tauto.
Qed.

End PtSym.

Module PtInline.
Import PtDep.
(* ====================================================================================== *)
(** * 6. InlineTranslator *)
Import Dependency Inline.

Definition rom (s: stmt) : Prop := kind s <= 1.
Lemma rom_non_rule s : rom s -> non_rule s = false.
Proof. destruct s; unfold rom; simpl; intros; (reflexivity || lia). Qed.
Lemma non_rule_not_rom s : non_rule s = true -> ~ rom s.
Proof. intros H R. apply rom_non_rule in R. congruence. Qed.

(* ---------- RuleDependency: only rules and minimize statements are registered as users ---------- *)
Definition dd_ok (m: list (pred * list stmt)) : Prop := Forall (fun kv => Forall rom (snd kv)) m.

Lemma dd_append_ok k v m : rom v -> dd_ok m -> dd_ok (dd_append k v m).
Proof.
  intros Hv. induction 1 as [|[k' vs] m Hvs Hm IH]; simpl.
  - constructor; [constructor; [exact Hv | constructor] | constructor].
  - destruct (pred_eqb k k'); constructor; simpl; auto.
    apply Forall_app. split; [exact Hvs | constructor; [exact Hv | constructor]].
Qed.

Lemma rd_init_stm_ok st stm : dd_ok (pred2stm st) -> dd_ok (pred2stm (rd_init_stm st stm)).
Proof.
  intros H. unfold rd_init_stm.
  match goal with |- context [fold_left ?f ?l ?s1] => 
    assert (H1: dd_ok (pred2stm s1)); [| assert (G: forall l' s, (l' = [] \/ rom stm) -> dd_ok (pred2stm s) -> dd_ok (pred2stm (fold_left f l' s)))] end.
  - destruct stm; try exact H.
    match goal with |- context [fold_left ?f ?l st] => generalize l end. intros l. revert st H.
    induction l as [|hd l IH]; intros st H; simpl; [exact H|]. apply IH. simpl. exact H.
  - induction l' as [|p l' IH]; intros s Hl Hs; simpl; [exact Hs|].
    destruct Hl as [Hl | Hl]; [discriminate|]. apply IH; [right; exact Hl|]. simpl. apply dd_append_ok; assumption.
  - apply G; [| exact H1]. destruct stm; simpl; unfold rom; simpl; try (left; reflexivity); right; lia.
Qed.

Lemma rd_init_ok prg : dd_ok (pred2stm (rd_init prg)).
Proof.
  unfold rd_init. assert (G: forall l st, dd_ok (pred2stm st) -> dd_ok (pred2stm (fold_left rd_init_stm l st))).
  { induction l as [|s l IH]; intros st H; simpl; [exact H | apply IH, rd_init_stm_ok, H]. }
  apply G. constructor.
Qed.

Lemma alookup_ok p m vs : dd_ok m -> alookup pred_eqb p m = Some vs -> Forall rom vs.
Proof.
  induction 1 as [|[k v] m Hv _ IH]; simpl; [discriminate|].
  destruct (pred_eqb p k); [intros E; injection E as <-; exact Hv | exact IH].
Qed.

Lemma users_ok prg p : Forall rom (fst (rd_get_statements_that_use (rd_init prg) p)).
Proof.
  unfold rd_get_statements_that_use, dd_get. destruct (alookup _ _ _) as [vs|] eqn:L; simpl.
  - eapply alookup_ok; [apply rd_init_ok | exact L].
  - constructor.
Qed.

Lemma is_single_rule st rd stm n : is_single st rd stm = Some n -> kind stm = 0.
Proof. destruct stm; simpl; intros E; (reflexivity || discriminate). Qed.

(* ---------- inline_in_agg ---------- *)
Lemma replace_inside_agg_kind stm orig r : replace_inside_agg stm orig = Ok r -> kind r = kind orig.
Proof.
  unfold replace_inside_agg. destruct orig; intros E; try (injection E as <-; reflexivity).
  rb E. rb E. injection E as <-. reflexivity.
Qed.

Lemma flat_map_keep_filter (f: stmt -> list stmt) prg :
  (forall x, non_rule x = true -> f x = [x]) ->
  (forall x, non_rule x = false -> Forall rom (f x)) ->
  filter non_rule (flat_map f prg) = filter non_rule prg.
Proof.
  intros H1 H2. induction prg as [|x prg IH]; [reflexivity|]. simpl. rewrite filter_app, IH.
  destruct (non_rule x) eqn:Kx.
  - rewrite (H1 x Kx). simpl. rewrite Kx. reflexivity.
  - rewrite filter_none; [reflexivity|]. eapply Forall_impl; [| apply (H2 x Kx)]. apply rom_non_rule.
Qed.

Lemma replace_single_rule_for_agg_filter st prg out :
  replace_single_rule_for_agg st prg = Ok out -> filter non_rule out = filter non_rule prg.
Proof.
  unfold replace_single_rule_for_agg.
  match goal with |- (?F prg = _) -> _ => assert (G: forall l, F l = Ok out -> filter non_rule out = filter non_rule prg) end.
  { induction l as [|stm l IH]; intros E.
    - injection E as <-. reflexivity.
    - destruct (is_single st (rd_init prg) stm) as [n|] eqn:S; [| apply IH; exact E].
      destruct (stmt_hpred stm) as [hpred|]; [| apply IH; exact E].
      pose proof (users_ok prg hpred) as U.
      destruct (fst (rd_get_statements_that_use (rd_init prg) hpred)) as [|orig ?]; [discriminate|].
      rb E. destruct (stmt_eqb orig x); [apply IH; exact E|]. injection E as <-.
      apply is_single_rule in S. inversion U as [|? ? Ho _]; subst.
      apply replace_inside_agg_kind in E0.
      apply flat_map_keep_filter.
      + intros y Ky. destruct (stmt_eqb y stm) eqn:Q1.
        { apply stmt_eqb_kind in Q1. destruct y; simpl in *; congruence. }
        destruct (stmt_eqb y orig) eqn:Q2; [| reflexivity].
        apply stmt_eqb_kind in Q2. exfalso. apply (non_rule_not_rom y Ky). unfold rom in *. lia.
      + intros y Ky. destruct (stmt_eqb y stm); [constructor|].
        destruct (stmt_eqb y orig) eqn:Q2; (constructor; [| constructor]); unfold rom in *.
        * lia.
        * destruct y; simpl in *; (lia || discriminate). }
  apply G.
Qed.

Lemma inline_in_agg_fuel_filter : forall fuel st prg out,
  inline_in_agg_fuel fuel st prg = Ok out -> filter non_rule out = filter non_rule prg.
Proof.
  induction fuel as [|f IH]; intros st prg out E; simpl in E; [discriminate|].
  rb E. apply replace_single_rule_for_agg_filter in E0.
  destruct (list_eqb stmt_eqb x prg); [injection E as <-; reflexivity|]. apply IH in E. congruence.
Qed.

(* ---------- inline_in_rulebody ---------- *)
Definition graph_ok (g: graph) : Prop :=
  Forall (fun e : gkey * gval => rom (fst (fst e)) /\ kind (fst (snd e)) = 0) g.

Lemma aset_graph_ok k v g : rom (fst k) -> kind (fst v) = 0 -> graph_ok g -> graph_ok (aset gkey_eqb k v g).
Proof.
  intros Hk Hv. induction 1 as [|[k' v'] g [Hk' Hv'] Hg IH]; simpl.
  - constructor; [split; assumption | constructor].
  - destruct (gkey_eqb k k'); constructor; simpl; auto.
Qed.

Lemma build_graph_ok st prg g : build_graph st prg = Ok g -> graph_ok g.
Proof.
  unfold build_graph. intros E.
  apply (fold_result_inv _ (fun a b : graph => graph_ok a -> graph_ok b)) in E; auto.
  - destruct E as [g0 [E H]]. injection E as <-. apply H. constructor.
  - intros r stm a' _ E0. rb E0. exists x. split; [exact E1|].
    destruct (is_single st (rd_init prg) stm) as [index|] eqn:S; [| injection E0 as <-; auto].
    destruct (stmt_hpred stm) as [hpred|]; [| injection E0 as <-; auto].
    pose proof (users_ok prg hpred) as U.
    destruct (fst (rd_get_statements_that_use (rd_init prg) hpred)) as [|orig ?]; [discriminate|].
    rb E0. destruct x0 as [blit|]; injection E0 as <-; auto.
    intros H. apply aset_graph_ok; simpl; [inversion U; assumption | eapply is_single_rule; exact S | exact H].
Qed.

Lemma set_body_kind stm b : kind (set_body stm b) = kind stm.
Proof. destruct stm; reflexivity. Qed.

Lemma replace_single_rule_for_body_filter st prg out :
  replace_single_rule_for_body st prg = Ok out -> filter non_rule out = filter non_rule prg.
Proof.
  unfold replace_single_rule_for_body. intros E. rb E. apply build_graph_ok in E0.
  match type of E with ?F x = _ =>
    assert (G: forall ns, graph_ok ns -> F ns = Ok out -> filter non_rule out = filter non_rule prg) end.
  { clear E. induction ns as [|[[orig blit_] [stm index_]] ns IH]; intros Hns E.
    - injection E as <-. reflexivity.
    - inversion Hns as [|? ? [Ho Hs] Hns']; subst. simpl in Ho, Hs. specialize (IH Hns').
      destruct blit_ as [sg [t|t gs|b|lg f es rg|lg es rg|t]]; try discriminate.
      destruct t; try discriminate.
      destruct (nth_error args index_) as [var|]; [|discriminate].
      rb E. destruct (negb x0); [apply IH; exact E|]. rb E. rb E.
      destruct (list_eqb _ _ _); [apply IH; exact E|]. injection E as <-.
      apply flat_map_keep_filter.
      + intros y Ky. destruct (stmt_eqb y stm) eqn:Q1.
        { apply stmt_eqb_kind in Q1. destruct y; simpl in *; congruence. }
        destruct (stmt_eqb y orig) eqn:Q2; [| reflexivity].
        apply stmt_eqb_kind in Q2. exfalso. apply (non_rule_not_rom y Ky). unfold rom in *. lia.
      + intros y Ky. destruct (stmt_eqb y stm); [constructor|].
        destruct (stmt_eqb y orig) eqn:Q2; simpl; (constructor; [| constructor]); unfold rom in *.
        * rewrite set_body_kind. exact Ho.
        * destruct y; simpl in *; (lia || discriminate). }
  eapply G; eassumption.
Qed.

Lemma inline_in_rulebody_fuel_filter : forall fuel st prg out,
  inline_in_rulebody_fuel fuel st prg = Ok out -> filter non_rule out = filter non_rule prg.
Proof.
  induction fuel as [|f IH]; intros st prg out E; simpl in E; [discriminate|].
  rb E. apply replace_single_rule_for_body_filter in E0.
  destruct (list_eqb stmt_eqb x prg); [injection E as <-; reflexivity|]. apply IH in E. congruence.
Qed.

(* ---------- inline_in_minimize ---------- *)
Lemma inline_minimize_blk tuples stm l : inline_minimize tuples stm = Ok l -> pres_blk non_rule stm l.
Proof.
  unfold pres_blk. assert (R: filter non_rule [stm] = filter non_rule [stm]) by reflexivity.
  unfold inline_minimize. destruct stm; intros E; try (injection E as <-; exact R).
  repeat match type of E with
         | (if ?c then _ else _) = _ => destruct c; try (injection E as <-; exact R)
         | match ?c with _ => _ end = _ => destruct c; try (injection E as <-; exact R)
         | (let '(_, _) := ?c in _) = _ => destruct c
         end.
  simpl. apply filter_none.
  eapply (rmap_Forall2 _ (fun _ s0 => non_rule s0 = false)) in E.
  - clear - E. induction E; constructor; auto.
  - intros e s0 _ Es. rb Es. injection Es as <-. reflexivity.
Qed.

Lemma inline_in_minimize_filter prg out : inline_in_minimize prg = Ok out -> filter non_rule out = filter non_rule prg.
Proof.
  unfold inline_in_minimize. intros E. rb E. injection E as <-.
  apply (Forall2_blk_filter non_rule). eapply rmap_Forall2; [exact E0|].
  intros a b _. apply inline_minimize_blk.
Qed.

Theorem inline_execute_passthrough : forall st prg out,
  Inline.execute st prg = Ok out -> filter non_rule out = filter non_rule prg.
Proof.
  intros st prg out E. unfold Inline.execute in E. rb E. rb E.
  unfold inline_in_agg in E0. apply inline_in_agg_fuel_filter in E0.
  unfold inline_in_rulebody in E1. apply inline_in_rulebody_fuel_filter in E1.
  apply inline_in_minimize_filter in E. congruence.
Qed.

Theorem inline_run_execute_passthrough : forall ctor_prg ins outs prg out,
  Inline.run_execute ctor_prg ins outs prg = Ok out -> filter non_rule out = filter non_rule prg.
Proof.
  intros ctor_prg ins outs prg out E. unfold run_execute in E. rb E. eapply inline_execute_passthrough. exact E.
Qed.

(* InlineTranslator never asks for a name in execute; its constructor only builds DomainPredicates *)
Theorem inline_init_names : forall ctor_prg ins outs st,
  it_init ctor_prg ins outs = Ok st -> names_ext (init_names ctor_prg ins) (unique_names (dom st)).
Proof.
  intros ctor_prg ins outs st E. unfold it_init in E. destruct (negb _); [discriminate|]. rb E. injection E as <-.
  simpl. eapply dp_init_names_ext. exact E0.
Qed.

End PtInline.

Module PtSum.
Import PtDep.
(* ====================================================================================== *)
(** * 7. SumAggregator *)
Import Dependency SumChains.

Lemma build_replacement_hoare tr : mhoare (build_replacement tr) (fun rp => all_rules (r_rules rp)).
Proof.
  unfold build_replacement. destruct tr as [[trigger_lit trigger_index] ap].
  destruct trigger_lit as [s [t|t gs|b|lg f es rg|lg es rg|t]]; try apply mhoare_raise.
  destruct t; try apply mhoare_raise.
  eapply mhoare_bind; [apply create_domain_top_hoare|]. intros r1 H1.
  eapply mhoare_bind; [apply create_next_pred_hoare|]. intros r2 H2.
  eapply mhoare_bind; [apply create_chain_pred_hoare|]. intros r3 H3.
  eapply mhoare_bind; [apply chain_pred_hoare|]. intros cp _.
  eapply mhoare_bind; [apply anon_named_hoare|]. intros np _.
  eapply mhoare_bind; [apply mhoare_lift with (P := fun _ => True); auto|]. intros fw _.
  apply mhoare_ret. simpl. repeat apply all_rules_app; assumption.
Qed.

Lemma replace_elements_loop_hoare atmost all : forall todo sto rules newel, all_rules rules ->
  mhoare (replace_elements_loop atmost all todo sto rules newel) (fun r => all_rules (snd (fst r))).
Proof.
  induction todo as [|c rest IH]; intros sto rules newel Hr; cbn [replace_elements_loop].
  - apply mhoare_ret. exact Hr.
  - cbv zeta. destruct (fst (cur_elem sto c)) as [|t0 trest]; [apply IH; exact Hr|].
    eapply mhoare_bind; [apply mhoare_lift with (P := fun _ => True); auto|]. intros passes _.
    destruct (negb passes); [apply IH; exact Hr|].
    eapply mhoare_bind; [apply mhoare_lift with (P := fun _ => True); auto|]. intros tr _.
    destruct tr as [t|]; [| apply IH; exact Hr].
    eapply mhoare_bind; [apply build_replacement_hoare|]. intros rp Hrp.
    apply IH. apply all_rules_app; assumption.
Qed.

Lemma replace_body_hoare atmost : forall body sto rules newbody, all_rules rules ->
  mhoare (replace_body atmost body sto rules newbody) (fun r => all_rules (snd (fst r))).
Proof.
  induction body as [|[b row] rest IH]; intros sto rules newbody Hr; cbn [replace_body].
  - apply mhoare_ret. exact Hr.
  - destruct b as [[s [t|t gs|bb|lg f es rg|lg es rg|t]]|l c]; try (apply IH; exact Hr).
    destruct (is_sum f); [| apply IH; exact Hr].
    eapply mhoare_bind; [apply replace_elements_loop_hoare; constructor|].
    intros [[sto' rules'] newel] Hr'. simpl in Hr'. apply IH. apply all_rules_app; assumption.
Qed.

Definition rom (s: stmt) : Prop := kind s <= 1.

Lemma replace_optimize_hoare atm obj cur sto minimize : rom (fst minimize) ->
  mhoare (replace_optimize atm obj cur sto minimize) (Forall (fun rs : rstmt => rom (fst rs))).
Proof.
  intros Hm. unfold replace_optimize. destruct (fst minimize) eqn:Em; try apply mhoare_raise.
  assert (Hsame: Forall (fun rs : rstmt => rom (fst rs)) [minimize]).
  { constructor; [rewrite Em; unfold rom; simpl; lia | constructor]. }
  cbv zeta. destruct (get_var _ _ _) as [mv|]; [| apply mhoare_ret; exact Hsame].
  destruct (negb _); [apply mhoare_ret; exact Hsame|].
  eapply mhoare_bind; [apply mhoare_lift with (P := fun _ => True); auto|]. intros tr _.
  destruct tr as [t|]; [| apply mhoare_ret; exact Hsame].
  eapply mhoare_bind; [apply build_replacement_hoare|]. intros rp Hrp.
  apply mhoare_ret. apply Forall_app. split.
  - apply Forall_map. eapply Forall_impl; [| exact Hrp]. intros s E. unfold rom. simpl. rewrite E. lia.
  - repeat constructor; unfold rom; simpl; lia.
Qed.

Lemma rom_filter (l: list rstmt) : Forall (fun rs => rom (fst rs)) l -> filter non_rule (map fst l) = [].
Proof.
  intros H. apply filter_none. apply Forall_map. eapply Forall_impl; [| exact H].
  intros [s c]. simpl. destruct s; unfold rom; simpl; intros; (reflexivity || lia).
Qed.

Lemma app_tail_nil {A} (a b c: list A) : b = [] -> c = [] -> a ++ b ++ c = a.
Proof. intros -> ->. apply app_nil_r. Qed.

Lemma rules_filter {X} (c: X) rules : all_rules rules ->
  filter non_rule (map fst (map (fun s : stmt => (s, c)) rules)) = [].
Proof.
  intros H. rewrite map_map. simpl. rewrite map_id. apply filter_none. eapply Forall_impl; [| exact H].
  intros s E. destruct s; simpl in *; (reflexivity || discriminate).
Qed.

Lemma sum_execute_loop_hoare atmost obj prg : forall todo sto ret,
  mhoare (execute_loop atmost obj prg todo sto ret)
         (fun r => filter non_rule (map fst (snd r)) = filter non_rule (map fst ret) ++ filter non_rule (map fst todo)).
Proof.
  induction todo as [|[stm rows] rest IH]; intros sto ret; cbn [execute_loop].
  - apply mhoare_ret. simpl. rewrite app_nil_r. reflexivity.
  - destruct stm.
    + eapply mhoare_bind; [apply replace_body_hoare; constructor|].
      intros [[sto' rules] newbody] Hr. simpl in Hr.
      eapply mhoare_weaken; [apply IH|]. intros r ->. simpl. f_equal.
      rewrite !map_app, !filter_app. apply app_tail_nil; [apply rules_filter; exact Hr | reflexivity].
    + eapply mhoare_bind; [apply replace_body_hoare; constructor|].
      intros [[sto' rules] newbody] Hr. simpl in Hr. cbv zeta.
      eapply mhoare_bind; [apply replace_optimize_hoare; unfold rom; simpl; lia|]. intros out Hout.
      eapply mhoare_weaken; [apply IH|]. intros r ->. simpl. f_equal.
      rewrite !map_app, !filter_app. apply app_tail_nil; [apply rules_filter; exact Hr | apply rom_filter; exact Hout].
    + eapply mhoare_weaken; [apply IH|]. intros r ->. rewrite map_app, filter_app, <- app_assoc. reflexivity.
    + eapply mhoare_weaken; [apply IH|]. intros r ->. rewrite map_app, filter_app, <- app_assoc. reflexivity.
    + eapply mhoare_weaken; [apply IH|]. intros r ->. rewrite map_app, filter_app, <- app_assoc. reflexivity.
Qed.

Lemma map_fst_zip_rows {A B} (rows: list (list B)) : forall (xs: list A), map fst (zip_rows rows xs) = xs.
Proof.
  revert rows. intros rows xs. revert rows. induction xs as [|x xs IH]; intros rows; [reflexivity|].
  destruct rows; simpl; rewrite IH; reflexivity.
Qed.

Lemma resolve_stmt_pres sto rs : pres non_rule (fst rs) (resolve_stmt sto rs).
Proof. unfold resolve_stmt. destruct (fst rs); split; (reflexivity || discriminate || auto). Qed.

Theorem sum_execute_on_spec : forall sa prg cells st r,
  execute_on sa prg cells = (st, r) ->
  dext (sa_dp sa) st /\ forall out, r = Ok out -> filter non_rule out = filter non_rule prg.
Proof.
  intros sa prg cells st r E. unfold execute_on in E.
  destruct (execute_loop _ _ _ _ _ _ _) as [st1 r1] eqn:L.
  destruct (sum_execute_loop_hoare _ _ _ _ _ _ _ _ _ L) as [D H].
  destruct r1 as [[sto ret]| | |]; injection E as <- <-; (split; [exact D|]); try discriminate.
  intros out E. injection E as <-. specialize (H _ eq_refl). simpl in H.
  assert (Hp: filter non_rule (map fst ret) = filter non_rule prg).
  { etransitivity; [exact H|]. f_equal. apply map_fst_zip_rows. }
  rewrite <- Hp. apply (Forall2_pres_filter _ kind_non_rule).
  clear. induction ret as [|rs ret IH]; simpl; constructor; [apply resolve_stmt_pres | exact IH].
Qed.

Theorem sum_execute_cells_passthrough : forall prg ins order cells out,
  execute_cells prg ins order cells = Ok out -> filter non_rule out = filter non_rule prg.
Proof.
  intros prg ins order cells out E. unfold execute_cells in E. rb E.
  destruct (execute_on x prg cells) as [st r] eqn:X. simpl in E. subst r.
  destruct (sum_execute_on_spec _ _ _ _ _ X) as [_ H]. apply H. reflexivity.
Qed.

Theorem sum_execute_passthrough : forall prg ins order out,
  SumChains.execute prg ins order = Ok out -> filter non_rule out = filter non_rule prg.
Proof. intros prg ins order out. apply sum_execute_cells_passthrough. Qed.

Theorem sum_execute_names : forall prg ins order sa cells st r,
  sa_init prg ins order = Ok sa -> execute_on sa prg cells = (st, r) ->
  names_ext (init_names prg ins) (unique_names (sa_dp sa)) /\
  names_ext (unique_names (sa_dp sa)) (unique_names st) /\
  incl (known (init_names prg ins)) (known (unique_names st)).
Proof.
  intros prg ins order sa cells st r E X. unfold sa_init in E. rb E. rb E. injection E as <-. cbn [sa_dp].
  apply dp_init_names_ext in E0. destruct (sum_execute_on_spec _ _ _ _ _ X) as [D _]. cbn [sa_dp] in D.
  split; [exact E0|]. split; [exact D|]. apply names_ext_incl. exact (names_ext_trans _ _ _ E0 D).
Qed.

End PtSum.

Module PtMinMax.
Import PtDep.
(* ====================================================================================== *)
(** * 8. MinMaxAggregator *)
Import Dependency MinMax.

Definition rom (s: stmt) : Prop := kind s <= 1.
Lemma rom_filter l : Forall rom l -> filter non_rule l = [].
Proof.
  intros H. apply filter_none. eapply Forall_impl; [| exact H].
  intros s. destruct s; unfold rom; simpl; intros; (reflexivity || lia).
Qed.
Lemma all_rules_rom l : all_rules l -> Forall rom l.
Proof. apply Forall_impl. intros s E. unfold rom. rewrite E. lia. Qed.
Lemma set_body_kind s b : kind (set_body s b) = kind s.
Proof. destruct s; reflexivity. Qed.

Lemma mget_hoare : mhoare mget (fun _ => True).
Proof. intros st st' r E. injection E as <- <-. split; [apply dext_refl | auto]. Qed.

Lemma simple_elems_rom rule body s lg gvars : rom rule -> forall es allvars l,
  simple_elems rule body s lg gvars es allvars = Ok l -> Forall rom l.
Proof.
  intros Hr. induction es as [|e es IH]; intros allvars l E; simpl in E.
  - injection E as <-. constructor.
  - rb E. destruct lg as [[c t]|]; [|discriminate].
    destruct (map _ (fst e)) as [|t0 ?]; [discriminate|]. rb E. injection E as <-.
    constructor; [unfold rom; rewrite set_body_kind; exact Hr | eapply IH; exact E1].
Qed.

Lemma simple_translation_rom rule agg l : rom rule -> simple_translation rule agg = Ok l -> Forall rom l.
Proof.
  intros Hr. unfold simple_translation. destruct agg as [s [t|t gs|b|lg f es rg|lg es rg|t]]; try discriminate.
  intros E. rb E. rb E. eapply simple_elems_rom; eassumption.
Qed.

Lemma create_aggregate_replacement_hoare is_max weight cond rest_vars np lwv :
  mhoare (create_aggregate_replacement is_max weight cond rest_vars np lwv) all_rules.
Proof.
  unfold create_aggregate_replacement.
  eapply mhoare_bind; [apply create_domain_top_hoare|]. intros r1 H1.
  eapply mhoare_bind; [apply mhoare_read with (P := fun _ => True); auto|]. intros dp _.
  eapply mhoare_bind; [apply create_next_pred_hoare|]. intros r2 H2.
  eapply mhoare_bind; [apply anon_named_hoare|]. intros mm0 _.
  eapply mhoare_bind with (P := fun _ => True).
  { destruct is_max; [apply anon_named_hoare | apply mhoare_ret; auto]. } intros mmp _.
  eapply mhoare_bind; [apply chain_pred_hoare|]. intros cp _.
  eapply mhoare_bind; [apply anon_named_hoare|]. intros np' _.
  apply mhoare_ret. repeat apply all_rules_app; try assumption. repeat constructor.
Qed.

Lemma chain_translation_hoare rd rule agg : rom rule ->
  mhoare (chain_translation rd rule agg) (fun r => Forall rom (fst r)).
Proof.
  intros Hr. assert (Hsame: Forall rom [rule]) by (constructor; [exact Hr | constructor]).
  unfold chain_translation. destruct agg as [s [t|t gs|b|lg f es rg|lg es rg|t]]; try apply mhoare_raise.
  destruct es as [|elem [|? ?]]; [apply mhoare_raise | | apply mhoare_ret; exact Hsame].
  destruct (fst elem) as [|weight ?]; [apply mhoare_raise|].
  cbv zeta. destruct (split_body _ _ _) as [[rv0 lwv] lwo].
  eapply mhoare_bind with (P := fun _ => True).
  { intros st st' r E. destruct (add_domain_rule _ _ _) eqn:A; injection E as <- <-;
      try (split; [apply dext_refl | auto]). split; [eapply add_domain_rule_dext; exact A | auto]. }
  intros _ _. eapply mhoare_bind; [apply mget_hoare|]. intros st _.
  destruct (negb _); [apply mhoare_ret; exact Hsame|].
  eapply mhoare_bind; [apply create_aggregate_replacement_hoare|]. intros ret Hret.
  apply mhoare_ret. simpl. apply Forall_app. split; [apply all_rules_rom; exact Hret|].
  constructor; [unfold rom; rewrite set_body_kind; exact Hr | constructor].
Qed.

Lemma process_rule_hoare rd rule : rom rule -> mhoare (process_rule rd rule) (fun r => Forall rom (fst r)).
Proof.
  intros Hr. assert (Hsame: Forall rom [rule]) by (constructor; [exact Hr | constructor]).
  unfold process_rule. destruct (minmax_agg _) as [agg|]; [| apply mhoare_ret; exact Hsame].
  destruct agg as [s [t|t gs|b|lg f es rg|lg es rg|t]]; try (apply mhoare_ret; exact Hsame).
  eapply mhoare_bind; [apply mget_hoare|]. intros st _.
  eapply mhoare_bind; [apply mhoare_lift with (P := fun _ => True); auto|]. intros b _.
  destruct (negb b); [apply mhoare_ret; exact Hsame|].
  destruct rg; [apply chain_translation_hoare; exact Hr|].
  destruct lg as [[c t]|]; [| apply mhoare_raise].
  destruct (simple_case s f c); [| apply chain_translation_hoare; exact Hr].
  eapply mhoare_bind with (P := Forall rom).
  - apply mhoare_lift. intros l E. eapply simple_translation_rom; eassumption.
  - intros l Hl. apply mhoare_ret. exact Hl.
Qed.

Lemma mm_execute_loop_hoare rd : forall prg acc,
  mhoare (execute_loop rd prg acc)
         (fun r => filter non_rule (fst (fst (fst r))) = filter non_rule (fst (fst (fst acc))) ++ filter non_rule prg).
Proof.
  induction prg as [|rule prg IH]; intros [[[ret mmps] mins] calls]; cbn [execute_loop].
  - apply mhoare_ret. simpl. rewrite app_nil_r. reflexivity.
  - destruct rule.
    + eapply mhoare_bind; [apply process_rule_hoare; unfold rom; simpl; lia|]. intros x Hx. cbv zeta.
      eapply mhoare_weaken; [apply IH|]. intros r ->. simpl. rewrite filter_app, (rom_filter _ Hx), app_nil_r. reflexivity.
    + eapply mhoare_bind; [apply process_rule_hoare; unfold rom; simpl; lia|]. intros x Hx. cbv zeta.
      eapply mhoare_weaken; [apply IH|]. intros r ->. simpl. rewrite filter_app, (rom_filter _ Hx), app_nil_r. reflexivity.
    + eapply mhoare_weaken; [apply IH|]. intros r ->. simpl. rewrite filter_app, <- app_assoc. reflexivity.
    + eapply mhoare_weaken; [apply IH|]. intros r ->. simpl. rewrite filter_app, <- app_assoc. reflexivity.
    + eapply mhoare_weaken; [apply IH|]. intros r ->. simpl. rewrite filter_app, <- app_assoc. reflexivity.
Qed.

(* ---------- second phase ---------- *)
Lemma create_replacement_hoare {C} (inj: lit -> C) mp minimize terms oldmax rest_cond :
  mhoare (create_replacement inj mp minimize terms oldmax rest_cond) (fun _ => True).
Proof.
  unfold create_replacement. destruct mp as [[aggtype translation] idx]. cbv zeta.
  eapply mhoare_bind; [apply chain_pred_hoare|]. intros cp _.
  eapply mhoare_bind; [apply mhoare_lift with (P := fun _ => True); auto|]. intros oargs _.
  eapply mhoare_bind; [apply mhoare_lift with (P := fun _ => True); auto|]. intros na0 _.
  destruct (all_some _); [| apply mhoare_raise].
  eapply mhoare_bind; [apply predicate__hoare|]. intros dp _.
  eapply mhoare_bind; [apply anon_named_hoare|]. intros np _.
  eapply mhoare_bind with (P := fun _ => True); [destruct (is_fmax aggtype); apply anon_named_hoare|]. intros mmp _.
  apply mhoare_ret. auto.
Qed.

Lemma replace_results_in_minimize_hoare mmps mins stm : kind stm = 1 ->
  mhoare (replace_results_in_minimize mmps mins stm) (Forall rom).
Proof.
  intros Hk. assert (Hsame: Forall rom [stm]) by (constructor; [unfold rom; lia | constructor]).
  unfold replace_results_in_minimize. destruct stm; try discriminate.
  destruct mmps as [|m0 mmps']; [apply mhoare_ret; exact Hsame|].
  cbv zeta. destruct (simple_weight w) as [[varname minimize]|]; [| apply mhoare_ret; exact Hsame].
  match goal with |- context [if ?u then None else ?f] => destruct (if u then None else f) as [mp|] end;
    [| apply mhoare_ret; exact Hsame].
  destruct (split_conditions _ _ _) as [oldmax rest_cond].
  destruct oldmax as [om|]; [| apply mhoare_raise].
  destruct (negb _); [apply mhoare_ret; exact Hsame|].
  eapply mhoare_bind; [apply create_replacement_hoare|]. intros l _.
  apply mhoare_ret. apply Forall_map. apply Forall_forall. intros x _. unfold rom. simpl. lia.
Qed.

Lemma mhoare_any {A} (m: M A) : (forall st st' r, m st = (st', r) -> dext st st') -> mhoare m (fun _ => True).
Proof. intros H st st' r E. split; [eapply H; exact E | auto]. Qed.

Lemma replace_sum_elem_hoare mmps elem rest : mhoare (replace_results_in_sum_agg_elem mmps elem rest) (fun _ => True).
Proof.
  unfold replace_results_in_sum_agg_elem. destruct (fst elem); [apply mhoare_raise|].
  destruct (split_element _ _ _) as [[old_max mp] rest_cond].
  destruct mp; [| apply mhoare_ret; auto]. destruct old_max; [| apply mhoare_raise].
  destruct (simple_weight _) as [[v mi]|]; [| apply mhoare_ret; auto].
  destruct (negb _); [apply mhoare_ret; auto|].
  eapply mhoare_bind; [apply create_replacement_hoare|]. intros ? _. apply mhoare_ret. auto.
Qed.

Lemma replace_sum_body_hoare mmps : forall body, mhoare (replace_sum_body mmps body) (fun _ => True).
Proof.
  induction body as [|b r IH]; simpl; [apply mhoare_ret; auto|].
  eapply mhoare_bind with (P := fun _ => True).
  - destruct b as [[s [t|t gs|bb|lg f es rg|lg es rg|t]]|l c]; try (apply mhoare_ret; auto).
    destruct (is_sum_lit _); [| apply mhoare_ret; auto].
    eapply mhoare_bind with (P := fun _ => True); [| intros; apply mhoare_ret; auto].
    unfold replace_results_in_sum_agg. eapply mhoare_bind with (P := fun _ => True); [| intros; apply mhoare_ret; auto].
    eapply mhoare_true. apply (mhoare_mconcat _ (fun _ => True)). intros x _.
    eapply mhoare_weaken; [apply replace_sum_elem_hoare|]. intros a _. apply Forall_forall. auto.
  - intros b' _. eapply mhoare_bind; [apply IH|]. intros r' _. apply mhoare_ret. auto.
Qed.

Lemma replace_results_in_x_hoare mmps mins prg :
  mhoare (replace_results_in_x mmps mins prg) (fun out => filter non_rule out = filter non_rule prg).
Proof.
  unfold replace_results_in_x. apply mhoare_mconcat_blk. intros stm _. unfold pres_blk. destruct stm.
  - destruct (existsb is_sum_lit b); [| apply mhoare_ret; reflexivity].
    unfold replace_results_in_sum. eapply mhoare_bind; [apply replace_sum_body_hoare|]. intros b' _.
    apply mhoare_ret. reflexivity.
  - eapply mhoare_weaken; [apply replace_results_in_minimize_hoare; reflexivity|].
    intros l Hl. rewrite (rom_filter _ Hl). reflexivity.
  - apply mhoare_ret. reflexivity.
  - apply mhoare_ret. reflexivity.
  - apply mhoare_ret. reflexivity.
Qed.

Lemma mm_execute_m_hoare rd prg : mhoare (execute_m rd prg) (fun out => filter non_rule out = filter non_rule prg).
Proof.
  unfold execute_m, phase1. eapply mhoare_bind; [apply mm_execute_loop_hoare|].
  intros [[[ret mmps] mins] calls] H. simpl in H. rewrite <- H. apply replace_results_in_x_hoare.
Qed.

Theorem minmax_execute_passthrough : forall ctor_prg ins prg out,
  MinMax.mm_execute ctor_prg ins prg = Ok out -> filter non_rule out = filter non_rule prg.
Proof.
  intros ctor_prg ins prg out E. unfold mm_execute in E. destruct (negb _); [discriminate|]. rb E.
  unfold run in E. destruct (execute_m (fst x) prg (snd x)) as [st' r] eqn:X. simpl in E. subst r.
  destruct (mm_execute_m_hoare _ _ _ _ _ X) as [_ H]. apply H. reflexivity.
Qed.

Theorem minmax_execute_names : forall ctor_prg ins prg rd st st' r,
  mm_init ctor_prg ins = Ok (rd, st) -> execute_m rd prg st = (st', r) ->
  names_ext (init_names ctor_prg ins) (unique_names st) /\ names_ext (unique_names st) (unique_names st') /\
  incl (known (init_names ctor_prg ins)) (known (unique_names st')).
Proof.
  intros ctor_prg ins prg rd st st' r E X. unfold mm_init in E. destruct (negb _); [discriminate|]. rb E.
  injection E as <- <-. apply dp_init_names_ext in E0.
  destruct (mm_execute_m_hoare _ _ _ _ _ X) as [D _]. split; [exact E0|]. split; [exact D|].
  apply names_ext_incl. exact (names_ext_trans _ _ _ E0 D).
Qed.

End PtMinMax.

Module PtApi.
Import PtDep PtUnused PtDup PtSym PtInline PtSum PtMinMax.
(* ====================================================================================== *)
(** * 9. The pipeline of ngo.api.optimize *)

Lemma filter_strict_of_non_rule l l' :
  filter non_rule l = filter non_rule l' -> filter non_rule_strict l = filter non_rule_strict l'.
Proof.
  intros E. rewrite <- (filter_filter_keep non_rule_strict non_rule l), <- (filter_filter_keep non_rule_strict non_rule l');
    try (intros s; apply strict_non_rule). rewrite E. reflexivity.
Qed.

Lemma Forall2_pres_strict l l' : Forall2 (pres non_rule) l l' -> filter non_rule_strict l' = filter non_rule_strict l.
Proof. intros H. apply filter_strict_of_non_rule. apply (Forall2_pres_filter _ kind_non_rule). exact H. Qed.

(* ---------- preprocess: #show p/n. and opaque statements are never touched ---------- *)
Lemma unpool_stmt_kind s q : Normalize.unpool_stmt s = Ok q ->
  Forall (fun s' => kind s' = kind s) q /\ (non_rule_strict s = true -> q = [s]).
Proof.
  unfold Normalize.unpool_stmt. destruct (Normalize.unpool_opaque s); [discriminate|]. intros E. injection E as <-.
  destruct s; simpl; (split; [| try discriminate; auto]); apply Forall_forall; intros s' I'.
  - apply NormalizeSpec.in_cross2 in I'. destruct I' as [b' [h' ->]]. reflexivity.
  - apply in_flat_map in I'. destruct I' as [b' [_ I']]. apply in_flat_map in I'. destruct I' as [w' [_ I']].
    apply in_flat_map in I'. destruct I' as [p' [_ I']]. apply in_map_iff in I'. destruct I' as [ts' [<- _]]. reflexivity.
  - destruct I' as [<-|[]]. reflexivity.
  - apply NormalizeSpec.in_cross2 in I'. destruct I' as [b' [t' ->]]. reflexivity.
  - destruct I' as [<-|[]]. reflexivity.
Qed.

Lemma preprocess_stmt_blk st q : NormalizeSpec.preprocess_stmt st = Ok q -> pres_blk non_rule_strict st q.
Proof.
  intros E. apply NormalizeSpec.preprocess_stmt_ok in E. destruct E as (s1 & s2 & E1 & E2 & E3).
  assert (P1: pres non_rule_strict st s1).
  { unfold Normalize.replace_old_aggregates_stm in E1. destruct st; try (injection E1 as <-; apply pres_refl);
      rb E1; injection E1 as <-; split; (reflexivity || discriminate). }
  assert (P2: pres non_rule_strict s1 s2).
  { unfold Normalize.remove_bounds_stm in E2. destruct s1; try (injection E2 as <-; split; (reflexivity || discriminate || auto)).
    destruct (andb _ _); [discriminate|]. injection E2 as <-. apply pres_refl. }
  assert (P3: pres non_rule_strict s2 (Normalize.expand_comparisons s2)).
  { destruct s2; simpl; split; (reflexivity || discriminate || auto). }
  pose proof (pres_trans _ _ _ _ P1 (pres_trans _ _ _ _ P2 P3)) as [Kq Iq].
  apply unpool_stmt_kind in E3. destruct E3 as [Hk Hi]. unfold pres_blk.
  destruct (non_rule_strict st) eqn:Ks.
  - rewrite (Iq eq_refl) in Hi. rewrite (Hi Ks). reflexivity.
  - simpl. rewrite Ks. apply filter_none. eapply Forall_impl; [| exact Hk]. intros s' E'.
    rewrite (kind_non_rule_strict s' st); [exact Ks | congruence].
Qed.

Theorem preprocess_passthrough_strict : forall prg pre,
  Normalize.preprocess prg = Ok pre -> filter non_rule_strict pre = filter non_rule_strict prg.
Proof.
  intros prg pre E. apply NormalizeSpec.preprocess_decompose_proof in E. destruct E as [Qs [F ->]].
  apply (Forall2_blk_filter non_rule_strict).
  clear - F. induction F; constructor; [apply preprocess_stmt_blk; assumption | assumption].
Qed.

(* ---------- the passes proved elsewhere ---------- *)
Lemma cleanup_execute_passthrough ins prg out :
  CleanupExecute.execute ins prg = Ok out -> filter non_rule out = filter non_rule prg.
Proof.
  unfold CleanupExecute.execute. intros E. rb E. apply CleanupSpec.passthrough_cleanup_proof in E.
  change CleanupSpec.non_rule with non_rule in E. rewrite E.
  apply (Forall2_pres_filter _ kind_non_rule). apply inline_arithmetic_pres. exact E0.
Qed.

Lemma projection_execute_passthrough ctor ins prg out :
  ProjectionExecute.execute ctor ins prg = Ok out -> filter non_rule out = filter non_rule prg.
Proof.
  unfold ProjectionExecute.execute, ProjectionExecute.execute_state. intros E. rb E. injection E as <-. rb E0.
  destruct x as [o st']. apply ProjectionSpec.execute_loop_trace in E0. destruct E0 as [blks [auxs [Htr ->]]].
  apply ProjectionSpec.trace_passthrough in Htr. destruct Htr as [H _]. simpl.
  assert (Hk: forall s, non_rule s = true -> ProjectionSpec.non_rule s = true) by (intros s; destruct s; intros Hs; (reflexivity || discriminate Hs)).
  rewrite <- (filter_filter_keep non_rule ProjectionSpec.non_rule _ Hk), H, (filter_filter_keep non_rule ProjectionSpec.non_rule _ Hk).
  apply (Forall2_pres_filter _ kind_non_rule). apply inline_arithmetic_pres. exact E.
Qed.

(* ---------- run_pass, one round, the loop ---------- *)
Theorem run_pass_passthrough : forall cls ins outs prg out,
  Api.run_pass cls ins outs prg = Ok out -> filter non_rule_strict out = filter non_rule_strict prg.
Proof.
  intros cls ins outs prg out E. unfold Api.run_pass in E.
  repeat match type of E with (if ?c then _ else _) = _ => destruct c end; try discriminate.
  - apply filter_strict_of_non_rule. eapply cleanup_execute_passthrough. exact E.
  - eapply unused_execute_passthrough. exact E.
  - apply filter_strict_of_non_rule. eapply projection_execute_passthrough. exact E.
  - apply filter_strict_of_non_rule. eapply dup_execute_passthrough. exact E.
  - apply filter_strict_of_non_rule. eapply symmetry_execute_passthrough. exact E.
  - apply filter_strict_of_non_rule. eapply minmax_execute_passthrough. exact E.
  - apply filter_strict_of_non_rule. eapply inline_run_execute_passthrough. exact E.
Qed.

(* except for UnusedTranslator every composed pass also leaves #show terms alone *)
Theorem run_pass_passthrough_show_terms : forall cls ins outs prg out,
  cls <> "UnusedTranslator"%string ->
  Api.run_pass cls ins outs prg = Ok out -> filter non_rule out = filter non_rule prg.
Proof.
  intros cls ins outs prg out N E. unfold Api.run_pass in E.
  destruct (String.eqb cls "CleanupTranslator"); [eapply cleanup_execute_passthrough; exact E|].
  destruct (String.eqb_spec cls "UnusedTranslator"); [contradiction|].
  repeat match type of E with (if ?c then _ else _) = _ => destruct c end; try discriminate.
  - eapply projection_execute_passthrough. exact E.
  - eapply dup_execute_passthrough. exact E.
  - eapply symmetry_execute_passthrough. exact E.
  - eapply minmax_execute_passthrough. exact E.
  - eapply inline_run_execute_passthrough. exact E.
Qed.

Definition same_strict (a b: list stmt) : Prop := filter non_rule_strict b = filter non_rule_strict a.

Theorem one_round_passthrough : forall enabled ins outs prg out,
  Api.one_round enabled ins outs prg = Ok out -> filter non_rule_strict out = filter non_rule_strict prg.
Proof.
  intros enabled ins outs prg out E. unfold Api.one_round in E. rb E.
  apply exline_arithmetic_pres in E. apply Forall2_pres_strict in E. rewrite E. clear E.
  apply (fold_result_inv _ same_strict) in E0.
  - destruct E0 as [a [Ea H]]. injection Ea as <-. exact H.
  - intros a. reflexivity.
  - intros a b c H1 H2. unfold same_strict in *. congruence.
  - intros r p a' _ E1. rb E1. exists x0. split; [exact E|].
    destruct (mem String.eqb (fst p) enabled); [eapply run_pass_passthrough; exact E1 | injection E1 as <-; reflexivity].
Qed.

Theorem optimize_loop_passthrough : forall fuel enabled ins outs prg out,
  Api.optimize_loop fuel enabled ins outs prg = Ok out -> filter non_rule_strict out = filter non_rule_strict prg.
Proof.
  induction fuel as [|f IH]; intros enabled ins outs prg out E; simpl in E; [discriminate|].
  rb E. apply one_round_passthrough in E0. destruct (list_eqb stmt_eqb x prg); [injection E as <-; exact E0|].
  apply IH in E. congruence.
Qed.

(* Api.optimize: the #show p/n. and the opaque statements (#const, #external, #program, #script,
   #theory, #heuristic, #edge, #project, #defined, comments) of the result are those of the source,
   unchanged and in order *)
Theorem optimize_passthrough : forall enabled ins outs prg out,
  Api.optimize enabled ins outs prg = Ok out ->
  (exists pre, Normalize.preprocess prg = Ok pre /\ filter non_rule_strict out = filter non_rule_strict pre) /\
  filter non_rule_strict out = filter non_rule_strict prg.
Proof.
  intros enabled ins outs prg out E. unfold Api.optimize, Api.optimize_fuel in E. rb E. rb E.
  apply optimize_loop_passthrough in E1. unfold Normalize.postprocess in E.
  apply inline_arithmetic_pres in E. apply Forall2_pres_strict in E.
  assert (H: filter non_rule_strict out = filter non_rule_strict x) by congruence.
  split; [exists x; split; assumption|]. rewrite H. apply preprocess_passthrough_strict. exact E0.
Qed.

(* ---------- without the trait "unused" also the #show terms survive the loop ---------- *)
Lemma pass_order_unused p : In p Cli.pass_order -> fst (snd p) = "UnusedTranslator"%string -> fst p = "unused"%string.
Proof.
  unfold Cli.pass_order. simpl. intros H E.
  repeat (destruct H as [<- | H]; [simpl in E; try discriminate E; try reflexivity|]). contradiction.
Qed.

Theorem one_round_passthrough_show_terms : forall enabled ins outs prg out,
  mem String.eqb "unused"%string enabled = false ->
  Api.one_round enabled ins outs prg = Ok out -> filter non_rule out = filter non_rule prg.
Proof.
  intros enabled ins outs prg out Hu E. unfold Api.one_round in E. rb E.
  apply exline_arithmetic_pres in E. apply (Forall2_pres_filter _ kind_non_rule) in E. rewrite E. clear E.
  apply (fold_result_inv _ (fun a b : list stmt => filter non_rule b = filter non_rule a)) in E0.
  - destruct E0 as [a [Ea H]]. injection Ea as <-. exact H.
  - intros a. reflexivity.
  - intros a b c H1 H2. congruence.
  - intros r p a' Hp E1. rb E1. exists x0. split; [exact E|].
    destruct (mem String.eqb (fst p) enabled) eqn:M; [| injection E1 as <-; reflexivity].
    eapply run_pass_passthrough_show_terms; [| exact E1].
    intros C. rewrite (pass_order_unused p Hp C) in M. congruence.
Qed.

Theorem optimize_passthrough_show_terms : forall enabled ins outs prg out,
  mem String.eqb "unused"%string enabled = false ->
  Api.optimize enabled ins outs prg = Ok out ->
  exists pre, Normalize.preprocess prg = Ok pre /\ filter non_rule out = filter non_rule pre.
Proof.
  intros enabled ins outs prg out Hu E. unfold Api.optimize, Api.optimize_fuel in E. rb E. rb E.
  exists x. split; [exact E0|].
  unfold Normalize.postprocess in E. apply inline_arithmetic_pres in E.
  apply (Forall2_pres_filter _ kind_non_rule) in E. rewrite E. clear E E0.
  revert x x0 E1. generalize 30. induction n as [|f IH]; intros x x0 E; simpl in E; [discriminate|].
  rb E. apply (one_round_passthrough_show_terms _ _ _ _ _ Hu) in E0.
  destruct (list_eqb stmt_eqb x1 x); [injection E as <-; exact E0|]. apply IH in E. congruence.
Qed.

(* ---------- with "unused": the #show terms survive when the atoms of their bodies are declared ---------- *)
Theorem run_pass_passthrough_declared : forall cls ins outs prg out,
  shows_declared ins outs prg ->
  Api.run_pass cls ins outs prg = Ok out -> filter non_rule out = filter non_rule prg.
Proof.
  intros cls ins outs prg out G E. destruct (String.eqb_spec cls "UnusedTranslator") as [-> | N].
  - unfold Api.run_pass in E. simpl in E. eapply unused_execute_passthrough_declared; eassumption.
  - eapply run_pass_passthrough_show_terms; eassumption.
Qed.

Theorem one_round_passthrough_declared : forall enabled ins outs prg out,
  shows_declared ins outs prg ->
  Api.one_round enabled ins outs prg = Ok out -> filter non_rule out = filter non_rule prg.
Proof.
  intros enabled ins outs prg out G E. unfold Api.one_round in E. rb E.
  apply exline_arithmetic_pres in E. apply (Forall2_pres_filter _ kind_non_rule) in E. rewrite E. clear E.
  apply (fold_result_inv _ (fun a b : list stmt => shows_declared ins outs a -> filter non_rule b = filter non_rule a)) in E0.
  - destruct E0 as [a [Ea H]]. injection Ea as <-. apply H. exact G.
  - intros a _. reflexivity.
  - intros a b c H1 H2 Ga. rewrite H2; [apply H1; exact Ga|]. eapply shows_declared_transfer; [apply H1; exact Ga | exact Ga].
  - intros r p a' Hp E1. rb E1. exists x0. split; [exact E|]. intros Gx.
    destruct (mem String.eqb (fst p) enabled) eqn:M; [| injection E1 as <-; reflexivity].
    eapply run_pass_passthrough_declared; eassumption.
Qed.

Theorem optimize_passthrough_declared : forall enabled ins outs prg out,
  Api.optimize enabled ins outs prg = Ok out ->
  exists pre, Normalize.preprocess prg = Ok pre /\
    (shows_declared ins outs pre -> filter non_rule out = filter non_rule pre).
Proof.
  intros enabled ins outs prg out E. unfold Api.optimize, Api.optimize_fuel in E. rb E. rb E.
  exists x. split; [exact E0|]. intros G.
  unfold Normalize.postprocess in E. apply inline_arithmetic_pres in E.
  apply (Forall2_pres_filter _ kind_non_rule) in E. rewrite E. clear E E0.
  revert x x0 G E1. generalize 30. induction n as [|f IH]; intros x x0 G E; simpl in E; [discriminate|].
  rb E. apply (one_round_passthrough_declared _ _ _ _ _ G) in E0.
  destruct (list_eqb stmt_eqb x1 x); [injection E as <-; exact E0|].
  apply IH in E; [congruence|]. eapply shows_declared_transfer; eassumption.
Qed.

End PtApi.

(* ====================================================================================== *)
(** * 10. Summary: the headline statements at top level *)

(* --- UnusedTranslator --- *)
Theorem passthrough_unused_proof : forall ctor_prg ins outs prg out,
  UnusedExecute.execute ctor_prg ins outs prg = Ok out ->
  filter non_rule_strict out = filter non_rule_strict prg.
Proof. exact PtUnused.unused_execute_passthrough. Qed.

Theorem passthrough_unused_core_proof : forall ctor_prg ins outs prg out,
  Unused.execute_core ctor_prg ins outs prg = Ok out ->
  filter non_rule_strict out = filter non_rule_strict prg.
Proof. exact PtUnused.unused_execute_core_passthrough. Qed.

(* the full statement is false: a #show term is rewritten *)
Theorem passthrough_unused_show_term_refuted :
  exists ctor ins outs prg out, UnusedExecute.execute ctor ins outs prg = Ok out /\
    filter non_rule out <> filter non_rule prg.
Proof. exact PtUnused.unused_passthrough_false_for_show_term. Qed.

Theorem passthrough_unused_declared_proof : forall ins outs ctor_prg prg out,
  PtUnused.shows_declared ins outs prg ->
  UnusedExecute.execute ctor_prg ins outs prg = Ok out -> filter non_rule out = filter non_rule prg.
Proof. exact PtUnused.unused_execute_passthrough_declared. Qed.

Theorem shows_declared_auto_detect_proof : forall ins prg, PtUnused.shows_declared ins (auto_detect_output prg) prg.
Proof. exact PtUnused.shows_declared_auto_detect. Qed.

Theorem passthrough_unused_auto_proof : forall ctor_prg ins prg out,
  UnusedExecute.execute ctor_prg ins (auto_detect_output prg) prg = Ok out -> filter non_rule out = filter non_rule prg.
Proof. exact PtUnused.unused_execute_passthrough_auto. Qed.

Theorem fresh_unused_proof : forall ctor_prg ins outs prg out st',
  UnusedExecute.execute_st ins outs (Unused.init_state ctor_prg ins) prg = Ok (out, st') ->
  let invented := map PtUnused.nn_pred (Unused.new_names st') in
  run_requests (init_names ctor_prg ins) (map PtUnused.nn_req (Unused.new_names st')) = Ok (Unused.unique_names st', invented) /\
  NoDup invented /\
  (forall p, In p invented ->
     ~ In p (known (init_names ctor_prg ins)) /\ ~ In p ins /\
     (forall s, In s ctor_prg -> ~ In p (map snd (predicates all_signs s)))) /\
  incl invented (known (Unused.unique_names st')).
Proof. exact PtUnused.unused_execute_fresh. Qed.

(* --- LiteralDuplicationTranslator --- *)
Theorem passthrough_duplication_proof : forall prg ins out,
  Duplication.execute prg ins = Ok out -> filter non_rule out = filter non_rule prg.
Proof. exact PtDup.dup_execute_passthrough. Qed.

Theorem duplication_shape_fresh_proof : forall ctor_prg ins prg out,
  Duplication.execute2 ctor_prg ins prg = Ok out ->
  filter non_rule out = filter non_rule prg /\
  exists auxs names names',
    names_ext (init_names ctor_prg ins) names /\ names_log names auxs names' /\ PtDup.shuffle auxs prg out /\
    NoDup auxs /\
    (forall p, In p auxs ->
       ~ In p (known (init_names ctor_prg ins)) /\ ~ In p ins /\
       (forall s, In s ctor_prg -> ~ In p (map snd (predicates all_signs s)))).
Proof. exact PtDup.dup_execute2_spec. Qed.

(* --- SymmetryTranslator --- *)
Theorem passthrough_symmetry_proof : forall ctor_prg ins prg out,
  Symmetry.execute ctor_prg ins prg = Ok out -> filter non_rule out = filter non_rule prg.
Proof. exact PtSym.symmetry_execute_passthrough. Qed.

Theorem names_symmetry_proof : forall ctor_prg ins prg st st' r,
  Symmetry.init_translator ctor_prg ins = Ok st -> Symmetry.execute_m prg st = (st', r) ->
  names_ext (init_names ctor_prg ins) (Dependency.unique_names st) /\
  names_ext (Dependency.unique_names st) (Dependency.unique_names st') /\
  incl (known (init_names ctor_prg ins)) (known (Dependency.unique_names st')).
Proof. exact PtSym.symmetry_execute_names. Qed.

(* --- InlineTranslator --- *)
Theorem passthrough_inline_proof : forall ctor_prg ins outs prg out,
  Inline.run_execute ctor_prg ins outs prg = Ok out -> filter non_rule out = filter non_rule prg.
Proof. exact PtInline.inline_run_execute_passthrough. Qed.

Theorem names_inline_proof : forall ctor_prg ins outs st,
  Inline.it_init ctor_prg ins outs = Ok st -> names_ext (init_names ctor_prg ins) (Dependency.unique_names (Inline.dom st)).
Proof. exact PtInline.inline_init_names. Qed.

(* --- SumAggregator --- *)
Theorem passthrough_sumchains_proof : forall prg ins order out,
  SumChains.execute prg ins order = Ok out -> filter non_rule out = filter non_rule prg.
Proof. exact PtSum.sum_execute_passthrough. Qed.

Theorem passthrough_sumchains_cells_proof : forall prg ins order cells out,
  SumChains.execute_cells prg ins order cells = Ok out -> filter non_rule out = filter non_rule prg.
Proof. exact PtSum.sum_execute_cells_passthrough. Qed.

Theorem names_sumchains_proof : forall prg ins order sa cells st r,
  SumChains.sa_init prg ins order = Ok sa -> SumChains.execute_on sa prg cells = (st, r) ->
  names_ext (init_names prg ins) (Dependency.unique_names (SumChains.sa_dp sa)) /\
  names_ext (Dependency.unique_names (SumChains.sa_dp sa)) (Dependency.unique_names st) /\
  incl (known (init_names prg ins)) (known (Dependency.unique_names st)).
Proof. exact PtSum.sum_execute_names. Qed.

(* --- MinMaxAggregator --- *)
Theorem passthrough_minmax_proof : forall ctor_prg ins prg out,
  MinMax.mm_execute ctor_prg ins prg = Ok out -> filter non_rule out = filter non_rule prg.
Proof. exact PtMinMax.minmax_execute_passthrough. Qed.

Theorem names_minmax_proof : forall ctor_prg ins prg rd st st' r,
  MinMax.mm_init ctor_prg ins = Ok (rd, st) -> MinMax.execute_m rd prg st = (st', r) ->
  names_ext (init_names ctor_prg ins) (Dependency.unique_names st) /\
  names_ext (Dependency.unique_names st) (Dependency.unique_names st') /\
  incl (known (init_names ctor_prg ins)) (known (Dependency.unique_names st')).
Proof. exact PtMinMax.minmax_execute_names. Qed.

(* --- DomainPredicates --- *)
Theorem names_dp_init_proof : forall un prg st,
  Dependency.dp_init un prg = Ok st -> names_ext un (Dependency.unique_names st).
Proof. exact PtDep.dp_init_names_ext. Qed.

(* --- the pipeline --- *)
Theorem passthrough_preprocess_proof : forall prg pre,
  Normalize.preprocess prg = Ok pre -> filter non_rule_strict pre = filter non_rule_strict prg.
Proof. exact PtApi.preprocess_passthrough_strict. Qed.

Theorem passthrough_run_pass_proof : forall cls ins outs prg out,
  Api.run_pass cls ins outs prg = Ok out -> filter non_rule_strict out = filter non_rule_strict prg.
Proof. exact PtApi.run_pass_passthrough. Qed.

Theorem passthrough_run_pass_show_terms_proof : forall cls ins outs prg out,
  cls <> "UnusedTranslator"%string ->
  Api.run_pass cls ins outs prg = Ok out -> filter non_rule out = filter non_rule prg.
Proof. exact PtApi.run_pass_passthrough_show_terms. Qed.

Theorem passthrough_optimize_proof : forall enabled ins outs prg out,
  Api.optimize enabled ins outs prg = Ok out ->
  (exists pre, Normalize.preprocess prg = Ok pre /\ filter non_rule_strict out = filter non_rule_strict pre) /\
  filter non_rule_strict out = filter non_rule_strict prg.
Proof. exact PtApi.optimize_passthrough. Qed.

Theorem passthrough_optimize_show_terms_proof : forall enabled ins outs prg out,
  mem String.eqb "unused"%string enabled = false ->
  Api.optimize enabled ins outs prg = Ok out ->
  exists pre, Normalize.preprocess prg = Ok pre /\ filter non_rule out = filter non_rule pre.
Proof. exact PtApi.optimize_passthrough_show_terms. Qed.

Theorem passthrough_optimize_declared_proof : forall enabled ins outs prg out,
  Api.optimize enabled ins outs prg = Ok out ->
  exists pre, Normalize.preprocess prg = Ok pre /\
    (PtUnused.shows_declared ins outs pre -> filter non_rule out = filter non_rule pre).
Proof. exact PtApi.optimize_passthrough_declared. Qed.

(* WITNESS (real ngo agrees: `s(1). s(2). #show a : s(1;2).` is printed as `#show a : s. #show a : s.`):
   the hypothesis of passthrough_optimize_declared_proof is about preprocess(prg), not prg.  A pooled atom in
   a #show-term body is invisible to auto_detect_output (no predicate is collected from a Pool node), preprocess
   unpools it, and UnusedTranslator then deletes the facts and the arguments: `a` is not shown any more. *)
Local Open Scope string_scope.
Definition pool_s1 : stmt := SRule 1 (HLit (Lit NoSign (ASym (TFun "s" [TSym (SNum 1)] false)))) [].
Definition pool_s2 : stmt := SRule 2 (HLit (Lit NoSign (ASym (TFun "s" [TSym (SNum 2)] false)))) [].
Definition pool_show : stmt :=
  SShowTerm (TFun "a" [] false)
    [BLit (Lit NoSign (ASym (TPool [TFun "s" [TSym (SNum 1)] false; TFun "s" [TSym (SNum 2)] false])))].
Example optimize_pooled_show_term_rewritten :
  let prg := [pool_s1; pool_s2; pool_show] in
  (auto_detect_output prg = []) /\
  (Api.optimize ["unused"] (auto_detect_input prg) (auto_detect_output prg) prg
   = Ok [SShowTerm (TFun "a" [] false) [BLit (Lit NoSign (ASym (TFun "s" [] false)))];
         SShowTerm (TFun "a" [] false) [BLit (Lit NoSign (ASym (TFun "s" [] false)))]]).
Proof. split; vm_compute; reflexivity. Qed.
Local Close Scope string_scope.

(* ====================================================================================== *)
Print Assumptions passthrough_unused_proof.
Print Assumptions passthrough_unused_core_proof.
Print Assumptions passthrough_unused_show_term_refuted.
Print Assumptions passthrough_unused_declared_proof.
Print Assumptions shows_declared_auto_detect_proof.
Print Assumptions passthrough_unused_auto_proof.
Print Assumptions fresh_unused_proof.
Print Assumptions passthrough_duplication_proof.
Print Assumptions duplication_shape_fresh_proof.
Print Assumptions passthrough_symmetry_proof.
Print Assumptions names_symmetry_proof.
Print Assumptions passthrough_inline_proof.
Print Assumptions names_inline_proof.
Print Assumptions passthrough_sumchains_proof.
Print Assumptions passthrough_sumchains_cells_proof.
Print Assumptions names_sumchains_proof.
Print Assumptions passthrough_minmax_proof.
Print Assumptions names_minmax_proof.
Print Assumptions names_dp_init_proof.
Print Assumptions passthrough_preprocess_proof.
Print Assumptions passthrough_run_pass_proof.
Print Assumptions passthrough_run_pass_show_terms_proof.
Print Assumptions passthrough_optimize_proof.
Print Assumptions passthrough_optimize_show_terms_proof.
Print Assumptions passthrough_optimize_declared_proof.
Print Assumptions names_log_fresh.
Print Assumptions optimize_pooled_show_term_rewritten.
