(* The grouped version of Link/ChainSem.v: the domain predicate has group arguments in front of the value,

      mn(Gs,X)   :- X = #min { L : dom(Gs,L) }; dom(Gs,_).
      nx(Gs,P,N) :- mn(Gs,P);   dom(Gs,N); N > P; not dom(Gs,B) : dom(Gs,B), P < B < N.
      nx(Gs,P,N) :- nx(Gs,_,P); dom(Gs,N); N > P; not dom(Gs,B) : dom(Gs,B), P < B < N.

   (Gs = a vector of distinct group variables; Model.Dependency.create_next_pred_for_annotated_pred for the
   annotated predicate (dom/(k+1), [k]) at position k, where Gs = G0 .. G(k-1)).  For every group vector g:
   mn(g,.) holds exactly for the least v with dom(g,v), and nx(g,.,.) is the successor relation of the
   sorted set { v | dom(g,v) }.  With Gs = [] the rules are (convertible to) those of ChainSem.v.

   Only ONE anonymous variable per atom occurs here.  With two or more annotated positions the generator
   writes dom(Gs,_,_,L): Sem/Sat.v reads "_" as an ordinary variable named "_", so both positions would be
   forced to carry the same value (clingo: two fresh variables); that case is deliberately not covered.
   Axiom used: Classical_Prop.classic. *)
From Coq Require Import List String ZArith Bool Classical Sorted Permutation.
From NGO Require Import Syntax.Ast Sem.Sym Sem.Sat.
From NGO Require Meta.Chain Meta.Count Link.Ground Link.CleanupSpec.
From NGO Require Import Gen.Names Model.Globals Model.Dependency Link.ChainSem.
Import ListNotations.
Open Scope string_scope.
Open Scope list_scope.

(* ---------- lists of variables ---------- *)
Lemma eval_list_vars s xs : eval_list s (map TVar xs) = Some (map s xs).
Proof. induction xs as [|x xs IH]; simpl; [reflexivity|]. rewrite IH. reflexivity. Qed.

Lemma vars_map_TVar xs : flat_map vars_term (map TVar xs) = xs.
Proof. induction xs as [|x xs IH]; simpl; [reflexivity|]. rewrite IH. reflexivity. Qed.

Lemma map_agree (s th: subst) xs : (forall x, In x xs -> s x = th x) -> map th xs = map s xs.
Proof.
  induction xs as [|x xs IH]; intros A; simpl; [reflexivity|].
  rewrite (A x (or_introl eq_refl)), IH; [reflexivity|]. intros y Hy. apply A. right. exact Hy.
Qed.

Lemma app_eq_len {A} (a a' b b': list A) : List.length a = List.length a' -> a ++ b = a' ++ b' -> a = a' /\ b = b'.
Proof.
  revert a'. induction a as [|x a IH]; intros [|y a'] L E; try discriminate.
  - split; [reflexivity|exact E].
  - simpl in *. injection E as -> E. injection L as L. destruct (IH a' L E) as [-> ->]. split; reflexivity.
Qed.

(* association lookup, for building a substitution with prescribed values on the group variables *)
Fixpoint lookup (x: string) (xs: list string) (vs: list sym) : sym :=
  match xs, vs with
  | y :: xs', v :: vs' => if String.eqb x y then v else lookup x xs' vs'
  | _, _ => SInf
  end.
Lemma map_lookup xs : NoDup xs -> forall vs, List.length vs = List.length xs -> map (fun x => lookup x xs vs) xs = vs.
Proof.
  induction 1 as [|y xs N ND IH]; intros [|v vs] L; try discriminate; [reflexivity|].
  simpl. rewrite String.eqb_refl. f_equal. injection L as L.
  transitivity (map (fun x => lookup x xs vs) xs); [|exact (IH vs L)].
  apply map_ext_in. intros x Hx. destruct (String.eqb_spec x y) as [->|_]; [contradiction|reflexivity].
Qed.

Section Grouped.
Variable sym_lt : sym -> sym -> Prop.
Notation lit_sat := (lit_sat sym_lt).
Notation lits_sat := (lits_sat sym_lt).
Notation bodyelem_sat := (bodyelem_sat sym_lt).
Notation body_sat := (body_sat sym_lt).
Notation head_sat := (head_sat sym_lt).
Notation stmt_sat := (stmt_sat sym_lt).
Notation agg_holds := (agg_holds sym_lt).
Notation elems_tuples := (CleanupSpec.elems_tuples sym_lt).

(* the group variables: distinct, and different from the variables the generator uses *)
Variable gs : list string.
Hypothesis gs_nodup : NoDup gs.
Definition reserved : list string := ["P"; "N"; "B"; "X"; "L"; "_"].
Hypothesis gs_fresh : forall x, In x gs -> ~ In x reserved.

Lemma gs_not x : In x reserved -> ~ In x gs.
Proof. intros R Hx. exact (gs_fresh x Hx R). Qed.

(* n(Gs, xs) *)
Definition atg (sg: sign) (n: string) (xs: list string) : lit := Lit sg (ASym (TFun n (map TVar (gs ++ xs)) false)).

Lemma atg_sat G H T s sg n xs :
  lit_sat G H T s (atg sg n xs) <->
  apply_sign sg (H (n, map s gs ++ map s xs)) (T (n, map s gs ++ map s xs)).
Proof.
  unfold atg. rewrite lit_sat_fun, eval_list_vars, map_app. split.
  - intros [vs [E X]]. injection E as <-. exact X.
  - intro X. eexists. split; [reflexivity|exact X].
Qed.

Lemma gvars_atg sg n xs : gvars_lit (atg sg n xs) = gs ++ xs.
Proof. unfold atg. simpl. apply vars_map_TVar. Qed.

(* ---------- the rules ---------- *)
Definition agg_lit_g (f: aggfun) (dom: string) : lit :=
  Lit NoSign (ABodyAgg (Some (CEq, TVar "X")) f [([TVar "L"], [atg NoSign dom ["L"]])] None).
Definition min_body_g (dom: string) : list bodyelem := [BLit (agg_lit_g FMin dom); BLit (atg NoSign dom ["_"])].
Definition min_rule_g (dom mn: string) : stmt := SRule 1 (HLit (atg NoSign mn ["X"])) (min_body_g dom).
Definition max_rule_g (dom mx: string) : stmt :=
  SRule 1 (HLit (atg NoSign mx ["X"])) [BLit (agg_lit_g FMax dom); BLit (atg NoSign dom ["_"])].
Definition cmp_chain : lit := Lit NoSign (ACmp (TVar "P") [(CLt, TVar "B"); (CLt, TVar "N")]).
Definition between_cond_g (dom: string) : bodyelem := BCond (atg Neg dom ["B"]) [atg NoSign dom ["B"]; cmp_chain].
Definition next_tail_g (dom: string) : list bodyelem :=
  [BLit (atg NoSign dom ["N"]); BLit (Lit NoSign (ACmp (TVar "N") [(CGt, TVar "P")])); between_cond_g dom].
Definition base_body_g (dom mn: string) : list bodyelem := BLit (atg NoSign mn ["P"]) :: next_tail_g dom.
Definition step_body_g (dom nx: string) : list bodyelem := BLit (atg NoSign nx ["_"; "P"]) :: next_tail_g dom.
Definition next_rule_base_g (dom mn nx: string) : stmt := SRule 1 (HLit (atg NoSign nx ["P"; "N"])) (base_body_g dom mn).
Definition next_rule_step_g (dom nx: string) : stmt := SRule 1 (HLit (atg NoSign nx ["P"; "N"])) (step_body_g dom nx).

(* ---------- global variables ---------- *)
Definition G_base_g : list string := (gs ++ ["P"; "N"]) ++ (gs ++ ["P"]) ++ (gs ++ ["N"]) ++ ["N"; "P"].
Definition G_step_g : list string := (gs ++ ["P"; "N"]) ++ (gs ++ ["_"; "P"]) ++ (gs ++ ["N"]) ++ ["N"; "P"].
Definition G_min_g : list string := (gs ++ ["X"]) ++ ["X"] ++ (gs ++ ["_"]).

Lemma gvars_base_g dom mn nx : gvars_rule (HLit (atg NoSign nx ["P"; "N"])) (base_body_g dom mn) = G_base_g.
Proof.
  unfold gvars_rule, base_body_g, next_tail_g, between_cond_g, G_base_g.
  cbn [gvars_head flat_map gvars_bodyelem]. rewrite !gvars_atg. simpl. rewrite ?app_nil_r. reflexivity.
Qed.
Lemma gvars_step_g dom nx : gvars_rule (HLit (atg NoSign nx ["P"; "N"])) (step_body_g dom nx) = G_step_g.
Proof.
  unfold gvars_rule, step_body_g, next_tail_g, between_cond_g, G_step_g.
  cbn [gvars_head flat_map gvars_bodyelem]. rewrite !gvars_atg. simpl. rewrite ?app_nil_r. reflexivity.
Qed.
Lemma gvars_min_g dom mn : gvars_rule (HLit (atg NoSign mn ["X"])) (min_body_g dom) = G_min_g.
Proof.
  unfold gvars_rule, min_body_g, G_min_g.
  cbn [gvars_head flat_map gvars_bodyelem]. rewrite !gvars_atg. simpl. rewrite ?app_nil_r. reflexivity.
Qed.

Record G_ok (G: list string) : Prop := {
  ok_gs : forall x, In x gs -> In x G;
  ok_P : In "P" G;
  ok_N : In "N" G;
  ok_B : ~ In "B" G
}.
Lemma G_base_g_ok : G_ok G_base_g.
Proof.
  pose proof (gs_not "B") as NB. unfold G_base_g. split.
  - intros x Hx. apply in_or_app. left. apply in_or_app. left. exact Hx.
  - rewrite !in_app_iff. simpl. auto.
  - rewrite !in_app_iff. simpl. auto.
  - rewrite !in_app_iff. simpl. intros X. apply NB; [unfold reserved; simpl; auto|]. intuition discriminate.
Qed.
Lemma G_step_g_ok : G_ok G_step_g.
Proof.
  pose proof (gs_not "B") as NB. unfold G_step_g. split.
  - intros x Hx. apply in_or_app. left. apply in_or_app. left. exact Hx.
  - rewrite !in_app_iff. simpl. auto.
  - rewrite !in_app_iff. simpl. auto.
  - rewrite !in_app_iff. simpl. intros X. apply NB; [unfold reserved; simpl; auto|]. intuition discriminate.
Qed.
Lemma G_min_g_ok : (forall x, In x gs -> In x G_min_g) /\ ~ In "L" G_min_g.
Proof.
  pose proof (gs_not "L") as NL. unfold G_min_g. split.
  - intros x Hx. apply in_or_app. left. apply in_or_app. left. exact Hx.
  - rewrite !in_app_iff. simpl. intros X. apply NL; [unfold reserved; simpl; auto 10|]. intuition discriminate.
Qed.

Lemma map_upd_gs s x v : In x reserved -> map (upd s x v) gs = map s gs.
Proof.
  intros R. apply map_agree. intros y Hy. unfold upd.
  destruct (String.eqb_spec y x) as [->|_]; [exfalso; exact (gs_not x R Hy)|reflexivity].
Qed.
Lemma map_agree_gs G s th : (forall x, In x gs -> In x G) -> agree_on G s th -> map th gs = map s gs.
Proof. intros Sub Ag. apply map_agree. intros x Hx. apply Ag. apply Sub. exact Hx. Qed.

(* ---------- the next-rules ---------- *)
Definition no_between_g (T: interp) (dom: string) (g: list sym) (p n: sym) : Prop :=
  forall b, T (dom, g ++ [b]) -> sym_lt p b -> sym_lt b n -> False.

Lemma between_cond_g_sat G H T s dom : subi H T -> G_ok G ->
  (bodyelem_sat G H T s (between_cond_g dom) <-> no_between_g T dom (map s gs) (s "P") (s "N")).
Proof.
  intros HT [Ggs GP GN GB]. unfold between_cond_g, cmp_chain. simpl. split.
  - intros C b Tb L1 L2.
    destruct (C (upd s "B" b) (agree_upd G s "B" b GB)) as [_ C2].
    assert (Egs: map (upd s "B" b) gs = map s gs) by (apply map_upd_gs; unfold reserved; simpl; auto).
    assert (Cs: lits_sat G T T (upd s "B" b)
                  [atg NoSign dom ["B"]; Lit NoSign (ACmp (TVar "P") [(CLt, TVar "B"); (CLt, TVar "N")])]).
    { constructor; [|constructor; [|constructor]].
      - apply atg_sat. rewrite Egs. simpl. exact Tb.
      - apply between_sat. split; [exact L1|exact L2]. }
    apply C2 in Cs. apply atg_sat in Cs. rewrite Egs in Cs. simpl in Cs. apply Cs. exact Tb.
  - intros NB th Ag.
    assert (EP: th "P" = s "P") by (symmetry; apply Ag; exact GP).
    assert (EN: th "N" = s "N") by (symmetry; apply Ag; exact GN).
    assert (Egs: map th gs = map s gs) by (eapply map_agree_gs; eauto).
    split; intros Cs; exfalso; inversion Cs as [|? ? C1 Cs']; subst; inversion Cs' as [|? ? C2 _]; subst;
      apply atg_sat in C1; rewrite Egs in C1; simpl in C1; apply between_sat in C2; destruct C2 as [L1 L2];
      rewrite EP in L1; rewrite EN in L2.
    + exact (NB _ (HT _ C1) L1 L2).
    + exact (NB _ C1 L1 L2).
Qed.

Lemma next_tail_g_sat G H T s dom : subi H T -> G_ok G ->
  (body_sat G H T s (next_tail_g dom) <->
   H (dom, map s gs ++ [s "N"]) /\ sym_lt (s "P") (s "N") /\ no_between_g T dom (map s gs) (s "P") (s "N")).
Proof.
  intros HT OK. unfold next_tail_g, Sat.body_sat. split.
  - intros F. inversion F as [|? ? A F1]; subst. inversion F1 as [|? ? B F2]; subst. inversion F2 as [|? ? C _]; subst.
    split; [|split].
    + exact (proj1 (atg_sat G H T s NoSign dom ["N"]) A).
    + exact (proj1 (gt_sat sym_lt G H T s "N" "P") B).
    + exact (proj1 (between_cond_g_sat G H T s dom HT OK) C).
  - intros [A [B C]]. constructor; [|constructor; [|constructor; [|constructor]]].
    + exact (proj2 (atg_sat G H T s NoSign dom ["N"]) A).
    + exact (proj2 (gt_sat sym_lt G H T s "N" "P") B).
    + exact (proj2 (between_cond_g_sat G H T s dom HT OK) C).
Qed.

Lemma base_body_g_sat H T s dom mn : subi H T ->
  (body_sat G_base_g H T s (base_body_g dom mn) <->
   H (mn, map s gs ++ [s "P"]) /\ H (dom, map s gs ++ [s "N"]) /\ sym_lt (s "P") (s "N") /\
   no_between_g T dom (map s gs) (s "P") (s "N")).
Proof.
  intros HT. unfold base_body_g, Sat.body_sat. split.
  - intros F. inversion F as [|? ? A F1]; subst. split; [exact (proj1 (atg_sat G_base_g H T s NoSign mn ["P"]) A)|].
    exact (proj1 (next_tail_g_sat G_base_g H T s dom HT G_base_g_ok) F1).
  - intros [A B]. constructor; [exact (proj2 (atg_sat G_base_g H T s NoSign mn ["P"]) A)|].
    exact (proj2 (next_tail_g_sat G_base_g H T s dom HT G_base_g_ok) B).
Qed.
Lemma step_body_g_sat H T s dom nx : subi H T ->
  (body_sat G_step_g H T s (step_body_g dom nx) <->
   H (nx, map s gs ++ [s "_"; s "P"]) /\ H (dom, map s gs ++ [s "N"]) /\ sym_lt (s "P") (s "N") /\
   no_between_g T dom (map s gs) (s "P") (s "N")).
Proof.
  intros HT. unfold step_body_g, Sat.body_sat. split.
  - intros F. inversion F as [|? ? A F1]; subst. split; [exact (proj1 (atg_sat G_step_g H T s NoSign nx ["_"; "P"]) A)|].
    exact (proj1 (next_tail_g_sat G_step_g H T s dom HT G_step_g_ok) F1).
  - intros [A B]. constructor; [exact (proj2 (atg_sat G_step_g H T s NoSign nx ["_"; "P"]) A)|].
    exact (proj2 (next_tail_g_sat G_step_g H T s dom HT G_step_g_ok) B).
Qed.

(* a substitution with prescribed values: group variables |-> g, P |-> p, N |-> n, every other variable |-> q *)
Definition mk_subst (g: list sym) (p n q: sym) : subst :=
  fun x => if String.eqb x "P" then p else if String.eqb x "N" then n
           else if existsb (String.eqb x) gs then lookup x gs g else q.
Lemma mk_subst_gs g p n q : List.length g = List.length gs -> map (mk_subst g p n q) gs = g.
Proof.
  intros L. transitivity (map (fun x => lookup x gs g) gs); [|exact (map_lookup gs gs_nodup g L)]. apply map_ext_in. intros x Hx. unfold mk_subst.
  destruct (String.eqb_spec x "P") as [->|_]; [exfalso; apply (gs_not "P"); [unfold reserved; simpl; auto|exact Hx]|].
  destruct (String.eqb_spec x "N") as [->|_]; [exfalso; apply (gs_not "N"); [unfold reserved; simpl; auto|exact Hx]|].
  assert (E: existsb (String.eqb x) gs = true) by (apply existsb_exists; exists x; split; [exact Hx|apply String.eqb_refl]).
  rewrite E. reflexivity.
Qed.
Lemma mk_subst_other g p n q x : x <> "P" -> x <> "N" -> ~ In x gs -> mk_subst g p n q x = q.
Proof.
  intros NP NN Nx. unfold mk_subst.
  destruct (String.eqb_spec x "P") as [E|_]; [contradiction|]. destruct (String.eqb_spec x "N") as [E|_]; [contradiction|].
  destruct (existsb (String.eqb x) gs) eqn:E; [|reflexivity].
  apply existsb_exists in E. destruct E as [y [Hy E]]. apply String.eqb_eq in E. subst y. contradiction.
Qed.

Lemma base_closed_g T dom mn nx : stmt_sat T T (next_rule_base_g dom mn nx) ->
  forall g p n, List.length g = List.length gs ->
    T (mn, g ++ [p]) -> T (dom, g ++ [n]) -> sym_lt p n -> no_between_g T dom g p n -> T (nx, g ++ [p; n]).
Proof.
  unfold next_rule_base_g. intros R g p n L A B C D. simpl in R. rewrite gvars_base_g in R.
  set (s := mk_subst g p n SInf). destruct (R s) as [_ R2].
  assert (Eg: map s gs = g) by (apply mk_subst_gs; exact L).
  assert (Bd: body_sat G_base_g T T s (base_body_g dom mn)).
  { apply (base_body_g_sat T T s dom mn (subi_refl T)). rewrite Eg. repeat split; assumption. }
  apply R2 in Bd. change (lit_sat G_base_g T T s (atg NoSign nx ["P"; "N"])) in Bd.
  apply atg_sat in Bd. rewrite Eg in Bd. exact Bd.
Qed.
Lemma step_closed_g T dom nx : stmt_sat T T (next_rule_step_g dom nx) ->
  forall g q p n, List.length g = List.length gs ->
    T (nx, g ++ [q; p]) -> T (dom, g ++ [n]) -> sym_lt p n -> no_between_g T dom g p n -> T (nx, g ++ [p; n]).
Proof.
  unfold next_rule_step_g. intros R g q p n L A B C D. simpl in R. rewrite gvars_step_g in R.
  set (s := mk_subst g p n q). destruct (R s) as [_ R2].
  assert (Eg: map s gs = g) by (apply mk_subst_gs; exact L).
  assert (Eq: s "_" = q).
  { apply mk_subst_other; try discriminate. apply gs_not. unfold reserved. simpl. auto 10. }
  assert (Bd: body_sat G_step_g T T s (step_body_g dom nx)).
  { apply (step_body_g_sat T T s dom nx (subi_refl T)). rewrite Eg, Eq. repeat split; assumption. }
  apply R2 in Bd. change (lit_sat G_step_g T T s (atg NoSign nx ["P"; "N"])) in Bd.
  apply atg_sat in Bd. rewrite Eg in Bd. exact Bd.
Qed.

Definition least_in_g (T: interp) (dom: string) (g: list sym) (v: sym) : Prop :=
  T (dom, g ++ [v]) /\ forall w, T (dom, g ++ [w]) -> v = w \/ sym_lt v w.

Definition k2 : nat := List.length gs + 2.
Definition k1 : nat := List.length gs + 1.

Lemma derives_atg G s n xs g vs : List.length g = List.length gs ->
  head_derives G s (HLit (atg NoSign n xs)) (n, g ++ vs) -> map s gs = g /\ map s xs = vs.
Proof.
  intros L HD. unfold atg in HD. inversion HD as [? ? ? ? Ev|]; subst.
  rewrite eval_list_vars, map_app in Ev. injection Ev as Ev.
  apply app_eq_len in Ev; [exact Ev|]. rewrite map_length. symmetry. exact L.
Qed.

(* For every group vector g of the right length.  D = the sorted list of { v | dom(g,v) }. *)
Theorem next_rules_meaning_g dom mn nx P I T :
  sym_order sym_lt ->
  (forall line h b, In (SRule line h b) P -> gen_head h) ->
  In (next_rule_base_g dom mn nx) P -> In (next_rule_step_g dom nx) P ->
  (forall line h b, In (SRule line h b) P -> In (nx, k2) (head_names h) ->
     SRule line h b = next_rule_base_g dom mn nx \/ SRule line h b = next_rule_step_g dom nx) ->
  (forall vs, List.length vs = k2 -> ~ In (nx, vs) I) ->
  Sat.stable sym_lt P I T ->
  forall g, List.length g = List.length gs ->
  (forall v, T (mn, g ++ [v]) <-> least_in_g T dom g v) ->
  forall D, StronglySorted sym_lt D -> (forall v, T (dom, g ++ [v]) <-> In v D) ->
  forall p n, T (nx, g ++ [p; n]) <-> Chain.consecutive sym D p n.
Proof.
  intros Ord Frag Hb Hs Only NoF St g L Mn D SD DomD.
  pose proof St as [[PT _] _].
  assert (NB: forall p n, (forall b, In b D -> sym_lt p b -> sym_lt b n -> False) <-> no_between_g T dom g p n).
  { intros p n. split; intros X b Hb'; apply X; apply DomD; exact Hb'. }
  assert (Len2: forall p n, List.length (g ++ [p; n]) = k2).
  { intros p n. rewrite app_length. unfold k2. rewrite L. reflexivity. }
  apply (Chain.next_exact sym sym_lt (lt_irrefl _ Ord) (lt_trans _ Ord) D SD (fun p n => T (nx, g ++ [p; n]))).
  - intros p n Stp Hn Lt Nb. apply NB in Nb. apply DomD in Hn. destruct Stp as [Hh|[q Nq]].
    + apply (base_closed_g T dom mn nx (PT _ Hb) g p n L); try assumption.
      apply Mn. destruct (head_is_least sym_lt D p SD Hh) as [Hp Least]. split; [apply DomD; exact Hp|].
      intros w Tw. apply Least. apply DomD. exact Tw.
    + exact (step_closed_g T dom nx (PT _ Hs) g q p n L Nq Hn Lt Nb).
  - intros p n Tpn.
    destruct (supported_general sym_lt P I T (nx, g ++ [p; n]) Frag St Tpn) as [Hin|[line [h [b [s [Hin [HD Bd]]]]]]].
    + exfalso. exact (NoF _ (Len2 p n) Hin).
    + pose proof (head_derives_names _ _ _ _ _ HD) as Hn. rewrite Len2 in Hn.
      destruct (Only line h b Hin Hn) as [E|E]; injection E as _ -> ->.
      * rewrite gvars_base_g in HD, Bd. destruct (derives_atg _ _ _ _ _ _ L HD) as [Eg Ev].
        simpl in Ev. injection Ev as <- <-.
        apply (base_body_g_sat T T s dom mn (subi_refl T)) in Bd. rewrite Eg in Bd. destruct Bd as [A [B [C Dn]]].
        apply Mn in A. destruct A as [Tp Least]. split; [|split; [|split]].
        -- left. apply (least_is_head sym_lt Ord D _ SD); [apply DomD; exact Tp|].
           intros w Hw. apply Least. apply DomD. exact Hw.
        -- apply DomD. exact B.
        -- exact C.
        -- apply NB. exact Dn.
      * rewrite gvars_step_g in HD, Bd. destruct (derives_atg _ _ _ _ _ _ L HD) as [Eg Ev].
        simpl in Ev. injection Ev as <- <-.
        apply (step_body_g_sat T T s dom nx (subi_refl T)) in Bd. rewrite Eg in Bd. destruct Bd as [A [B [C Dn]]].
        split; [|split; [|split]].
        -- right. exists (s "_"). exact A.
        -- apply DomD. exact B.
        -- exact C.
        -- apply NB. exact Dn.
Qed.

(* ---------- the min-rule ---------- *)
Lemma dom_tuples_g G (X T: interp) s dom : (forall x, In x gs -> In x G) -> ~ In "L" G ->
  forall tv, elems_tuples G X T s [([TVar "L"], [atg NoSign dom ["L"]])] tv <->
             exists v, tv = [v] /\ X (dom, map s gs ++ [v]).
Proof.
  intros Ggs GL tv. unfold CleanupSpec.elems_tuples. split.
  - intros [[th [Ag [Ev [Lt _]]]]|[]]. simpl in Ev. injection Ev as <-.
    exists (th "L"). split; [reflexivity|].
    pose proof (proj1 (atg_sat G X T th NoSign dom ["L"]) Lt) as Y. rewrite (map_agree_gs G s th Ggs Ag) in Y. exact Y.
  - intros [v [-> Xv]]. left. exists (upd s "L" v). split; [apply agree_upd; exact GL|].
    split; [reflexivity|]. split; [|exact I].
    apply (proj2 (atg_sat G X T (upd s "L" v) NoSign dom ["L"])).
    rewrite map_upd_gs; [exact Xv|]. unfold reserved. simpl. auto 10.
Qed.

Definition min_or_sup_g (X: interp) (dom: string) (g: list sym) (v: sym) : Prop :=
  least_in_g X dom g v \/ ((forall w, ~ X (dom, g ++ [w])) /\ v = SSup).

Lemma min_agg_holds_g G X T s dom : (forall x, In x gs -> In x G) -> ~ In "L" G ->
  (agg_holds s (Some (CEq, TVar "X")) FMin None (elems_tuples G X T s [([TVar "L"], [atg NoSign dom ["L"]])]) <->
   min_or_sup_g X dom (map s gs) (s "X")).
Proof.
  intros Ggs GL. pose proof (dom_tuples_g G X T s dom Ggs GL) as TU.
  set (S := elems_tuples G X T s [([TVar "L"], [atg NoSign dom ["L"]])]) in *.
  unfold Sat.agg_holds, min_or_sup_g. simpl. split.
  - intros [v [AV [Gd _]]]. subst v. destruct AV as [[[tv [Stv Hd]] Mn]|[Emp V]].
    + left. apply TU in Stv. destruct Stv as [v [-> Xv]]. simpl in Hd. injection Hd as Hd. rewrite <- Hd in *.
      split; [exact Xv|]. intros w Tw. apply (Mn [w] w); [|reflexivity]. apply TU. exists w. split; [reflexivity|exact Tw].
    + right. split; [|exact V]. intros w Tw. apply (Emp [w]). apply TU. exists w. split; [reflexivity|exact Tw].
  - intros A. exists (s "X"). split; [|split; [reflexivity|exact I]]. destruct A as [[Tx Least]|[Emp V]].
    + left. split.
      * exists [s "X"]. split; [|reflexivity]. apply TU. exists (s "X"). split; [reflexivity|exact Tx].
      * intros tv w Stv Hd. apply TU in Stv. destruct Stv as [v [-> Xv]]. simpl in Hd. injection Hd as <-.
        apply Least. exact Xv.
    + right. split; [|exact V]. intros tv Stv. apply TU in Stv. destruct Stv as [v [_ Xv]]. exact (Emp v Xv).
Qed.

Lemma min_lit_g_sat G H T s dom : (forall x, In x gs -> In x G) -> ~ In "L" G ->
  (lit_sat G H T s (agg_lit_g FMin dom) <->
   min_or_sup_g H dom (map s gs) (s "X") /\ min_or_sup_g T dom (map s gs) (s "X")).
Proof.
  intros Ggs GL. unfold agg_lit_g. rewrite CleanupSpec.lit_sat_bodyagg. simpl apply_sign.
  rewrite (min_agg_holds_g G H T s dom Ggs GL), (min_agg_holds_g G T T s dom Ggs GL). reflexivity.
Qed.

Lemma min_body_g_sat H T s dom : subi H T ->
  (body_sat G_min_g H T s (min_body_g dom) <->
   least_in_g H dom (map s gs) (s "X") /\ least_in_g T dom (map s gs) (s "X") /\ H (dom, map s gs ++ [s "_"])).
Proof.
  intros HT. destruct G_min_g_ok as [Ggs GL]. unfold min_body_g, Sat.body_sat. split.
  - intros F. inversion F as [|? ? A F1]; subst. inversion F1 as [|? ? B _]; subst.
    pose proof (proj1 (atg_sat G_min_g H T s NoSign dom ["_"]) B) as B'. simpl in B'.
    destruct (proj1 (min_lit_g_sat G_min_g H T s dom Ggs GL) A) as [[LH|[Emp _]] [LT|[Emp' _]]].
    + split; [exact LH|]. split; [exact LT|exact B'].
    + exfalso. exact (Emp' _ (HT _ B')).
    + exfalso. exact (Emp _ B').
    + exfalso. exact (Emp _ B').
  - intros [LH [LT B]]. constructor; [|constructor; [|constructor]].
    + apply (proj2 (min_lit_g_sat G_min_g H T s dom Ggs GL)). split; left; assumption.
    + exact (proj2 (atg_sat G_min_g H T s NoSign dom ["_"]) B).
Qed.

Theorem min_rule_meaning_g dom mn P I T :
  (forall line h b, In (SRule line h b) P -> gen_head h) ->
  In (min_rule_g dom mn) P ->
  (forall line h b, In (SRule line h b) P -> In (mn, k1) (head_names h) -> SRule line h b = min_rule_g dom mn) ->
  (forall vs, List.length vs = k1 -> ~ In (mn, vs) I) ->
  Sat.stable sym_lt P I T ->
  forall g, List.length g = List.length gs ->
  forall v, T (mn, g ++ [v]) <-> least_in_g T dom g v.
Proof.
  intros Frag Hm Only NoF St g L v. pose proof St as [[PT _] _].
  assert (Len1: List.length (g ++ [v]) = k1) by (rewrite app_length; unfold k1; rewrite L; reflexivity).
  split.
  - intros Tv.
    destruct (supported_general sym_lt P I T (mn, g ++ [v]) Frag St Tv) as [Hin|[line [h [b [s [Hin [HD Bd]]]]]]].
    + exfalso. exact (NoF _ Len1 Hin).
    + pose proof (head_derives_names _ _ _ _ _ HD) as Hn. rewrite Len1 in Hn.
      pose proof (Only line h b Hin Hn) as E. injection E as _ -> ->.
      rewrite gvars_min_g in HD, Bd. destruct (derives_atg _ _ _ _ _ _ L HD) as [Eg Ev].
      simpl in Ev. injection Ev as <-.
      apply (min_body_g_sat T T s dom (subi_refl T)) in Bd. rewrite Eg in Bd. exact (proj1 Bd).
  - intros Lst. pose proof (PT _ Hm) as R. unfold min_rule_g in R. simpl in R. rewrite gvars_min_g in R.
    set (s := mk_subst g v v v). destruct (R s) as [_ R2].
    assert (Eg: map s gs = g) by (apply mk_subst_gs; exact L).
    assert (EX: s "X" = v).
    { apply mk_subst_other; try discriminate. apply gs_not. unfold reserved. simpl. auto 10. }
    assert (EU: s "_" = v).
    { apply mk_subst_other; try discriminate. apply gs_not. unfold reserved. simpl. auto 10. }
    assert (Bd: body_sat G_min_g T T s (min_body_g dom)).
    { apply (min_body_g_sat T T s dom (subi_refl T)). rewrite Eg, EX, EU. split; [exact Lst|]. split; [exact Lst|exact (proj1 Lst)]. }
    apply R2 in Bd. change (lit_sat G_min_g T T s (atg NoSign mn ["X"])) in Bd.
    apply atg_sat in Bd. rewrite Eg in Bd. simpl in Bd. rewrite EX in Bd. exact Bd.
Qed.

(* ---------- the three rules together ---------- *)
Theorem next_pred_meaning_g dom mn nx P I T :
  sym_order sym_lt ->
  (forall line h b, In (SRule line h b) P -> gen_head h) ->
  In (min_rule_g dom mn) P -> In (next_rule_base_g dom mn nx) P -> In (next_rule_step_g dom nx) P ->
  (forall line h b, In (SRule line h b) P -> In (mn, k1) (head_names h) -> SRule line h b = min_rule_g dom mn) ->
  (forall line h b, In (SRule line h b) P -> In (nx, k2) (head_names h) ->
     SRule line h b = next_rule_base_g dom mn nx \/ SRule line h b = next_rule_step_g dom nx) ->
  (forall vs, List.length vs = k1 -> ~ In (mn, vs) I) -> (forall vs, List.length vs = k2 -> ~ In (nx, vs) I) ->
  Sat.stable sym_lt P I T ->
  forall g, List.length g = List.length gs ->
  (exists l, forall v, T (dom, g ++ [v]) <-> In v l) ->
  exists D, StronglySorted sym_lt D /\ (forall v, T (dom, g ++ [v]) <-> In v D) /\
    (forall v, T (mn, g ++ [v]) <-> hd_error D = Some v) /\
    (forall p n, T (nx, g ++ [p; n]) <-> Chain.consecutive sym D p n).
Proof.
  intros Ord Frag Hm Hb Hs OnlyM OnlyN NoM NoN St g L [l Fin].
  destruct (Ground.finite_enum l (fun v => In v l) (fun x X => X)) as [l' [ND E']].
  destruct (Count.sort_nodup sym sym_lt (lt_trans _ Ord) (lt_total _ Ord) l' ND) as [D [Pm SD]].
  assert (DomD: forall v, T (dom, g ++ [v]) <-> In v D).
  { intro v. rewrite Fin, <- E'. split; apply Permutation_in; [exact Pm|apply Permutation_sym; exact Pm]. }
  pose proof (min_rule_meaning_g dom mn P I T Frag Hm OnlyM NoM St g L) as Mn.
  exists D. split; [exact SD|]. split; [exact DomD|]. split.
  - intro v. rewrite Mn. split.
    + intros [Tv Least]. apply (least_is_head sym_lt Ord D v SD); [apply DomD; exact Tv|].
      intros w Hw. apply Least. apply DomD. exact Hw.
    + intros Hh. destruct (head_is_least sym_lt D v SD Hh) as [Hv Least]. split; [apply DomD; exact Hv|].
      intros w Tw. apply Least. apply DomD. exact Tw.
  - exact (next_rules_meaning_g dom mn nx P I T Ord Frag Hb Hs OnlyN NoN St g L Mn D SD DomD).
Qed.
End Grouped.

(* ---------- the validated model returns exactly these rules (one group variable) ---------- *)
Module ModelRunG.
Definition fact2 (n: string) (a b: Z) : stmt :=
  SRule 1 (HLit (Lit NoSign (ASym (TFun n [TSym (SNum a); TSym (SNum b)] false)))) [].
Definition prg : program := [fact2 "dom" 1 5; fact2 "dom" 2 7].
Example model_grouped :
  match dp_init (init_names prg []) prg with
  | Ok st => snd (create_next_pred_for_annotated_pred (("dom", 2%nat), [1%nat]) 1 st)
  | _ => Raise "init"
  end
  = Ok [min_rule_g ["G0"] "dom" "__min_1_1dom"; max_rule_g ["G0"] "dom" "__max_1_1dom";
        next_rule_base_g ["G0"] "dom" "__min_1_1dom" "__next_1_1dom"; next_rule_step_g ["G0"] "dom" "__next_1_1dom"].
Proof. vm_compute. reflexivity. Qed.

(* with no group variable the grouped rules are the rules of ChainSem.v *)
Example ungrouped dom mn nx :
  min_rule_g [] dom mn = min_rule dom mn /\ next_rule_base_g [] dom mn nx = next_rule_base dom mn nx /\
  next_rule_step_g [] dom nx = next_rule_step dom nx.
Proof. repeat split. Qed.
End ModelRunG.

Print Assumptions next_rules_meaning_g.
Print Assumptions min_rule_meaning_g.
Print Assumptions next_pred_meaning_g.
