(* C09 for rule deletion, tied to the model of ngo's `unused` pass (Model/Unused.v).

   Part 1 (semantic core, no model):  [drop_dead_fwd], [drop_dead_bwd], [drop_dead_predicate_sound].
     For a simple program P (Link/Ground.v) and a set [dead] of predicates that occur in no rule body and
     in no fact, deleting every rule whose head predicate is dead preserves the stable models modulo the
     dead atoms.  Derived from Meta/Drop.v through the grounding bridge [ground_stable_iff].
   Part 2 (model):  [analyze_usage_covers_funcs], [analyze_usage_covers_bodies], [remove_unused_shape].
   Part 3 (combination):  [remove_unused_sound]  and the counterexample [remove_unused_needs_defined_heads]
     that shows why the side condition [heads_defined] cannot be dropped for the semantics Sem/Sat.v.

   Axiom used: Classical_Prop.classic (through Meta/Drop.v, Meta/Cleanup.v, Link/Ground.v). *)
From Coq Require Import List String ZArith Bool Arith Classical.
From NGO Require Import Syntax.Ast Sem.Sym Sem.Sat Model.Traverse Model.Globals Model.Unused.
From NGO Require Import Link.TraverseSpec Link.Ground Link.Equiv.
From NGO Require Meta.Cleanup Meta.Drop.
Import ListNotations.
Open Scope list_scope.

Local Notation grule := (Cleanup.rule gatom gF).
Local Notation ghead := (Cleanup.head gatom).
Local Notation GAtom := (Cleanup.HAtom gatom).
Local Notation GChoice := (Cleanup.HChoice gatom).
Local Notation GDisj := (Cleanup.HDisj gatom).
Local Notation GFalse := (Cleanup.HFalse gatom).
Local Notation mkrule := (Cleanup.Build_rule gatom gF).
Local Notation ghd := (Cleanup.hd gatom gF).
Local Notation gbd := (Cleanup.bd gatom gF).
Local Notation gbsat := (Cleanup.bsat gatom gF gsat).
Local Notation ghsat := (Cleanup.hsat gatom).
Local Notation grsat := (Cleanup.rsat gatom gF gsat).
Local Notation gpsat := (Cleanup.psat gatom gF gsat).
Local Notation gstable := (Cleanup.stable gatom gF gsat).

(* the predicate (name/arity) of a ground atom *)
Definition gpred (a: gatom) : pred := (fst a, List.length (snd a)).

Lemma eval_list_length s ts : forall vs, eval_list s ts = Some vs -> List.length vs = List.length ts.
Proof.
  induction ts as [|t ts IH]; simpl; intros vs E.
  - injection E as <-. reflexivity.
  - destruct (eval s t); [|discriminate]. destruct (eval_list s ts) as [ws|]; [|discriminate].
    injection E as <-. simpl. f_equal. apply IH. reflexivity.
Qed.

(* ================================================================================================ *)
(* 1. Dead predicates: the decidable side conditions over the AST                                   *)
(* ================================================================================================ *)
Section DropDead.
Variable sym_lt : sym -> sym -> Prop.
Variable dead : pred -> bool.

Definition deadA (a: gatom) : Prop := dead (gpred a) = true.
Definition liveA (a: gatom) : Prop := dead (gpred a) = false.

Lemma liveA_not_dead a : liveA a -> ~ deadA a.
Proof. unfold liveA, deadA. intros E F. congruence. Qed.
Lemma not_dead_liveA a : ~ deadA a -> liveA a.
Proof. unfold liveA, deadA. destruct (dead (gpred a)); [intro X; exfalso; apply X; reflexivity | reflexivity]. Qed.

(* [term_live t]: whatever function symbol t evaluates to (with either classical polarity), its
   predicate is not dead.  A variable in atom position could evaluate to any atom: rejected (clingo's
   parser never builds it). *)
Fixpoint term_live (t: term) : bool :=
  match t with
  | TVar _ => false
  | TSym (SFun n vs _) => negb (dead (n, List.length vs))
  | TSym _ => true
  | TUn UMinus t' => term_live t'
  | TUn _ _ => true
  | TFun n args _ => negb (dead (n, List.length args))
  | _ => true
  end.

Lemma eval_live s t : term_live t = true ->
  forall n vs p, eval s t = Some (SFun n vs p) -> dead (n, List.length vs) = false.
Proof.
  induction t as [x|c|o t IH|o l _ r _|l _ r _|m args e|alts]; intros L n vs p E.
  - discriminate L.
  - simpl in E. injection E as ->. simpl in L. apply negb_true_iff in L. exact L.
  - simpl in E. destruct (eval s t) as [[ |z|str|m ws q| ]|] eqn:Et; try discriminate E.
    + destruct o; discriminate E.
    + destruct o; try discriminate E. injection E as -> -> _. simpl in L. exact (IH L _ _ _ eq_refl).
  - simpl in E. destruct (eval s l) as [[ |a|?|? ? ?| ]|]; try discriminate E.
    destruct (eval s r) as [[ |b|?|? ? ?| ]|]; try discriminate E.
    destruct (arith o a b); discriminate E.
  - discriminate E.
  - rewrite eval_fun in E. destruct (eval_list s args) as [ws|] eqn:El; [|discriminate E].
    injection E as -> -> _. simpl in L. apply negb_true_iff in L.
    rewrite (eval_list_length s args _ El). exact L.
  - discriminate E.
Qed.

Lemma gatom_of_live s t a : term_live t = true -> gatom_of s t = Some a -> liveA a.
Proof.
  intros L E. unfold gatom_of in E. destruct (eval s t) as [[ |z|str|m ws [|]| ]|] eqn:Et; try discriminate E.
  injection E as <-. unfold liveA, gpred. simpl. exact (eval_live s t L _ _ _ Et).
Qed.

Definition lit_live (l: lit) : bool := match l with Lit _ (ASym t) => term_live t | _ => true end.
Definition bodyelem_live (e: bodyelem) : bool := match e with BLit l => lit_live l | BCond _ _ => true end.
Definition body_live (b: list bodyelem) : bool := forallb bodyelem_live b.

(* a choice element  p(args)  without condition whose predicate is dead (v = true) / not dead (v = false) *)
Definition choice_elem_is (v: bool) (c: condlit) : bool :=
  match c with
  | (Lit NoSign (ASym (TFun n args _)), []) => Bool.eqb (dead (n, List.length args)) v
  | _ => false
  end.
(* the rule is deleted: plain atom head with a dead predicate, or a non-empty condition-free choice all of
   whose elements have dead predicates *)
Definition head_all_dead (h: head) : bool :=
  match h with
  | HLit (Lit NoSign (ASym (TFun n args _))) => dead (n, List.length args)
  | HAgg None (e :: es) None => forallb (choice_elem_is true) (e :: es)
  | _ => false
  end.
(* no head atom of the rule is dead *)
Definition head_live (h: head) : bool :=
  match h with
  | HLit (Lit NoSign (ASym t)) => term_live t
  | HAgg None es None => forallb (choice_elem_is false) es
  | _ => true
  end.

Definition stmt_dead (st: stmt) : bool := match st with SRule _ h _ => head_all_dead h | _ => false end.
(* the hypotheses of the theorem on one statement: no body literal has a dead predicate; the head atoms are
   all dead (rule deleted) or all not dead (rule kept) *)
Definition stmt_ok (st: stmt) : bool :=
  match st with
  | SRule _ h b => body_live b && (head_all_dead h || head_live h)
  | _ => true
  end.
Definition dead_ok (P: program) : bool := forallb stmt_ok P.
Definition drop_dead (P: program) : program := filter (fun st => negb (stmt_dead st)) P.

(* Sem/Sat.v makes a plain head whose term is undefined under a satisfied body FALSE (the instance acts
   as a constraint, see Link/Ground.v, Example.undefined_head_unsat; gringo drops the instance instead).
   Deleting such a rule removes that constraint, so the backward direction needs the deleted plain heads
   to be defined under every substitution. *)
Definition heads_defined (P: program) : Prop :=
  forall line n args e b, In (SRule line (HLit (Lit NoSign (ASym (TFun n args e)))) b) P ->
    dead (n, List.length args) = true -> forall s, eval_list s args <> None.

(* a decidable sufficient condition: variables, constants and function symbols only (no arithmetic) *)
Fixpoint total_term (t: term) : bool :=
  match t with
  | TVar _ => true
  | TSym _ => true
  | TFun _ args _ => forallb total_term args
  | _ => false
  end.
Lemma total_term_defined s t : total_term t = true -> eval s t <> None.
Proof.
  induction t as [x|c|o u _|o l r _ _|l r _ _|n xs e IH|xs _] using term_ind'; intro Tt; try discriminate Tt.
  - discriminate.
  - discriminate.
  - rewrite eval_fun. simpl in Tt. rewrite forallb_forall in Tt.
    assert (X: eval_list s xs <> None).
    { induction xs as [|x xs IHxs]; simpl; [discriminate|].
      inversion IH as [|? ? Hx Hxs]; subst.
      destruct (eval s x) eqn:Ex; [|exfalso; apply Hx; [apply Tt; left; reflexivity|reflexivity]].
      destruct (eval_list s xs) eqn:El; [discriminate|].
      exfalso. apply IHxs; [exact Hxs| |reflexivity]. intros y Hy. apply Tt. right. exact Hy. }
    destruct (eval_list s xs); [discriminate|contradiction].
Qed.
Lemma total_args_defined s args : forallb total_term args = true -> eval_list s args <> None.
Proof.
  intro Tt. pose proof (total_term_defined s (TFun "f"%string args false) Tt) as X.
  rewrite eval_fun in X. destruct (eval_list s args); [discriminate|]. exfalso. apply X. reflexivity.
Qed.

(* ================================================================================================ *)
(* 2. Liveness of ground formulas, heads and rules                                                  *)
(* ================================================================================================ *)
Definition form_live (f: gF) : Prop :=
  match f with GPos a | GNeg a | GNN a => liveA a | GConst _ => True end.
Definition ghead_live (h: ghead) : Prop :=
  match h with
  | Cleanup.HAtom _ a | Cleanup.HChoice _ a => liveA a
  | Cleanup.HDisj _ l => forall a, In a l -> liveA a
  | Cleanup.HFalse _ => True
  end.
Definition gbody_live (b: list gF) : Prop := forall f, In f b -> form_live f.
Definition grule_live (r: grule) : Prop := ghead_live (ghd r) /\ gbody_live (gbd r).

Local Notation agree := (Drop.agree_live gatom deadA).
Local Notation lv := (Drop.live gatom deadA).

Lemma agree_at H H' a : agree H H' -> liveA a -> (H a <-> H' a).
Proof. intros A L. apply A. apply liveA_not_dead. exact L. Qed.

Lemma gsat_agree H T H' T' f : form_live f -> agree H H' -> agree T T' -> (gsat H T f <-> gsat H' T' f).
Proof.
  intros L A B. destruct f as [a|a|a|p]; simpl in *.
  - apply agree_at; assumption.
  - rewrite (agree_at T T' a B L). tauto.
  - apply agree_at; assumption.
  - tauto.
Qed.
Lemma gbsat_agree H T H' T' b : gbody_live b -> agree H H' -> agree T T' -> (gbsat H T b <-> gbsat H' T' b).
Proof.
  intros L A B. unfold Cleanup.bsat.
  split; intros X f Hf; specialize (X f Hf); apply (gsat_agree H T H' T' f (L f Hf) A B); exact X.
Qed.
Lemma ghsat_agree H T H' T' h : ghead_live h -> agree H H' -> agree T T' -> (ghsat H T h <-> ghsat H' T' h).
Proof.
  intros L A B. destruct h as [a|a|l|]; simpl in *.
  - apply agree_at; assumption.
  - rewrite (agree_at H H' a A L), (agree_at T T' a B L). tauto.
  - split; intros [a [Hin Ha]]; exists a; (split; [exact Hin|]); apply (agree_at H H' a A (L a Hin)); exact Ha.
  - tauto.
Qed.
(* the adapter [csat_live]: a ground rule none of whose atoms is dead ignores the dead atoms *)
Lemma grsat_agree H T H' T' r : grule_live r -> agree H H' -> agree T T' -> (grsat H T r <-> grsat H' T' r).
Proof.
  intros [Lh Lb] A B. unfold Cleanup.rsat.
  rewrite (gbsat_agree H T H' T' _ Lb A B), (gbsat_agree T T T' T' _ Lb B B),
          (ghsat_agree H T H' T' _ Lh A B), (ghsat_agree T T T' T' _ Lh B B). tauto.
Qed.

(* extensionality in the interpretations *)
Lemma gsat_ext (H T H' T': interp) f : (forall a, H a <-> H' a) -> (forall a, T a <-> T' a) -> (gsat H T f <-> gsat H' T' f).
Proof. intros A B. destruct f as [a|a|a|p]; simpl; [apply A | rewrite (B a); tauto | apply B | tauto]. Qed.
Lemma grsat_ext (H T H' T': interp) r : (forall a, H a <-> H' a) -> (forall a, T a <-> T' a) -> (grsat H T r <-> grsat H' T' r).
Proof.
  intros A B.
  assert (Bs: forall (X Y X' Y': interp) b, (forall a, X a <-> X' a) -> (forall a, Y a <-> Y' a) -> (gbsat X Y b <-> gbsat X' Y' b)).
  { intros X Y X' Y' b EX EY. unfold Cleanup.bsat.
    split; intros Z f Hf; specialize (Z f Hf); apply (gsat_ext X Y X' Y' f EX EY); exact Z. }
  assert (Hs: forall (X Y X' Y': interp) h, (forall a, X a <-> X' a) -> (forall a, Y a <-> Y' a) -> (ghsat X Y h <-> ghsat X' Y' h)).
  { intros X Y X' Y' h EX EY. destruct h as [a|a|l|]; simpl.
    - apply EX.
    - rewrite (EX a), (EY a). tauto.
    - split; intros [a [Hin Ha]]; exists a; (split; [exact Hin|]); apply EX; exact Ha.
    - tauto. }
  unfold Cleanup.rsat.
  rewrite (Bs H T H' T' _ A B), (Bs T T T' T' _ B B), (Hs H T H' T' _ A B), (Hs T T T' T' _ B B). tauto.
Qed.
Lemma gstable_ext (Q: Cleanup.prog gatom gF) (T T': interp) : (forall a, T a <-> T' a) -> gstable Q T -> gstable Q T'.
Proof.
  intros E [M Min]. split.
  - intros r Qr. apply (grsat_ext T T T' T' r E E). apply M. exact Qr.
  - intros H S PS.
    assert (S0: Cleanup.subi gatom H T) by (intros a Ha; apply E; apply S; exact Ha).
    assert (PS0: gpsat H T Q).
    { intros r Qr. apply (grsat_ext H T H T' r (fun a => iff_refl _) E). apply PS. exact Qr. }
    intros a Ta. apply (Min H S0 PS0). apply E. exact Ta.
Qed.

(* ---------- grounding preserves liveness ---------- *)
Lemma sign_form_live sg a : liveA a -> form_live (sign_form sg a).
Proof. destruct sg; simpl; auto. Qed.

Lemma ground_lit_live s l f : lit_live l = true -> ground_lit sym_lt s l = Some f -> form_live f.
Proof.
  destruct l as [sg a]. destruct a as [t|t gs|b|lg fn es rg|lg es rg|tx]; simpl; intros L E; try discriminate E.
  - destruct (gatom_of s t) as [a|] eqn:Ea; [|discriminate E]. simpl in E. injection E as <-.
    apply sign_form_live. exact (gatom_of_live s t a L Ea).
  - destruct (cmp_defb s t gs); [|discriminate E]. injection E as <-. exact I.
  - injection E as <-. exact I.
Qed.

Lemma ground_body_live s b : body_live b = true -> forall fs, ground_body sym_lt s b = Some fs -> gbody_live fs.
Proof.
  induction b as [|e b IH]; simpl; intros L fs E.
  - injection E as <-. intros f [].
  - apply andb_true_iff in L. destruct L as [Le Lb]. destruct e as [l|l c]; [|discriminate E].
    destruct (ground_lit sym_lt s l) as [g|] eqn:Eg; [|discriminate E].
    destruct (ground_body sym_lt s b) as [gs|]; [|discriminate E]. injection E as <-.
    intros f [<-|Hf]; [exact (ground_lit_live s l g Le Eg) | exact (IH Lb gs eq_refl f Hf)].
Qed.

Lemma choice_elem_is_inv v c : choice_elem_is v c = true ->
  exists n args e, c = (Lit NoSign (ASym (TFun n args e)), []) /\ dead (n, List.length args) = v.
Proof.
  destruct c as [[sg a] cs]. destruct sg; try discriminate. destruct a as [t| | | | |]; try discriminate.
  destruct t; try discriminate. destruct cs; try discriminate. simpl. intro E. apply Bool.eqb_prop in E. eauto.
Qed.

Lemma ground_choice_elems s v es gh : forallb (choice_elem_is v) es = true ->
  In gh (flat_map (ground_choice_elem s) es) -> exists a, gh = GChoice a /\ dead (gpred a) = v.
Proof.
  intros All Hin. rewrite forallb_forall in All. apply in_flat_map in Hin. destruct Hin as [c [Hc Hg]].
  destruct (choice_elem_is_inv v c (All c Hc)) as [n [args [e [-> D]]]]. simpl in Hg.
  destruct (eval_list s args) as [vs|] eqn:Ev; [|destruct Hg]. destruct Hg as [<-|[]].
  exists (n, vs). split; [reflexivity|]. unfold gpred. simpl. rewrite (eval_list_length s args vs Ev). exact D.
Qed.

Lemma ground_heads_live s h gh : head_live h = true -> In gh (ground_heads s h) -> ghead_live gh.
Proof.
  destruct h as [[sg x]|es|lg es rg|lg f es rg|tx]; simpl.
  - destruct x as [t|t gs|c| | |]; try (destruct sg; simpl; tauto).
    + destruct sg; simpl; try tauto. intros L [<-|[]].
      destruct (gatom_of s t) as [a|] eqn:Ea; simpl; [exact (gatom_of_live s t a L Ea)|exact I].
    + intros _. assert (E: ground_heads s (HLit (Lit sg (ABool c))) = if bool_lit_true sg c then [] else [GFalse])
        by (destruct sg; reflexivity).
      change (In gh (ground_heads s (HLit (Lit sg (ABool c)))) -> ghead_live gh). rewrite E.
      destruct (bool_lit_true sg c); [intros []|]. intros [<-|[]]. exact I.
  - tauto.
  - destruct lg, rg; simpl; try (intros _ []). intros L Hin.
    destruct (ground_choice_elems s false es gh L Hin) as [a [-> D]]. exact D.
  - tauto.
  - tauto.
Qed.

Lemma ground_heads_dead s h gh : head_all_dead h = true -> In gh (ground_heads s h) ->
  gh = GFalse \/ exists a, deadA a /\ (gh = GAtom a \/ gh = GChoice a).
Proof.
  destruct h as [[sg x]|es|lg es rg|lg f es rg|tx]; simpl; try discriminate.
  - destruct sg; try discriminate. destruct x as [t| | | | |]; try discriminate.
    destruct t as [ | | | | |n args e| ]; try discriminate. intros D [<-|[]].
    rewrite gatom_of_fun. destruct (eval_list s args) as [vs|] eqn:Ev; [|left; reflexivity].
    right. exists (n, vs). split; [|left; reflexivity].
    unfold deadA, gpred. simpl. rewrite (eval_list_length s args vs Ev). exact D.
  - destruct lg; [discriminate|]. destruct es as [|e0 es]; [discriminate|]. destruct rg; [discriminate|].
    intros L Hin. destruct (ground_choice_elems s true (e0 :: es) gh L Hin) as [a [-> D]].
    right. exists a. split; [exact D|right; reflexivity].
Qed.

(* ================================================================================================ *)
(* 3. Instantiating Meta/Drop.v                                                                     *)
(*    Drop.v wants [fsat_live]/[csat_live] for EVERY formula / kept rule of the carrier type, so the *)
(*    instance evaluates formulas and kept rules on the live parts of the interpretations; for the   *)
(*    rules that actually occur (none of whose atoms is dead) that is the plain [Cleanup.rsat]       *)
(*    ([csat'_plain], from the adapter [grsat_agree]).                                               *)
(* ================================================================================================ *)
Local Notation dhead := (Drop.dhead gatom).
Local Notation drule := (Drop.drule gatom gF).
Local Notation DAtom := (Drop.DAtom gatom).
Local Notation DChoice := (Drop.DChoice gatom).
Local Notation mkdrule := (Drop.Build_drule gatom gF).

Definition fsat' (H T: interp) (f: gF) : Prop := gsat (lv H) (lv T) f.
Definition csat' (H T: interp) (r: grule) : Prop := grsat (lv H) (lv T) r.

Lemma lv_agree (H H': interp) : agree H H' -> forall a, lv H a <-> lv H' a.
Proof. intros A a. unfold Drop.live. split; intros [N X]; (split; [exact N|]); apply (A a N); exact X. Qed.

Lemma fsat'_live (H T H' T': interp) f : agree H H' -> agree T T' -> (fsat' H T f <-> fsat' H' T' f).
Proof. intros A B. apply gsat_ext; apply lv_agree; assumption. Qed.
Lemma fsat'_persist (H T: interp) f : Drop.subi gatom H T -> fsat' H T f -> fsat' T T f.
Proof. intros S. apply gsat_persist. intros a [N Ha]. split; [exact N|apply S; exact Ha]. Qed.
Lemma csat'_live (H T H' T': interp) r : agree H H' -> agree T T' -> (csat' H T r <-> csat' H' T' r).
Proof. intros A B. apply grsat_ext; apply lv_agree; assumption. Qed.

Lemma fsat'_plain (H T: interp) f : form_live f -> (fsat' H T f <-> gsat H T f).
Proof. intro L. apply gsat_agree; [exact L| |]; apply Drop.agree_live_live. Qed.
Lemma csat'_plain (H T: interp) r : grule_live r -> (csat' H T r <-> grsat H T r).
Proof. intro L. apply grsat_agree; [exact L| |]; apply Drop.agree_live_live. Qed.

Section Instance.
Variable P : program.
Variable I : list gatom.
Hypothesis Hok : dead_ok P = true.
Hypothesis HI : forall a, In a I -> liveA a.

Local Notation gp := (ground_prog sym_lt).

(* ground instances of the deleted rules *)
Definition dropped_inst (r: grule) : Prop :=
  exists st, In st P /\ stmt_dead st = true /\ ground_rule sym_lt st r.
Definition to_dhead (h: ghead) : option dhead :=
  match h with
  | Cleanup.HAtom _ a => Some (DAtom a)
  | Cleanup.HChoice _ a => Some (DChoice a)
  | _ => None
  end.
(* kept: the ground program of the shortened program, plus the instances of deleted rules whose plain
   head is undefined (ground head #false, a constraint without dead atoms; none under [heads_defined]) *)
Definition Cset (r: grule) : Prop := gp (drop_dead P) I r \/ (dropped_inst r /\ ghd r = GFalse).
Definition Dset (d: drule) : Prop :=
  exists r, dropped_inst r /\ to_dhead (ghd r) = Some (Drop.dh gatom gF d) /\ Drop.db gatom gF d = gbd r.

Lemma gp_split r : gp P I r <-> gp (drop_dead P) I r \/ dropped_inst r.
Proof.
  unfold ground_prog, drop_dead, dropped_inst. split.
  - intros [[st [Hin GR]]|Fa]; [|left; right; exact Fa].
    destruct (stmt_dead st) eqn:E.
    + right. exists st. auto.
    + left. left. exists st. split; [|exact GR]. apply filter_In. rewrite E. auto.
  - intros [[[st [Hin GR]]|Fa]|[st [Hin [_ GR]]]].
    + left. exists st. apply filter_In in Hin. split; [tauto|exact GR].
    + right. exact Fa.
    + left. exists st. auto.
Qed.

Lemma stmt_ok_in st : In st P -> stmt_ok st = true.
Proof. unfold dead_ok in Hok. rewrite forallb_forall in Hok. apply Hok. Qed.

Lemma kept_live r : gp (drop_dead P) I r -> grule_live r.
Proof.
  intros [[st [Hin GR]]|[a [Hin ->]]].
  - unfold drop_dead in Hin. apply filter_In in Hin. destruct Hin as [Hin ND].
    pose proof (stmt_ok_in st Hin) as OK.
    destruct st as [line h b| | | |]; try (simpl in GR; contradiction).
    simpl in ND, OK. apply negb_true_iff in ND. rewrite ND in OK. simpl in OK.
    apply andb_true_iff in OK. destruct OK as [Lb Lh].
    destruct GR as [s [fs [Eb [Hh Ebd]]]]. split.
    + exact (ground_heads_live s h _ Lh Hh).
    + rewrite Ebd. exact (ground_body_live s b Lb fs Eb).
  - split; [simpl; apply HI; exact Hin | intros f []].
Qed.

Lemma dropped_shape r : dropped_inst r ->
  gbody_live (gbd r) /\ (ghd r = GFalse \/ exists a, deadA a /\ (ghd r = GAtom a \/ ghd r = GChoice a)).
Proof.
  intros [st [Hin [Dd GR]]]. pose proof (stmt_ok_in st Hin) as OK.
  destruct st as [line h b| | | |]; try (simpl in GR; contradiction).
  simpl in Dd, OK. apply andb_true_iff in OK. destruct OK as [Lb _].
  destruct GR as [s [fs [Eb [Hh Ebd]]]]. split.
  - rewrite Ebd. exact (ground_body_live s b Lb fs Eb).
  - exact (ground_heads_dead s h _ Dd Hh).
Qed.

Lemma Cset_live r : Cset r -> grule_live r.
Proof.
  intros [K|[Dr Eh]]; [exact (kept_live r K)|].
  destruct (dropped_shape r Dr) as [Lb _]. split; [rewrite Eh; exact Logic.I|exact Lb].
Qed.

Lemma Dset_dead d : Dset d -> deadA (Drop.dhead_atom gatom (Drop.dh gatom gF d)).
Proof.
  intros [r [Dr [Eh _]]]. destruct (dropped_shape r Dr) as [_ [F|[a [Da [E|E]]]]]; rewrite ?F, ?E in Eh; simpl in Eh.
  - discriminate Eh.
  - injection Eh as <-. exact Da.
  - injection Eh as <-. exact Da.
Qed.

Lemma dbsat_plain (H T: interp) b : gbody_live b -> (Drop.bsat gatom gF fsat' H T b <-> gbsat H T b).
Proof.
  intro L. unfold Drop.bsat, Cleanup.bsat. rewrite Forall_forall.
  split; intros X f Hf; specialize (X f Hf); apply (fsat'_plain H T f (L f Hf)); exact X.
Qed.

Lemma dsat_plain (H T: interp) r h : gbody_live (gbd r) -> to_dhead (ghd r) = Some h ->
  (Drop.dsat gatom gF fsat' H T (mkdrule h (gbd r)) <-> grsat H T r).
Proof.
  intros L Eh. unfold Drop.dsat, Cleanup.rsat. simpl.
  rewrite (dbsat_plain H T _ L), (dbsat_plain T T _ L).
  destruct (ghd r) as [a|a|l|]; simpl in Eh; try discriminate Eh; injection Eh as <-; simpl; tauto.
Qed.

Lemma sat_full_iff (H T: interp) : Drop.sat_full gatom gF fsat' grule csat' Cset Dset H T <-> gpsat H T (gp P I).
Proof.
  unfold Drop.sat_full, Cleanup.psat. split.
  - intros [SC SD] r Pr. apply gp_split in Pr. destruct Pr as [K|Dr].
    + apply (csat'_plain H T r (kept_live r K)). apply SC. left. exact K.
    + destruct (dropped_shape r Dr) as [Lb [F|[a [Da E]]]].
      * apply (csat'_plain H T r); [apply Cset_live; right; auto|]. apply SC. right. auto.
      * assert (X: exists h, to_dhead (ghd r) = Some h) by (destruct E as [-> | ->]; simpl; eauto).
        destruct X as [h Eh]. apply (dsat_plain H T r h Lb Eh). apply SD. exists r. simpl. auto.
  - intros PS. split.
    + intros r Cr. apply (csat'_plain H T r (Cset_live r Cr)). apply PS. apply gp_split.
      destruct Cr as [K|[Dr _]]; auto.
    + intros d [r [Dr [Eh Eb]]]. destruct (dropped_shape r Dr) as [Lb _].
      destruct d as [h b]. simpl in Eh, Eb. subst b. apply (dsat_plain H T r h Lb Eh).
      apply PS. apply gp_split. right. exact Dr.
Qed.

Lemma sat_kept_iff (H T: interp) : Drop.sat_kept gatom grule csat' Cset H T <-> gpsat H T Cset.
Proof.
  unfold Drop.sat_kept, Cleanup.psat.
  split; intros X r Cr; apply (csat'_plain H T r (Cset_live r Cr)); apply X; exact Cr.
Qed.

Lemma stable_full_iff (T: interp) : Drop.stable_full gatom gF fsat' grule csat' Cset Dset T <-> gstable (gp P I) T.
Proof.
  unfold Drop.stable_full, Cleanup.stable. rewrite sat_full_iff.
  split; intros [M Min]; (split; [exact M|]); intros H S PS; apply Min; try exact S; apply sat_full_iff; exact PS.
Qed.
Lemma stable_kept_iff (T: interp) : Drop.stable_kept gatom grule csat' Cset T <-> gstable Cset T.
Proof.
  unfold Drop.stable_kept, Cleanup.stable. rewrite sat_kept_iff.
  split; intros [M Min]; (split; [exact M|]); intros H S PS; apply Min; try exact S; apply sat_kept_iff; exact PS.
Qed.

(* removing constraints keeps a stable model stable *)
Lemma Cset_to_kept (T: interp) : gstable Cset T -> gstable (gp (drop_dead P) I) T.
Proof.
  intros [M Min]. split.
  - intros r K. apply M. left. exact K.
  - intros H S PS. apply Min; [exact S|]. intros r [K|[Dr Eh]]; [apply PS; exact K|].
    destruct (M r (or_intror (conj Dr Eh))) as [_ MT]. rewrite Eh in MT. simpl in MT.
    split; [|rewrite Eh; exact MT]. intro B. rewrite Eh. simpl. apply MT.
    exact (Cleanup.bsat_persist gatom gF gsat gsat_persist H T _ S B).
Qed.

Lemma kept_to_Cset (T: interp) : heads_defined P -> gstable (gp (drop_dead P) I) T -> gstable Cset T.
Proof.
  intros HD.
  assert (E: forall r, Cset r <-> gp (drop_dead P) I r).
  { intro r. split; [|intro K; left; exact K]. intros [K|[[st [Hin [Dd GR]]] Eh]]; [exact K|]. exfalso.
    destruct st as [line h b| | | |]; try (simpl in GR; contradiction).
    destruct GR as [s [fs [_ [Hh _]]]]. rewrite Eh in Hh. simpl in Dd.
    destruct h as [[sg x]|es|lg es rg|lg f es rg|tx]; simpl in Dd; try discriminate Dd.
    - destruct sg; try discriminate Dd. destruct x as [t| | | | |]; try discriminate Dd.
      destruct t as [ | | | | |n args e| ]; try discriminate Dd.
      simpl in Hh. destruct Hh as [Hh|[]]. rewrite gatom_of_fun in Hh.
      destruct (eval_list s args) eqn:Ev; [discriminate Hh|]. exact (HD line n args e b Hin Dd s Ev).
    - destruct lg; [discriminate Dd|]. destruct es as [|e0 es]; [discriminate Dd|]. destruct rg; [discriminate Dd|].
      destruct (ground_choice_elems s true (e0 :: es) _ Dd Hh) as [a [Ea _]]. discriminate Ea. }
  intros [M Min]. split.
  - intros r Cr. apply M. apply E. exact Cr.
  - intros H S PS. apply Min; [exact S|]. intros r K. apply PS. apply E. exact K.
Qed.

(* kept atoms are not dead: every atom of a stable model of the shortened program is supported *)
Lemma kept_stable_live (T: interp) : gstable (gp (drop_dead P) I) T -> forall a, T a -> ~ deadA a.
Proof.
  intros St a Ta.
  destruct (Cleanup.supported gatom gF gsat gsat_persist _ T a St Ta) as [r [K [HA _]]].
  destruct (kept_live r K) as [Lh _]. apply liveA_not_dead.
  destruct (ghd r) as [b|b|l|]; simpl in HA, Lh; [subst; exact Lh|subst; exact Lh|exact (Lh a HA)|contradiction].
Qed.

Lemma ground_drop_fwd (T: interp) : gstable (gp P I) T -> gstable (gp (drop_dead P) I) (restr liveA T).
Proof.
  intro St. apply stable_full_iff in St.
  pose proof (Drop.drop_fwd gatom deadA gF fsat' fsat'_persist grule csat' csat'_live Cset Dset Dset_dead T St) as K.
  apply stable_kept_iff in K. apply Cset_to_kept in K.
  apply (gstable_ext _ (lv T)); [|exact K].
  intro a. unfold Drop.live, restr. split; intros [X Y]; (split; [|exact Y]);
    [apply not_dead_liveA|apply liveA_not_dead]; exact X.
Qed.

Lemma ground_drop_bwd (T0: interp) : heads_defined P -> gstable (gp (drop_dead P) I) T0 ->
  exists T, gstable (gp P I) T /\ same (restr liveA T) T0.
Proof.
  intros HD St. pose proof (kept_stable_live T0 St) as ND.
  apply (kept_to_Cset T0 HD) in St. apply stable_kept_iff in St.
  destruct (Drop.drop_bwd gatom deadA gF fsat' fsat'_live grule csat' csat'_live Cset Dset Dset_dead T0 ND St) as [SF EQ].
  exists (Drop.extend gatom deadA gF fsat' Dset T0). split; [apply stable_full_iff; exact SF|].
  intro a. rewrite <- (EQ a). unfold Drop.live, restr.
  split; intros [X Y]; (split; [|exact Y]); [apply liveA_not_dead|apply not_dead_liveA]; exact X.
Qed.
End Instance.

(* ================================================================================================ *)
(* 4. The semantic core for non-ground programs                                                     *)
(* ================================================================================================ *)
Lemma simple_drop_dead P : simple_prog P = true -> simple_prog (drop_dead P) = true.
Proof.
  unfold simple_prog, drop_dead. rewrite !forallb_forall. intros S st Hin. apply filter_In in Hin. apply S. tauto.
Qed.

Definition live_facts (I: list gatom) : Prop := forall a, In a I -> liveA a.

(* (a) *)
Theorem drop_dead_fwd P I T : simple_prog P = true -> dead_ok P = true -> live_facts I ->
  Sat.stable sym_lt P I T -> Sat.stable sym_lt (drop_dead P) I (restr liveA T).
Proof.
  intros S OK LI St. apply (ground_stable_iff sym_lt _ (simple_drop_dead P S)).
  apply (ground_drop_fwd P I OK LI). apply (ground_stable_iff sym_lt P S). exact St.
Qed.

(* (b); that T0 contains no dead atom is a consequence ([drop_dead_stable_live]) *)
Theorem drop_dead_bwd P I T0 : simple_prog P = true -> dead_ok P = true -> heads_defined P -> live_facts I ->
  Sat.stable sym_lt (drop_dead P) I T0 ->
  exists T, Sat.stable sym_lt P I T /\ same (restr liveA T) T0.
Proof.
  intros S OK HD LI St. apply (ground_stable_iff sym_lt _ (simple_drop_dead P S)) in St.
  destruct (ground_drop_bwd P I OK LI T0 HD St) as [T [StT E]].
  exists T. split; [|exact E]. apply (ground_stable_iff sym_lt P S). exact StT.
Qed.

Theorem drop_dead_stable_live P I T0 : simple_prog P = true -> dead_ok P = true -> live_facts I ->
  Sat.stable sym_lt (drop_dead P) I T0 -> forall a, T0 a -> liveA a.
Proof.
  intros S OK LI St a Ta. apply (ground_stable_iff sym_lt _ (simple_drop_dead P S)) in St.
  apply not_dead_liveA. exact (kept_stable_live P I OK LI T0 St a Ta).
Qed.

(* C09 for rule deletion *)
Theorem drop_dead_predicate_sound P : simple_prog P = true -> dead_ok P = true -> heads_defined P ->
  forall (IN: pred -> Prop) (OUT: gatom -> Prop),
    (forall p, IN p -> dead p = false) -> (forall a, OUT a -> liveA a) ->
    equiv_out sym_lt IN OUT P (drop_dead P).
Proof.
  intros S OK HD IN OUT HIN HOUT I FO X.
  assert (LI: live_facts I) by (intros a Hin; apply HIN; exact (FO a Hin)).
  split.
  - intros [T [St Sa]]. exists (restr liveA T). split; [exact (drop_dead_fwd P I T S OK LI St)|].
    eapply same_trans; [apply (restr_restr liveA OUT T HOUT)|exact Sa].
  - intros [T0 [St Sa]]. destruct (drop_dead_bwd P I T0 S OK HD LI St) as [T [StT E]].
    exists T. split; [exact StT|].
    eapply same_trans; [apply same_sym, (restr_restr liveA OUT T HOUT)|].
    eapply same_trans; [apply same_restr; exact E|exact Sa].
Qed.

End DropDead.

(* ================================================================================================ *)
(* 5. The model (Model/Unused.v): what [analyze_usage] records in [used]                            *)
(* ================================================================================================ *)
Definition c_lit (l: lit) : list pred := map fsym_pred (funcs_lit l).
Definition c_bodyelem (b: bodyelem) : list pred := map fsym_pred (funcs_bodyelem b).
Definition head_used (h: head) : list pred :=
  match h with
  | HLit _ => []
  | HDisj es | HAgg _ es _ => flat_map (fun e : condlit => flat_map c_lit (snd e)) es ++ flat_map (fun e : condlit => c_lit (fst e)) es
  | HHeadAgg _ _ es _ => flat_map (fun e : helem => c_bodyelem (BCond (fst (snd e)) (snd (snd e)))) es
  | HTheory _ => []
  end.
(* exactly what one statement contributes to [used] *)
Definition stm_used (stm: stmt) : list pred :=
  match stm with
  | SRule _ h b => flat_map c_bodyelem b ++ head_used h
  | SMin _ _ _ _ b => flat_map c_bodyelem b
  | SShowSig n a _ => [(n, a)]
  | _ => []
  end.

Lemma add_usage_func_fst acc f p : In p (fst (_add_usage_func acc f)) <-> p = fsym_pred f \/ In p (fst acc).
Proof. unfold _add_usage_func. cbv zeta. cbn [fst]. apply In_padd. Qed.

Lemma fold_fst_gen {A} (g: usage -> A -> usage) (c: A -> list pred) :
  (forall acc x p, In p (fst (g acc x)) <-> In p (c x) \/ In p (fst acc)) ->
  forall xs acc p, In p (fst (fold_left g xs acc)) <-> In p (flat_map c xs) \/ In p (fst acc).
Proof.
  intros G xs. induction xs as [|x xs IH]; intros acc p; simpl; [tauto|].
  rewrite IH, G, in_app_iff. tauto.
Qed.

Lemma fold_funcs_fst fs acc p : In p (fst (fold_left _add_usage_func fs acc)) <-> In p (map fsym_pred fs) \/ In p (fst acc).
Proof.
  revert acc. induction fs as [|f fs IH]; intros acc; simpl; [tauto|].
  rewrite IH, add_usage_func_fst. split; [intros [X|[->|X]]; auto|intros [[<-|X]|X]; auto].
Qed.

Lemma add_usage_lit_fst acc l p : In p (fst (_add_usage_lit acc l)) <-> In p (c_lit l) \/ In p (fst acc).
Proof. apply fold_funcs_fst. Qed.
Lemma add_usage_stm_fst acc b p : In p (fst (_add_usage_stm acc b)) <-> In p (c_bodyelem b) \/ In p (fst acc).
Proof. apply fold_funcs_fst. Qed.
Lemma add_usage_lits_fst acc ls p : In p (fst (_add_usage_lits acc ls)) <-> In p (flat_map c_lit ls) \/ In p (fst acc).
Proof. apply (fold_fst_gen _add_usage_lit c_lit). intros a x q. apply add_usage_lit_fst. Qed.
Lemma add_usage_fst acc b p : In p (fst (_add_usage acc b)) <-> In p (flat_map c_bodyelem b) \/ In p (fst acc).
Proof. apply (fold_fst_gen _add_usage_stm c_bodyelem). intros a x q. apply add_usage_stm_fst. Qed.
Lemma add_signature_fst acc q p : In p (fst (add_signature acc q)) <-> p = q \/ In p (fst acc).
Proof. unfold add_signature. cbn [fst]. apply In_padd. Qed.

Lemma analyze_usage_stm_fst acc stm acc' : analyze_usage_stm acc stm = Ok acc' ->
  forall p, In p (fst acc') <-> In p (stm_used stm) \/ In p (fst acc).
Proof.
  destruct stm as [ln h b|ln w pr ts b|n a ps|t b|k t]; simpl; intros E p.
  - destruct h as [l|es|lg es rg|lg f es rg|tx]; try discriminate E; injection E as <-; simpl; rewrite in_app_iff.
    + rewrite add_usage_fst. simpl. tauto.
    + rewrite (fold_fst_gen (fun acc (e: condlit) => _add_usage_lit acc (fst e)) (fun e => c_lit (fst e)))
        by (intros a x q; apply add_usage_lit_fst).
      rewrite (fold_fst_gen (fun acc (e: condlit) => _add_usage_lits acc (snd e)) (fun e => flat_map c_lit (snd e)))
        by (intros a x q; apply add_usage_lits_fst).
      rewrite add_usage_fst, in_app_iff. tauto.
    + rewrite (fold_fst_gen (fun acc (e: condlit) => _add_usage_lit acc (fst e)) (fun e => c_lit (fst e)))
        by (intros a x q; apply add_usage_lit_fst).
      rewrite (fold_fst_gen (fun acc (e: condlit) => _add_usage_lits acc (snd e)) (fun e => flat_map c_lit (snd e)))
        by (intros a x q; apply add_usage_lits_fst).
      rewrite add_usage_fst, in_app_iff. tauto.
    + rewrite (fold_fst_gen (fun acc (e: helem) => _add_usage_stm acc (BCond (fst (snd e)) (snd (snd e))))
                            (fun e => c_bodyelem (BCond (fst (snd e)) (snd (snd e)))))
        by (intros a x q; apply add_usage_stm_fst).
      rewrite add_usage_fst. tauto.
  - injection E as <-. apply add_usage_fst.
  - injection E as <-. rewrite add_signature_fst. simpl. split; [intros [->|X]; auto|intros [[<-|[]]|X]; auto].
  - injection E as <-. simpl. tauto.
  - destruct (opaque_kind k); [discriminate E|]. injection E as <-. simpl. tauto.
Qed.

Definition usage_step (acc: result usage) (stm: stmt) : result usage := rbind acc (fun acc => analyze_usage_stm acc stm).

Lemma fold_usage_ok prg : forall r a, fold_left usage_step prg r = Ok a -> exists a0, r = Ok a0.
Proof.
  induction prg as [|stm prg IH]; simpl; intros r a E; [eauto|].
  apply IH in E. destruct E as [a0 E]. destruct r; simpl in E; try discriminate E. eauto.
Qed.

Lemma fold_usage_fst prg : forall acc acc', fold_left usage_step prg (Ok acc) = Ok acc' ->
  forall p, In p (fst acc') <-> In p (flat_map stm_used prg) \/ In p (fst acc).
Proof.
  induction prg as [|stm prg IH]; simpl; intros acc acc' E p.
  - injection E as <-. tauto.
  - destruct (fold_usage_ok prg _ _ E) as [a1 E1]. rewrite E1 in E.
    rewrite (IH a1 acc' E p), (analyze_usage_stm_fst acc stm a1 E1 p), in_app_iff. tauto.
Qed.

(* [used] after analyze_usage, exactly *)
Theorem analyze_usage_used ins outs st prg st' : analyze_usage ins outs st prg = Ok st' ->
  forall p, In p (used st') <-> In p (flat_map stm_used prg) \/ In p ins \/ In p outs.
Proof.
  unfold analyze_usage, analyze_usage_prg. intros E p.
  destruct (negb (prog_in_fragment prg)); [discriminate E|].
  change (fold_left (fun acc stm => rbind acc (fun acc0 => analyze_usage_stm acc0 stm)) prg (Ok ([], [])))
    with (fold_left usage_step prg (Ok ([], []))) in E.
  destruct (fold_left usage_step prg (Ok ([], []))) as [u| | |] eqn:Eu; try discriminate E.
  simpl in E. injection E as <-. simpl.
  assert (S: forall qs acc, In p (fst (fold_left add_signature qs acc)) <-> In p qs \/ In p (fst acc)).
  { induction qs as [|q qs IH]; intros acc; simpl; [tauto|]. rewrite IH, add_signature_fst.
    split; [intros [X|[->|X]]; auto|intros [[<-|X]|X]; auto]. }
  rewrite S, (fold_usage_fst prg _ _ Eu p), in_app_iff. simpl. tauto.
Qed.

(* the funcs-level core: every outermost Function node of a rule body / minimize body is recorded *)
Definition stmt_body (stm: stmt) : list bodyelem :=
  match stm with SRule _ _ b => b | SMin _ _ _ _ b => b | _ => [] end.

Theorem analyze_usage_covers_funcs ins outs st prg st' : analyze_usage ins outs st prg = Ok st' ->
  forall stm x f, In stm prg -> In x (stmt_body stm) -> In f (funcs_bodyelem x) -> In (fsym_pred f) (used st').
Proof.
  intros E stm x f Hs Hx Hf. apply (analyze_usage_used _ _ _ _ _ E). left.
  apply in_flat_map. exists stm. split; [exact Hs|].
  assert (X: In (fsym_pred f) (flat_map c_bodyelem (stmt_body stm))).
  { apply in_flat_map. exists x. split; [exact Hx|]. unfold c_bodyelem. apply in_map. exact Hf. }
  destruct stm as [ln h b|ln w pr ts b|n a ps|t b|k t]; simpl in *; try contradiction.
  - apply in_or_app. left. exact X.
  - exact X.
Qed.

(* unfolding equations of the mutual fixpoint, by computation *)
Lemma funcs_lit_fun s n args e : funcs_lit (Lit s (ASym (TFun n args e))) = [(n, args)].
Proof. reflexivity. Qed.
Lemma funcs_lit_sym s t : funcs_lit (Lit s (ASym t)) = funcs_term t.
Proof. reflexivity. Qed.
Lemma funcs_lit_bagg s lg f es rg : funcs_lit (Lit s (ABodyAgg lg f es rg)) =
  funcs_oguard lg ++ flat_map (fun e : belem => flat_map funcs_term (fst e) ++ flat_map funcs_lit (snd e)) es ++ funcs_oguard rg.
Proof. reflexivity. Qed.
Lemma funcs_lit_agg s lg es rg : funcs_lit (Lit s (AAgg lg es rg)) =
  funcs_oguard lg ++ flat_map (fun e : condlit => funcs_lit (fst e) ++ flat_map funcs_lit (snd e)) es ++ funcs_oguard rg.
Proof. reflexivity. Qed.

(* the specification of occurrence of Link/TraverseSpec.v is covered by the scan *)
Lemma lit_has_funcs p l : lit_has p l -> exists f, In f (funcs_lit l) /\ fsym_pred f = p.
Proof.
  induction 1 as [s n args e E
                 | s lg f es rg e c He Hc _ IH
                 | s lg es rg e He _ IH
                 | s lg es rg e c He Hc _ IH].
  - exists (n, args). rewrite funcs_lit_fun. split; [left; reflexivity|symmetry; exact E].
  - destruct IH as [g [Hg Eg]]. exists g. split; [|exact Eg]. rewrite funcs_lit_bagg.
    apply in_or_app. right. apply in_or_app. left. apply in_flat_map. exists e. split; [exact He|].
    apply in_or_app. right. apply in_flat_map. exists c. auto.
  - destruct IH as [g [Hg Eg]]. exists g. split; [|exact Eg]. rewrite funcs_lit_agg.
    apply in_or_app. right. apply in_or_app. left. apply in_flat_map. exists e. split; [exact He|].
    apply in_or_app. left. exact Hg.
  - destruct IH as [g [Hg Eg]]. exists g. split; [|exact Eg]. rewrite funcs_lit_agg.
    apply in_or_app. right. apply in_or_app. left. apply in_flat_map. exists e. split; [exact He|].
    apply in_or_app. right. apply in_flat_map. exists c. auto.
Qed.

Lemma bodyelem_has_funcs p x : bodyelem_has p x -> exists f, In f (funcs_bodyelem x) /\ fsym_pred f = p.
Proof.
  destruct x as [l|l c]; simpl.
  - apply lit_has_funcs.
  - intros [H|[y [Hy H]]]; simpl in *.
    + destruct (lit_has_funcs p l H) as [f [Hf E]]. exists f. split; [apply in_or_app; left; exact Hf|exact E].
    + destruct (lit_has_funcs p y H) as [f [Hf E]]. exists f. split; [|exact E].
      apply in_or_app. right. apply in_flat_map. exists y. auto.
Qed.

(* Item 2a.  No fragment restriction is needed beyond `analyze_usage` answering Ok (i.e. no #external /
   #edge / #heuristic / #project statement, no theory atom): every predicate that occurs in a rule body
   or minimize body (at any depth: aggregates, conditions), every input and output predicate and every
   #show p/n signature is in [used]. *)
Theorem analyze_usage_covers_bodies ins outs st prg st' : analyze_usage ins outs st prg = Ok st' ->
  (forall stm p, In stm prg -> in_body p stm -> In p (used st')) /\
  (forall p, In p ins -> In p (used st')) /\
  (forall p, In p outs -> In p (used st')) /\
  (forall n a b, In (SShowSig n a b) prg -> In (n, a) (used st')).
Proof.
  intros E. split; [|split; [|split]].
  - intros stm p Hs Hb.
    assert (X: exists x, In x (stmt_body stm) /\ bodyelem_has p x)
      by (destruct stm; simpl in *; try contradiction; exact Hb).
    destruct X as [x [Hx Hp]]. destruct (bodyelem_has_funcs p x Hp) as [f [Hf <-]].
    exact (analyze_usage_covers_funcs _ _ _ _ _ E stm x f Hs Hx Hf).
  - intros p Hp. apply (analyze_usage_used _ _ _ _ _ E). auto.
  - intros p Hp. apply (analyze_usage_used _ _ _ _ _ E). auto.
  - intros n a b Hs. apply (analyze_usage_used _ _ _ _ _ E). left.
    apply in_flat_map. exists (SShowSig n a b). split; [exact Hs|left; reflexivity].
Qed.

(* ---------- remove_unused ---------- *)
Definition head_unused (u: list pred) (stm: stmt) : bool :=
  match stm with
  | SRule _ (HLit (Lit NoSign (ASym (TFun n args _)))) _ => negb (pmem (n, List.length args) u)
  | _ => false
  end.
Definition deletable (u: list pred) (stm: stmt) : Prop :=
  exists ln n args e b, stm = SRule ln (HLit (Lit NoSign (ASym (TFun n args e)))) b /\ ~ In (n, List.length args) u.

Lemma head_unused_spec u stm : head_unused u stm = true <-> deletable u stm.
Proof.
  split.
  - destruct stm as [ln h b| | | |]; try discriminate. destruct h as [[sg x]| | | |]; try discriminate.
    destruct sg; try discriminate. destruct x as [t| | | | |]; try discriminate.
    destruct t as [ | | | | |n args e| ]; try discriminate. simpl. intro E. apply negb_true_iff in E.
    exists ln, n, args, e, b. split; [reflexivity|]. apply pmem_false_In. exact E.
  - intros [ln [n [args [e [b [-> N]]]]]]. simpl. apply negb_true_iff. apply pmem_false_In. exact N.
Qed.

(* Item 2b: remove_unused is the order-preserving filter that deletes exactly the [deletable] rules *)
Theorem remove_unused_shape st prg :
  remove_unused st prg = filter (fun stm => negb (head_unused (used st) stm)) prg.
Proof.
  unfold remove_unused. apply filter_ext. intro stm.
  destruct stm as [ln h b| | | |]; try reflexivity. destruct h as [[sg x]| | | |]; try reflexivity.
  destruct sg; try reflexivity. destruct x as [t| | | | |]; try reflexivity.
  destruct t as [ | | | | |n args e| ]; try reflexivity. simpl. rewrite negb_involutive. reflexivity.
Qed.

Corollary remove_unused_in st prg stm :
  In stm (remove_unused st prg) <-> In stm prg /\ ~ deletable (used st) stm.
Proof.
  rewrite remove_unused_shape, filter_In, <- head_unused_spec.
  destruct (head_unused (used st) stm); simpl.
  - split; [intros [_ X]; discriminate X|intros [_ X]; exfalso; apply X; reflexivity].
  - split; intros [A _]; (split; [exact A|]); [discriminate|reflexivity].
Qed.

(* ================================================================================================ *)
(* 6. Combination: remove_unused after analyze_usage is a sound instance of the semantic core       *)
(* ================================================================================================ *)
(* Fragment: rules with a plain atom head p(args) or a boolean constant head (`:- body.` is #false) and
   bodies of plain literals: symbolic atoms p(args) / -p(args) under any default-negation sign,
   comparisons, boolean constants.  #minimize, #show p/n, #show t : body and the non-opaque other
   statements are allowed (they carry no meaning for Sat.stable).  That the program contains no
   #external / #edge / #heuristic / #project statement is part of `analyze_usage ... = Ok _`. *)
Fixpoint aterm (t: term) : bool :=
  match t with TFun _ _ _ => true | TUn UMinus t' => aterm t' | _ => false end.
Definition frag_lit (l: lit) : bool :=
  match l with
  | Lit _ (ASym t) => aterm t
  | Lit _ (ACmp _ _) => true
  | Lit _ (ABool _) => true
  | _ => false
  end.
Definition frag_bodyelem (e: bodyelem) : bool := match e with BLit l => frag_lit l | BCond _ _ => false end.
Definition frag_head (h: head) : bool :=
  match h with
  | HLit (Lit NoSign (ASym (TFun _ _ _))) => true
  | HLit (Lit _ (ABool _)) => true
  | _ => false
  end.
Definition frag_stmt (st: stmt) : bool :=
  match st with SRule _ h b => frag_head h && forallb frag_bodyelem b | _ => true end.
Definition unused_fragment (P: program) : bool := forallb frag_stmt P.

(* the dead predicates of the pass: everything that is not in [used] *)
Definition dead_of (u: list pred) (p: pred) : bool := negb (pmem p u).

Lemma dead_of_false u p : dead_of u p = false <-> In p u.
Proof. unfold dead_of. rewrite negb_false_iff. apply pmem_In. Qed.

Lemma frag_head_inv h : frag_head h = true ->
  (exists n args e, h = HLit (Lit NoSign (ASym (TFun n args e)))) \/ (exists sg c, h = HLit (Lit sg (ABool c))).
Proof.
  destruct h as [[sg x]| | | |]; try discriminate.
  destruct x as [t| |c| | |]; try (destruct sg; discriminate).
  - destruct sg; try discriminate. destruct t; try discriminate. left. eauto.
  - right. eauto.
Qed.

Lemma frag_simple P : unused_fragment P = true -> simple_prog P = true.
Proof.
  unfold unused_fragment, simple_prog. rewrite !forallb_forall. intros F st Hin. specialize (F st Hin).
  destruct st as [ln h b| | | |]; try reflexivity. simpl in F |- *. apply andb_true_iff in F. destruct F as [Fh Fb].
  assert (Sb: simple_body b = true).
  { unfold simple_body. rewrite forallb_forall in *. intros x Hx. specialize (Fb x Hx).
    destruct x as [[sg a]|]; [|discriminate Fb]. destruct a; try discriminate Fb; reflexivity. }
  rewrite Sb. destruct (frag_head_inv h Fh) as [[n [args [e ->]]]|[sg [c ->]]]; [reflexivity|destruct sg; reflexivity].
Qed.

Lemma aterm_live dead t : aterm t = true ->
  (forall f, In f (funcs_term t) -> dead (fsym_pred f) = false) -> term_live dead t = true.
Proof.
  induction t as [x|c|o t IH|o l _ r _|l _ r _|m args e|alts]; intros A L; try discriminate A.
  - destruct o; try discriminate A. simpl in *. exact (IH A L).
  - simpl. apply negb_true_iff. apply (L (m, args)). left. reflexivity.
Qed.

Section Combine.
Variable sym_lt : sym -> sym -> Prop.
Variables ins outs : list pred.
Variables st st' : ustate.
Variable P : program.
Hypothesis Hfrag : unused_fragment P = true.
Hypothesis Hok : analyze_usage ins outs st P = Ok st'.

Local Notation dead := (dead_of (used st')).

Lemma frag_stmt_in stm : In stm P -> frag_stmt stm = true.
Proof. unfold unused_fragment in Hfrag. rewrite forallb_forall in Hfrag. apply Hfrag. Qed.

(* hypotheses of the semantic core *)
Lemma remove_unused_dead_ok : dead_ok dead P = true.
Proof.
  unfold dead_ok. rewrite forallb_forall. intros stm Hin. pose proof (frag_stmt_in stm Hin) as F.
  destruct stm as [ln h b| | | |]; try reflexivity. simpl in F |- *. apply andb_true_iff in F. destruct F as [Fh Fb].
  apply andb_true_iff. split.
  - unfold body_live. rewrite forallb_forall in *. intros x Hx. specialize (Fb x Hx).
    destruct x as [[sg a]|]; [|discriminate Fb]. destruct a as [t| | | | |]; try reflexivity. simpl in Fb |- *.
    apply aterm_live; [exact Fb|]. intros f Hf. apply dead_of_false.
    apply (analyze_usage_covers_funcs _ _ _ _ _ Hok (SRule ln h b) (BLit (Lit sg (ASym t))) f Hin Hx).
    exact Hf.
  - destruct (frag_head_inv h Fh) as [[n [args [e ->]]]|[sg [c ->]]].
    + simpl. destruct (dead_of (used st') (n, List.length args)); reflexivity.
    + destruct sg; reflexivity.
Qed.

Lemma remove_unused_is_drop_dead : remove_unused st' P = drop_dead dead P.
Proof.
  rewrite remove_unused_shape. unfold drop_dead. apply filter_ext_in. intros stm Hin.
  pose proof (frag_stmt_in stm Hin) as F. f_equal.
  destruct stm as [ln h b| | | |]; try reflexivity. simpl in F. apply andb_true_iff in F. destruct F as [Fh _].
  destruct (frag_head_inv h Fh) as [[n [args [e ->]]]|[sg [c ->]]]; [reflexivity|destruct sg; reflexivity].
Qed.

Lemma ins_live (IN: pred -> Prop) : (forall p, IN p -> In p ins) -> forall p, IN p -> dead p = false.
Proof.
  intros Sub p Hp. apply dead_of_false.
  destruct (analyze_usage_covers_bodies _ _ _ _ _ Hok) as [_ [X _]]. apply X. apply Sub. exact Hp.
Qed.

(* Item 3 (a): no side condition *)
Theorem remove_unused_fwd I T : facts_over (fun p => In p ins) I ->
  Sat.stable sym_lt P I T -> Sat.stable sym_lt (remove_unused st' P) I (restr (fun a => In (gpred a) (used st')) T).
Proof.
  intros FO St. rewrite remove_unused_is_drop_dead.
  assert (LI: live_facts dead I) by (intros a Hin; apply (ins_live (fun p => In p ins) (fun p X => X)); exact (FO a Hin)).
  pose proof (drop_dead_fwd sym_lt dead P I T (frag_simple P Hfrag) remove_unused_dead_ok LI St) as K.
  destruct K as [[PS FS] Min]. 
  assert (E: forall a, restr (liveA dead) T a <-> restr (fun a => In (gpred a) (used st')) T a).
  { intro a. unfold restr, liveA. rewrite dead_of_false. tauto. }
  apply (ground_stable_iff sym_lt _ (simple_drop_dead dead P (frag_simple P Hfrag))).
  apply (gstable_ext _ (restr (liveA dead) T) _ E).
  apply (ground_stable_iff sym_lt _ (simple_drop_dead dead P (frag_simple P Hfrag))).
  split; [split|]; assumption.
Qed.

(* Item 3 (b) *)
Theorem remove_unused_bwd I T0 : heads_defined dead P -> facts_over (fun p => In p ins) I ->
  Sat.stable sym_lt (remove_unused st' P) I T0 ->
  (forall a, T0 a -> In (gpred a) (used st')) /\
  exists T, Sat.stable sym_lt P I T /\ same (restr (fun a => In (gpred a) (used st')) T) T0.
Proof.
  intros HD FO St. rewrite remove_unused_is_drop_dead in St.
  assert (LI: live_facts dead I) by (intros a Hin; apply (ins_live (fun p => In p ins) (fun p X => X)); exact (FO a Hin)).
  split.
  - intros a Ta. apply dead_of_false.
    exact (drop_dead_stable_live sym_lt dead P I T0 (frag_simple P Hfrag) remove_unused_dead_ok LI St a Ta).
  - destruct (drop_dead_bwd sym_lt dead P I T0 (frag_simple P Hfrag) remove_unused_dead_ok HD LI St) as [T [StT E]].
    exists T. split; [exact StT|]. intro a. rewrite <- (E a). unfold restr, liveA. rewrite dead_of_false. tauto.
Qed.

(* Item 3: C09 for the rule deletion of the pass *)
Theorem remove_unused_sound : heads_defined dead P ->
  forall (IN: pred -> Prop) (OUT: gatom -> Prop),
    (forall p, IN p -> In p ins) ->
    (forall a, OUT a -> In (gpred a) outs \/ In (gpred a) (used st')) ->
    equiv_out sym_lt IN OUT P (remove_unused st' P).
Proof.
  intros HD IN OUT HIN HOUT. rewrite remove_unused_is_drop_dead.
  apply (drop_dead_predicate_sound sym_lt dead P (frag_simple P Hfrag) remove_unused_dead_ok HD IN OUT).
  - exact (ins_live IN HIN).
  - intros a Oa. unfold liveA. apply dead_of_false. destruct (HOUT a Oa) as [X|X]; [|exact X].
    destruct (analyze_usage_covers_bodies _ _ _ _ _ Hok) as [_ [_ [Y _]]]. apply Y. exact X.
Qed.

(* decidable form of the side condition: the deleted heads contain no arithmetic *)
Definition deleted_heads_total : bool :=
  forallb (fun stm => match stm with
                      | SRule _ (HLit (Lit NoSign (ASym (TFun n args _)))) _ =>
                          pmem (n, List.length args) (used st') || forallb total_term args
                      | _ => true end) P.
Lemma deleted_heads_total_defined : deleted_heads_total = true -> heads_defined dead P.
Proof.
  unfold deleted_heads_total. rewrite forallb_forall. intros A line n args e b Hin D s.
  specialize (A _ Hin). simpl in A. unfold dead_of in D. apply negb_true_iff in D. rewrite D in A. simpl in A.
  apply total_args_defined. exact A.
Qed.
End Combine.

(* ================================================================================================ *)
(* 7. Why [heads_defined] is needed (w.r.t. Sem/Sat.v)                                              *)
(*      p(X+1) :- q(X).      with input predicate q/1, no output predicate                           *)
(*    analyze_usage records q/1 only, remove_unused deletes the rule.  Under the instance q("a") the  *)
(*    head p("a"+1) is undefined; Sem/Sat.v makes the rule instance FALSE (no stable model) whereas   *)
(*    the empty program has the stable model {q("a")}.  gringo drops such an instance with an         *)
(*    "operation undefined" message, so this is a property of the formal semantics, not a defect of   *)
(*    ngo; but the statement of item 3 without [heads_defined] is false for Sat.stable.               *)
(* ================================================================================================ *)
Module Counterexample.
Open Scope string_scope.
Definition cx_rule : stmt :=
  SRule 1 (HLit (Lit NoSign (ASym (TFun "p" [TBin BPlus (TVar "X") (TSym (SNum 1))] false))))
          [BLit (Lit NoSign (ASym (TFun "q" [TVar "X"] false)))].
Definition cx_prog : program := [cx_rule].
Definition cx_I : list gatom := [("q", [SStr "a"])].
Definition cx_IN : pred -> Prop := fun p => p = ("q", 1).

Lemma cx_unsat sym_lt T : ~ Sat.stable sym_lt cx_prog cx_I T.
Proof.
  intros [[PS FS] _]. specialize (PS cx_rule (or_introl eq_refl)).
  destruct (PS (fun _ => SStr "a")) as [_ A].
  assert (Tq: T ("q", [SStr "a"])) by (apply FS; left; reflexivity).
  refine (A _). unfold Sat.body_sat. constructor; [exact Tq|constructor].
Qed.

Lemma cx_empty_stable sym_lt : Sat.stable sym_lt [] cx_I (fun a => In a cx_I).
Proof.
  split; [split|].
  - intros stm [].
  - intros a Ha. exact Ha.
  - intros H _ _ FH a Ha. apply FH. exact Ha.
Qed.

Theorem remove_unused_needs_defined_heads sym_lt st :
  unused_fragment cx_prog = true /\
  exists st', analyze_usage [("q", 1)] [] st cx_prog = Ok st' /\
    used st' = [("q", 1)] /\ remove_unused st' cx_prog = [] /\
    facts_over cx_IN cx_I /\
    ~ equiv_out sym_lt cx_IN (fun a => In (gpred a) (used st')) cx_prog (remove_unused st' cx_prog).
Proof.
  split; [reflexivity|]. eexists. split; [reflexivity|]. split; [reflexivity|]. split; [reflexivity|]. split.
  - intros a [<-|[]]. reflexivity.
  - intros EQ.
    assert (FO: facts_over cx_IN cx_I) by (intros a [<-|[]]; reflexivity).
    destruct (proj2 (EQ cx_I FO (restr (fun a => In (gpred a) [("q", 1)]) (fun a => In a cx_I)))) as [T [St _]].
    + exists (fun a => In a cx_I). split; [apply cx_empty_stable|]. intro a. tauto.
    + exact (cx_unsat sym_lt T St).
Qed.
End Counterexample.

(* ================================================================================================ *)
(* 8. Non-vacuity:   a(X) :- q(X).   p(X) :- q(X), not a(X).    ins = q/1, outs = a/1               *)
(*    p/1 is used nowhere: its rule is deleted and the answer sets projected to a/1 (and q/1) agree. *)
(* ================================================================================================ *)
Module Example.
Open Scope string_scope.
Definition at1 (n: string) : atom := ASym (TFun n [TVar "X"] false).
Definition r_a : stmt := SRule 1 (HLit (Lit NoSign (at1 "a"))) [BLit (Lit NoSign (at1 "q"))].
Definition r_p : stmt := SRule 2 (HLit (Lit NoSign (at1 "p"))) [BLit (Lit NoSign (at1 "q")); BLit (Lit Neg (at1 "a"))].

Theorem example_remove_unused sym_lt st :
  exists st', analyze_usage [("q", 1)] [("a", 1)] st [r_a; r_p] = Ok st' /\
    remove_unused st' [r_a; r_p] = [r_a] /\
    equiv_out sym_lt (fun p => p = ("q", 1)) (fun a => gpred a = ("a", 1) \/ gpred a = ("q", 1)) [r_a; r_p] [r_a].
Proof.
  eexists. split; [reflexivity|]. split; [reflexivity|].
  match goal with |- equiv_out _ _ _ _ ?Q =>
    change Q with (remove_unused (mk_ustate (unique_names st) [("q", 1); ("a", 1)] [(("q", 1), [0]); (("a", 1), [0])] (new_names st)) [r_a; r_p]) end.
  apply (remove_unused_sound sym_lt [("q", 1)] [("a", 1)] st).
  - reflexivity.
  - reflexivity.
  - apply deleted_heads_total_defined. reflexivity.
  - intros p ->. left. reflexivity.
  - intros a [->| ->]; right; simpl; auto.
Qed.
End Example.

Print Assumptions drop_dead_fwd.
Print Assumptions drop_dead_bwd.
Print Assumptions drop_dead_predicate_sound.
Print Assumptions analyze_usage_used.
Print Assumptions analyze_usage_covers_bodies.
Print Assumptions remove_unused_shape.
Print Assumptions remove_unused_fwd.
Print Assumptions remove_unused_bwd.
Print Assumptions remove_unused_sound.
Print Assumptions Counterexample.remove_unused_needs_defined_heads.
Print Assumptions Example.example_remove_unused.
