(* Termination of the fuel-bounded loops of Model/Dependency.v (and Model/Projection.v): the fuel the
   model passes is always sufficient.

   1. adr_loop / add_domain_rules / add_domain_rule / compute_domains / dp_init never answer OutOfFuel.
      Measure: the number of entries of `filtered` whose key has no domain yet.  A pass over `filtered`
      either returns the very same state (then the length test stops the loop) or gives a domain to at
      least one key of `filtered` that had none; `domains` only grows.  So `measure < fuel` suffices and
      measure <= length filtered < length filtered + 2.
   2. reach_closure / propagate do not have an OutOfFuel value: "the fuel is enough" means the result
      is a fixpoint.  Proved: `reachable g n` is exactly the set of nodes reachable from n by at least
      one edge (closed under successors), the result of `propagate` is closed under the propagation rule.
      Measure: the number of graph nodes not yet in the set.
   3. create_domain_top never answers OutOfFuel.  Measure: the number of entries of `domains` whose key
      is not in `created_domain`; fuel >= measure + 1 suffices (the model passes length domains + 3).
   4. Projection.execute_core never answers OutOfFuel (its only sources of OutOfFuel are the binding
      analysis of Model/Binding.v and new_auxpredicate, both total).

   The totality of the Binding model is a Section hypothesis in parts 1 and 4; the last section
   discharges it with Link/TerminationBinding.v.  Stdlib only. *)
From Coq Require Import List String Ascii ZArith Bool Arith Lia.
From NGO Require Import Syntax.Ast Gen.Names Model.Traverse Model.Corr Model.Globals Model.Binding
  Model.Dependency Link.GlobalsSpec.
From NGO Require Model.Projection.
Import ListNotations.
Open Scope string_scope. Open Scope list_scope.

(* ================================================================================================ *)
(* 0. generic helpers                                                                               *)
(* ================================================================================================ *)
Lemma rbind_nf {A B} (r: result A) (f: A -> result B) :
  r <> OutOfFuel -> (forall a, f a <> OutOfFuel) -> rbind r f <> OutOfFuel.
Proof.
  destruct r as [a|k| |]; cbn; intros N F.
  - apply F.
  - discriminate.
  - discriminate.
  - exfalso. apply N. reflexivity.
Qed.

Lemma fold_nf {A X} (F: result A -> X -> result A) (l: list X) :
  (forall acc x, acc <> OutOfFuel -> F acc x <> OutOfFuel) ->
  forall init, init <> OutOfFuel -> fold_left F l init <> OutOfFuel.
Proof.
  intros HF. induction l as [|x l IH]; cbn; intros init Hi; [exact Hi|]. apply IH, HF, Hi.
Qed.

Lemma any_r_nf {A} (f: A -> result bool) (l: list A) :
  (forall x, f x <> OutOfFuel) -> any_r f l <> OutOfFuel.
Proof.
  intros Hf. induction l as [|x l IH]; cbn; [discriminate|].
  apply rbind_nf; [apply Hf|]. intros [|]; [discriminate | exact IH].
Qed.

Lemma orelse_r_nf (a: result bool) (b: unit -> result bool) :
  a <> OutOfFuel -> b tt <> OutOfFuel -> orelse_r a b <> OutOfFuel.
Proof.
  intros Ha Hb. unfold orelse_r. apply rbind_nf; [exact Ha|]. intros [|]; [discriminate | exact Hb].
Qed.

Lemma filter_r_nf {A} (f: A -> result bool) (l: list A) :
  (forall x, f x <> OutOfFuel) -> filter_r f l <> OutOfFuel.
Proof.
  intros Hf. induction l as [|x l IH]; cbn; [discriminate|].
  apply rbind_nf; [apply Hf|]. intros b. apply rbind_nf; [exact IH|]. intros r. discriminate.
Qed.

Lemma sym_pred_nf : forall t, sym_pred t <> OutOfFuel.
Proof. intros t. destruct t; discriminate. Qed.

(* counting the elements of a list that satisfy a test *)
Lemma filter_len_all {A} (f: A -> bool) (l: list A) : List.length (filter f l) <= List.length l.
Proof. induction l as [|a l IH]; cbn; [lia|]. destruct (f a); cbn; lia. Qed.

Lemma filter_len_le {A} (f g: A -> bool) (l: list A) :
  (forall x, In x l -> g x = true -> f x = true) ->
  List.length (filter g l) <= List.length (filter f l).
Proof.
  induction l as [|a l IH]; cbn; intros H; [lia|].
  assert (IH': List.length (filter g l) <= List.length (filter f l)).
  { apply IH. intros x Hx. apply H. right. exact Hx. }
  destruct (g a) eqn:G.
  - rewrite (H a (or_introl eq_refl) G). cbn. lia.
  - destruct (f a); cbn; lia.
Qed.

Lemma filter_len_lt {A} (f g: A -> bool) (l: list A) (x0: A) :
  (forall x, In x l -> g x = true -> f x = true) ->
  In x0 l -> f x0 = true -> g x0 = false ->
  List.length (filter g l) < List.length (filter f l).
Proof.
  induction l as [|a l IH]; cbn; intros H Hin Hf Hg; [contradiction|].
  assert (Hl: forall x, In x l -> g x = true -> f x = true).
  { intros x Hx. apply H. right. exact Hx. }
  destruct Hin as [-> | Hin].
  - rewrite Hf, Hg. cbn. pose proof (filter_len_le f g l Hl). lia.
  - specialize (IH Hl Hin Hf Hg).
    destruct (g a) eqn:G.
    + rewrite (H a (or_introl eq_refl) G). cbn. lia.
    + destruct (f a); cbn; lia.
Qed.

(* association lists keyed by predicates *)
Lemma pred_eqb_refl : forall p, pred_eqb p p = true.
Proof. intros p. apply pred_eqb_eq. reflexivity. Qed.

Lemma ahas_aset_same {V} (p: pred) (v: V) (m: list (pred * V)) :
  ahas pred_eqb p (aset pred_eqb p v m) = true.
Proof.
  unfold ahas. induction m as [|[k' v'] r IH]; cbn.
  - rewrite pred_eqb_refl. reflexivity.
  - destruct (pred_eqb p k') eqn:E; cbn; rewrite E; [reflexivity | exact IH].
Qed.

Lemma ahas_aset_mono {V} (q p: pred) (v: V) (m: list (pred * V)) :
  ahas pred_eqb q m = true -> ahas pred_eqb q (aset pred_eqb p v m) = true.
Proof.
  unfold ahas. induction m as [|[k' v'] r IH]; cbn.
  - discriminate.
  - destruct (pred_eqb p k') eqn:E; cbn; destruct (pred_eqb q k') eqn:E2; auto.
Qed.

Lemma ahas_In {V} (p: pred) (m: list (pred * V)) :
  ahas pred_eqb p m = true -> exists v, In (p, v) m.
Proof.
  unfold ahas. induction m as [|[k' v'] r IH]; cbn.
  - discriminate.
  - destruct (pred_eqb p k') eqn:E.
    + intros _. apply pred_eqb_eq in E. subst k'. exists v'. left. reflexivity.
    + intros H. destruct (IH H) as [v Hv]. exists v. right. exact Hv.
Qed.

(* ================================================================================================ *)
(* 1. add_domain_rules                                                                              *)
(* ================================================================================================ *)
(* _predicate only touches unique_names and the cache, and never runs out of fuel *)
Lemma predicate_cases : forall name arity st,
  (exists p, predicate_ name arity st = (st, Ok p)) \/
  (exists p un c, predicate_ name arity st = (set_names st un c, Ok p)).
Proof.
  intros name arity st. unfold predicate_.
  destruct (alookup pkey_eqb (name, arity) (pred_cache st)) as [p|].
  - left. exists p. reflexivity.
  - destruct (new_predicate_total (unique_names st) name arity) as [p [un E]]. rewrite E.
    right. exists p, un, (pred_cache st ++ [((name, arity), p)]). reflexivity.
Qed.

Lemma predicate_nf : forall name arity st, snd (predicate_ name arity st) <> OutOfFuel.
Proof.
  intros name arity st.
  destruct (predicate_cases name arity st) as [[p E] | [p [un [c E]]]]; rewrite E; discriminate.
Qed.

(* `domains` only grows *)
Definition dom_le (st st': dstate) : Prop :=
  forall q, ahas pred_eqb q (domains st) = true -> ahas pred_eqb q (domains st') = true.

Lemma dom_le_refl : forall st, dom_le st st.
Proof. intros st q H. exact H. Qed.
Lemma dom_le_trans : forall a b c, dom_le a b -> dom_le b c -> dom_le a c.
Proof. intros a b c H1 H2 q H. apply H2, H1, H. Qed.

(* one loop body: nothing happens, or the key gets a domain it did not have *)
Lemma adr_step_cases : forall st pr st',
  adr_step st pr = Ok st' ->
  st' = st \/
  (dom_le st st' /\ ahas pred_eqb (fst pr) (domains st) = false /\ ahas pred_eqb (fst pr) (domains st') = true).
Proof.
  intros st [p rules] st' H. unfold adr_step in H.
  destruct (ahas pred_eqb p (domains st)) eqn:E1.
  { injection H as <-. left. reflexivity. }
  destruct (negb (forallb (fun rule : dr_entry => forallb (have_domain st) (snd rule)) rules)).
  { injection H as <-. left. reflexivity. }
  destruct (existsb (fun rule : dr_entry => existsb (fun c => negb (forallb is_fun (symatoms_bodyelem c))) (snd rule)) rules).
  { discriminate H. }
  unfold dom_named_predicate in H.
  match type of H with context [predicate_ ?n ?a ?s] =>
    destruct (predicate_cases n a s) as [[d E] | [d [un [c E]]]]; rewrite E in H end;
  injection H as <-; right; cbn; (split; [| split; [exact E1 | apply ahas_aset_same]]);
  intros q Hq; apply ahas_aset_mono; exact Hq.
Qed.

Lemma adr_step_nf : forall st pr, adr_step st pr <> OutOfFuel.
Proof.
  intros st [p rules]. unfold adr_step.
  destruct (ahas pred_eqb p (domains st)); [discriminate|].
  destruct (negb (forallb (fun rule : dr_entry => forallb (have_domain st) (snd rule)) rules)); [discriminate|].
  destruct (existsb (fun rule : dr_entry => existsb (fun c => negb (forallb is_fun (symatoms_bodyelem c))) (snd rule)) rules);
    [discriminate|].
  unfold dom_named_predicate.
  match goal with |- context [predicate_ ?n ?a ?s] =>
    destruct (predicate_cases n a s) as [[d E] | [d [un [c E]]]]; rewrite E end; discriminate.
Qed.

(* one pass `for pred, rules in filtered` *)
Definition adr_pass (st: dstate) (l: dr_map) : result dstate :=
  fold_left (fun acc pr => rbind acc (fun st => adr_step st pr)) l (Ok st).

Lemma adr_fold_ok : forall (l: dr_map) r st',
  fold_left (fun acc pr => rbind acc (fun st => adr_step st pr)) l r = Ok st' -> exists s, r = Ok s.
Proof.
  induction l as [|x l IH]; cbn; intros r st' H.
  - exists st'. exact H.
  - apply IH in H. destruct H as [s Hs]. destruct r as [s0|k| |]; cbn in Hs; try discriminate Hs.
    exists s0. reflexivity.
Qed.

Lemma adr_pass_nf : forall l st, adr_pass st l <> OutOfFuel.
Proof.
  intros l st. unfold adr_pass. apply fold_nf; [| discriminate].
  intros acc x Hacc. apply rbind_nf; [exact Hacc|]. intros s. apply adr_step_nf.
Qed.

Lemma adr_pass_progress : forall (filtered l: dr_map), incl l filtered -> forall st st',
  adr_pass st l = Ok st' ->
  st' = st \/
  (dom_le st st' /\ exists pr, In pr filtered /\ ahas pred_eqb (fst pr) (domains st) = false
                               /\ ahas pred_eqb (fst pr) (domains st') = true).
Proof.
  intros filtered. unfold adr_pass. induction l as [|x l IH]; intros Hincl st st' H; cbn in H.
  - injection H as <-. left. reflexivity.
  - destruct (adr_fold_ok _ _ _ H) as [s1 Hs1]. rewrite Hs1 in H.
    assert (Hl: incl l filtered) by (intros y Hy; apply Hincl; right; exact Hy).
    assert (Hx: In x filtered) by (apply Hincl; left; reflexivity).
    specialize (IH Hl s1 st' H).
    destruct (adr_step_cases _ _ _ Hs1) as [-> | [L1 [F1 T1]]].
    + exact IH.
    + right. destruct IH as [-> | [L2 [pr [Hpr [F2 T2]]]]].
      * split; [exact L1|]. exists x. auto.
      * split; [eapply dom_le_trans; eassumption|]. exists x. repeat split; auto.
Qed.

(* the number of keys of `filtered` that still lack a domain *)
Definition adr_measure (filtered: dr_map) (st: dstate) : nat :=
  List.length (filter (fun pr : pred * list dr_entry => negb (ahas pred_eqb (fst pr) (domains st))) filtered).

Lemma adr_measure_le : forall filtered st, adr_measure filtered st <= List.length filtered.
Proof. intros. apply filter_len_all. Qed.

Lemma adr_pass_measure : forall filtered st st',
  adr_pass st filtered = Ok st' -> st' = st \/ adr_measure filtered st' < adr_measure filtered st.
Proof.
  intros filtered st st' H.
  destruct (adr_pass_progress filtered filtered (incl_refl _) st st' H) as [-> | [L [pr [Hpr [F T]]]]];
    [left; reflexivity | right].
  unfold adr_measure. apply filter_len_lt with (x0 := pr).
  - intros x _ Hx. apply negb_true_iff in Hx. apply negb_true_iff.
    destruct (ahas pred_eqb (fst x) (domains st)) eqn:E; [| reflexivity].
    apply L in E. congruence.
  - exact Hpr.
  - rewrite F. reflexivity.
  - rewrite T. reflexivity.
Qed.

Theorem adr_loop_no_outoffuel : forall fuel st filtered,
  adr_measure filtered st < fuel -> adr_loop fuel st filtered <> OutOfFuel.
Proof.
  induction fuel as [|f IH]; intros st filtered Hm; [lia|].
  cbn [adr_loop]. fold (adr_pass st filtered).
  destruct (adr_pass st filtered) as [st'|k| |] eqn:E; cbn [rbind]; try discriminate.
  - destruct (Nat.eqb (List.length (domain_rules st')) (List.length (domain_rules st))) eqn:N; [discriminate|].
    apply IH. destruct (adr_pass_measure _ _ _ E) as [-> | Hlt].
    + rewrite Nat.eqb_refl in N. discriminate N.
    + lia.
  - exfalso. exact (adr_pass_nf _ _ E).
Qed.

(* the fuel of the model has a slack of one *)
Corollary adr_loop_fuel_enough : forall st filtered,
  adr_loop (List.length filtered + 1) st filtered <> OutOfFuel.
Proof. intros. apply adr_loop_no_outoffuel. pose proof (adr_measure_le filtered st). lia. Qed.

Lemma is_too_complex_syms_nf : forall st syms, is_too_complex_syms st syms <> OutOfFuel.
Proof.
  intros st syms. unfold is_too_complex_syms. apply any_r_nf. intros t.
  apply rbind_nf; [apply sym_pred_nf | discriminate].
Qed.

Lemma is_dynamic_sum_nf : forall st cond, is_dynamic_sum st cond <> OutOfFuel.
Proof.
  intros st [[s a] | l c]; cbn; [| discriminate].
  apply any_r_nf. intros t. apply rbind_nf; [apply sym_pred_nf | discriminate].
Qed.

Lemma collect_domain_rules_nf : forall prg, collect_domain_rules prg <> OutOfFuel.
Proof.
  intros prg. unfold collect_domain_rules. apply fold_nf; [| discriminate].
  intros acc stm Hacc. destruct stm; try exact Hacc.
  apply fold_nf; [| exact Hacc].
  intros acc' e Hacc'. apply rbind_nf; [exact Hacc'|]. intros m.
  apply rbind_nf; [| discriminate].
  unfold atom2pred. destruct (fst e); try discriminate. apply sym_pred_nf.
Qed.

Lemma choice_elem_nf : forall acc c, acc <> OutOfFuel -> choice_elem acc c <> OutOfFuel.
Proof.
  intros acc c Hacc. unfold choice_elem. apply rbind_nf; [exact Hacc|]. intros ns.
  destruct (literal_predicate all_signs (fst c)); discriminate.
Qed.

Lemma compute_nonstatic_predicates_nf : forall prg, compute_nonstatic_predicates prg <> OutOfFuel.
Proof.
  intros prg. unfold compute_nonstatic_predicates. apply rbind_nf; [| discriminate].
  apply fold_nf; [| discriminate].
  intros acc stm Hacc. unfold choice_preds_stmt. apply rbind_nf; [exact Hacc|]. intros ns.
  destruct stm as [line h b| | | |]; try discriminate.
  destruct h; try discriminate; (apply fold_nf; [apply choice_elem_nf | discriminate]).
Qed.

Section WithBinding.
  Hypothesis cbv_nofuel : forall b, Binding.collect_bound_variables b <> OutOfFuel.

  Lemma unbounded_head_nf : forall pair, unbounded_head pair <> OutOfFuel.
  Proof.
    intros [h c]. unfold unbounded_head. apply rbind_nf; [apply cbv_nofuel | discriminate].
  Qed.

  Lemma too_complex_rule_nf : forall st rule, too_complex_rule st rule <> OutOfFuel.
  Proof.
    intros st rule. unfold too_complex_rule.
    apply orelse_r_nf; [apply unbounded_head_nf|]. cbv beta.
    apply orelse_r_nf; [apply is_too_complex_syms_nf|]. cbv beta.
    apply any_r_nf. intros cond.
    apply orelse_r_nf; [apply is_too_complex_syms_nf | apply is_dynamic_sum_nf].
  Qed.

  Lemma too_complex_rules_nf : forall st pair, too_complex_rules st pair <> OutOfFuel.
  Proof.
    intros st pair. unfold too_complex_rules. destruct (is_static st (fst pair)); [discriminate|].
    apply any_r_nf. apply too_complex_rule_nf.
  Qed.

  Theorem add_domain_rules_no_outoffuel : forall st drs, add_domain_rules st drs <> OutOfFuel.
  Proof.
    intros st drs. unfold add_domain_rules. apply rbind_nf.
    - apply filter_r_nf. intros x. apply rbind_nf; [apply too_complex_rules_nf | discriminate].
    - intros filtered. apply adr_loop_no_outoffuel. pose proof (adr_measure_le filtered st). lia.
  Qed.

  Theorem add_domain_rule_no_outoffuel : forall st p conditions, add_domain_rule st p conditions <> OutOfFuel.
  Proof. intros. unfold add_domain_rule. apply add_domain_rules_no_outoffuel. Qed.

  Theorem compute_domains_no_outoffuel : forall st prg, compute_domains st prg <> OutOfFuel.
  Proof.
    intros st prg. unfold compute_domains. apply rbind_nf; [apply collect_domain_rules_nf|].
    intros drs. apply add_domain_rules_no_outoffuel.
  Qed.

  Theorem dp_init_no_outoffuel : forall un prg, dp_init un prg <> OutOfFuel.
  Proof.
    intros un prg. unfold dp_init. destruct (negb (dep_in_fragment prg)); [discriminate|].
    apply rbind_nf; [apply compute_nonstatic_predicates_nf|]. intros r. apply compute_domains_no_outoffuel.
  Qed.
End WithBinding.

(* ================================================================================================ *)
(* 2. reach_closure / propagate reach their fixpoint                                                *)
(* ================================================================================================ *)
(* l' is l followed by elements that were not in l *)
Definition lext {A} (l l': list A) : Prop :=
  exists extra, l' = l ++ extra /\ forall x, In x extra -> ~ In x l.

Lemma lext_refl {A} (l: list A) : lext l l.
Proof. exists []. split; [symmetry; apply app_nil_r | intros x []]. Qed.

Lemma lext_trans {A} (a b c: list A) : lext a b -> lext b c -> lext a c.
Proof.
  intros [e1 [-> H1]] [e2 [-> H2]]. exists (e1 ++ e2). split; [symmetry; apply app_assoc|].
  intros x Hx. apply in_app_iff in Hx. destruct Hx as [Hx | Hx]; [apply H1; exact Hx|].
  intros Hin. apply (H2 x Hx). apply in_app_iff. left. exact Hin.
Qed.

Lemma lext_incl {A} (l l': list A) : lext l l' -> incl l l'.
Proof. intros [e [-> _]] x Hx. apply in_app_iff. left. exact Hx. Qed.

Lemma lext_same_len {A} (l l': list A) : lext l l' -> List.length l' = List.length l -> l' = l.
Proof.
  intros [e [-> _]] H. rewrite app_length in H. destruct e; [apply app_nil_r | cbn in H; lia].
Qed.

Lemma lext_new {A} (l l': list A) :
  lext l l' -> List.length l' <> List.length l -> exists x, In x l' /\ ~ In x l.
Proof.
  intros [e [-> He]] H. destruct e as [|x e].
  - rewrite app_nil_r in H. contradiction.
  - exists x. split; [apply in_app_iff; right; left; reflexivity | apply He; left; reflexivity].
Qed.

Lemma padd_lext : forall p l, lext l (padd p l).
Proof.
  intros p l. unfold padd. destruct (pmem p l) eqn:E; [apply lext_refl|].
  exists [p]. split; [reflexivity|]. intros x [<- | []]. apply pmem_false. exact E.
Qed.

Lemma fold_lext {A X} (F: list A -> X -> list A) (xs: list X) :
  (forall acc x, lext acc (F acc x)) -> forall acc, lext acc (fold_left F xs acc).
Proof.
  intros HF. induction xs as [|x xs IH]; cbn; intros acc; [apply lext_refl|].
  eapply lext_trans; [apply HF | apply IH].
Qed.

Lemma padd_all_lext : forall ps l, lext l (padd_all ps l).
Proof. intros ps l. unfold padd_all. apply fold_lext. intros acc p. apply padd_lext. Qed.

Lemma fold_padd_all_In' {X} (F: X -> list pred) : forall xs acc q,
  In q (fold_left (fun acc s => padd_all (F s) acc) xs acc) <->
  In q acc \/ exists s, In s xs /\ In q (F s).
Proof.
  induction xs as [|s xs IH]; intros acc q; cbn.
  - split; [auto | intros [H | [s [[] _]]]; assumption].
  - rewrite IH, padd_all_In. split.
    + intros [[H | H] | [s' [Hs Hq]]]; [right; exists s; auto | auto | right; exists s'; auto].
    + intros [H | [s' [[<- | Hs] Hq]]]; [auto | auto | right; exists s'; auto].
Qed.

(* the nodes of a graph are the end points of its edges *)
Lemma graph_nodes_In_gen : forall (g: list edge) acc q,
  In q (fold_left (fun acc e => padd (snd e) (padd (fst e) acc)) g acc) <->
  In q acc \/ exists e, In e g /\ (q = fst e \/ q = snd e).
Proof.
  induction g as [|e g IH]; intros acc q; cbn.
  - split; [auto | intros [H | [e [[] _]]]; assumption].
  - rewrite IH, !padd_In. split.
    + intros [[H | [H | H]] | [e' [He Hq]]].
      * right. exists e. auto.
      * right. exists e. auto.
      * auto.
      * right. exists e'. auto.
    + intros [H | [e' [[<- | He] Hq]]].
      * auto.
      * left. destruct Hq as [Hq | Hq]; auto.
      * right. exists e'. auto.
Qed.

Lemma graph_nodes_In : forall g q,
  In q (graph_nodes g) <-> exists e, In e g /\ (q = fst e \/ q = snd e).
Proof.
  intros g q. unfold graph_nodes. rewrite graph_nodes_In_gen. cbn. split; [intros [[] | H]; exact H | auto].
Qed.

Lemma succs_In : forall g x y, In y (succs g x) <-> In (x, y) g.
Proof.
  intros g x y. unfold succs. rewrite in_map_iff. split.
  - intros [[a b] [Hb He]]. apply filter_In in He. destruct He as [He Ha]. cbn in *.
    apply pred_eqb_eq in Ha. subst. exact He.
  - intros H. exists (x, y). split; [reflexivity|]. apply filter_In. split; [exact H|].
    cbn. apply pred_eqb_refl.
Qed.

Lemma succs_nodes : forall g x y, In y (succs g x) -> In y (graph_nodes g).
Proof.
  intros g x y H. apply succs_In in H. apply graph_nodes_In. exists (x, y). split; [exact H|]. right. reflexivity.
Qed.

(* the number of nodes of g that are not in s *)
Definition node_measure (g: list edge) (s: list pred) : nat :=
  List.length (filter (fun q => negb (pmem q s)) (graph_nodes g)).

Lemma node_measure_le : forall g s, node_measure g s <= List.length (graph_nodes g).
Proof. intros. apply filter_len_all. Qed.

Lemma node_measure_lt : forall g s s' x,
  incl s s' -> In x (graph_nodes g) -> In x s' -> ~ In x s -> node_measure g s' < node_measure g s.
Proof.
  intros g s s' x Hincl Hn Hs' Hs. unfold node_measure. apply filter_len_lt with (x0 := x).
  - intros q _ Hq. apply negb_true_iff in Hq. apply negb_true_iff.
    apply pmem_false in Hq. apply pmem_false. intros Hin. apply Hq, Hincl, Hin.
  - exact Hn.
  - apply negb_true_iff, pmem_false. exact Hs.
  - apply negb_false_iff, pmem_In. exact Hs'.
Qed.

(* ---------- reach_closure ---------- *)
Definition rstep (g: list edge) (s: list pred) : list pred :=
  fold_left (fun acc n => padd_all (succs g n) acc) s s.

Lemma reach_closure_S : forall f g s,
  reach_closure (S f) g s =
  if Nat.eqb (List.length (rstep g s)) (List.length s) then s else reach_closure f g (rstep g s).
Proof. reflexivity. Qed.

Lemma rstep_lext : forall g s, lext s (rstep g s).
Proof. intros g s. unfold rstep. apply fold_lext. intros acc n. apply padd_all_lext. Qed.

Lemma rstep_In : forall g s q, In q (rstep g s) <-> In q s \/ exists n, In n s /\ In q (succs g n).
Proof. intros g s q. unfold rstep. apply fold_padd_all_In'. Qed.

Definition succ_closed (g: list edge) (s: list pred) : Prop :=
  forall x y, In x s -> In y (succs g x) -> In y s.

Lemma reach_closure_closed : forall fuel g s,
  node_measure g s < fuel -> succ_closed g (reach_closure fuel g s).
Proof.
  induction fuel as [|f IH]; intros g s Hm; [lia|].
  rewrite reach_closure_S.
  destruct (Nat.eqb (List.length (rstep g s)) (List.length s)) eqn:N.
  - apply Nat.eqb_eq in N. apply (lext_same_len _ _ (rstep_lext g s)) in N.
    intros x y Hx Hy. rewrite <- N. apply rstep_In. right. exists x. auto.
  - apply Nat.eqb_neq in N. apply IH.
    destruct (lext_new _ _ (rstep_lext g s) N) as [x [Hx' Hx]].
    assert (Hn: In x (graph_nodes g)).
    { apply rstep_In in Hx'. destruct Hx' as [Hx' | [n [_ Hs]]]; [contradiction|].
      eapply succs_nodes. exact Hs. }
    pose proof (node_measure_lt g s (rstep g s) x (lext_incl _ _ (rstep_lext g s)) Hn Hx' Hx). lia.
Qed.

Lemma reach_closure_incl : forall fuel g s, incl s (reach_closure fuel g s).
Proof.
  induction fuel as [|f IH]; intros g s; [apply incl_refl|].
  rewrite reach_closure_S. destruct (Nat.eqb _ _); [apply incl_refl|].
  eapply incl_tran; [apply lext_incl, rstep_lext | apply IH].
Qed.

(* reachability by at least one edge *)
Inductive tc_path (g: list edge) : pred -> pred -> Prop :=
| tc_one : forall x y, In (x, y) g -> tc_path g x y
| tc_step : forall x y z, tc_path g x y -> In (y, z) g -> tc_path g x z.

Lemma reach_closure_sound : forall fuel g n s,
  (forall y, In y s -> tc_path g n y) -> forall y, In y (reach_closure fuel g s) -> tc_path g n y.
Proof.
  induction fuel as [|f IH]; intros g n s Hs y Hy; [apply Hs; exact Hy|].
  rewrite reach_closure_S in Hy. destruct (Nat.eqb _ _); [apply Hs; exact Hy|].
  eapply IH; [| exact Hy]. intros z Hz. apply rstep_In in Hz. destruct Hz as [Hz | [m [Hm Hz]]].
  - apply Hs. exact Hz.
  - eapply tc_step; [apply Hs; exact Hm | apply succs_In; exact Hz].
Qed.

Theorem reachable_closed : forall g n x y,
  In x (reachable g n) -> In y (succs g x) -> In y (reachable g n).
Proof.
  intros g n. unfold reachable. apply reach_closure_closed.
  pose proof (node_measure_le g (padd_all (succs g n) [])). lia.
Qed.

Theorem reachable_base : forall g n y, In y (succs g n) -> In y (reachable g n).
Proof.
  intros g n y H. unfold reachable. apply reach_closure_incl. apply padd_all_In. left. exact H.
Qed.

(* the fuel is enough: `reachable` is exactly reachability by a non-empty path *)
Theorem reachable_iff : forall g n y, In y (reachable g n) <-> tc_path g n y.
Proof.
  intros g n y. split.
  - unfold reachable. apply reach_closure_sound. intros z Hz. apply padd_all_In in Hz.
    destruct Hz as [Hz | []]. apply tc_one. apply succs_In. exact Hz.
  - induction 1 as [x y H | x y z _ IH H].
    + apply reachable_base. apply succs_In. exact H.
    + eapply reachable_closed; [exact IH | apply succs_In; exact H].
Qed.

(* ---------- propagate ---------- *)
Definition pstep (g: list edge) (cyclic ns: list pred) : list pred :=
  fold_left (fun acc (e: edge) =>
               if andb (pmem (fst e) acc) (negb (pmem (snd e) cyclic)) then padd (snd e) acc else acc)
            g ns.

Lemma propagate_S : forall f g cyclic ns,
  propagate (S f) g cyclic ns =
  if Nat.eqb (List.length (pstep g cyclic ns)) (List.length ns) then ns else propagate f g cyclic (pstep g cyclic ns).
Proof. reflexivity. Qed.

Lemma pstep_gen : forall cyclic (l: list edge) acc,
  let r := fold_left (fun acc (e: edge) =>
                        if andb (pmem (fst e) acc) (negb (pmem (snd e) cyclic)) then padd (snd e) acc else acc)
                     l acc in
  lext acc r /\
  (forall e, In e l -> In (fst e) acc -> ~ In (snd e) cyclic -> In (snd e) r) /\
  (forall q, In q r -> In q acc \/ exists e, In e l /\ q = snd e).
Proof.
  intros cyclic. induction l as [|e l IH]; intros acc; cbn zeta; cbn [fold_left].
  - split; [apply lext_refl|]. split; [intros e [] | auto].
  - set (acc1 := if andb (pmem (fst e) acc) (negb (pmem (snd e) cyclic)) then padd (snd e) acc else acc).
    assert (H1: lext acc acc1).
    { unfold acc1. destruct (andb _ _); [apply padd_lext | apply lext_refl]. }
    destruct (IH acc1) as [L [C N]]. cbn zeta in L, C, N.
    split; [eapply lext_trans; eassumption|]. split.
    + intros e' [<- | He'] Hf Hc.
      * apply (lext_incl _ _ L). unfold acc1.
        apply pmem_In in Hf. apply pmem_false in Hc. rewrite Hf, Hc. cbn.
        apply padd_In. left. reflexivity.
      * apply C; [exact He' | apply (lext_incl _ _ H1); exact Hf | exact Hc].
    + intros q Hq. apply N in Hq. destruct Hq as [Hq | [e' [He' ->]]].
      * unfold acc1 in Hq. destruct (andb _ _); [| left; exact Hq].
        apply padd_In in Hq. destruct Hq as [Hq | Hq]; [| left; exact Hq].
        right. exists e. split; [left; reflexivity | exact Hq].
      * right. exists e'. split; [right; exact He' | reflexivity].
Qed.

(* closed under the rule "a predecessor is not static and the node is not cyclic" *)
Definition prop_closed (g: list edge) (cyclic ns: list pred) : Prop :=
  forall e, In e g -> In (fst e) ns -> ~ In (snd e) cyclic -> In (snd e) ns.

Lemma propagate_closed : forall fuel g cyclic ns,
  node_measure g ns < fuel -> prop_closed g cyclic (propagate fuel g cyclic ns).
Proof.
  induction fuel as [|f IH]; intros g cyclic ns Hm; [lia|].
  rewrite propagate_S.
  destruct (pstep_gen cyclic g ns) as [L [C N]]. cbn zeta in L, C, N. fold (pstep g cyclic ns) in L, C, N.
  destruct (Nat.eqb (List.length (pstep g cyclic ns)) (List.length ns)) eqn:E.
  - apply Nat.eqb_eq in E. apply (lext_same_len _ _ L) in E.
    intros e He Hf Hc. rewrite <- E. apply C; assumption.
  - apply Nat.eqb_neq in E. apply IH.
    destruct (lext_new _ _ L E) as [x [Hx' Hx]].
    assert (Hn: In x (graph_nodes g)).
    { apply N in Hx'. destruct Hx' as [Hx' | [e [He ->]]]; [contradiction|].
      apply graph_nodes_In. exists e. auto. }
    pose proof (node_measure_lt g ns (pstep g cyclic ns) x (lext_incl _ _ L) Hn Hx' Hx). lia.
Qed.

Lemma propagate_incl : forall fuel g cyclic ns, incl ns (propagate fuel g cyclic ns).
Proof.
  induction fuel as [|f IH]; intros g cyclic ns; [apply incl_refl|].
  rewrite propagate_S. destruct (Nat.eqb _ _); [apply incl_refl|].
  eapply incl_tran; [| apply IH].
  destruct (pstep_gen cyclic g ns) as [L _]. apply lext_incl. exact L.
Qed.

(* the fuel S (number of nodes) that compute_nonstatic_predicates passes is enough *)
Theorem propagate_fuel_enough : forall g cyclic ns,
  prop_closed g cyclic (propagate (S (List.length (graph_nodes g))) g cyclic ns).
Proof. intros. apply propagate_closed. pose proof (node_measure_le g ns). lia. Qed.

Theorem compute_nonstatic_predicates_closed : forall prg ns cyclic,
  compute_nonstatic_predicates prg = Ok (ns, cyclic) ->
  prop_closed (create_graph_from_prg prg all_signs) cyclic ns.
Proof.
  intros prg ns cyclic H. unfold compute_nonstatic_predicates in H.
  destruct (fold_left choice_preds_stmt prg (Ok [])) as [ns0|k| |]; cbn in H; try discriminate H.
  injection H as <- <-. apply propagate_fuel_enough.
Qed.

(* ================================================================================================ *)
(* 3. create_domain                                                                                 *)
(* ================================================================================================ *)
(* a computation keeps the invariant I and, if NF holds, does not run out of fuel *)
Definition good {A} (I: dstate -> Prop) (NF: Prop) (m: M A) : Prop :=
  forall st, I st -> I (fst (m st)) /\ (NF -> snd (m st) <> OutOfFuel).

Lemma good_pure {A} (I: dstate -> Prop) (NF: Prop) (f: dstate -> result A) :
  (forall st, f st <> OutOfFuel) -> good I NF (fun st => (st, f st)).
Proof. intros H st HI. cbn. split; [exact HI | intros _; apply H]. Qed.

Lemma good_mret {A} I NF (a: A) : good I NF (mret a).
Proof. apply good_pure. discriminate. Qed.

Lemma good_mlift {A} I NF (r: result A) : r <> OutOfFuel -> good I NF (mlift r).
Proof. intros H. apply good_pure. intros _. exact H. Qed.

Lemma good_mbind {A B} I NF (m: M A) (f: A -> M B) :
  good I NF m -> (forall a, good I NF (f a)) -> good I NF (mbind m f).
Proof.
  intros Hm Hf st HI. unfold mbind. destruct (Hm st HI) as [H1 H2].
  destruct (m st) as [st' [a|k| |]]; cbn in *.
  - apply Hf. exact H1.
  - split; [exact H1 | discriminate].
  - split; [exact H1 | discriminate].
  - split; [exact H1 | intros HN E; apply (H2 HN); reflexivity].
Qed.

Lemma good_mconcat {A B} I NF (f: A -> M (list B)) (l: list A) :
  (forall x, good I NF (f x)) -> good I NF (mconcat f l).
Proof.
  intros Hf. induction l as [|x l IH]; cbn [mconcat].
  - apply good_mret.
  - apply good_mbind; [apply Hf|]. intros ys. apply good_mbind; [exact IH|]. intros zs. apply good_mret.
Qed.

(* the body of create_domain with the recursive call abstracted *)
Definition cd_for_condition (rec: pred -> M (list stmt)) (node: bodyelem) : M (list stmt) :=
  mconcat (fun symbol : term =>
             mbind (mlift (sym_pred symbol)) (fun dom_pred =>
             fun st' =>
               match orig_preds st' dom_pred with
               | o :: _ => rec o st'
               | [] => (st', Ok [])
               end))
          (symatoms_bodyelem node).

Definition cd_rules (rec: pred -> M (list stmt)) (p: pred) (rules: list dr_entry) : M (list stmt) :=
  mconcat (fun rule : dr_entry =>
             let '(h, condition) := rule in
             mbind (fun st' => (st', domain_predicate st' p)) (fun d =>
             mbind (mlift (match h with
                           | ASym (TFun _ args _) => Ok args
                           | _ => Raise "AttributeError"
                           end)) (fun args =>
             let newatom := ASym (TFun (fst d) args false) in
             mbind (mconcat (cd_for_condition rec) condition) (fun pre =>
             mret (pre ++ [mk_rule (Lit NoSign newatom) condition])))))
          rules.

Lemma create_domain_S : forall f p st,
  create_domain (S f) p st =
  if pmem p (created_domain st) then (st, Ok [])
  else
    let st := set_created st (padd p (created_domain st)) in
    if negb (has_domain st p) then (st, Raise "RuntimeError")
    else if is_static st p then (st, Ok [])
    else match alookup pred_eqb p (domain_rules st) with
         | None => (st, Raise "RuntimeError")
         | Some rules => cd_rules (create_domain f) p rules st
         end.
Proof. reflexivity. Qed.

Lemma domain_predicate_nf : forall st p, domain_predicate st p <> OutOfFuel.
Proof.
  intros st p. unfold domain_predicate. destruct (negb (has_domain st p)); [discriminate|].
  destruct (is_static st p); [discriminate|]. destruct (alookup pred_eqb p (domains st)); discriminate.
Qed.

Lemma cd_rules_good : forall I NF rec p rules,
  (forall o, good I NF (rec o)) -> good I NF (cd_rules rec p rules).
Proof.
  intros I NF rec p rules Hrec. unfold cd_rules. apply good_mconcat. intros [h condition].
  apply good_mbind.
  { apply good_pure. intros st. apply domain_predicate_nf. }
  intros d. apply good_mbind.
  { apply good_mlift. destruct h as [t| | | | |]; try discriminate. destruct t; discriminate. }
  intros args. cbv zeta. apply good_mbind; [| intros pre; apply good_mret].
  apply good_mconcat. intros node. unfold cd_for_condition. apply good_mconcat. intros symbol.
  apply good_mbind; [apply good_mlift, sym_pred_nf|]. intros dom_pred st HI.
  destruct (orig_preds st dom_pred) as [|o rest].
  - cbn. split; [exact HI | discriminate].
  - apply Hrec. exact HI.
Qed.

(* `domains` is D and at least the predicates of C have been created *)
Definition cd_inv (D: list (pred * pred)) (C: list pred) (st: dstate) : Prop :=
  domains st = D /\ incl C (created_domain st).

(* number of entries of D whose key has not been created *)
Definition cd_measure (D: list (pred * pred)) (C: list pred) : nat :=
  List.length (filter (fun kv : pred * pred => negb (pmem (fst kv) C)) D).

Lemma cd_measure_le : forall D C, cd_measure D C <= List.length D.
Proof. intros. apply filter_len_all. Qed.

Lemma cd_measure_mono : forall D C C', incl C C' -> cd_measure D C' <= cd_measure D C.
Proof.
  intros D C C' H. unfold cd_measure. apply filter_len_le.
  intros x _ Hx. apply negb_true_iff in Hx. apply negb_true_iff.
  apply pmem_false in Hx. apply pmem_false. intros Hin. apply Hx, H, Hin.
Qed.

Lemma cd_measure_lt : forall D C p d,
  In (p, d) D -> ~ In p C -> cd_measure D (padd p C) < cd_measure D C.
Proof.
  intros D C p d Hin Hp. unfold cd_measure. apply filter_len_lt with (x0 := (p, d)).
  - intros x _ Hx. apply negb_true_iff in Hx. apply negb_true_iff.
    apply pmem_false in Hx. apply pmem_false. intros H. apply Hx. apply padd_In. right. exact H.
  - exact Hin.
  - cbn. apply negb_true_iff, pmem_false. exact Hp.
  - cbn. apply negb_false_iff, pmem_In. apply padd_In. left. reflexivity.
Qed.

Theorem create_domain_good : forall fuel p D C,
  good (cd_inv D C) (cd_measure D C + 1 <= fuel) (create_domain fuel p).
Proof.
  induction fuel as [|f IH]; intros p D C st HI.
  - cbn. split; [exact HI | lia].
  - rewrite create_domain_S. destruct HI as [HD HC].
    destruct (pmem p (created_domain st)) eqn:Ecr.
    { cbn. split; [split; assumption | discriminate]. }
    cbv zeta.
    set (st1 := set_created st (padd p (created_domain st))).
    assert (HI1: cd_inv D C st1).
    { split; [exact HD|]. cbn. intros x Hx. apply padd_In. right. apply HC. exact Hx. }
    destruct (negb (has_domain st1 p)) eqn:Ehd.
    { cbn [fst snd]. split; [exact HI1 | discriminate]. }
    destruct (is_static st1 p) eqn:Est.
    { cbn [fst snd]. split; [exact HI1 | discriminate]. }
    destruct (alookup pred_eqb p (domain_rules st1)) as [rules|].
    2:{ cbn [fst snd]. split; [exact HI1 | discriminate]. }
    set (C1 := padd p (created_domain st)).
    assert (HCC1: incl C C1).
    { intros x Hx. apply padd_In. right. apply HC. exact Hx. }
    destruct (cd_rules_good (cd_inv D C1) (cd_measure D C1 + 1 <= f) (create_domain f) p rules
                (fun o => IH o D C1) st1) as [G1 G2].
    { split; [exact HD | apply incl_refl]. }
    split.
    + destruct G1 as [G1a G1b]. split; [exact G1a|]. eapply incl_tran; eassumption.
    + intros Hfuel. apply G2.
      (* p is a key of D that had not been created *)
      apply negb_false_iff in Ehd. unfold has_domain in Ehd. rewrite Est in Ehd. cbn in Ehd.
      destruct (ahas_In _ _ Ehd) as [d Hd]. change (domains st1) with (domains st) in Hd. rewrite HD in Hd.
      apply pmem_false in Ecr.
      pose proof (cd_measure_lt D (created_domain st) p d Hd Ecr) as Hlt.
      pose proof (cd_measure_mono D C (created_domain st) HC) as Hle.
      unfold C1. lia.
Qed.

Theorem create_domain_no_outoffuel : forall fuel p st,
  cd_measure (domains st) (created_domain st) + 1 <= fuel -> snd (create_domain fuel p st) <> OutOfFuel.
Proof.
  intros fuel p st H.
  destruct (create_domain_good fuel p (domains st) (created_domain st) st) as [_ G].
  - split; [reflexivity | apply incl_refl].
  - apply G. exact H.
Qed.

Theorem create_domain_top_no_outoffuel : forall p st, snd (create_domain_top p st) <> OutOfFuel.
Proof.
  intros p st. unfold create_domain_top. apply create_domain_no_outoffuel.
  pose proof (cd_measure_le (domains st) (created_domain st)). lia.
Qed.

(* create_domain never touches `domains` and never forgets a created predicate *)
Theorem create_domain_top_state : forall p st,
  domains (fst (create_domain_top p st)) = domains st /\
  incl (created_domain st) (created_domain (fst (create_domain_top p st))).
Proof.
  intros p st. unfold create_domain_top.
  destruct (create_domain_good (List.length (domains st) + 3) p (domains st) (created_domain st) st) as [G _].
  - split; [reflexivity | apply incl_refl].
  - exact G.
Qed.

(* ================================================================================================ *)
(* 4. Projection                                                                                    *)
(* ================================================================================================ *)
Section ProjectionNoFuel.
  Hypothesis cbib_nofuel : forall b pre, Binding.collect_binding_information_body b pre <> OutOfFuel.
  Hypothesis cbih_nofuel : forall h b, Binding.collect_binding_information_head h b <> OutOfFuel.

  Lemma good_split_nf : forall new rest stm, Projection.good_split new rest stm <> OutOfFuel.
  Proof.
    intros new rest stm. unfold Projection.good_split. destruct stm as [line h b| | | |]; try discriminate.
    destruct (orb _ _); [discriminate|].
    destruct (andb _ _); [discriminate|].
    apply rbind_nf; [apply cbib_nofuel|]. intros bu_new.
    destruct (nonempty (snd bu_new)); [discriminate|].
    apply rbind_nf.
    { unfold global_vars_inside_body. apply rbind_nf; [apply cbib_nofuel|]. intros [b0 u0]. discriminate. }
    intros global_new. apply rbind_nf.
    { unfold global_vars_inside_head. apply rbind_nf; [apply cbih_nofuel|]. intros [b0 u0]. discriminate. }
    intros global_head. cbv zeta. apply rbind_nf; [apply cbib_nofuel|]. intros bu_rest.
    destruct (nonempty (snd bu_rest)); [discriminate|].
    apply rbind_nf.
    { unfold global_vars_inside_body. apply rbind_nf; [apply cbib_nofuel|]. intros [b0 u0]. discriminate. }
    intros global_old.
    repeat match goal with |- (if ?c then _ else _) <> _ => destruct c; [discriminate|] end.
    discriminate.
  Qed.

  Lemma project_rule_loop_nf : forall subsets st line h b,
    Projection.project_rule_loop st line h b subsets <> OutOfFuel.
  Proof.
    induction subsets as [|new subsets IH]; intros st line h b; cbn [Projection.project_rule_loop]; [discriminate|].
    apply rbind_nf; [apply good_split_nf|]. intros [split_vars|]; [| apply IH].
    destruct (new_auxpredicate_total st (List.length split_vars)) as [p [st' E]]. rewrite E. discriminate.
  Qed.

  Lemma project_rule_nf : forall st stm, Projection.project_rule st stm <> OutOfFuel.
  Proof.
    intros st stm. unfold Projection.project_rule. destruct stm; try discriminate. apply project_rule_loop_nf.
  Qed.

  Lemma execute_loop_nf : forall prg st, Projection.execute_loop st prg <> OutOfFuel.
  Proof.
    induction prg as [|stm prg IH]; intros st; cbn [Projection.execute_loop]; [discriminate|].
    destruct stm.
    - apply rbind_nf; [apply project_rule_nf|]. intros r. apply rbind_nf; [apply IH|]. intros r'. discriminate.
    - apply rbind_nf; [apply IH|]. intros r'. discriminate.
    - apply rbind_nf; [apply IH|]. intros r'. discriminate.
    - apply rbind_nf; [apply IH|]. intros r'. discriminate.
    - apply rbind_nf; [apply IH|]. intros r'. discriminate.
  Qed.

  Theorem projection_execute_core_no_outoffuel_hyp : forall ctor ins prg,
    Projection.execute_core ctor ins prg <> OutOfFuel.
  Proof.
    intros ctor ins prg. unfold Projection.execute_core, Projection.execute_core_state.
    apply rbind_nf; [apply execute_loop_nf|]. intros r. discriminate.
  Qed.

  (* the per-rule driver used by the correspondence family never records OutOfFuel either *)
  Theorem projection_project_rules_no_outoffuel_hyp : forall prg st,
    ~ In OutOfFuel (fst (Projection.project_rules st prg)).
  Proof.
    induction prg as [|stm prg IH]; intros st; cbn [Projection.project_rules]; [intros []|].
    destruct stm; try apply IH.
    destruct (Projection.project_rule st (SRule line h b)) as [r|k| |] eqn:E; cbn [fst].
    - intros [H | H]; [discriminate H | exact (IH _ H)].
    - intros [H | H]; [discriminate H | exact (IH _ H)].
    - intros [H | []]. discriminate H.
    - exfalso. exact (project_rule_nf _ _ E).
  Qed.
End ProjectionNoFuel.

(* ================================================================================================ *)
(* 5. closed versions: the Binding hypotheses are theorems of Link/TerminationBinding.v             *)
(* ================================================================================================ *)
From NGO Require Link.TerminationBinding.

Theorem add_domain_rules_total : forall st drs, add_domain_rules st drs <> OutOfFuel.
Proof. exact (add_domain_rules_no_outoffuel TerminationBinding.collect_bound_variables_no_outoffuel). Qed.
Theorem add_domain_rule_total : forall st p conditions, add_domain_rule st p conditions <> OutOfFuel.
Proof. exact (add_domain_rule_no_outoffuel TerminationBinding.collect_bound_variables_no_outoffuel). Qed.
Theorem compute_domains_total : forall st prg, compute_domains st prg <> OutOfFuel.
Proof. exact (compute_domains_no_outoffuel TerminationBinding.collect_bound_variables_no_outoffuel). Qed.
Theorem dp_init_total : forall un prg, dp_init un prg <> OutOfFuel.
Proof. exact (dp_init_no_outoffuel TerminationBinding.collect_bound_variables_no_outoffuel). Qed.
Theorem projection_execute_core_no_outoffuel : forall ctor ins prg,
  Projection.execute_core ctor ins prg <> OutOfFuel.
Proof.
  exact (projection_execute_core_no_outoffuel_hyp
           TerminationBinding.collect_binding_information_body_no_outoffuel
           TerminationBinding.collect_binding_information_head_no_outoffuel).
Qed.
Theorem projection_project_rules_no_outoffuel : forall prg st,
  ~ In OutOfFuel (fst (Projection.project_rules st prg)).
Proof.
  exact (projection_project_rules_no_outoffuel_hyp
           TerminationBinding.collect_binding_information_body_no_outoffuel
           TerminationBinding.collect_binding_information_head_no_outoffuel).
Qed.

(* the model's own check never fails because of fuel: chk_dep answers false on OutOfFuel only *)
Theorem run_req_create_domain_no_outoffuel : forall st p st' r,
  run_req st (QCreateDomain p) = (st', PRules r) -> r <> OutOfFuel.
Proof.
  intros st p st' r H. cbn in H. pose proof (create_domain_top_no_outoffuel p st) as N.
  destruct (create_domain_top p st) as [s x]. injection H as _ <-. exact N.
Qed.

(* ================================================================================================ *)
(* 6. witnesses: the proved bounds are tight (the model passes one resp. two units more)            *)
(* ================================================================================================ *)
Definition w_atom (n: string) : atom := ASym (TFun n [] false).
Definition w_lit (n: string) : lit := Lit NoSign (w_atom n).
(* a :- b.  b :- c.  {c}. *)
Definition w_prg : list stmt :=
  [SRule 1 (HLit (w_lit "a")) [BLit (w_lit "b")];
   SRule 2 (HLit (w_lit "b")) [BLit (w_lit "c")];
   SRule 3 (HAgg None [(w_lit "c", [])] None) []].
Definition w_drs : dr_map :=
  [(("a", 0), [(w_atom "a", [BLit (w_lit "b")])]);
   (("b", 0), [(w_atom "b", [BLit (w_lit "c")])]);
   (("c", 0), [(w_atom "c", [])])].
Definition w_st : dstate :=
  mk_dstate (init_names w_prg []) [("c", 0); ("b", 0); ("a", 0)] [] [] [] [] [].

(* the state and the rule map are the ones DomainPredicates.__init__ builds for w_prg; every pass gives
   a domain to exactly one predicate (c, then b, then a), the fourth pass sees no change:
   `length filtered` passes are not enough, `length filtered + 1` are *)
Example adr_loop_bound_tight :
  compute_nonstatic_predicates w_prg = Ok (not_static w_st, too_complex w_st) /\
  collect_domain_rules w_prg = Ok w_drs /\
  filter_r (fun x => rbind (too_complex_rules w_st x) (fun b => Ok (negb b))) w_drs = Ok w_drs /\
  adr_loop (List.length w_drs) w_st w_drs = OutOfFuel /\
  exists st', adr_loop (List.length w_drs + 1) w_st w_drs = Ok st' /\
              map fst (domains st') = [("c", 0); ("b", 0); ("a", 0)].
Proof.
  split; [vm_compute; reflexivity|]. split; [vm_compute; reflexivity|].
  split; [vm_compute; reflexivity|]. split; [vm_compute; reflexivity|].
  eexists. split; vm_compute; reflexivity.
Qed.

(* a (hand-made) state whose domain rule for p mentions the domain of p itself: the nested call on the
   already created p still needs one unit of fuel, so `cd_measure + 1` cannot be lowered *)
Definition w_self_st : dstate :=
  mk_dstate (mk_unames 0 []) [("p", 0)] [(("p", 0), ("d", 0))]
            [(("p", 0), [(w_atom "p", [BLit (w_lit "d")])])] [] [] [].
Example create_domain_bound_tight :
  cd_measure (domains w_self_st) (created_domain w_self_st) = 1 /\
  snd (create_domain 1 ("p", 0) w_self_st) = OutOfFuel /\
  snd (create_domain 2 ("p", 0) w_self_st) =
    Ok [SRule 1 (HLit (Lit NoSign (ASym (TFun "d" [] false)))) [BLit (w_lit "d")]].
Proof. repeat split; vm_compute; reflexivity. Qed.

Print Assumptions adr_loop_no_outoffuel.
Print Assumptions add_domain_rules_no_outoffuel.
Print Assumptions add_domain_rule_no_outoffuel.
Print Assumptions compute_domains_no_outoffuel.
Print Assumptions dp_init_no_outoffuel.
Print Assumptions reachable_closed.
Print Assumptions reachable_iff.
Print Assumptions propagate_fuel_enough.
Print Assumptions compute_nonstatic_predicates_closed.
Print Assumptions create_domain_good.
Print Assumptions create_domain_top_no_outoffuel.
Print Assumptions create_domain_top_state.
Print Assumptions projection_execute_core_no_outoffuel_hyp.
Print Assumptions add_domain_rules_total.
Print Assumptions add_domain_rule_total.
Print Assumptions compute_domains_total.
Print Assumptions dp_init_total.
Print Assumptions projection_execute_core_no_outoffuel.
Print Assumptions projection_project_rules_no_outoffuel.
Print Assumptions run_req_create_domain_no_outoffuel.
