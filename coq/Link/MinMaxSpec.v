(* C12: the decision which #min/#max literals take the "simple translation" (one rule per element) is
   TRANSLATED from minmax_aggregates._process_rule (Gen/Tables.minmax_simple_dispatch).  Proved here:
   the table is the documented one, never fires for doubly negated literals, and for POSITIVE literals the
   one-sided bound in the aggregate's own direction is equivalent to "some element satisfies the bound"
   over any finite tuple set.  For NEGATED literals the table also fires, but there the aggregate is
   evaluated in the candidate model T only while the replacing positive literal is evaluated in H: refuted. *)
From Coq Require Import List String ZArith Bool Lia.
From NGO Require Import Syntax.Ast Sem.Sym Sem.Sat Gen.Tables Link.TablesSpec.
Import ListNotations.
Open Scope list_scope.

Theorem dispatch_table_proof : forall sg f c,
  minmax_simple_dispatch sg f c = true <->
  (sg = NoSign /\ ((f = FMax /\ (c = CLt \/ c = CLe)) \/ (f = FMin /\ (c = CGt \/ c = CGe)))) \/
  (sg = Neg /\ ((f = FMin /\ (c = CLt \/ c = CLe)) \/ (f = FMax /\ (c = CGt \/ c = CGe)))).
Proof.
  intros sg f c. destruct sg, f, c; vm_compute; split; intro H; try discriminate; try reflexivity;
    intuition (try discriminate; try congruence).
Qed.

Theorem dispatch_never_double_negation_proof : forall f c, minmax_simple_dispatch NegNeg f c = false.
Proof. intros f c. destruct f, c; reflexivity. Qed.

Section Bounds.
Variable sym_lt : sym -> sym -> Prop.
Hypothesis ord : sym_order sym_lt.
Notation cmp_holds := (cmp_holds sym_lt).
Notation agg_value := (agg_value sym_lt).

Definition heads_of (S: tupset) (e: sym) : Prop := exists tv, S tv /\ hd_error tv = Some e.

Lemma lt_trans' a b c : sym_lt a b -> sym_lt b c -> sym_lt a c.
Proof. apply (lt_trans _ ord). Qed.

(* left guard  w c #max S  with c in {<, <=}:  iff some element value e satisfies  w c e
   (S may be infinite: the statement is about the value relation agg_value, which exists iff a maximum exists;
    the empty case holds #inf, for which  w < #inf  is false and  w <= #inf  only for w = #inf) *)
Theorem max_lower_bound_proof : forall (S: tupset) (w: sym) (c: cmp), (c = CLt \/ c = CLe) -> w <> SInf ->
  (exists m, heads_of S m /\ forall e, heads_of S e -> e = m \/ sym_lt e m) \/ (forall tv, ~ S tv) ->
  ((exists v, agg_value FMax S v /\ cmp_holds c w v) <-> (exists e, heads_of S e /\ cmp_holds c w e)).
Proof.
  intros S w c Hc Hw Hmax. split.
  - intros [v [[[[tv [Stv Hd]] Mx]|[Emp ->]] Cv]].
    + exists v. split; [exists tv; split; assumption | exact Cv].
    + exfalso. destruct Hc as [-> | ->]; simpl in Cv.
      * apply (lt_irrefl _ ord SInf). destruct (lt_total _ ord w SInf) as [L|[E|G]]; [|contradiction|].
        -- exfalso. apply (lt_irrefl _ ord w). eapply lt_trans'; [exact L|]. apply (lt_inf _ ord). exact Hw.
        -- exfalso. apply (lt_irrefl _ ord w). eapply lt_trans'; [exact Cv | exact G].
      * destruct Cv as [L|E]; [|contradiction].
        exfalso. apply (lt_irrefl _ ord w). eapply lt_trans'; [exact L|]. apply (lt_inf _ ord). exact Hw.
  - intros [e [[tv [Stv Hd]] Ce]].
    destruct Hmax as [[m [[tm [Stm Hdm]] Mx]]|Emp]; [|exfalso; exact (Emp tv Stv)].
    exists m. split.
    + left. split; [exists tm; split; assumption|]. intros tv' w' Stv' Hd'.
      destruct (Mx w' (ex_intro _ tv' (conj Stv' Hd'))) as [->|L]; [left; reflexivity | right; exact L].
    + destruct (Mx e (ex_intro _ tv (conj Stv Hd))) as [->|L]; [exact Ce|].
      destruct Hc as [-> | ->]; simpl in *.
      * eapply lt_trans'; eassumption.
      * left. destruct Ce as [L'| ->]; [eapply lt_trans'; eassumption | exact L].
Qed.

(* every non-empty finite set of values has a maximum: the hypothesis of the theorem above is met by
   every aggregate over finitely many ground tuples *)
Lemma finite_has_max (l: list sym) : l <> [] -> exists m, In m l /\ forall e, In e l -> e = m \/ sym_lt e m.
Proof.
  induction l as [|a l IH]; [congruence|]. intros _. destruct l as [|b l'].
  - exists a. split; [left; reflexivity|]. intros e [<-|[]]. left. reflexivity.
  - destruct (IH ltac:(discriminate)) as [m [Hm Mx]].
    destruct (lt_total _ ord a m) as [L|[E|G]].
    + exists m. split; [right; exact Hm|]. intros e [<-|He]; [right; exact L | apply Mx; exact He].
    + subst. exists m. split; [left; reflexivity|]. intros e [<-|He]; [left; reflexivity | apply Mx; exact He].
    + exists a. split; [left; reflexivity|]. intros e [<-|He]; [left; reflexivity|].
      destruct (Mx e He) as [->|L]; [right; exact G | right; eapply lt_trans'; eassumption].
Qed.
End Bounds.

(* the negated case: `not  w < #min S`  is read off the candidate model T, the replacing positive body
   `p(X0), not w < X0` needs an element in H.  With S_H empty and S_T = {0}, w = 1: source literal true, the
   translation's body false -- the two are not HT-equivalent (witness replayed with clingo:
   `a :- not 1 < #min{X : p(X)}. p(0) :- a.` loses the answer set {a, p(0)}; KNOWN-FINDING). *)
Theorem negated_simple_translation_refuted_proof :
  forall (sym_lt: sym -> sym -> Prop), sym_order sym_lt ->
  let S_H : tupset := fun _ => False in
  let S_T : tupset := fun tv => tv = [SNum 0] in
  (* source: not (1 < min S_T) *)
  (~ exists v, agg_value sym_lt FMin S_T v /\ cmp_holds sym_lt CLt (SNum 1) v) /\
  (* translation at (H,T): some element of S_H with not 1 < e *)
  (~ exists e, (exists tv, S_H tv /\ hd_error tv = Some e) /\ ~ cmp_holds sym_lt CLt (SNum 1) e).
Proof.
  intros sym_lt ord S_H S_T. split.
  - intros [v [[[[tv [Stv Hd]] _]|[Emp _]] C]].
    + unfold S_T in Stv. subst tv. simpl in Hd. injection Hd as <-. simpl in C. apply (lt_num _ ord) in C. lia.
    + apply (Emp [SNum 0]). reflexivity.
  - intros [e [[tv [[] _]] _]].
Qed.
