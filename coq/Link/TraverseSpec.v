(* C18: an independent specification of "predicate p occurs in statement s" (inductive relations over
   the typed AST, written without reference to the collector functions) and the proofs that the
   executable model Model/Traverse.v of ngo's predicate collectors meets it. *)
From Coq Require Import List String ZArith Bool Arith Lia Permutation.
From NGO Require Import Syntax.Ast Model.Traverse.
Import ListNotations.
Open Scope string_scope. Open Scope list_scope.

(* ================================================================================== *)
(* 1. Specification                                                                     *)
(* ================================================================================== *)

(* p is the signature of a symbolic atom (whose symbol is a Function node) at any depth of l *)
Inductive lit_has (p: pred) : lit -> Prop :=
| LH_self : forall s n args e,
    p = (n, List.length args) -> lit_has p (Lit s (ASym (TFun n args e)))
| LH_bagg : forall s lg f es rg e c,
    In e es -> In c (snd e) -> lit_has p c -> lit_has p (Lit s (ABodyAgg lg f es rg))
| LH_agg_lit : forall s lg es rg e,
    In e es -> lit_has p (fst e) -> lit_has p (Lit s (AAgg lg es rg))
| LH_agg_cond : forall s lg es rg e c,
    In e es -> In c (snd e) -> lit_has p c -> lit_has p (Lit s (AAgg lg es rg)).

Definition condlit_has (p: pred) (c: condlit) : Prop :=
  lit_has p (fst c) \/ exists x, In x (snd c) /\ lit_has p x.

Definition bodyelem_has (p: pred) (b: bodyelem) : Prop :=
  match b with
  | BLit l => lit_has p l
  | BCond l c => condlit_has p (l, c)
  end.

Definition head_has (p: pred) (h: head) : Prop :=
  match h with
  | HLit l => lit_has p l
  | HDisj es => exists e, In e es /\ condlit_has p e
  | HAgg _ es _ => exists e, In e es /\ condlit_has p e
  | HHeadAgg _ _ es _ => exists e, In e es /\ condlit_has p (snd e)
  | HTheory _ => False
  end.

Definition occurs (p: pred) (s: stmt) : Prop :=
  match s with
  | SRule _ h b => head_has p h \/ exists x, In x b /\ bodyelem_has p x
  | SMin _ _ _ _ b => exists x, In x b /\ bodyelem_has p x
  | _ => False
  end.

Definition in_body (p: pred) (s: stmt) : Prop :=
  match s with
  | SRule _ _ b => exists x, In x b /\ bodyelem_has p x
  | SMin _ _ _ _ b => exists x, In x b /\ bodyelem_has p x
  | _ => False
  end.

Definition pos_atom (p: pred) (l: lit) : Prop :=
  exists n args e, l = Lit NoSign (ASym (TFun n args e)) /\ p = (n, List.length args).

Definition pos_head_atom (p: pred) (s: stmt) : Prop :=
  match s with
  | SRule _ h _ =>
      match h with
      | HLit l => pos_atom p l
      | HDisj es => exists e, In e es /\ pos_atom p (fst e)
      | HAgg _ es _ => exists e, In e es /\ pos_atom p (fst e)
      | HHeadAgg _ _ es _ => exists e, In e es /\ pos_atom p (fst (snd e))
      | HTheory _ => False
      end
  | _ => False
  end.

(* clingo's parser never puts an aggregate atom in a head literal position *)
Definition not_agg (l: lit) : Prop :=
  match l with
  | Lit _ (ABodyAgg _ _ _ _) => False
  | Lit _ (AAgg _ _ _) => False
  | _ => True
  end.

Definition wf_heads (s: stmt) : Prop :=
  match s with
  | SRule _ h _ =>
      match h with
      | HLit l => not_agg l
      | HDisj es => Forall (fun e => not_agg (fst e)) es
      | HAgg _ es _ => Forall (fun e => not_agg (fst e)) es
      | HHeadAgg _ _ es _ => Forall (fun e => not_agg (fst (snd e))) es
      | HTheory _ => True
      end
  | _ => True
  end.

(* semantic occurrence through a pool: p(1;2) stands for the atoms p(1) and p(2) *)
Inductive lit_has_pool (p: pred) : lit -> Prop :=
| LHP_pool : forall s alts n args e,
    In (TFun n args e) alts -> p = (n, List.length args) -> lit_has_pool p (Lit s (ASym (TPool alts))).

(* what the #show statements of a program name *)
Definition shown (p: pred) (P: list stmt) : Prop :=
  (exists n a b, In (SShowSig n a b) P /\ p = (n, a)) \/
  (exists t b x, In (SShowTerm t b) P /\ In x b /\ bodyelem_has p x).

(* ================================================================================== *)
(* 2. A usable induction principle for the nested type lit                              *)
(* ================================================================================== *)
Section LitInd.
  Variable Q : lit -> Prop.
  Hypothesis Q_sym : forall s t, Q (Lit s (ASym t)).
  Hypothesis Q_cmp : forall s t gs, Q (Lit s (ACmp t gs)).
  Hypothesis Q_bool : forall s b, Q (Lit s (ABool b)).
  Hypothesis Q_bagg : forall s lg f es rg,
      Forall (fun e : list term * list lit => Forall Q (snd e)) es -> Q (Lit s (ABodyAgg lg f es rg)).
  Hypothesis Q_agg : forall s lg es rg,
      Forall (fun e : lit * list lit => Q (fst e) /\ Forall Q (snd e)) es -> Q (Lit s (AAgg lg es rg)).
  Hypothesis Q_theory : forall s t, Q (Lit s (ATheory t)).

  Fixpoint lit_ind' (l: lit) : Q l :=
    match l with
    | Lit s a =>
        match a as a0 return Q (Lit s a0) with
        | ASym t => Q_sym s t
        | ACmp t gs => Q_cmp s t gs
        | ABool b => Q_bool s b
        | ABodyAgg lg f es rg =>
            Q_bagg s lg f es rg
              ((fix go (es: list (list term * list lit))
                  : Forall (fun e : list term * list lit => Forall Q (snd e)) es :=
                  match es with
                  | [] => Forall_nil _
                  | e :: r =>
                      Forall_cons e
                        (match e as e0 return Forall Q (snd e0) with
                         | (ts, cs) =>
                             (fix goc (cs: list lit) : Forall Q cs :=
                                match cs with
                                | [] => Forall_nil _
                                | c :: q => Forall_cons c (lit_ind' c) (goc q)
                                end) cs
                         end)
                        (go r)
                  end) es)
        | AAgg lg es rg =>
            Q_agg s lg es rg
              ((fix go (es: list (lit * list lit))
                  : Forall (fun e : lit * list lit => Q (fst e) /\ Forall Q (snd e)) es :=
                  match es with
                  | [] => Forall_nil _
                  | e :: r =>
                      Forall_cons e
                        (match e as e0 return Q (fst e0) /\ Forall Q (snd e0) with
                         | (l0, cs) =>
                             conj (lit_ind' l0)
                               ((fix goc (cs: list lit) : Forall Q cs :=
                                   match cs with
                                   | [] => Forall_nil _
                                   | c :: q => Forall_cons c (lit_ind' c) (goc q)
                                   end) cs)
                         end)
                        (go r)
                  end) es)
        | ATheory t => Q_theory s t
        end
    end.
End LitInd.

(* ================================================================================== *)
(* 3. Generic membership lemmas                                                        *)
(* ================================================================================== *)
Lemma in_msf {A} (f: A -> list spred) (l: list A) (p: pred) :
  In p (map snd (flat_map f l)) <-> exists x, In x l /\ In p (map snd (f x)).
Proof.
  split.
  - intros H. apply in_map_iff in H. destruct H as [y [E H]].
    apply in_flat_map in H. destruct H as [x [Hx Hy]].
    exists x. split; [exact Hx|]. apply in_map_iff. exists y. split; assumption.
  - intros [x [Hx H]]. apply in_map_iff in H. destruct H as [y [E Hy]].
    apply in_map_iff. exists y. split; [exact E|]. apply in_flat_map. exists x. split; assumption.
Qed.

Lemma in_msa (a b: list spred) (p: pred) :
  In p (map snd (a ++ b)) <-> In p (map snd a) \/ In p (map snd b).
Proof. rewrite map_app, in_app_iff. tauto. Qed.

Lemma in_signs_all s : in_signs s all_signs = true.
Proof. destruct s; reflexivity. Qed.

(* unfolding equations of the model, by computation *)
Lemma lp_fun ss s n args e :
  literal_predicate ss (Lit s (ASym (TFun n args e))) =
  (if in_signs s ss then [(s, (n, List.length args))] else []) ++ [].
Proof. reflexivity. Qed.
Lemma lp_bagg ss s lg f es rg :
  literal_predicate ss (Lit s (ABodyAgg lg f es rg)) =
  flat_map (fun e => flat_map (literal_predicate ss) (snd e)) es.
Proof. reflexivity. Qed.
Lemma lp_agg ss s lg es rg :
  literal_predicate ss (Lit s (AAgg lg es rg)) =
  flat_map (fun e => (literal_predicate ss (fst e) ++ flat_map (literal_predicate ss) (snd e))
                       ++ flat_map (literal_predicate ss) (snd e)) es.
Proof. reflexivity. Qed.

(* ================================================================================== *)
(* 4. A: the collectors find exactly the occurring predicates                           *)
(* ================================================================================== *)
Lemma lit_has_sound p l : lit_has p l -> In p (map snd (literal_predicate all_signs l)).
Proof.
  induction 1 as [s n args e E
                 | s lg f es rg e c He Hc _ IH
                 | s lg es rg e He _ IH
                 | s lg es rg e c He Hc _ IH].
  - rewrite lp_fun, in_signs_all. simpl. left. symmetry. exact E.
  - rewrite lp_bagg. apply in_msf. exists e. split; [exact He|]. cbv beta.
    apply in_msf. exists c. split; assumption.
  - rewrite lp_agg. apply in_msf. exists e. split; [exact He|]. cbv beta.
    apply in_msa. left. apply in_msa. left. exact IH.
  - rewrite lp_agg. apply in_msf. exists e. split; [exact He|]. cbv beta.
    apply in_msa. right. apply in_msf. exists c. split; assumption.
Qed.

Lemma lit_has_complete p : forall l, In p (map snd (literal_predicate all_signs l)) -> lit_has p l.
Proof.
  apply (lit_ind' (fun l => In p (map snd (literal_predicate all_signs l)) -> lit_has p l)).
  - intros s t H. destruct t as [x|y|o t|o a b|a b|n args e|alts]; try (simpl in H; contradiction).
    rewrite lp_fun, in_signs_all in H. simpl in H. destruct H as [H|[]].
    apply LH_self. symmetry. exact H.
  - intros s t gs H. simpl in H. contradiction.
  - intros s b H. simpl in H. contradiction.
  - intros s lg f es rg IH H. rewrite lp_bagg in H.
    apply in_msf in H. destruct H as [e [He H]]. cbv beta in H.
    apply in_msf in H. destruct H as [c [Hc H]].
    rewrite Forall_forall in IH. specialize (IH e He). rewrite Forall_forall in IH.
    eapply LH_bagg; [exact He | exact Hc | exact (IH c Hc H)].
  - intros s lg es rg IH H. rewrite lp_agg in H.
    apply in_msf in H. destruct H as [e [He H]]. cbv beta in H.
    rewrite Forall_forall in IH. destruct (IH e He) as [IHl IHc]. rewrite Forall_forall in IHc.
    apply in_msa in H. destruct H as [H|H].
    + apply in_msa in H. destruct H as [H|H].
      * eapply LH_agg_lit; [exact He | exact (IHl H)].
      * apply in_msf in H. destruct H as [c [Hc H]].
        eapply LH_agg_cond; [exact He | exact Hc | exact (IHc c Hc H)].
    + apply in_msf in H. destruct H as [c [Hc H]].
      eapply LH_agg_cond; [exact He | exact Hc | exact (IHc c Hc H)].
  - intros s t H. simpl in H. contradiction.
Qed.

Lemma lit_spec p l : lit_has p l <-> In p (map snd (literal_predicate all_signs l)).
Proof. split; [apply lit_has_sound | apply lit_has_complete]. Qed.

Lemma lits_spec p (cs: list lit) :
  (exists x, In x cs /\ lit_has p x) <-> In p (map snd (flat_map (literal_predicate all_signs) cs)).
Proof.
  rewrite in_msf. split; intros [x [Hx H]]; exists x; (split; [exact Hx|]); apply lit_spec; exact H.
Qed.

Lemma condlit_spec p c : condlit_has p c <-> In p (map snd (condlit_predicate all_signs c)).
Proof.
  unfold condlit_has, condlit_predicate. rewrite in_msa, <- lit_spec, <- lits_spec. tauto.
Qed.

Lemma bodyelem_spec p b : bodyelem_has p b <-> In p (map snd (bodyelem_predicates all_signs b)).
Proof.
  destruct b as [l|l c]; simpl.
  - apply lit_spec.
  - apply condlit_spec.
Qed.

Lemma body_list_spec p (b: list bodyelem) :
  (exists x, In x b /\ bodyelem_has p x) <-> In p (map snd (flat_map (bodyelem_predicates all_signs) b)).
Proof.
  rewrite in_msf. split; intros [x [Hx H]]; exists x; (split; [exact Hx|]); apply bodyelem_spec; exact H.
Qed.

Lemma head_spec p h : head_has p h <-> In p (map snd (head_predicates all_signs h)).
Proof.
  destruct h as [l|es|lg es rg|lg f es rg|t]; simpl.
  - apply lit_spec.
  - rewrite in_msf. split; intros [e [He H]]; exists e; (split; [exact He|]); apply condlit_spec; exact H.
  - rewrite in_msf. split; intros [e [He H]]; exists e; (split; [exact He|]).
    + apply in_msa. left. apply condlit_spec. exact H.
    + apply in_msa in H. destruct H as [H|H].
      * apply condlit_spec. exact H.
      * right. apply lits_spec. exact H.
  - rewrite in_msf. split; intros [e [He H]]; exists e; (split; [exact He|]); apply condlit_spec; exact H.
  - tauto.
Qed.

Theorem predicates_complete_proof : forall s p, occurs p s <-> In p (map snd (predicates all_signs s)).
Proof.
  intros s p. destruct s as [ln h b|ln w pr ts b|n a ps|t b|k t]; simpl; try tauto.
  - rewrite in_msa, <- head_spec, <- body_list_spec. tauto.
  - apply body_list_spec.
Qed.

(* ================================================================================== *)
(* 5. C: body occurrences                                                              *)
(* ================================================================================== *)
Theorem body_spec_proof : forall s p, in_body p s <-> In p (map snd (body_or_min all_signs s)).
Proof.
  intros s p. unfold body_or_min.
  destruct s as [ln h b|ln w pr ts b|n a ps|t b|k t]; simpl; try tauto.
  - rewrite app_nil_r. apply body_list_spec.
  - apply body_list_spec.
Qed.

(* ================================================================================== *)
(* 6. B: derivable heads                                                               *)
(* ================================================================================== *)
Lemma pos_atom_spec p l : not_agg l -> (pos_atom p l <-> In p (map snd (literal_predicate [NoSign] l))).
Proof.
  intros W. destruct l as [s a]. unfold pos_atom.
  destruct a as [t|t gs|b|lg f es rg|lg es rg|t]; simpl in W; try contradiction.
  - destruct t as [x|y|o t|o a b|a b|n args e|alts];
      try (simpl; split; [intros [n0 [args0 [e0 [E _]]]]; discriminate E | contradiction]).
    rewrite lp_fun. destruct s; simpl.
    + split.
      * intros [n0 [args0 [e0 [E Hp]]]]. inversion E; subst. left. reflexivity.
      * intros [H|[]]. exists n, args, e. split; [reflexivity | symmetry; exact H].
    + split; [intros [n0 [args0 [e0 [E _]]]]; discriminate E | contradiction].
    + split; [intros [n0 [args0 [e0 [E _]]]]; discriminate E | contradiction].
  - simpl; split; [intros [n0 [args0 [e0 [E _]]]]; discriminate E | contradiction].
  - simpl; split; [intros [n0 [args0 [e0 [E _]]]]; discriminate E | contradiction].
  - simpl; split; [intros [n0 [args0 [e0 [E _]]]]; discriminate E | contradiction].
Qed.

Lemma pos_elems_spec {A} (g: A -> lit) p (es: list A) :
  Forall (fun e => not_agg (g e)) es ->
  ((exists e, In e es /\ pos_atom p (g e)) <->
   In p (map snd (flat_map (fun e => literal_predicate [NoSign] (g e)) es))).
Proof.
  intros W. rewrite Forall_forall in W. rewrite in_msf.
  split; intros [e [He H]]; exists e; (split; [exact He|]); apply (pos_atom_spec p (g e) (W e He)); exact H.
Qed.

Theorem headderivable_spec_proof : forall s p, wf_heads s ->
  (pos_head_atom p s <-> In p (map snd (headderivable s))).
Proof.
  intros s p W. destruct s as [ln h b|ln w pr ts b|n a ps|t b|k t]; simpl; try tauto.
  destruct h as [l|es|lg es rg|lg f es rg|t]; simpl in W |- *.
  - apply pos_atom_spec. exact W.
  - apply (pos_elems_spec (fun e : condlit => fst e)). exact W.
  - apply (pos_elems_spec (fun e : condlit => fst e)). exact W.
  - apply (pos_elems_spec (fun e : helem => fst (snd e))). exact W.
  - tauto.
Qed.

(* ================================================================================== *)
(* 7. Duplicate-free lists of predicates                                               *)
(* ================================================================================== *)
Lemma pred_eqb_eq a b : pred_eqb a b = true <-> a = b.
Proof.
  destruct a as [n i], b as [m j]. unfold pred_eqb. simpl.
  rewrite andb_true_iff, String.eqb_eq, Nat.eqb_eq. split.
  - intros [E1 E2]. subst. reflexivity.
  - intros E. inversion E. split; reflexivity.
Qed.

Lemma pmem_In p l : pmem p l = true <-> In p l.
Proof.
  unfold pmem. rewrite existsb_exists. split.
  - intros [y [Hy E]]. apply pred_eqb_eq in E. subst. exact Hy.
  - intros H. exists p. split; [exact H | apply pred_eqb_eq; reflexivity].
Qed.

Lemma pmem_false_In p l : pmem p l = false <-> ~ In p l.
Proof. rewrite <- pmem_In. destruct (pmem p l); split; congruence. Qed.

Lemma In_padd p q l : In p (padd q l) <-> p = q \/ In p l.
Proof.
  unfold padd. destruct (pmem q l) eqn:E.
  - apply pmem_In in E. split; [tauto|]. intros [H|H]; [subst; exact E | exact H].
  - rewrite in_app_iff. simpl. split.
    + intros [H|[H|[]]]; [right; exact H | left; symmetry; exact H].
    + intros [H|H]; [right; left; symmetry; exact H | left; exact H].
Qed.

Lemma In_padd_all p ps l : In p (padd_all ps l) <-> In p ps \/ In p l.
Proof.
  unfold padd_all. revert l. induction ps as [|q ps IH]; intros l; simpl.
  - tauto.
  - rewrite IH, In_padd. split.
    + intros [H|[H|H]]; [left; right; exact H | left; left; symmetry; exact H | right; exact H].
    + intros [[H|H]|H]; [right; left; symmetry; exact H | left; exact H | right; right; exact H].
Qed.

Lemma In_fold_padd_all {A} (g: A -> list pred) (P: list A) (acc: list pred) (p: pred) :
  In p (fold_left (fun acc s => padd_all (g s) acc) P acc) <->
  (exists s, In s P /\ In p (g s)) \/ In p acc.
Proof.
  revert acc. induction P as [|s P IH]; intros acc; simpl.
  - split; [intros H; right; exact H | intros [[s [[] _]]|H]; exact H].
  - rewrite IH, In_padd_all. split.
    + intros [[s' [Hs H]]|[H|H]].
      * left. exists s'. split; [right; exact Hs | exact H].
      * left. exists s. split; [left; reflexivity | exact H].
      * right. exact H.
    + intros [[s' [[E|Hs] H]]|H].
      * subst s'. right. left. exact H.
      * left. exists s'. split; assumption.
      * right. right. exact H.
Qed.

Lemma In_all_preds p P :
  In p (all_preds P) <-> exists s, In s P /\ In p (map snd (predicates all_signs s)).
Proof.
  unfold all_preds.
  pose proof (In_fold_padd_all (fun s => map snd (predicates all_signs s)) P [] p) as H.
  cbv beta in H. rewrite H. simpl. tauto.
Qed.

Lemma In_derivable_preds p P :
  In p (derivable_preds P) <-> exists s, In s P /\ In p (map snd (headderivable s)).
Proof.
  unfold derivable_preds.
  pose proof (In_fold_padd_all (fun s => map snd (headderivable s)) P [] p) as H.
  cbv beta in H. rewrite H. simpl. tauto.
Qed.

Lemma In_pinsert x y l : In y (pinsert x l) <-> y = x \/ In y l.
Proof.
  induction l as [|z l IH]; simpl.
  - split; intros [E|[]]; left; congruence.
  - destruct (pred_leb x z); simpl.
    + split; (intros [E|H]; [left; congruence | right; exact H]).
    + rewrite IH. split; intros [E|[E|H]]; tauto.
Qed.

Lemma In_psort y l : In y (psort l) <-> In y l.
Proof.
  induction l as [|z l IH]; simpl; [tauto|].
  rewrite In_pinsert, IH. split; (intros [E|H]; [left; congruence | right; exact H]).
Qed.

Lemma Permutation_pinsert x l : Permutation (x :: l) (pinsert x l).
Proof.
  induction l as [|z l IH]; simpl; [apply Permutation_refl|].
  destruct (pred_leb x z); [apply Permutation_refl|].
  eapply perm_trans; [apply perm_swap|]. constructor. exact IH.
Qed.

Lemma Permutation_psort l : Permutation l (psort l).
Proof.
  induction l as [|z l IH]; simpl; [constructor|].
  eapply perm_trans; [|apply Permutation_pinsert]. constructor. exact IH.
Qed.

Lemma NoDup_padd q l : NoDup l -> NoDup (padd q l).
Proof.
  intros H. unfold padd. destruct (pmem q l) eqn:E; [exact H|].
  apply pmem_false_In in E.
  apply (Permutation_NoDup (Permutation_cons_append l q)). constructor; assumption.
Qed.

Lemma NoDup_padd_all ps l : NoDup l -> NoDup (padd_all ps l).
Proof.
  unfold padd_all. revert l. induction ps as [|q ps IH]; intros l H; simpl; [exact H|].
  apply IH. apply NoDup_padd. exact H.
Qed.

(* the sort really sorts, w.r.t. Python's order on (name, arity) tuples *)
Inductive psorted : list pred -> Prop :=
| ps_nil : psorted []
| ps_one x : psorted [x]
| ps_cons x y l : pred_leb x y = true -> psorted (y :: l) -> psorted (x :: y :: l).

Lemma pred_leb_total a b : pred_leb a b = false -> pred_leb b a = true.
Proof.
  unfold pred_leb. rewrite (String.compare_antisym (fst a) (fst b)).
  destruct (String.compare (fst b) (fst a)); simpl; try congruence.
  intros H. apply Nat.leb_gt in H. apply Nat.leb_le. lia.
Qed.

Lemma pinsert_sorted x l : psorted l -> psorted (pinsert x l).
Proof.
  induction 1 as [|y|y z l Hyz Hs IH]; simpl.
  - constructor.
  - destruct (pred_leb x y) eqn:E; [constructor; [exact E|constructor]|].
    constructor; [apply pred_leb_total; exact E | constructor].
  - destruct (pred_leb x y) eqn:E.
    + constructor; [exact E|]. constructor; assumption.
    + simpl in IH. destruct (pred_leb x z) eqn:E2.
      * constructor; [apply pred_leb_total; exact E|]. exact IH.
      * constructor; [exact Hyz | exact IH].
Qed.

Lemma psort_sorted l : psorted (psort l).
Proof. induction l as [|x l IH]; simpl; [constructor | apply pinsert_sorted; exact IH]. Qed.

Lemma list_eqb_nat_eq (a b: list nat) : list_eqb Nat.eqb a b = true -> a = b.
Proof.
  revert b. induction a as [|x a IH]; intros [|y b]; simpl; intros H; try discriminate.
  - reflexivity.
  - apply andb_true_iff in H. destruct H as [E H]. apply Nat.eqb_eq in E. subst.
    rewrite (IH b H). reflexivity.
Qed.

Lemma In_indices_where f p i k P :
  In i (indices_where f p k P) <->
  exists s, nth_error P (i - k) = Some s /\ k <= i /\ pmem p (map snd (f s)) = true.
Proof.
  revert k. induction P as [|s r IH]; intros k; simpl.
  - split; [contradiction|]. intros [s [H _]]. destruct (i - k); discriminate H.
  - rewrite in_app_iff, IH. split.
    + intros [H|[s' [Hn [Hk Hm]]]].
      * destruct (pmem p (map snd (f s))) eqn:E; [|contradiction].
        destruct H as [H|[]]. subst i. exists s. rewrite Nat.sub_diag. simpl.
        split; [reflexivity|]. split; [lia | exact E].
      * exists s'. replace (i - k) with (S (i - S k)) by lia. simpl.
        split; [exact Hn|]. split; [lia | exact Hm].
    + intros [s' [Hn [Hk Hm]]]. destruct (Nat.eq_dec i k) as [E|N].
      * subst i. rewrite Nat.sub_diag in Hn. simpl in Hn. inversion Hn; subst s'.
        left. rewrite Hm. left. reflexivity.
      * right. exists s'. replace (i - k) with (S (i - S k)) in Hn by lia. simpl in Hn.
        split; [exact Hn|]. split; [lia | exact Hm].
Qed.

(* ================================================================================== *)
(* 8. D, E: auto_detect_input                                                          *)
(* ================================================================================== *)
Lemma derivable_iff P p : Forall wf_heads P ->
  (In p (derivable_preds P) <-> exists s, In s P /\ pos_head_atom p s).
Proof.
  intros W. rewrite Forall_forall in W. rewrite In_derivable_preds.
  split; intros [s [Hs H]]; exists s; (split; [exact Hs|]);
    apply (headderivable_spec_proof s p (W s Hs)); exact H.
Qed.

Theorem C18_input_lower_proof : forall P p, Forall wf_heads P ->
  (exists s, In s P /\ occurs p s) ->
  (forall s, In s P -> ~ pos_head_atom p s) ->
  In p (auto_detect_input P).
Proof.
  intros P p W [s [Hs Ho]] Hn.
  unfold auto_detect_input, auto_detect_input_parts. cbv zeta. simpl fst. simpl snd.
  apply in_or_app. left. apply (proj2 (In_psort _ _)). apply filter_In. split.
  - apply In_all_preds. exists s. split; [exact Hs|]. apply predicates_complete_proof. exact Ho.
  - destruct (pmem p (derivable_preds P)) eqn:E; [|reflexivity].
    exfalso. apply pmem_In in E. apply (derivable_iff P p W) in E.
    destruct E as [s' [Hs' H]]. exact (Hn s' Hs' H).
Qed.

Theorem C18_input_excl_proof : forall P p i s, Forall wf_heads P ->
  nth_error P i = Some s -> pos_head_atom p s -> ~ in_body p s ->
  ~ In p (auto_detect_input P).
Proof.
  intros P p i s W Hi Hh Hb Hin.
  assert (HsP : In s P) by (eapply nth_error_In; exact Hi).
  assert (Ws : wf_heads s) by (rewrite Forall_forall in W; exact (W s HsP)).
  unfold auto_detect_input, auto_detect_input_parts in Hin. cbv zeta in Hin.
  simpl fst in Hin. simpl snd in Hin.
  apply in_app_or in Hin. destruct Hin as [Hin|Hin].
  - apply (proj1 (In_psort _ _)) in Hin. apply filter_In in Hin. destruct Hin as [_ Hd].
    assert (Hder : In p (derivable_preds P)).
    { apply (derivable_iff P p W). exists s. split; assumption. }
    apply pmem_In in Hder. rewrite Hder in Hd. discriminate Hd.
  - apply filter_In in Hin. destruct Hin as [_ Heq].
    apply list_eqb_nat_eq in Heq.
    assert (Hih : In i (indices_where headderivable p 0 P)).
    { apply In_indices_where. exists s. rewrite Nat.sub_0_r.
      split; [exact Hi|]. split; [lia|].
      apply pmem_In. apply (headderivable_spec_proof s p Ws). exact Hh. }
    rewrite <- Heq in Hih. apply In_indices_where in Hih.
    destruct Hih as [s' [Hn' [_ Hm]]]. rewrite Nat.sub_0_r in Hn'.
    rewrite Hi in Hn'. inversion Hn'; subst s'.
    apply Hb. apply body_spec_proof. apply pmem_In. exact Hm.
Qed.

(* ================================================================================== *)
(* 9. F, G: auto_detect_output                                                         *)
(* ================================================================================== *)
Definition out_step (acc: list pred) (s: stmt) : list pred :=
  match s with
  | SShowSig n a _ => padd (n, a) acc
  | SShowTerm _ b => padd_all (map snd (flat_map (bodyelem_predicates all_signs) b)) acc
  | _ => acc
  end.

Lemma auto_detect_output_unfold P : auto_detect_output P = psort (fold_left out_step P []).
Proof. reflexivity. Qed.

Definition shown_by (p: pred) (s: stmt) : Prop :=
  match s with
  | SShowSig n a _ => p = (n, a)
  | SShowTerm _ b => exists x, In x b /\ bodyelem_has p x
  | _ => False
  end.

Lemma In_out_step p acc s : In p (out_step acc s) <-> shown_by p s \/ In p acc.
Proof.
  destruct s as [ln h b|ln w pr ts b|n a ps|t b|k t]; simpl; try tauto.
  - apply In_padd.
  - rewrite In_padd_all, <- body_list_spec. tauto.
Qed.

Lemma In_fold_out_step p P acc :
  In p (fold_left out_step P acc) <-> (exists s, In s P /\ shown_by p s) \/ In p acc.
Proof.
  revert acc. induction P as [|s P IH]; intros acc; simpl.
  - split; [intros H; right; exact H | intros [[s [[] _]]|H]; exact H].
  - rewrite IH, In_out_step. split.
    + intros [[s' [Hs H]]|[H|H]].
      * left. exists s'. split; [right; exact Hs | exact H].
      * left. exists s. split; [left; reflexivity | exact H].
      * right. exact H.
    + intros [[s' [[E|Hs] H]]|H].
      * subst s'. right. left. exact H.
      * left. exists s'. split; assumption.
      * right. right. exact H.
Qed.

Lemma shown_iff p P : shown p P <-> exists s, In s P /\ shown_by p s.
Proof.
  unfold shown. split.
  - intros [[n [a [b [H E]]]]|[t [b [x [H [Hx Hp]]]]]].
    + exists (SShowSig n a b). split; [exact H | exact E].
    + exists (SShowTerm t b). split; [exact H|]. exists x. split; assumption.
  - intros [s [Hs H]]. destruct s as [ln h b|ln w pr ts b|n a ps|t b|k t]; simpl in H; try contradiction.
    + left. exists n, a, ps. split; assumption.
    + right. destruct H as [x [Hx Hp]]. exists t, b, x. split; [exact Hs|]. split; assumption.
Qed.

Theorem C18_output_exact_proof : forall P p,
  In p (auto_detect_output P) <->
  (exists n a b, In (SShowSig n a b) P /\ p = (n, a)) \/
  (exists t b x, In (SShowTerm t b) P /\ In x b /\ bodyelem_has p x).
Proof.
  intros P p. rewrite auto_detect_output_unfold, In_psort, In_fold_out_step.
  change ((exists s, In s P /\ shown_by p s) \/ In p [] <-> shown p P).
  rewrite shown_iff. simpl. tauto.
Qed.

Lemma NoDup_out_step acc s : NoDup acc -> NoDup (out_step acc s).
Proof.
  intros H. destruct s as [ln h b|ln w pr ts b|n a ps|t b|k t]; simpl; try exact H.
  - apply NoDup_padd. exact H.
  - apply NoDup_padd_all. exact H.
Qed.

Lemma NoDup_fold_out_step P acc : NoDup acc -> NoDup (fold_left out_step P acc).
Proof.
  revert acc. induction P as [|s P IH]; intros acc H; simpl; [exact H|].
  apply IH. apply NoDup_out_step. exact H.
Qed.

Theorem auto_detect_output_sorted_nodup_proof : forall P,
  NoDup (auto_detect_output P) /\ psorted (auto_detect_output P).
Proof.
  intros P. rewrite auto_detect_output_unfold. split.
  - apply (Permutation_NoDup (Permutation_psort _)). apply NoDup_fold_out_step. constructor.
  - apply psort_sorted.
Qed.

(* ================================================================================== *)
(* 10. The pool defect, and non-vacuity                                                *)
(* ================================================================================== *)
Definition pool_lit : lit :=
  Lit NoSign (ASym (TPool [TFun "p" [TSym (SNum 1)] false; TFun "p" [TSym (SNum 2)] false])).
Definition pool_rule : stmt :=
  SRule 1 (HLit (Lit NoSign (ASym (TFun "a" [] false)))) [BLit pool_lit].

(* a :- p(1;2).   p/1 is an input predicate of this program, but is not reported *)
Theorem pool_refuted_ex_proof :
  lit_has_pool ("p", 1) pool_lit /\ ~ occurs ("p", 1) pool_rule /\ auto_detect_input [pool_rule] = [].
Proof.
  split; [|split].
  - unfold pool_lit. eapply LHP_pool; [left; reflexivity | reflexivity].
  - intros H. apply predicates_complete_proof in H. vm_compute in H. destruct H as [H|[]]. discriminate H.
  - vm_compute. reflexivity.
Qed.

(* { a(X) : d(X) } :- #count { Y : q(Y) } > 0.   #show a/1.   #show b : a(X).
   Note the computed input list: d/1 is reported twice, once by the sorted first part and once by the
   second part (it occurs in no body and in no derivable head position, so both index sets are empty
   and hence equal) -- the returned list is not duplicate-free. *)
Definition nv_rule : stmt :=
  SRule 1
    (HAgg None [(Lit NoSign (ASym (TFun "a" [TVar "X"] false)),
                 [Lit NoSign (ASym (TFun "d" [TVar "X"] false))])] None)
    [BLit (Lit NoSign (ABodyAgg None FCount
             [([TVar "Y"], [Lit NoSign (ASym (TFun "q" [TVar "Y"] false))])]
             (Some (CGt, TSym (SNum 0)))))].
Definition nv_prog : list stmt :=
  [nv_rule; SShowSig "a" 1 true;
   SShowTerm (TFun "b" [] false) [BLit (Lit NoSign (ASym (TFun "a" [TVar "X"] false)))]].

Theorem input_lower_nonvacuous_proof :
  Forall wf_heads nv_prog /\
  (exists s, In s nv_prog /\ occurs ("q", 1) s) /\
  (forall s, In s nv_prog -> ~ pos_head_atom ("q", 1) s) /\
  auto_detect_input nv_prog = [("d", 1); ("q", 1); ("d", 1)] /\
  auto_detect_output nv_prog = [("a", 1)].
Proof.
  split; [|split; [|split; [|split]]].
  - unfold nv_prog, nv_rule. repeat constructor.
  - exists nv_rule. split; [left; reflexivity|].
    unfold nv_rule. simpl. right. eexists. split; [left; reflexivity|]. simpl.
    eapply LH_bagg; [left; reflexivity | left; reflexivity |]. apply LH_self. reflexivity.
  - intros s Hs. unfold nv_prog in Hs. simpl in Hs.
    destruct Hs as [Hs|[Hs|[Hs|[]]]]; subst s; simpl; try tauto.
    intros [e [[He|[]] [n [args [ex [E1 E2]]]]]]. subst e. simpl in E1.
    inversion E1; subst. discriminate E2.
  - vm_compute. reflexivity.
  - vm_compute. reflexivity.
Qed.
